// The command-line program itself (src/main.rs): option handling, the data definition file, `-c`, `--format`, several
// input files in command-line order, `FROM t::'file'`, `--stdin`, `--follow --head`. The binary built from /repo's
// working tree (`VERIF_SQLGREP_BIN`, built by ./check) is run as a child process on real files; what it prints must
// be what the library prints for the same definitions, statement and files (FileExecutor with a capturing printer) —
// the library side is what the Lean model is tied to. Oracle only; when the binary is not available the stream is
// skipped (counted), never an alarm.
use std::fs::File;
use std::io::{Read, Write};
use std::path::PathBuf;
use std::process::{Command, Stdio};
use std::sync::atomic::AtomicBool;
use std::sync::Arc;
use std::time::{Duration, Instant};

use sqlgrep::execution::execution_engine::ExecutionEngine;
use sqlgrep::executor::{DisplayOptions, FileExecutor, OutputFormat};

use crate::c04::{gen_input, join_lines};
use crate::engine_run::{exec_err_kind, prepare};
use crate::queries::*;
use crate::run::Run;
use crate::runq::{tmp_file, CapturePrinter};
use crate::util::{catch, Caught, Rng};

pub fn bin_path() -> Option<PathBuf> {
    let p = PathBuf::from(std::env::var("VERIF_SQLGREP_BIN").ok()?);
    if p.exists() { Some(p) } else { None }
}

pub struct CliOut {
    pub code: Option<i32>,
    /// the signal that ended the program, if one did
    pub signal: Option<i32>,
    pub stdout: String,
    pub stderr: String,
    pub timed_out: bool,
}

/// what the program may never write, whatever it was asked: the trace of a panic or of an overflowed stack
pub fn stderr_trouble(stderr: &str) -> Option<&'static str> {
    if stderr.contains("panicked") { Some("panicked") } else if stderr.contains("overflowed") { Some("overflowed") } else { None }
}

/// run the binary; `stdin_bytes` is fed to its standard input; killed after `limit`
pub fn run_cli(bin: &PathBuf, args: &[String], stdin_bytes: Option<&[u8]>, limit: Duration) -> CliOut {
    use std::os::unix::process::ExitStatusExt;
    let mut cmd = Command::new(bin);
    cmd.args(args).stdout(Stdio::piped()).stderr(Stdio::piped()).env("TZ", "UTC");
    cmd.stdin(if stdin_bytes.is_some() { Stdio::piped() } else { Stdio::null() });
    let mut child = match cmd.spawn() {
        Ok(c) => c,
        Err(_) => return CliOut { code: None, signal: None, stdout: String::new(), stderr: String::new(), timed_out: true },
    };
    let mut so = child.stdout.take().unwrap();
    let reader = std::thread::spawn(move || { let mut buf = Vec::new(); let _ = so.read_to_end(&mut buf); buf });
    let mut se = child.stderr.take().unwrap();
    let err_reader = std::thread::spawn(move || { let mut buf = Vec::new(); let _ = se.read_to_end(&mut buf); buf });
    if let Some(bytes) = stdin_bytes {
        if let Some(mut si) = child.stdin.take() {
            let _ = si.write_all(bytes);
        }
    }
    let start = Instant::now();
    let mut timed_out = false;
    let status = loop {
        match child.try_wait() {
            Ok(Some(st)) => break Some(st),
            Ok(None) => {
                if start.elapsed() > limit { let _ = child.kill(); let _ = child.wait(); timed_out = true; break None; }
                std::thread::sleep(Duration::from_millis(5));
            }
            Err(_) => break None,
        }
    };
    let out = reader.join().unwrap_or_default();
    let err = err_reader.join().unwrap_or_default();
    CliOut { code: status.and_then(|s| s.code()), signal: status.and_then(|s| s.signal()), stdout: String::from_utf8_lossy(&out).to_string(), stderr: String::from_utf8_lossy(&err).to_string(), timed_out }
}

fn format_name(f: &OutputFormat) -> &'static str {
    match f { OutputFormat::Text => "text", OutputFormat::Json => "json", OutputFormat::CSV(_) => "csv" }
}

/// what the library prints for a batch run with the options the command line uses for `-c` (single_result)
fn library_run(defs: &str, query: &str, files: &[PathBuf], format: OutputFormat) -> Option<(String, Vec<String>)> {
    let p = prepare(defs, query).ok()?;
    let mut printed = Vec::new();
    let r = catch(|| -> Result<(), String> {
        let fs: Vec<File> = files.iter().map(|p| File::open(p).map_err(|_| "err:FailOpenFile".to_owned())).collect::<Result<_, _>>()?;
        let display = DisplayOptions { output_format: format.clone(), single_result: true, print_result: true };
        let engine = ExecutionEngine::new(&p.tables, &p.statement);
        let mut ex = FileExecutor::with_output_printer(Arc::new(AtomicBool::new(true)), fs, display, CapturePrinter::new(), engine).map_err(|_| "err:Io".to_owned())?;
        let r = ex.execute();
        printed = ex.output_printer().printer().lines.clone();
        r.map_err(|e| format!("err:{}", exec_err_kind(&e)))
    });
    match r {
        Caught::Done(Ok(())) => Some(("ok".to_owned(), printed)),
        Caught::Done(Err(e)) => Some((e, printed)),
        Caught::Panic(_) => Some(("panic".to_owned(), printed)),
    }
}

/// batch runs of the program: stdout of the binary = lines the library prints
pub fn batch_stream(run: &mut Run, rng: &mut Rng, n: usize) {
    let bin = match bin_path() { Some(b) => b, None => { run.count("cli:binary-not-available"); run.notes.push("command-line stream skipped: the sqlgrep binary was not available".to_owned()); return; } };
    let opts = QueryOpts { allow_limit: true, allow_distinct: true, allow_join: false, aggregate: None };
    for i in 0..n {
        let sch = gen_schema(rng);
        let gq = gen_query(rng, &sch, &opts, "");
        if prepare(&sch.defs, &gq.text).is_err() { continue; }
        let defs_path = tmp_file(sch.defs.as_bytes());
        let nfiles = *rng.pick(&[1usize, 1, 2, 3, 4]);
        let nl = rng.below(14);
        let lines = gen_input(rng, nl, 15, false);
        let mut cuts: Vec<usize> = (0..nfiles - 1).map(|_| rng.below(lines.len() + 1)).collect();
        cuts.sort();
        let mut paths = Vec::new();
        let mut last = 0;
        for c in cuts.iter().chain(std::iter::once(&lines.len())) {
            let mut bytes = join_lines(&lines[last..*c]);
            // one file in twelve holds a line that is not valid UTF-8 with well-formed lines after it (also through --stdin): the
            // program prints what the library prints and then reports the error — it does not crash
            if rng.chance(1, 12) { bytes.extend_from_slice(b"\xff\xfe;1;2;0.5;x;\nlater;1;2;0.5;x;\n"); }
            if rng.chance(1, 5) && !bytes.is_empty() { bytes.pop(); } // no final newline
            paths.push(tmp_file(&bytes));
            last = *c;
        }
        let format = match i % 3 { 0 => OutputFormat::Text, 1 => OutputFormat::Json, _ => OutputFormat::CSV(";".to_owned()) };
        let mode = rng.below(8);
        // standard input carries an undecodable line every other time (the rows before it are printed, then the error is reported)
        if mode == 1 && rng.chance(1, 2) {
            if let Ok(mut b) = std::fs::read(&paths[0]) { b.extend_from_slice(b"\xff\xfe;1;2;0.5;x;\nlater;1;2;0.5;x;\n"); let _ = std::fs::write(&paths[0], &b); }
        }
        // how the input reaches the program: file arguments, `FROM t::'file'` (one file), or --stdin (one file)
        let (query, mut args, stdin_bytes, used): (String, Vec<String>, Option<Vec<u8>>, Vec<PathBuf>) = if mode == 0 {
            // the file name inside the string literal is taken verbatim (C20): commas, blanks at either end, `--`, `;`, keywords
            // and non-ASCII letters are part of the name, not syntax (no quote or backslash: those are the literal's own escapes)
            let from_path = if rng.chance(1, 2) {
                let name = *rng.pick(&["a,b.log", " lead.log", "trail.log ", "x --y.log", "semi;colon.log", "SELECT FROM.log", "caf\u{e9} \u{4e2d}.log", "a, b ,c.log", "two  blanks.log"]);
                let awkward = paths[0].with_file_name(format!("n{}-{}", i, name));
                if std::fs::copy(&paths[0], &awkward).is_ok() { paths.push(awkward.clone()); awkward } else { paths[0].clone() }
            } else { paths[0].clone() };
            let q = gq.text.replacen("FROM t", &format!("FROM t::'{}'", from_path.display()), 1);
            (q, Vec::new(), None, vec![from_path])
        } else if mode == 1 {
            (gq.text.clone(), vec!["--stdin".to_owned()], Some(std::fs::read(&paths[0]).unwrap_or_default()), vec![paths[0].clone()])
        } else {
            // one run in five names a file twice on the command line: it is two inputs (read twice, in the order given)
            let mut given = paths.clone();
            if rng.chance(1, 5) { let again = given[rng.below(given.len())].clone(); given.push(again); }
            (gq.text.clone(), given.iter().map(|p| p.display().to_string()).collect(), None, given)
        };
        let lib = match library_run(&sch.defs, &query, &used, format.clone()) { Some(l) => l, None => continue };
        args.push("-d".to_owned()); args.push(defs_path.display().to_string());
        args.push("-c".to_owned()); args.push(query.clone());
        if i % 3 != 0 || rng.chance(1, 2) { args.push("--format".to_owned()); args.push(format_name(&format).to_owned()); }
        let out = run_cli(&bin, &args, stdin_bytes.as_deref(), Duration::from_secs(30));
        run.oracle_checks += 1;
        run.count(&format!("cli:{}:{}:{}", format_name(&format), match mode { 0 => "from-file", 1 => "stdin", _ => "args" }, lib.0.split(':').next().unwrap_or("")));
        let desc = format!("sqlgrep {} (files hold {:?} split after {:?})", args.join(" "), lines, cuts);
        if out.timed_out {
            run.fail(desc, "cli-hang", "the program did not finish within 30 s".to_owned());
        } else {
            let got: Vec<&str> = out.stdout.split('\n').collect();
            let got: Vec<&str> = if got.last() == Some(&"") { got[..got.len() - 1].to_vec() } else { got };
            let ok = if lib.0 == "ok" {
                got.len() == lib.1.len() && got.iter().zip(lib.1.iter()).all(|(a, b)| a == b)
            } else {
                // the program prints what was printed before the error, then one line reporting it
                got.len() == lib.1.len() + 1 && got.iter().zip(lib.1.iter()).all(|(a, b)| a == b) && got.last().map(|l| l.starts_with("Execution error")).unwrap_or(false)
            };
            if !ok {
                run.fail(desc, "cli-output-differs-from-library", format!("the program printed {:?}; the library run ({}) prints {:?}", got, lib.0, lib.1));
            }
        }
        for p in paths { let _ = std::fs::remove_file(p); }
        let _ = std::fs::remove_file(defs_path);
    }
    run.notes.push("command-line stream: the sqlgrep binary built from /repo is run on real files (-d, -c, --format, 1-4 input files, FROM t::'file', --stdin); its stdout must equal the library's printed lines".to_owned());
}

/// another layout of the same statement: blanks outside string literals become other gaps (line breaks, tabs, comments),
/// keywords and function names change letter case; identifiers and literals are left as they are
fn relayout_keywords(rng: &mut Rng, text: &str) -> String {
    const WORDS: &[&str] = &["SELECT", "FROM", "WHERE", "GROUP", "BY", "HAVING", "AND", "IN", "LIMIT", "COUNT"];
    let mut out = String::new();
    let mut in_str = false;
    let mut esc = false;
    let mut word = String::new();
    let flush = |word: &mut String, out: &mut String, rng: &mut Rng| {
        if WORDS.contains(&word.as_str()) {
            match rng.below(3) { 0 => out.push_str(&word.to_lowercase()), 1 => out.push_str(word), _ => { for (i, c) in word.chars().enumerate() { if i % 2 == 0 { out.extend(c.to_lowercase()); } else { out.push(c); } } } }
        } else { out.push_str(word); }
        word.clear();
    };
    for c in text.chars() {
        if in_str { out.push(c); if esc { esc = false; } else if c == '\\' { esc = true; } else if c == '\'' { in_str = false; } continue; }
        if c.is_alphanumeric() || c == '_' { word.push(c); continue; }
        flush(&mut word, &mut out, rng);
        if c == '\'' { in_str = true; out.push(c); }
        else if c == ' ' { out.push_str(*rng.pick(&[" ", "\n", "  \t", " -- note; here\n", "\r\n", " --\n", "\n  "])); }
        else { out.push(c); }
    }
    flush(&mut word, &mut out, rng);
    out
}

/// C20 through the program: statements whose text contains `;` and `--` inside string literals, `--` comments that contain
/// `;` and quotes, an optional trailing semicolon, and re-laid variants (case of keywords, line breaks, comments between
/// tokens), given with `-c` or `--command-file`. The program must print what the library prints for the same text — and
/// every variant of one statement must print the same.
pub fn layout_stream(run: &mut Run, rng: &mut Rng, n: usize) {
    let bin = match bin_path() { Some(b) => b, None => { run.count("cli:binary-not-available"); run.notes.push("command-line layout stream skipped: the sqlgrep binary was not available".to_owned()); return; } };
    const DEF: &str = "CREATE TABLE t(line = '^([a-z;-]+) ([0-9]+)$', line[1] => k TEXT, line[2] => v INT);";
    const DATA: &[u8] = b"a;b 1\na 2\nx--y 3\nb 4\n; 5\na;b;c 6\n";
    const BASES: &[&str] = &[
        "SELECT k, v FROM t WHERE k = 'a;b'",
        "SELECT k FROM t WHERE k != 'a;b;c'",
        "SELECT v FROM t WHERE k = 'x--y'",
        "SELECT COUNT(*) FROM t WHERE k != ';'",
        "SELECT k, COUNT(*) FROM t GROUP BY k HAVING COUNT(*) > 0",
        "SELECT v FROM t WHERE v > 1 AND k != '--'",
        "SELECT k FROM t WHERE k IN ('a;b', ';', 'x--y') LIMIT 2",
        "SELECT input FROM t WHERE v >= 3",
        // a literal that ends in an escaped backslash, followed by a literal containing `--` (and, in the variants, by comments)
        "SELECT k FROM t WHERE k != 'C:\\\\' AND k != 'a--b' AND v > 1",
        "SELECT v FROM t WHERE k != '\\\\' AND k = 'x--y'",
        "SELECT k FROM t WHERE k != 'it\\'s' AND k != '--'",
    ];
    const TAILS: &[&str] = &["", ";", " ;", " -- done; really", " -- it's ; fine\n", ";\n-- trailing; comment", "\n"];
    let defs_path = tmp_file(DEF.as_bytes());
    let data_path = tmp_file(DATA);
    // the same data under a name that looks like syntax: inside `FROM t::'…'` it is taken verbatim (commas, blanks, `--`, `;`)
    let awkward_path = data_path.with_file_name(format!("lay{}, out --x;y WHERE.log ", std::process::id()));
    let have_awkward = std::fs::write(&awkward_path, DATA).is_ok();
    for _ in 0..n {
        let base_owned = if have_awkward && rng.chance(1, 4) { (*rng.pick(BASES)).replacen(" FROM t", &format!(" FROM t::'{}'", awkward_path.display()), 1) } else { (*rng.pick(BASES)).to_owned() };
        let base = base_owned.as_str();
        let mut outputs: Vec<(String, Vec<String>)> = Vec::new();
        for variant in 0..3 {
            let mut text = if variant == 0 { base.to_owned() } else { relayout_keywords(rng, base) };
            if variant == 2 { text = text.replacen(" FROM t", " -- which; table?\n FROM t", 1); }
            text.push_str(*rng.pick(TAILS));
            let lib = match library_run(DEF, &text, &[data_path.clone()], OutputFormat::Text) {
                Some(l) => l,
                None => { run.fail(format!("statement {:?}", text), "cli-layout-variant-rejected", format!("the library does not accept this layout of `{}`", base)); continue; }
            };
            let via_file = rng.chance(1, 3);
            let cmd_path = if via_file { Some(tmp_file(text.as_bytes())) } else { None };
            let mut args = vec![data_path.display().to_string(), "-d".to_owned(), defs_path.display().to_string()];
            match &cmd_path { Some(p) => { args.push("--command-file".to_owned()); args.push(p.display().to_string()); } None => { args.push("-c".to_owned()); args.push(text.clone()); } }
            let out = run_cli(&bin, &args, None, Duration::from_secs(30));
            if let Some(p) = cmd_path { let _ = std::fs::remove_file(p); }
            run.oracle_checks += 1;
            run.count(&format!("cli:layout:{}:{}", if via_file { "command-file" } else { "c" }, lib.0.split(':').next().unwrap_or("")));
            let got: Vec<String> = out.stdout.split('\n').map(|l| l.to_owned()).collect();
            let got: Vec<String> = if got.last().map(|l| l.is_empty()).unwrap_or(false) { got[..got.len() - 1].to_vec() } else { got };
            let desc = format!("sqlgrep {} (statement text {:?})", args.join(" "), text);
            if out.timed_out { run.fail(desc, "cli-hang", "the program did not finish within 30 s".to_owned()); continue; }
            if lib.0 != "ok" { run.count("cli:layout:library-error"); continue; }
            if got != lib.1 {
                run.fail(desc, "cli-output-differs-from-library", format!("the program printed {:?}; the library run ({}) prints {:?}", got, lib.0, lib.1));
                continue;
            }
            outputs.push((text, got));
        }
        for w in outputs.windows(2) {
            if w[0].1 != w[1].1 {
                run.fail(format!("{:?} vs {:?}", w[0].0, w[1].0), "cli-layouts-print-differently", format!("{:?} vs {:?}", w[0].1, w[1].1));
            }
        }
    }
    let _ = std::fs::remove_file(defs_path);
    let _ = std::fs::remove_file(data_path);
    let _ = std::fs::remove_file(awkward_path);
    run.notes.push("command-line layout stream: statements with `;` and `--` inside string literals, comments containing `;` and quotes, trailing semicolons and re-laid variants given to the real program with -c / --command-file; stdout = the library's lines, equal across the variants".to_owned());
}

/// C19 through the program: `sqlgrep --follow --head` on a file that does not grow, interrupted (SIGINT) while it waits
/// for the next line. The program must stop — promptly: it is given ten seconds — without reporting an error: exit status
/// 0 (what the unchanged program returns after an interrupt in every mode), nothing about a panic or an overflowed stack
/// on standard error, no `Execution error` on either stream. What it printed must be exactly the complete lines present (a
/// prefix of what an uninterrupted run would print); for an aggregate statement the LAST SCREEN must be the table the
/// same program prints in a batch run over a prefix of the complete lines — at least as many lines as screens had been
/// seen before the signal, at most the lines present ("the table for exactly the lines consumed"). The interrupt is sent
/// only after the expected output has arrived (or 3 s), so a loaded machine delays the test instead of failing it. A
/// program that was KILLED by the signal although its output had been seen (so the handler, installed before the query
/// starts, was certainly in place) fails; killed with nothing seen yet — the signal may have arrived before the handler
/// was installed — is inconclusive: the scenario is repeated with a longer wait, and counted as inconclusive (neither a
/// pass nor a failure) if that keeps happening.
pub fn interrupt_stream(run: &mut Run, rng: &mut Rng, n: usize) {
    use std::os::unix::process::ExitStatusExt;
    let bin = match bin_path() { Some(b) => b, None => { run.count("cli:binary-not-available"); return; } };
    const DEF: &str = "CREATE TABLE t(line = '(.*)', line[1] => x TEXT);";
    const AGG_QUERIES: &[&str] = &["SELECT COUNT(*) AS n FROM t", "SELECT MIN(x) AS a, MAX(x) AS b, COUNT(*) AS n FROM t", "SELECT COUNT(DISTINCT x) AS d, COUNT(*) AS n FROM t"];
    for _ in 0..n {
        let defs_path = tmp_file(DEF.as_bytes());
        let k = rng.below(4);
        let mut content = String::new();
        let mut expected = Vec::new();
        let mut raw_lines: Vec<String> = Vec::new();
        for j in 0..k { let l = format!("line {} {}", j, rng.pick(&["a", "xyz", "\u{e9}"])); content.push_str(&l); content.push('\n'); expected.push(format!("'{}'", l)); raw_lines.push(l); }
        if rng.chance(1, 2) { content.push_str("unterminated"); }
        let path = tmp_file(content.as_bytes());
        let aggregate = rng.chance(1, 3);
        let query = if aggregate { *rng.pick(AGG_QUERIES) } else { "SELECT input FROM t" };
        let args = vec![path.display().to_string(), "-d".to_owned(), defs_path.display().to_string(), "-c".to_owned(), query.to_owned(), "--follow".to_owned(), "--head".to_owned()];
        let desc = format!("sqlgrep {} (file holds {:?}), SIGINT while waiting for more input", args.join(" "), content);
        run.oracle_checks += 1;
        let mut conclusive = false;
        for attempt in 0..3 {
            let mut cmd = Command::new(&bin);
            cmd.args(&args).stdout(Stdio::piped()).stderr(Stdio::piped()).stdin(Stdio::null()).env("TZ", "UTC");
            let mut child = match cmd.spawn() { Ok(c) => c, Err(_) => { run.count("cli:spawn-failed"); break; } };
            let mut so = child.stdout.take().unwrap();
            let collected = Arc::new(std::sync::Mutex::new(Vec::<u8>::new()));
            let c2 = collected.clone();
            let reader = std::thread::spawn(move || { let mut buf = [0u8; 4096]; loop { match so.read(&mut buf) { Ok(0) | Err(_) => break, Ok(m) => c2.lock().unwrap().extend_from_slice(&buf[..m]) } } });
            let mut se = child.stderr.take().unwrap();
            let err_reader = std::thread::spawn(move || { let mut buf = Vec::new(); let _ = se.read_to_end(&mut buf); buf });
            // wait until the lines present have been printed (non-aggregate) or the last refresh arrived, at most 3 s
            let want_lines = if aggregate { if k == 0 { 0 } else { 1 } } else { k };
            let start = Instant::now();
            let mut seen_screens = 0usize;   // aggregate: refreshes that showed a table before the signal
            let mut seen_lines = 0usize;     // select: lines printed before the signal
            loop {
                let text = String::from_utf8_lossy(&collected.lock().unwrap()).to_string();
                let screens = crate::util::split_screens(&text);
                let have = screens.last().map(|s| s.split('\n').filter(|l| !l.is_empty()).count()).unwrap_or(0);
                // a screen counts once it is complete (the next erase arrived, or it is the last and ends with a line break)
                seen_screens = screens.iter().skip(1).filter(|s| s.ends_with('\n')).count();
                seen_lines = text.matches('\n').count();
                let done = if aggregate { k == 0 || (screens.len() > k && have >= 1 && seen_screens >= k) } else { have >= want_lines };
                if done || start.elapsed() > Duration::from_secs(3) { break; }
                std::thread::sleep(Duration::from_millis(10));
            }
            // nothing can be observed when nothing is to be printed: give the program time to install its handler
            let idle_wait = [50u64, 400, 1500][attempt];
            std::thread::sleep(Duration::from_millis(idle_wait));
            unsafe { libc::kill(child.id() as i32, libc::SIGINT); }
            let t0 = Instant::now();
            let mut exited = None;
            while t0.elapsed() < Duration::from_secs(10) {
                match child.try_wait() { Ok(Some(st)) => { exited = Some(st); break; } _ => std::thread::sleep(Duration::from_millis(10)) }
            }
            let st = match exited {
                None => {
                    let _ = child.kill(); let _ = child.wait();
                    let _ = reader.join(); let _ = err_reader.join();
                    run.fail(desc.clone(), "cli-follow-interrupt-ignored-while-idle", "ten seconds after the interrupt the program is still running".to_owned());
                    conclusive = true;
                    break;
                }
                Some(st) => st,
            };
            let _ = reader.join();
            let stderr = String::from_utf8_lossy(&err_reader.join().unwrap_or_default()).to_string();
            let text = String::from_utf8_lossy(&collected.lock().unwrap()).to_string();
            let seen_anything = if aggregate { seen_screens > 0 } else { seen_lines > 0 };
            if st.signal() == Some(libc::SIGINT) && !seen_anything && stderr.is_empty() {
                // the signal's default action ended the program and nothing had been printed: it may have arrived before the
                // handler was installed (start-up under load) — not an observation of the property either way
                run.count("cli:interrupt:follow-retry-killed-before-output");
                continue;
            }
            conclusive = true;
            run.count(if aggregate { "cli:interrupt:follow-agg" } else { "cli:interrupt:follow-select" });
            if let Some(word) = stderr_trouble(&stderr) {
                run.fail(desc.clone(), "cli-follow-interrupt-stderr", format!("standard error says `{}`: {:?} (exit {:?}, signal {:?})", word, stderr.chars().take(600).collect::<String>(), st.code(), st.signal()));
                break;
            }
            if st.code() != Some(0) {
                run.fail(desc.clone(), "cli-follow-interrupt-exit-status", format!("after the interrupt the program ended with exit {:?} / signal {:?} (an interrupted query ends with status 0: no error is reported); standard error {:?}; {} seen before the signal", st.code(), st.signal(), stderr.chars().take(300).collect::<String>(), if aggregate { format!("{} refreshed tables", seen_screens) } else { format!("{} lines", seen_lines) }));
                break;
            }
            if text.contains("Execution error") || stderr.contains("Execution error") {
                run.fail(desc.clone(), "cli-follow-interrupt-output", format!("an error was reported: stdout {:?} stderr {:?}", text, stderr));
                break;
            }
            if !aggregate {
                let got: Vec<&str> = text.split('\n').filter(|l| !l.is_empty()).collect();
                let is_prefix = got.len() <= expected.len() && got.iter().zip(expected.iter()).all(|(a, b)| a == b);
                if !is_prefix {
                    run.fail(desc.clone(), "cli-follow-interrupt-output", format!("printed {:?} (exit {:?}); the complete lines are {:?}", got, st.code(), expected));
                }
            } else {
                // the last screen = the batch output of the same program over j complete lines, seen_screens <= j <= k
                let screens = crate::util::split_screens(&text);
                let last = if screens.len() > 1 { screens.last().cloned().unwrap_or_default() } else { String::new() };
                let before_first = screens.first().cloned().unwrap_or_default();
                let mut matched = None;
                let mut refs: Vec<String> = Vec::new();
                for j in seen_screens.min(k)..=k {
                    let prefix_path = tmp_file(join_lines(&raw_lines[..j]).as_slice());
                    let bargs = vec![prefix_path.display().to_string(), "-d".to_owned(), defs_path.display().to_string(), "-c".to_owned(), query.to_owned()];
                    let b = run_cli(&bin, &bargs, None, Duration::from_secs(20));
                    let _ = std::fs::remove_file(prefix_path);
                    if b.stdout == last { matched = Some(j); break; }
                    refs.push(b.stdout);
                }
                run.count(&format!("cli:interrupt:follow-agg-table:{}", match matched { Some(j) if j == k => "all-lines", Some(0) => "no-line", Some(_) => "fewer-lines", None => "no-match" }));
                if matched.is_none() || !before_first.is_empty() {
                    run.fail(desc.clone(), "cli-follow-interrupt-aggregate-table", format!("the last screen is {:?} ({} refreshed tables had been seen before the signal, {:?} was printed before the first refresh); the batch run of the same program over {}..={} of the complete lines prints {:?}", last, seen_screens, before_first, seen_screens.min(k), k, refs));
                }
            }
            break;
        }
        if !conclusive { run.count("cli:interrupt:follow-inconclusive"); }
        let _ = std::fs::remove_file(path);
        let _ = std::fs::remove_file(defs_path);
    }
    run.notes.push("command-line interrupt stream: the real program in follow mode on an idle file is sent SIGINT; it must stop within ten seconds with exit status 0, nothing about a panic / overflow on standard error, no error reported, and have printed a prefix of the complete lines (aggregate: the last screen = the batch table of the same program over the lines whose refreshes were seen .. the lines present); killed by the signal before any output = inconclusive, repeated".to_owned());
}

/// A *batch* query reading standard input (`--stdin`, started with `-c` or `--command-file`) is interrupted while it waits
/// for more input: the lines written so far have been read (the pipe is observed to be empty), SIGINT is sent, then two
/// further lines are written and the input is closed. C19's last clause: the program must end without reporting an error
/// and what it prints is the output of the query over exactly the lines consumed before the interrupt — judged against the
/// same program run over those lines alone with the input closed at once. (The waiting `read` itself does not return on the
/// interrupt — the program notices the flag when the next line or the end of input arrives; that is why more input is
/// supplied. Output that corresponds to *fewer* of the lines than were written means the interrupt overtook the reading
/// under machine load: the scenario is repeated once with longer waits before it counts.) "No error is reported" is also
/// judged on the exit status — 0, what the unchanged program returns after an interrupt — and on standard error, which
/// must not speak of a panic or an overflowed stack; the pipe having been drained shows that the query was reading, so the
/// handler (installed before the query starts) was in place: a program killed by the signal then has failed.
pub fn batch_interrupt_stream(run: &mut Run, rng: &mut Rng, n: usize) {
    let bin = match bin_path() { Some(b) => b, None => { run.count("cli:binary-not-available"); return; } };
    const DEF: &str = "CREATE TABLE t(line = 'k=([a-z]+) v=(-?[0-9]+)', line[1] => k TEXT, line[2] => v INT);";
    const QUERIES: &[&str] = &[
        "SELECT k, COUNT(*) AS n, SUM(v) AS s FROM t GROUP BY k",
        "SELECT COUNT(*) AS n FROM t",
        "SELECT MAX(v) AS m, MIN(v) AS l FROM t",
        "SELECT k, ARRAY_AGG(v) AS vs FROM t GROUP BY k HAVING COUNT(*) >= 1",
        "SELECT k, v FROM t",
        "SELECT DISTINCT k FROM t",
    ];
    fn pipe_pending(fd: i32) -> i32 { let mut n: libc::c_int = 0; unsafe { libc::ioctl(fd, libc::FIONREAD, &mut n); } n }
    for _ in 0..n {
        let defs_path = tmp_file(DEF.as_bytes());
        let k = 1 + rng.below(4);
        let mut lines: Vec<String> = Vec::new();
        for _ in 0..k { lines.push(format!("k={} v={}", rng.pick(&["a", "b", "c"]), rng.range(-9, 40))); }
        let query = *rng.pick(QUERIES);
        let by_file = rng.chance(1, 3);
        let query_path = tmp_file(query.as_bytes());
        let mut args = vec!["-d".to_owned(), defs_path.display().to_string(), "--stdin".to_owned()];
        if by_file { args.push("--command-file".to_owned()); args.push(query_path.display().to_string()); } else { args.push("-c".to_owned()); args.push(query.to_owned()); }
        // reference: the same program over prefixes of the lines, input closed at once
        let reference = |j: usize| -> String {
            let mut text = lines[..j].join("\n"); if j > 0 { text.push('\n'); }
            run_cli(&bin, &args, Some(text.as_bytes()), Duration::from_secs(20)).stdout
        };
        let mut verdict: Option<(String, String)> = None; // (class, what)
        for attempt in 0..2 {
            let (settle, after) = if attempt == 0 { (300u64, 200u64) } else { (2000, 700) };
            let mut cmd = Command::new(&bin);
            cmd.args(&args).stdout(Stdio::piped()).stderr(Stdio::piped()).stdin(Stdio::piped()).env("TZ", "UTC");
            let mut child = match cmd.spawn() { Ok(c) => c, Err(_) => { run.count("cli:spawn-failed"); break; } };
            let mut si = child.stdin.take().unwrap();
            let mut so = child.stdout.take().unwrap();
            let reader = std::thread::spawn(move || { let mut buf = Vec::new(); let _ = so.read_to_end(&mut buf); buf });
            let mut se = child.stderr.take().unwrap();
            let err_reader = std::thread::spawn(move || { let mut buf = Vec::new(); let _ = se.read_to_end(&mut buf); buf });
            let mut text = lines.join("\n"); text.push('\n');
            let _ = si.write_all(text.as_bytes()); let _ = si.flush();
            use std::os::unix::io::AsRawFd;
            let fd = si.as_raw_fd();
            let t0 = Instant::now();
            while pipe_pending(fd) > 0 && t0.elapsed() < Duration::from_secs(10) { std::thread::sleep(Duration::from_millis(5)); }
            let drained = pipe_pending(fd) == 0;
            std::thread::sleep(Duration::from_millis(settle));
            unsafe { libc::kill(child.id() as i32, libc::SIGINT); }
            std::thread::sleep(Duration::from_millis(after));
            let _ = si.write_all(b"k=zz v=1000\nk=zy v=-1000\n"); let _ = si.flush();
            drop(si);
            let t1 = Instant::now();
            let mut exited = None;
            while t1.elapsed() < Duration::from_secs(10) {
                match child.try_wait() { Ok(Some(st)) => { exited = Some(st); break; } _ => std::thread::sleep(Duration::from_millis(10)) }
            }
            if exited.is_none() { let _ = child.kill(); let _ = child.wait(); }
            let out = String::from_utf8_lossy(&reader.join().unwrap_or_default()).to_string();
            let stderr = String::from_utf8_lossy(&err_reader.join().unwrap_or_default()).to_string();
            if let Some(word) = stderr_trouble(&stderr) {
                // whatever the timing was, this is never an answer
                verdict = Some(("cli-batch-interrupt-stderr".to_owned(), format!("standard error says `{}`: {:?} (exit {:?})", word, stderr.chars().take(600).collect::<String>(), exited)));
                break;
            }
            if !drained { run.count("cli:interrupt:batch-inconclusive-not-read"); verdict = None; continue; }
            let want = reference(k);
            if exited.is_none() {
                verdict = Some(("cli-batch-interrupt-ignored".to_owned(), "ten seconds after the interrupt and the end of the input the program is still running".to_owned()));
                break;
            }
            {
                use std::os::unix::process::ExitStatusExt;
                let st = exited.unwrap();
                if st.code() != Some(0) || stderr.contains("Execution error") {
                    verdict = Some(("cli-batch-interrupt-exit-status".to_owned(), format!("after the interrupt the program ended with exit {:?} / signal {:?} (an interrupted query ends with status 0: no error is reported); it printed {:?}; standard error {:?}", st.code(), st.signal(), out, stderr.chars().take(300).collect::<String>())));
                    break;
                }
            }
            if out == want && !out.contains("Execution error") { verdict = None; run.count("cli:interrupt:batch-ok"); break; }
            let fewer = (0..k).any(|j| reference(j) == out);
            if fewer && attempt == 0 { run.count("cli:interrupt:batch-retry"); verdict = None; continue; }
            verdict = Some(("cli-batch-interrupt-output".to_owned(), format!("printed {:?} (exit {:?}); the query over the {} lines consumed before the interrupt prints {:?}", out, exited.and_then(|s| s.code()), k, want)));
            break;
        }
        run.oracle_checks += 1;
        if let Some((class, what)) = verdict {
            run.fail(format!("sqlgrep {} with standard input {:?}, SIGINT once these lines are read, then two more lines and end of input", args.join(" "), lines), &class, what);
        }
        let _ = std::fs::remove_file(defs_path);
        let _ = std::fs::remove_file(query_path);
    }
    run.notes.push("command-line batch interrupt stream: the real program reading --stdin (-c / --command-file) is sent SIGINT after the written lines were read; it must end without an error — exit status 0, nothing about a panic / overflow on standard error — and print exactly what the same program prints over those lines alone".to_owned());
}

/// `sqlgrep --follow [--head]` on a file that does not grow: with --head the complete lines present are delivered
/// (the unterminated tail is not); without --head nothing is. The program never ends by itself, so it is given a
/// fixed time and then killed; only the *content* printed within that time is judged (too little output within the time
/// is counted as inconclusive, not as a failure — machine load must not raise an alarm).
pub fn follow_stream(run: &mut Run, rng: &mut Rng, n: usize) {
    let bin = match bin_path() { Some(b) => b, None => { run.count("cli:binary-not-available"); return; } };
    const DEF: &str = "CREATE TABLE t(line = '(.*)', line[1] => x TEXT);";
    for _ in 0..n {
        let defs_path = tmp_file(DEF.as_bytes());
        let k = rng.below(5);
        let mut content = String::new();
        let mut expected = Vec::new();
        for j in 0..k { let l = format!("line {} {}", j, rng.pick(&["a", "xyz", "\u{e9}"])); content.push_str(&l); content.push('\n'); expected.push(format!("'{}'", l)); }
        let tail = rng.chance(1, 2);
        if tail { content.push_str("unterminated"); }
        let path = tmp_file(content.as_bytes());
        let head = rng.chance(2, 3);
        let mut args = vec![path.display().to_string(), "-d".to_owned(), defs_path.display().to_string(), "-c".to_owned(), "SELECT input FROM t".to_owned(), "--follow".to_owned()];
        if head { args.push("--head".to_owned()); }
        let out = run_cli(&bin, &args, None, Duration::from_millis(700));
        run.oracle_checks += 1;
        let got: Vec<&str> = out.stdout.split('\n').filter(|l| !l.is_empty()).collect();
        let want: Vec<String> = if head { expected.clone() } else { Vec::new() };
        let desc = format!("sqlgrep {} (file holds {:?})", args.join(" "), content);
        let is_prefix = got.len() <= want.len() && got.iter().zip(want.iter()).all(|(a, b)| a == b);
        if !is_prefix {
            run.fail(desc, "cli-follow-delivers-wrong-lines", format!("printed {:?}; the complete lines {} are {:?}", got, if head { "of the file" } else { "appended after start-up (none)" }, want));
        } else if got.len() < want.len() {
            run.count("cli:follow-inconclusive");
        } else {
            run.count(if head { "cli:follow-head" } else { "cli:follow-tail" });
        }
        let _ = std::fs::remove_file(path);
        let _ = std::fs::remove_file(defs_path);
    }
}

/// Finding D75 on the real program (called by C09): an operator chain WITHOUT brackets (`1 + 1 + … + 1`, `x > 0 AND …`,
/// `- - - … 1`, `NOT NOT … true`, `x::int::int…`, `a[1][1]…`, …; `c14::long_chain`) given with `--command-file` (a single
/// argument is limited to 128 KiB), on the main thread of the program with the stack the machine gives it. Each size is
/// run twice: over an EMPTY file — no row is evaluated, so a death there happened while the statement was parsed, lowered
/// or dropped — and over the one line `5 7`. The safe size (200 terms) must print the documented record with exit status
/// 0; above it a death by stack overflow (SIGSEGV / SIGABRT and `has overflowed its stack` on standard error) is class
/// `D75:long-operator-chain-overflows-stack`, anything else that is not the documented answer an unknown failure. When
/// the run over the empty file ends normally and the run over the one line dies, an ACCEPTED statement aborted during
/// execution: C09 itself.
pub fn chain_stream(run: &mut Run, sizes: &[usize]) {
    let bin = match bin_path() { Some(b) => b, None => { run.count("cli:binary-not-available"); run.notes.push("operator chains through the real program: skipped, the sqlgrep binary was not available".to_owned()); return; } };
    const DEF: &str = "CREATE TABLE t(line = '(-?[0-9]+) (-?[0-9]+)', line[1] => x INT, line[1], line[2] => a INT[]);";
    let defs_path = tmp_file(DEF.as_bytes());
    let empty_path = tmp_file(b"");
    let line_path = tmp_file(b"5 7\n");
    let mut exec_deaths = 0;
    for kind in 0..crate::c14::CHAIN_KINDS {
        for &n in sizes {
            let (text, expected) = crate::c14::long_chain(kind, n);
            let (sample, _) = crate::c14::long_chain(kind, 3);
            let query_path = tmp_file(text.as_bytes());
            let mut outcomes: Vec<&'static str> = Vec::new();   // per run: "ok" | "overflow" | "other"
            for (which, data) in [("an empty file", &empty_path), ("the line `5 7`", &line_path)].iter() {
                let args = vec![data.display().to_string(), "-d".to_owned(), defs_path.display().to_string(), "--command-file".to_owned(), query_path.display().to_string()];
                let out = run_cli(&bin, &args, None, Duration::from_secs(120));
                run.oracle_checks += 1;
                let desc = format!("sqlgrep <file> -d <defs> --command-file <query>: query {} … ({} terms, no bracket; c14::long_chain({}, {})), definitions {}, over {}", sample, n, kind, n, DEF, which);
                let overflowed = matches!(out.signal, Some(libc::SIGSEGV) | Some(libc::SIGABRT)) && out.stderr.contains("has overflowed its stack");
                let got: Vec<&str> = out.stdout.split('\n').filter(|l| !l.is_empty()).collect();
                let documented = out.code == Some(0) && !out.timed_out && stderr_trouble(&out.stderr).is_none() && if *which == "an empty file" { got.is_empty() } else {
                    match &expected {
                        Some(rec) if rec.is_empty() => got.is_empty(),
                        Some(rec) => got.len() == 1 && got[0] == rec.as_str(),
                        None => got.len() == 1 && got[0].starts_with("Execution error"),
                    }
                };
                if documented {
                    outcomes.push("ok");
                } else if overflowed && n > crate::c14::CHAIN_SAFE {
                    outcomes.push("overflow");
                    run.fail(desc, "D75:long-operator-chain-overflows-stack", format!("the program died with signal {:?}: standard error ends {:?}", out.signal, out.stderr.lines().last().unwrap_or("")));
                } else {
                    outcomes.push("other");
                    run.fail(desc, if n <= crate::c14::CHAIN_SAFE { "operator-chain-of-safe-size-fails" } else { "operator-chain-fails-otherwise" }, format!("exit {:?} signal {:?} timed out {}; printed {:?}; standard error ends {:?}; documented: {}", out.code, out.signal, out.timed_out, got.iter().take(3).collect::<Vec<_>>(), out.stderr.lines().last().unwrap_or(""), match &expected { Some(r) if r.is_empty() || *which == "an empty file" => "no row, exit 0".to_owned(), Some(r) => format!("the record {:?}, exit 0", r), None => "an `Execution error` line (a subscript applied to an INT)".to_owned() }));
                }
            }
            if outcomes == ["ok", "overflow"] { exec_deaths += 1; }
            run.count(&format!("cli:chain:{}:{}:{}", crate::c14::chain_name(kind), if n <= crate::c14::CHAIN_SAFE { "safe".to_owned() } else { n.to_string() }, outcomes.join("+")));
            let _ = std::fs::remove_file(query_path);
        }
    }
    for p in [defs_path, empty_path, line_path] { let _ = std::fs::remove_file(p); }
    run.notes.push(format!("operator chains without brackets through the real program (main thread, --command-file): {} kinds x sizes {:?}, each over an empty file and over one line; {} (kind, size) pairs were ACCEPTED (the run over the empty file ended normally) and aborted during execution of the one line", crate::c14::CHAIN_KINDS, sizes, exec_deaths));
}
