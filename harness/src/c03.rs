// C03 (expression level): type-directed expression generator, correspondence with the Lean evaluator,
// and the documented meaning of each operator checked node by node on the implementation.
use std::cmp::Ordering;
use std::collections::BTreeSet;

use sqlgrep::model::*;

use crate::exprs::*;
use crate::gen::*;
use crate::run::{Params, Run};
use crate::util::{value_sexp, Rng};

pub(crate) fn bx(e: ExpressionTree) -> Box<ExpressionTree> { Box::new(e) }
pub(crate) fn lit(v: Value) -> ExpressionTree { ExpressionTree::Value(v) }
fn col(n: &str) -> ExpressionTree { ExpressionTree::ColumnAccess(n.to_owned()) }
pub(crate) fn call(f: Function, args: Vec<ExpressionTree>) -> ExpressionTree { ExpressionTree::FunctionCall { function: f, arguments: args } }

pub const SCHEMA: &[(&str, &str)] = &[
    ("i1", "int"), ("i2", "int"), ("f1", "real"), ("f2", "real"), ("b1", "bool"), ("s1", "text"), ("s2", "text"),
    ("ai", "int[]"), ("as", "text[]"), ("t1", "timestamp"), ("t2", "timestamp"), ("v1", "interval"),
];

fn ty(name: &str) -> ValueType {
    match name {
        "int" => ValueType::Int,
        "real" => ValueType::Float,
        "bool" => ValueType::Bool,
        "text" => ValueType::String,
        "timestamp" => ValueType::Timestamp,
        "interval" => ValueType::Interval,
        "int[]" => ValueType::Array(Box::new(ValueType::Int)),
        "text[]" => ValueType::Array(Box::new(ValueType::String)),
        _ => unreachable!(),
    }
}

pub const NUM_TEXTS: &[&str] = &["1", "-5", "+7", "1.5", "1e3", "inf", "nan", "9223372036854775807", "9223372036854775808", "x1", "", " 1", "true", "false", "TRUE",
    "2021-03-04 05:06:07", "2021-02-30 00:00:00", "1970-01-01 00:00:00", "2016-12-31 23:59:60", "2021-03-04 05:06:60", "2021-03-04 05:60:00", "01:02:03", "-1:00:30", "1:2", "a:b:c", "999999999999:0:0"];
// regex patterns: anchors, classes, groups, alternation, counted repetitions (also malformed ones), every single meta
// character on its own, and patterns that are plain substrings of the texts in the pool
pub const PATTERNS: &[&str] = &["^a", "b$", "[0-9]+", "(", "é", ".*", "a|b", "\\d{2}",
    "l{2}", "10{3,}", "a{1,2}b", "l{2", "{", "}", "a{2}", "0{2,3}", "x{0}", "{2}",
    "a", "ab", "lo w", "1", "00", "", "hello", ":0", "-0",
    ".", "+", "*", "?", ")", "|", "[", "]", "^", "$", "\\", "a.c", "a+", "b?", "a*b", "[ab]", "(a)(b)", "\\."];

pub fn gen_env(rng: &mut Rng) -> Vec<(String, Value)> {
    let mut env = Vec::new();
    for (n, t) in SCHEMA {
        let t = ty(t);
        let v = if t == ValueType::String && rng.chance(1, 3) {
            Value::String((*rng.pick(NUM_TEXTS)).to_owned())
        } else {
            gen_value_of(rng, &t, 12)
        };
        let v = match (&t, v) {
            // keep timestamps printable (years 1..9999) and free of leap seconds
            (ValueType::Timestamp, Value::Timestamp(ts)) => Value::Timestamp(ts),
            (_, v) => v,
        };
        env.push(((*n).to_owned(), v));
    }
    env
}

fn column_of(rng: &mut Rng, t: &ValueType) -> Option<ExpressionTree> {
    let names: Vec<&str> = SCHEMA.iter().filter(|(_, tn)| ty(tn) == *t).map(|(n, _)| *n).collect();
    if names.is_empty() { None } else { let i = rng.below(names.len()); Some(col(names[i])) }
}

fn literal_of(rng: &mut Rng, t: &ValueType) -> ExpressionTree {
    match t {
        ValueType::Timestamp | ValueType::Interval => {
            // no literal syntax: go through a cast of a text literal
            let s = if *t == ValueType::Timestamp { *rng.pick(&["2021-03-04 05:06:07", "1970-01-01 00:00:00", "2000-02-29 23:59:59", "2016-12-31 23:59:60", "2015-06-30 23:59:60"]) } else { *rng.pick(&["01:02:03", "0:0:1", "-1:00:30", "100:00:00"]) };
            ExpressionTree::TypeConversion { operand: bx(lit(Value::String(s.to_owned()))), convert_to_type: t.clone() }
        }
        ValueType::Array(e) => {
            let n = rng.below(3) + 1;
            call(Function::CreateArray, (0..n).map(|_| literal_of(rng, e)).collect())
        }
        ValueType::String if rng.chance(1, 3) => lit(Value::String((*rng.pick(NUM_TEXTS)).to_owned())),
        _ => lit(gen_value_of(rng, t, 0)),
    }
}

fn any_type(rng: &mut Rng) -> ValueType {
    match rng.below(9) {
        0 | 1 => ValueType::Int,
        2 => ValueType::Float,
        3 => ValueType::Bool,
        4 => ValueType::String,
        5 => ValueType::Timestamp,
        6 => ValueType::Interval,
        7 => ValueType::Array(Box::new(ValueType::Int)),
        _ => ValueType::Array(Box::new(ValueType::String)),
    }
}

fn cmp_op(rng: &mut Rng) -> CompareOperator {
    match rng.below(6) {
        0 => CompareOperator::Equal,
        1 => CompareOperator::NotEqual,
        2 => CompareOperator::GreaterThan,
        3 => CompareOperator::GreaterThanOrEqual,
        4 => CompareOperator::LessThan,
        _ => CompareOperator::LessThanOrEqual,
    }
}

fn arith_op(rng: &mut Rng) -> ArithmeticOperator {
    match rng.below(4) {
        0 => ArithmeticOperator::Add,
        1 => ArithmeticOperator::Subtract,
        2 => ArithmeticOperator::Multiply,
        _ => ArithmeticOperator::Divide,
    }
}

/// an expression meant to have type `t` (ill-typed with probability `chaos`/100)
pub fn gen_expr(rng: &mut Rng, depth: usize, t: &ValueType, chaos: u64) -> ExpressionTree {
    if rng.chance(chaos, 100) {
        let other = any_type(rng);
        return gen_expr(rng, depth, &other, 0);
    }
    if depth == 0 || rng.chance(1, 5) {
        if rng.chance(1, 14) { return lit(Value::Null); }
        if rng.chance(1, 2) {
            if let Some(c) = column_of(rng, t) { return c; }
        }
        return literal_of(rng, t);
    }
    let d = depth - 1;
    let int = ValueType::Int;
    let real = ValueType::Float;
    let boolean = ValueType::Bool;
    let text = ValueType::String;
    let tst = ValueType::Timestamp;
    let ivt = ValueType::Interval;
    match t {
        ValueType::Int => match rng.below(12) {
            0 | 1 | 2 => ExpressionTree::Arithmetic { operator: arith_op(rng), left: bx(gen_expr(rng, d, &int, chaos)), right: bx(gen_expr(rng, d, &int, chaos)) },
            3 => ExpressionTree::UnaryArithmetic { operator: UnaryArithmeticOperator::Negative, operand: bx(gen_expr(rng, d, &int, chaos)) },
            4 => call(Function::Abs, vec![gen_expr(rng, d, &int, chaos)]),
            5 => call(Function::StringLength, vec![gen_expr(rng, d, &text, chaos)]),
            6 => call(Function::ArrayLength, vec![gen_expr(rng, d, &ValueType::Array(Box::new(int.clone())), chaos)]),
            7 => {
                // exponents around every boundary of `checked_pow(y as u32)`: 0, 1, 62..65, u32::MAX and beyond (an exponent
                // that does not fit u32 must not be truncated), on the bases whose powers never overflow as well
                let y = if rng.chance(1, 3) { *rng.pick(&[0i64, 1, 2, 31, 32, 62, 63, 64, 65, 4294967294, 4294967295, 4294967296, 4294967297, 4294967298, 8589934594, i64::MAX, -1, i64::MIN]) } else { rng.range(-1, 70) };
                let x = if rng.chance(1, 2) { lit(Value::Int(*rng.pick(&[2i64, -1, 0, 1, 3, -2, 10, -3, 3037000499, i64::MAX, i64::MIN]))) } else { gen_expr(rng, d, &int, chaos) };
                call(Function::Pow, vec![x, lit(Value::Int(y))])
            }
            8 => ExpressionTree::ArrayElementAccess { array: bx(gen_expr(rng, d, &ValueType::Array(Box::new(int.clone())), chaos)), index: bx(if rng.chance(1, 2) { lit(Value::Int(rng.range(-1, 4))) } else { gen_expr(rng, d, &int, chaos) }) },
            9 => ExpressionTree::TypeConversion { operand: bx(gen_expr(rng, d, &text, chaos)), convert_to_type: int.clone() },
            10 => {
                let f = match rng.below(6) { 0 => Function::TimestampExtractYear, 1 => Function::TimestampExtractMonth, 2 => Function::TimestampExtractDay, 3 => Function::TimestampExtractHour, 4 => Function::TimestampExtractMinute, _ => Function::TimestampExtractSecond };
                call(f, vec![gen_expr(rng, d, &tst, chaos)])
            }
            _ => call(if rng.chance(1, 2) { Function::Greatest } else { Function::Least }, vec![gen_expr(rng, d, &int, chaos), gen_expr(rng, d, &int, chaos)]),
        },
        ValueType::Float => match rng.below(8) {
            0 | 1 | 2 => ExpressionTree::Arithmetic { operator: arith_op(rng), left: bx(gen_expr(rng, d, &real, chaos)), right: bx(gen_expr(rng, d, &real, chaos)) },
            3 => call(Function::Sqrt, vec![gen_expr(rng, d, &real, chaos)]),
            4 => ExpressionTree::TypeConversion { operand: bx(gen_expr(rng, d, &text, chaos)), convert_to_type: real.clone() },
            5 => call(Function::TimestampExtractEpoch, vec![gen_expr(rng, d, &tst, chaos)]),
            6 => call(if rng.chance(1, 2) { Function::Greatest } else { Function::Least }, vec![gen_expr(rng, d, &real, chaos), gen_expr(rng, d, &real, chaos)]),
            _ => ExpressionTree::UnaryArithmetic { operator: UnaryArithmeticOperator::Negative, operand: bx(gen_expr(rng, d, &real, chaos)) },
        },
        ValueType::Bool => match rng.below(12) {
            0 | 1 | 2 => {
                let ot = any_type(rng);
                // INT vs REAL mixes are part of the documented meaning
                let (lt, rt) = if rng.chance(1, 5) { (int.clone(), real.clone()) } else if rng.chance(1, 6) { (real.clone(), int.clone()) } else { (ot.clone(), ot) };
                ExpressionTree::Compare { operator: cmp_op(rng), left: bx(gen_expr(rng, d, &lt, chaos)), right: bx(gen_expr(rng, d, &rt, chaos)) }
            }
            3 => {
                let ot = any_type(rng);
                // `e IS NULL` / `e IS NOT NULL` (the sentence), and `e IS <literal>` / `e IS <expression>` (the parser takes any
                // right-hand side; the code compares the two VALUES with `==`: no coercion, no type error — `1 IS 1.0` is
                // false): the literal is of the operand's type, or a number of the other numeric type, or of any type
                let right = match rng.below(6) {
                    0 | 1 | 2 => lit(Value::Null),
                    3 => literal_of(rng, &ot),
                    4 => match &ot {
                        ValueType::Int => lit(Value::Float(Float(rng.range(-2, 3) as f64))),
                        ValueType::Float => lit(Value::Int(rng.range(-2, 3))),
                        _ => { let t = any_type(rng); literal_of(rng, &t) }
                    },
                    _ => gen_expr(rng, d, &ot, chaos),
                };
                let left = if rng.chance(1, 4) { match &ot { ValueType::Int => lit(Value::Int(rng.range(-2, 3))), ValueType::Float => lit(Value::Float(Float(rng.range(-2, 3) as f64))), _ => gen_expr(rng, d, &ot, chaos) } } else { gen_expr(rng, d, &ot, chaos) };
                ExpressionTree::NullableCompare { operator: if rng.chance(1, 2) { NullableCompareOperator::Equal } else { NullableCompareOperator::NotEqual }, left: bx(left), right: bx(right) }
            }
            4 | 5 => ExpressionTree::BooleanOperation { operator: if rng.chance(1, 2) { BooleanOperator::And } else { BooleanOperator::Or }, left: bx(gen_condition(rng, d, chaos)), right: bx(gen_condition(rng, d, chaos)) },
            6 => ExpressionTree::UnaryArithmetic { operator: UnaryArithmeticOperator::Invert, operand: bx(gen_expr(rng, d, &boolean, chaos)) },
            7 | 8 => {
                let ot = match rng.below(4) { 0 => int.clone(), 1 => text.clone(), 2 => real.clone(), _ => any_type(rng) };
                let n = rng.below(3) + 1;
                let mut values: Vec<ExpressionTree> = (0..n).map(|_| gen_expr(rng, d.min(1), &ot, chaos)).collect();
                if rng.chance(1, 4) { values.push(lit(Value::Null)); }
                if rng.chance(1, 3) {
                    // a list of LITERALS of mixed types whose head has the operand's type (INT and REAL members that are
                    // numerically equal to likely operands; sometimes a member of a type `=` cannot compare)
                    let small = |rng: &mut Rng| rng.range(-2, 3);
                    let head = match &ot { ValueType::Int => lit(Value::Int(small(rng))), ValueType::Float => lit(Value::Float(Float(small(rng) as f64 + if rng.chance(1, 2) { 0.5 } else { 0.0 }))), _ => literal_of(rng, &ot) };
                    values = vec![head];
                    for _ in 0..1 + rng.below(3) {
                        values.push(match rng.below(5) { 0 | 1 => lit(Value::Int(small(rng))), 2 | 3 => lit(Value::Float(Float(small(rng) as f64))), _ => lit(Value::String("many".to_owned())) });
                    }
                }
                // a NULL member anywhere in the list, also BEFORE a member `=` cannot compare with the operand: NOT IN does not
                // stop at a NULL (only at an equal member), so the later member's error surfaces (Props/C03In.lean
                // `notin_is_and_chain_full`)
                if rng.chance(1, 4) { let pos = rng.below(values.len() + 1); values.insert(pos, lit(Value::Null)); }
                ExpressionTree::In { is_not: rng.chance(1, 2), operand: bx(gen_expr(rng, d, &ot, chaos)), values }
            }
            9 => {
                let v = if rng.chance(1, 2) { lit(Value::String((*rng.pick(crate::c03func::REGEX_TEXTS)).to_owned())) } else { gen_expr(rng, d, &text, chaos) };
                call(Function::RegexMatches, vec![v, lit(Value::String((*rng.pick(PATTERNS)).to_owned()))])
            }
            10 => ExpressionTree::TypeConversion { operand: bx(gen_expr(rng, d, &text, chaos)), convert_to_type: boolean.clone() },
            _ => gen_case(rng, d, &boolean, chaos),
        },
        ValueType::String => match rng.below(6) {
            0 => call(Function::StringToUpper, vec![gen_expr(rng, d, &text, chaos)]),
            1 => call(Function::StringToLower, vec![gen_expr(rng, d, &text, chaos)]),
            2 | 3 => { let ot = any_type(rng); ExpressionTree::TypeConversion { operand: bx(gen_expr(rng, d, &ot, chaos)), convert_to_type: text.clone() } }
            4 => ExpressionTree::ArrayElementAccess { array: bx(gen_expr(rng, d, &ValueType::Array(Box::new(text.clone())), chaos)), index: bx(lit(Value::Int(rng.range(0, 3)))) },
            _ => gen_case(rng, d, &text, chaos),
        },
        ValueType::Timestamp if rng.chance(1, 7) => {
            // a leap second (`:60`) and the steps that leave it or stay inside it
            let leap = match rng.below(3) {
                0 => ExpressionTree::TypeConversion { operand: bx(lit(Value::String((*rng.pick(&["2016-12-31 23:59:60", "2015-06-30 23:59:60", "2021-03-04 05:06:60"])).to_owned()))), convert_to_type: tst.clone() },
                1 => call(Function::MakeTimestamp, [2016i64, 12, 31, 23, 59, 59, *rng.pick(&[1_000_000i64, 1_500_000, 1_999_999]), 0].iter().map(|v| lit(Value::Int(*v))).collect()),
                _ => lit(gen_leap_timestamp(rng)),
            };
            if rng.chance(1, 3) { leap } else {
                let step = lit(Value::Interval(chrono::Duration::nanoseconds(*rng.pick(&[0i64, 1, -1, 499_999_999, 500_000_000, -500_000_000, -500_000_001, 1_000_000_000, -1_000_000_000, 1_500_000_000, -1_500_000_000, 86_400_000_000_000, -86_400_000_000_000]))));
                if rng.chance(1, 2) { ExpressionTree::Arithmetic { operator: ArithmeticOperator::Add, left: bx(leap), right: bx(step) } } else { ExpressionTree::Arithmetic { operator: ArithmeticOperator::Add, left: bx(step), right: bx(leap) } }
            }
        }
        ValueType::Timestamp => match rng.below(6) {
            0 => ExpressionTree::Arithmetic { operator: ArithmeticOperator::Add, left: bx(gen_expr(rng, d, &tst, chaos)), right: bx(gen_expr(rng, d, &ivt, chaos)) },
            1 => ExpressionTree::Arithmetic { operator: ArithmeticOperator::Add, left: bx(gen_expr(rng, d, &ivt, chaos)), right: bx(gen_expr(rng, d, &tst, chaos)) },
            2 => {
                let part = *rng.pick(&["year", "month", "day", "hour", "minute", "second", "milliseconds", "microseconds", "week", "HOUR"]);
                call(Function::TruncateTimestamp, vec![lit(Value::String(part.to_owned())), gen_expr(rng, d, &tst, chaos)])
            }
            3 => {
                let mut args = vec![
                    lit(Value::Int(*rng.pick(&[2021, 1970, 2000, 1, 9999, 0, -4, 4294969313, 262143]))),
                    lit(Value::Int(*rng.pick(&[1, 2, 12, 13, 0, 4294967297]))),
                    lit(Value::Int(*rng.pick(&[1, 28, 29, 30, 31, 32, 0]))),
                    lit(Value::Int(*rng.pick(&[0, 12, 23, 24]))),
                    lit(Value::Int(*rng.pick(&[0, 30, 59, 60]))),
                    lit(Value::Int(*rng.pick(&[0, 30, 59, 60]))),
                    lit(Value::Int(*rng.pick(&[0, 500000, 999999, 1000000]))),
                    lit(Value::Int(0)),
                ];
                if rng.chance(1, 6) { args[rng.below(7)] = gen_expr(rng, d, &int, chaos); }
                call(Function::MakeTimestamp, args)
            }
            4 => ExpressionTree::TypeConversion { operand: bx(gen_expr(rng, d, &text, chaos)), convert_to_type: tst.clone() },
            _ => call(if rng.chance(1, 2) { Function::Greatest } else { Function::Least }, vec![gen_expr(rng, d, &tst, chaos), gen_expr(rng, d, &tst, chaos)]),
        },
        ValueType::Interval => match rng.below(5) {
            0 => ExpressionTree::Arithmetic { operator: ArithmeticOperator::Subtract, left: bx(gen_expr(rng, d, &tst, chaos)), right: bx(gen_expr(rng, d, &tst, chaos)) },
            1 => ExpressionTree::Arithmetic { operator: if rng.chance(1, 2) { ArithmeticOperator::Add } else { ArithmeticOperator::Subtract }, left: bx(gen_expr(rng, d, &ivt, chaos)), right: bx(gen_expr(rng, d, &ivt, chaos)) },
            2 => ExpressionTree::TypeConversion { operand: bx(gen_expr(rng, d, &text, chaos)), convert_to_type: ivt.clone() },
            3 => call(Function::Abs, vec![gen_expr(rng, d, &ivt, chaos)]),
            _ => gen_case(rng, d, &ivt, chaos),
        },
        ValueType::Array(e) => match rng.below(6) {
            0 => { let n = rng.below(4); call(Function::CreateArray, (0..n).map(|_| gen_expr(rng, d.min(1), e, chaos)).collect()) }
            1 => call(Function::ArrayUnique, vec![gen_expr(rng, d, t, chaos)]),
            2 => call(Function::ArrayCat, vec![gen_expr(rng, d, t, chaos), gen_expr(rng, d, t, chaos)]),
            3 => call(Function::ArrayAppend, vec![gen_expr(rng, d, t, chaos), gen_expr(rng, d.min(1), e, chaos)]),
            4 => call(Function::ArrayPrepend, vec![gen_expr(rng, d.min(1), e, chaos), gen_expr(rng, d, t, chaos)]),
            _ => gen_case(rng, d, t, chaos),
        },
    }
}

/// a condition (operand of AND / OR, WHEN clause): BOOLEAN-typed; one in eight is deliberately of another type (a plain
/// INT / TEXT / REAL column or literal, NULL, or an expression of any type) — such a condition has no truth value (D69)
fn gen_condition(rng: &mut Rng, d: usize, chaos: u64) -> ExpressionTree {
    if rng.chance(1, 8) {
        return match rng.below(5) {
            0 => lit(Value::Null),
            1 => col(*rng.pick(&["i1", "s1", "f1", "t1", "ai"])),
            2 => lit(Value::Int(*rng.pick(&[0i64, 1, 5]))),
            3 => lit(Value::String((*rng.pick(&["true", "a", ""])).to_owned())),
            _ => { let t = any_type(rng); gen_expr(rng, d, &t, chaos) }
        };
    }
    gen_expr(rng, d, &ValueType::Bool, chaos)
}

fn gen_case(rng: &mut Rng, d: usize, t: &ValueType, chaos: u64) -> ExpressionTree {
    let n = rng.below(2) + 1;
    let clauses = (0..n).map(|_| (gen_condition(rng, d, chaos), gen_expr(rng, d, t, chaos))).collect();
    ExpressionTree::Case { clauses, else_clause: bx(gen_expr(rng, d, t, chaos)) }
}

fn vkind(v: &Value) -> &'static str {
    match v {
        Value::Null => "null", Value::Int(_) => "int", Value::Float(_) => "real", Value::Bool(_) => "bool", Value::String(_) => "text",
        Value::Array(_, _) => "array", Value::Timestamp(_) => "ts", Value::Interval(_) => "iv",
    }
}

fn root_name(e: &ExpressionTree) -> String {
    match e {
        ExpressionTree::Value(_) => "value".into(),
        ExpressionTree::ColumnAccess(_) => "column".into(),
        ExpressionTree::ScopedColumnAccess(_, _) => "scoped".into(),
        ExpressionTree::Wildcard => "wildcard".into(),
        ExpressionTree::Compare { operator, .. } => format!("cmp-{}", cmp_name(operator)),
        // `IS NULL` / `IS NOT NULL` is what the sentence speaks about; any other right-hand side is counted apart
        ExpressionTree::NullableCompare { right, .. } => if matches!(**right, ExpressionTree::Value(Value::Null)) { "is".into() } else { "is-value".into() },
        ExpressionTree::Arithmetic { operator, .. } => format!("arith-{}", arith_name(operator)),
        ExpressionTree::BooleanOperation { .. } => "boolop".into(),
        ExpressionTree::UnaryArithmetic { operator, .. } => format!("unary-{}", operator),
        ExpressionTree::In { is_not, .. } => if *is_not { "notin".into() } else { "in".into() },
        ExpressionTree::FunctionCall { function, .. } => format!("fn-{}", func_name(function)),
        ExpressionTree::ArrayElementAccess { .. } => "index".into(),
        ExpressionTree::TypeConversion { convert_to_type, .. } => format!("cast-{}", convert_to_type),
        ExpressionTree::Case { .. } => "case".into(),
        ExpressionTree::Aggregate(_, _) => "aggregate".into(),
    }
}

fn exact_int_float(i: i64, f: f64) -> Ordering {
    if f >= 9223372036854775808.0 { return Ordering::Less; }
    if f < -9223372036854775808.0 { return Ordering::Greater; }
    let t = f.trunc();
    match (i as i128).cmp(&(t as i128)) {
        Ordering::Equal => { let fr = f - t; if fr > 0.0 { Ordering::Less } else if fr < 0.0 { Ordering::Greater } else { Ordering::Equal } }
        o => o,
    }
}

fn apply_cmp(op: &CompareOperator, o: Ordering) -> bool {
    match op {
        CompareOperator::Equal => o == Ordering::Equal,
        CompareOperator::NotEqual => o != Ordering::Equal,
        CompareOperator::GreaterThan => o == Ordering::Greater,
        CompareOperator::GreaterThanOrEqual => o != Ordering::Less,
        CompareOperator::LessThan => o == Ordering::Less,
        CompareOperator::LessThanOrEqual => o != Ordering::Greater,
    }
}

pub(crate) enum Expect {
    Value(Value),
    Error,          // must be an error (not a value, not a panic)
    ValueIfAny(Value), // an error is acceptable, a value only if it is this one
    Unspecified,    // the property sentence does not fix the outcome
}

/// the documented meaning of the ROOT operator, given the values its operands evaluate to (one level, independent of the implementation)
fn spec_root(e: &ExpressionTree, ev: &dyn Fn(&ExpressionTree) -> Ev) -> (Expect, &'static str) {
    use Expect::*;
    match e {
        ExpressionTree::Compare { operator, left, right } => {
            let (l, r) = match (ev(left), ev(right)) { (Ev::Ok(l), Ev::Ok(r)) => (l, r), (Ev::Panic(_), _) | (_, Ev::Panic(_)) => return (Unspecified, ""), _ => return (Error, "operand-error") };
            if l.is_null() || r.is_null() {
                // a TIMESTAMP compared with text first parses the text; the sentence leaves that case open
                return (Value(sqlgrep::model::Value::Bool(false)), "cmp-null-false");
            }
            let o = match (&l, &r) {
                (sqlgrep::model::Value::Int(x), sqlgrep::model::Value::Int(y)) => x.cmp(y),
                (sqlgrep::model::Value::Float(x), sqlgrep::model::Value::Float(y)) => match x.0.partial_cmp(&y.0) { Some(o) => o, None => return (Unspecified, "") },
                (sqlgrep::model::Value::Int(x), sqlgrep::model::Value::Float(y)) => if y.0.is_nan() { return (Unspecified, "") } else { exact_int_float(*x, y.0) },
                (sqlgrep::model::Value::Float(x), sqlgrep::model::Value::Int(y)) => if x.0.is_nan() { return (Unspecified, "") } else { exact_int_float(*y, x.0).reverse() },
                (sqlgrep::model::Value::String(x), sqlgrep::model::Value::String(y)) => x.chars().cmp(y.chars()),
                (sqlgrep::model::Value::Timestamp(x), sqlgrep::model::Value::Timestamp(y)) => (x.timestamp(), x.timestamp_subsec_nanos()).cmp(&(y.timestamp(), y.timestamp_subsec_nanos())),   // by instant (timestamp_nanos_opt is None beyond 1677..2262)
                (sqlgrep::model::Value::Bool(x), sqlgrep::model::Value::Bool(y)) => x.cmp(y),
                (sqlgrep::model::Value::Interval(x), sqlgrep::model::Value::Interval(y)) => x.cmp(y),   // by duration
                // a TIMESTAMP with a TEXT that is a timestamp literal (`YYYY-MM-DD hh:mm:ss`, read by chrono directly): compared by
                // instant, the operands in the order they were WRITTEN (`'text' > ts` is not `ts > 'text'`); other texts: left open
                (sqlgrep::model::Value::Timestamp(x), sqlgrep::model::Value::String(t)) => match crate::exprs::ts_parse_oracle(t) {
                    Some(sqlgrep::model::Value::Timestamp(y)) => (x.timestamp(), x.timestamp_subsec_nanos()).cmp(&(y.timestamp(), y.timestamp_subsec_nanos())),
                    _ => return (Unspecified, ""),
                },
                (sqlgrep::model::Value::String(t), sqlgrep::model::Value::Timestamp(y)) => match crate::exprs::ts_parse_oracle(t) {
                    Some(sqlgrep::model::Value::Timestamp(x)) => (x.timestamp(), x.timestamp_subsec_nanos()).cmp(&(y.timestamp(), y.timestamp_subsec_nanos())),
                    _ => return (Unspecified, ""),
                },
                (a, b) if a.value_type() == b.value_type() => return (Unspecified, ""),
                _ => return (Error, "D04:cmp-type-mismatch"),
            };
            (Value(sqlgrep::model::Value::Bool(apply_cmp(operator, o))), "cmp-by-value")
        }
        ExpressionTree::NullableCompare { operator, left, right } => {
            let (l, r) = match (ev(left), ev(right)) { (Ev::Ok(l), Ev::Ok(r)) => (l, r), (Ev::Panic(_), _) | (_, Ev::Panic(_)) => return (Unspecified, ""), _ => return (Error, "operand-error") };
            if r.is_null() {
                let isnull = l.is_null();
                (Value(sqlgrep::model::Value::Bool(if *operator == NullableCompareOperator::Equal { isnull } else { !isnull })), "is-null")
            } else { (Unspecified, "") }
        }
        ExpressionTree::Arithmetic { operator, left, right } => {
            let (l, r) = match (ev(left), ev(right)) { (Ev::Ok(l), Ev::Ok(r)) => (l, r), (Ev::Panic(_), _) | (_, Ev::Panic(_)) => return (Unspecified, ""), _ => return (Error, "operand-error") };
            match (&l, &r) {
                (sqlgrep::model::Value::Timestamp(_), _) | (_, sqlgrep::model::Value::Timestamp(_)) | (sqlgrep::model::Value::Interval(_), _) | (_, sqlgrep::model::Value::Interval(_)) => crate::c03func::spec_time_arith(operator, &l, &r),
                (sqlgrep::model::Value::Null, _) | (_, sqlgrep::model::Value::Null) => (Value(sqlgrep::model::Value::Null), "arith-null"),
                (sqlgrep::model::Value::Int(x), sqlgrep::model::Value::Int(y)) => {
                    let (x, y) = (*x as i128, *y as i128);
                    let exact = match operator {
                        ArithmeticOperator::Add => Some(x + y),
                        ArithmeticOperator::Subtract => Some(x - y),
                        ArithmeticOperator::Multiply => Some(x * y),
                        ArithmeticOperator::Divide => if y == 0 { None } else { Some(x / y) },
                    };
                    match exact {
                        Some(v) if v >= i64::MIN as i128 && v <= i64::MAX as i128 => (Value(sqlgrep::model::Value::Int(v as i64)), "arith-int"),
                        _ => (Error, "arith-overflow-or-zero-divisor"),
                    }
                }
                (sqlgrep::model::Value::Float(x), sqlgrep::model::Value::Float(y)) => {
                    let v = match operator { ArithmeticOperator::Add => x.0 + y.0, ArithmeticOperator::Subtract => x.0 - y.0, ArithmeticOperator::Multiply => x.0 * y.0, ArithmeticOperator::Divide => x.0 / y.0 };
                    (Value(sqlgrep::model::Value::Float(Float(v))), "arith-real")
                }
                _ => (Error, "arith-type-mismatch"),
            }
        }
        ExpressionTree::BooleanOperation { operator, left, right } => {
            // operands are conditions: BOOLEAN -> its value, NULL -> does not hold, any other type -> no truth value, an
            // error if that operand is evaluated; the right operand is evaluated exactly when the left does not decide
            let l = match ev(left) { Ev::Ok(l) => l, Ev::Panic(_) => return (Unspecified, ""), _ => return (Error, "operand-error") };
            let lb = match truth(&l) { Some(b) => b, None => return (Error, "D69:bool-operand-type-mismatch") };
            let short = if *operator == BooleanOperator::And { !lb } else { lb };
            if short { return (Value(sqlgrep::model::Value::Bool(lb)), "bool-two-valued"); }
            match ev(right) {
                Ev::Ok(r) => match truth(&r) {
                    Some(rb) => (Value(sqlgrep::model::Value::Bool(rb)), "bool-two-valued"),
                    None => (Error, "D69:bool-operand-type-mismatch"),
                },
                Ev::Panic(_) => (Unspecified, ""),
                _ => (Error, "operand-error"),
            }
        }
        ExpressionTree::UnaryArithmetic { operator: UnaryArithmeticOperator::Invert, operand } => match ev(operand) {
            Ev::Ok(sqlgrep::model::Value::Bool(b)) => (Value(sqlgrep::model::Value::Bool(!b)), "not"),
            Ev::Ok(sqlgrep::model::Value::Null) => (Unspecified, ""),
            Ev::Ok(_) => (Error, "not-type-mismatch"),
            Ev::Panic(_) => (Unspecified, ""),
            _ => (Error, "operand-error"),
        },
        ExpressionTree::UnaryArithmetic { operator: UnaryArithmeticOperator::Negative, operand } => match ev(operand) {
            Ev::Ok(sqlgrep::model::Value::Int(x)) => match x.checked_neg() { Some(v) => (Value(sqlgrep::model::Value::Int(v)), "neg"), None => (Error, "neg-overflow") },
            Ev::Ok(sqlgrep::model::Value::Null) => (Value(sqlgrep::model::Value::Null), "arith-null"),
            Ev::Ok(sqlgrep::model::Value::Float(x)) => (Value(sqlgrep::model::Value::Float(Float(-x.0))), "neg"),
            Ev::Ok(_) => (Error, "neg-type-mismatch"),
            Ev::Panic(_) => (Unspecified, ""),
            _ => (Error, "operand-error"),
        },
        ExpressionTree::In { is_not, operand, values } => {
            // x IN (v1, v2) means x = v1 OR x = v2: the expected outcome is what the implementation itself gives the
            // OR-chain of its own `=` (a value, or an error when a member cannot be compared with x before a match).
            // x NOT IN (v1, v2) means x != v1 AND x != v2 — decided only when every member comparison has a value:
            // whether an error in a later member surfaces after a NULL member already made the conjunction false is not
            // fixed by the sentence.
            if !*is_not {
                let mut chain = ExpressionTree::Value(sqlgrep::model::Value::Bool(false));
                for v in values.iter().rev() {
                    let c = ExpressionTree::Compare { operator: CompareOperator::Equal, left: operand.clone(), right: Box::new(v.clone()) };
                    chain = ExpressionTree::BooleanOperation { operator: BooleanOperator::Or, left: Box::new(c), right: Box::new(chain) };
                }
                return match ev(&chain) {
                    Ev::Ok(b) => (Value(b), "in-as-disjunction"),
                    Ev::Panic(_) => (Unspecified, ""),
                    _ => (Error, "in-as-disjunction-error"),
                };
            }
            let mut acc = true;
            for v in values {
                let c = ExpressionTree::Compare { operator: CompareOperator::NotEqual, left: operand.clone(), right: Box::new(v.clone()) };
                match ev(&c) {
                    Ev::Ok(sqlgrep::model::Value::Bool(b)) => { acc = acc && b; }
                    _ => return (Unspecified, ""),
                }
            }
            (Value(sqlgrep::model::Value::Bool(acc)), "notin-as-conjunction")
        }
        ExpressionTree::Case { clauses, else_clause } => {
            for (c, r) in clauses {
                match ev(c) {
                    // a WHEN expression is a condition: TRUE takes the branch, FALSE / NULL skip it, any other type is an error
                    Ev::Ok(v) => match truth(&v) {
                        Some(true) => return match ev(r) { Ev::Ok(v) => (Value(v), "case-first-true"), Ev::Panic(_) => (Unspecified, ""), _ => (Error, "operand-error") },
                        Some(false) => {}
                        None => return (Error, "D69:case-condition-type-mismatch"),
                    },
                    Ev::Panic(_) => return (Unspecified, ""),
                    _ => return (Error, "operand-error"),
                }
            }
            match ev(else_clause) { Ev::Ok(v) => (Value(v), "case-else"), Ev::Panic(_) => (Unspecified, ""), _ => (Error, "operand-error") }
        }
        ExpressionTree::ArrayElementAccess { array, index } => match (ev(array), ev(index)) {
            (Ev::Ok(sqlgrep::model::Value::Array(_, xs)), Ev::Ok(sqlgrep::model::Value::Int(i))) => {
                let v = if i >= 1 && (i as u64) <= xs.len() as u64 { xs[(i - 1) as usize].clone() } else { sqlgrep::model::Value::Null };
                (Value(v), "subscript-one-based")
            }
            (Ev::Panic(_), _) | (_, Ev::Panic(_)) => (Unspecified, ""),
            // a NULL array or a NULL subscript: the sentence is silent (the code reports an error): model-vs-code only
            (Ev::Ok(sqlgrep::model::Value::Null), _) | (_, Ev::Ok(sqlgrep::model::Value::Null)) => (Unspecified, ""),
            (Ev::Ok(sqlgrep::model::Value::Array(_, _)), Ev::Ok(_)) => (Error, "subscript-type-mismatch"),
            (Ev::Ok(_), _) => (Error, "subscript-not-array"),
            _ => (Error, "operand-error"),
        },
        ExpressionTree::ColumnAccess(_) => (Unspecified, ""),
        ExpressionTree::FunctionCall { .. } | ExpressionTree::TypeConversion { .. } => crate::c03func::spec_function(e, ev),
        _ => (Unspecified, ""),
    }
}

pub fn bits_equal(a: &Value, b: &Value) -> bool {
    value_sexp(&canon_value(a)) == value_sexp(&canon_value(b))
}

/// check one expression on one environment; emits the correspondence case and the oracle verdict
pub fn check_expr(run: &mut Run, env: &[(String, Value)], e: &ExpressionTree, extra_tag: &str) {
    let got = eval_real(env, e);
    let mut strings = BTreeSet::new();
    collect_expr_strings(e, &mut strings);
    for (_, v) in env { collect_value_strings(v, &mut strings); }
    let mut patterns: BTreeSet<String> = PATTERNS.iter().map(|s| (*s).to_owned()).filter(|p| strings.contains(p)).collect();
    // every literal pattern argument of a regex_matches call, whether or not it is in the pool
    let _ = e.visit::<(), _>(&mut |t| {
        if let ExpressionTree::FunctionCall { function: Function::RegexMatches, arguments } = t {
            if let Some(ExpressionTree::Value(Value::String(p))) = arguments.get(1) { patterns.insert(p.clone()); }
        }
        Ok(())
    });
    let line = format!("eval {} {} {}", oracles_sexp(&strings, &patterns), env_sexp(env), expr_sexp(e));
    let kind = match &got { Ev::Ok(v) => vkind(v).to_owned(), Ev::Err(k) => format!("err-{}", k), Ev::Panic(_) => "panic".to_owned() };
    let root = root_name(e);
    run.count(&format!("root:{}", root));
    run.count(&format!("result:{}", kind));
    run.case(line, got.wire(), format!("{}{}=>{}", extra_tag, root, kind));

    run.oracle_checks += 1;
    let desc = || format!("expr={} env={}", e, env.iter().map(|(n, v)| format!("{}={}", n, v)).collect::<Vec<_>>().join(","));
    if let Ev::Panic(m) = &got {
        run.fail(desc(), &format!("panic:{}", root), format!("evaluation panicked: {}", m));
        return;
    }
    let ev = |x: &ExpressionTree| eval_real(env, x);
    let (expect, law) = spec_root(e, &ev);
    match expect {
        Expect::Unspecified => { run.count(&format!("oracle-abstains:{}", root)); }
        Expect::Value(want) => match &got {
            Ev::Ok(v) if bits_equal(v, &want) => {}
            other => {
                let class = if law == "in-as-disjunction" { "in-vs-eq".to_owned() } else { format!("{}:{}", law, root) };
                run.fail(desc(), &class, format!("documented meaning gives {} but evaluation gave {}", want, other.wire()))
            }
        },
        Expect::ValueIfAny(want) => match &got {
            Ev::Ok(v) if !bits_equal(v, &want) => run.fail(desc(), &format!("{}:{}", law, root), format!("a value is only acceptable if it is {} but evaluation gave {}", want, got.wire())),
            _ => {}
        },
        Expect::Error => match &got {
            Ev::Err(_) => {}
            other => {
                let class = if law.starts_with("D04:") || law.starts_with("D69:") { law.to_owned() } else { format!("{}:{}", law, root) };
                run.fail(desc(), &class, format!("no value exists (type mismatch / overflow / zero divisor) but evaluation gave {}", other.wire()))
            }
        },
    }
}

// ---------- statement level: SELECT ... FROM t [WHERE ...] through the real parser, lowering and FileExecutor ----------

/// one select-list item with the name the property gives its column ("the alias, else the column name, else p<i>")
fn select_item(rng: &mut Rng, i: usize, has_bool: bool) -> (String, String) {
    const COLS: &[&str] = &["k", "v", "w", "r", "s"];
    const EXPRS: &[&str] = &["v + 1", "v * w", "upper(k)", "length(s)", "v > w", "k IS NULL", "v IS 1", "r IS NOT 1", "v IS NOT w", "k IS 'a'", "r / 2.0", "(CASE WHEN v > 0 THEN k ELSE s END)", "v::text", "greatest(v, w)", "'lit'", "42", "NULL", "t.v", "t.k"];
    let alias = if rng.chance(1, 3) { Some((*rng.pick(&["a0", "x", "k", "v", "p0", "p1", "total", "input"])).to_owned()) } else { None };
    match rng.below(10) {
        0..=3 => {
            let c = if has_bool && rng.chance(1, 6) { "b" } else { *rng.pick(COLS) };
            (match &alias { Some(a) => format!("{} AS {}", c, a), None => c.to_owned() }, alias.unwrap_or_else(|| c.to_owned()))
        }
        4 => (match &alias { Some(a) => format!("input AS {}", a), None => "input".to_owned() }, alias.unwrap_or_else(|| "input".to_owned())),
        _ => {
            let e = *rng.pick(EXPRS);
            // a table-qualified column is still a plain column access: its name is the qualified name
            let dflt = if e.starts_with("t.") { e.to_owned() } else { format!("p{}", i) };
            (match &alias { Some(a) => format!("{} AS {}", e, a), None => e.to_owned() }, alias.unwrap_or(dflt))
        }
    }
}

/// NOT at text level ("NOT is two-valued", through parser AND lowering): `SELECT (c) AS p, NOT (c) AS q, NOT c AS u FROM t` for a
/// generated condition `c` (IN / NOT IN with nullable operands and NULL members, comparisons, IS NULL, AND / OR …): on every
/// row where `c` is TRUE the other two cells are FALSE and the other way round. (`c` NULL: no demand — see DESIGN, NOT NULL.)
/// The expression stream judges the evaluator on lowered trees; a lowering that rewrites `NOT (x IN …)` is only visible here.
fn not_texts(run: &mut Run, rng: &mut Rng, n: usize) {
    use crate::c04::{gen_input, join_lines};
    use crate::engine_run::{prepare, run_files};
    use crate::queries::{gen_schema, gen_sql_expr, Ty};
    for _ in 0..n {
        let sch = gen_schema(rng);
        let c = if rng.chance(1, 2) {
            let (col, lits) = *rng.pick(&[("w", ["1", "2", "NULL"]), ("k", ["'a'", "'b'", "NULL"]), ("v", ["0", "1", "NULL"])]);
            format!("{} {}IN ({}, {})", col, if rng.chance(1, 2) { "NOT " } else { "" }, lits[rng.below(2)], lits[rng.below(3)])
        } else { gen_sql_expr(rng, 2, Ty::Bool, &sch, false) };
        let text = format!("SELECT ({c}) AS p, NOT ({c}) AS q, NOT {c} AS u FROM t", c = c);
        let prepared = match prepare(&sch.defs, &text) { Ok(p) => p, Err(_) => { run.count("not-text:rejected"); continue; } };
        let nl = 1 + rng.below(8);
        let null_pct = *rng.pick(&[10u64, 40, 70]);
        let lines = gen_input(rng, nl, null_pct, false);
        let out = run_files(&prepared, &[join_lines(&lines)]);
        run.oracle_checks += 1;
        if out.status != "ok" { run.count("not-text:error"); continue; }
        for rec in out.records() {
            let cells: Vec<&str> = rec.split(", ").collect();
            if cells.len() != 3 { continue; }
            let val = |i: usize| cells[i].splitn(2, ": ").nth(1).unwrap_or("");
            let (p, q, u) = (val(0), val(1), val(2));
            let want = match p { "true" => "false", "false" => "true", _ => { run.count("not-text:null"); continue; } };
            run.count("not-text:decided");
            if q != want || u != want {
                run.fail(format!("query={} input={:?}", text, lines), "not-of-condition-not-negation",
                         format!("record `{}`: the condition is {}, so NOT of it is {} in both spellings", rec, p, want));
                break;
            }
        }
    }
}

fn select_level(run: &mut Run, rng: &mut Rng, n: usize) {
    use crate::c04::{gen_input, join_lines};
    use crate::engine_run::{batch_case, prepare, run_files};
    use crate::queries::gen_schema;
    for _ in 0..n {
        let sch = gen_schema(rng);
        let star = rng.chance(1, 8);
        let mut texts = Vec::new();
        let mut names = Vec::new();
        if star {
            texts.push("*".to_owned());
            names = vec!["k", "v", "w", "r", "s"].into_iter().map(|c| c.to_owned()).collect();
            if sch.has_bool { names.push("b".to_owned()); }
        } else {
            for i in 0..1 + rng.below(4) {
                let (t, nm) = select_item(rng, i, sch.has_bool);
                texts.push(t);
                names.push(nm);
            }
        }
        let filter = if rng.chance(1, 2) { format!(" WHERE {}", rng.pick(&["v > 0", "k = 'a'", "w IS NOT NULL", "v + w < 10", "s != 'x' OR v = 1", "NOT (k IS NULL)", "v / w > 0", "r > 0.5", "k IN ('a', 'b')", "v NOT IN (1, 2)", "v IS 1", "v IS NOT 2", "k IS 'a'", "r IS 1", "v IS 1.0", "v NOT IN (NULL, 1)", "v NOT IN (1, w)", "w IS NOT v",
            // conditions that are not BOOLEAN on some rows (D69): an INT / TEXT / REAL expression, an AND / OR with such an operand, a WHEN of
            // another type; and conditions that are NULL (do not hold, no error)
            "v + 1", "k", "v", "upper(s)", "r", "v AND w > 0", "w > 0 OR k", "w > 0 AND v", "(CASE WHEN v THEN 1 ELSE 0 END) = 1", "NULL", "NOT NULL", "(CASE WHEN v > 0 THEN k END) = 'a'", "NOT (v > w)"])) } else { String::new() };
        let text = format!("SELECT {} FROM t{}", texts.join(", "), filter);
        let prepared = match prepare(&sch.defs, &text) { Ok(p) => p, Err(e) => { run.count(&format!("stmt-rejected:{}", e.split(':').next().unwrap_or(""))); continue; } };
        let nl = rng.below(10);
        let null_pct = *rng.pick(&[5u64, 30, 60]);
        let lines = gen_input(rng, nl, null_pct, false);
        let whole = run_files(&prepared, &[join_lines(&lines)]);
        let desc = format!("query={} input={:?}", text, lines);
        if let Some(case) = batch_case(&prepared, b"", &[join_lines(&lines)], None) {
            run.case_with_desc(case, whole.wire(), format!("stmt:{}:star{}:where{}:items{}:rows{}", whole.status, star as u8, !filter.is_empty() as u8, names.len(), whole.records().len().min(4)), desc.clone());
        }
        run.oracle_checks += 1;
        if whole.status == "panic" { run.fail(desc, "panic:select", "the run panicked".to_owned()); continue; }
        // column names: the alias, else the column name, else p<i>
        if let sqlgrep::Statement::Select(sel) = &prepared.statement {
            let got: Vec<String> = sel.projections.iter().map(|p| p.0.clone()).collect();
            if !star && got != names {
                run.fail(desc.clone(), "projection-names", format!("the output columns are named {:?}, the property gives {:?} (alias, else column name, else p<i>)", got, names));
                continue;
            }
        }
        // one output row per qualifying row, in input order, computed from that row alone: the output over the whole
        // input is the concatenation of the outputs over each line on its own
        let mut concat: Vec<String> = Vec::new();
        let mut first_err: Option<String> = None;
        // WHERE is a condition: on an admitted line its value is TRUE (the line gives its row), FALSE or NULL (no row, no
        // error), or of another type — then it has no truth value and the run over that line must report an error, not
        // silently give no row (D69). The value is the implementation's own evaluation of the WHERE expression (judged
        // node by node by the expression stream); what is demanded here is what WHERE does with it.
        let where_of = match &prepared.statement { sqlgrep::Statement::Select(sel) => sel.filter.clone(), _ => None };
        let table_t = prepared.tables.get("t");
        let mut where_failed = false;
        for l in &lines {
            let one = run_files(&prepared, &[join_lines(std::slice::from_ref(l))]);
            if let (Some(f), Some(table), false) = (&where_of, table_t, where_failed) {
                let row = table.extract(l);
                if row.any_result() {
                    let env: Vec<(String, Value)> = table.columns.iter().map(|c| c.name.clone()).zip(row.columns.iter().cloned()).collect();
                    let verdict = match eval_real(&env, f) {
                        Ev::Ok(v) => match truth(&v) {
                            None if !one.status.starts_with("err:") => Some(("D69:where-type-mismatch-not-reported", format!("WHERE is {} (neither BOOLEAN nor NULL) on line {:?}: an error must be reported, the run over that line answers {} {:?}", v, l, one.status, one.records()))),
                            Some(false) if one.status != "ok" || !one.records().is_empty() => Some(("where-not-holding-gives-row-or-error", format!("WHERE is {} on line {:?}: no row and no error, but the run over that line answers {} {:?}", v, l, one.status, one.records()))),
                            Some(true) if one.status == "ok" && one.records().len() != 1 => Some(("where-holding-row-missing", format!("WHERE is TRUE on line {:?} but the run over that line gives {:?}", l, one.records()))),
                            _ => None,
                        },
                        Ev::Err(k) if one.status == "ok" => Some(("where-error-not-reported", format!("WHERE has no value ({}) on line {:?} but the run over that line answers ok {:?}", k, l, one.records()))),
                        _ => None,
                    };
                    run.count(&format!("where-oracle:{}", match eval_real(&env, f) { Ev::Ok(v) => match truth(&v) { None => "no-truth-value", Some(true) => "true", Some(false) => if v.is_null() { "null" } else { "false" } }, Ev::Err(_) => "error", Ev::Panic(_) => "panic" }));
                    if let Some((class, what)) = verdict { run.fail(desc.clone(), class, what); where_failed = true; }
                }
            }
            if one.status != "ok" { first_err = Some(one.status.clone()); break; }
            if one.records().len() > 1 { run.fail(desc.clone(), "more-than-one-row-per-line", format!("line {:?} alone yields {:?}", l, one.records())); }
            concat.extend(one.records());
        }
        match first_err {
            Some(e) => {
                if whole.status != e { run.fail(desc.clone(), "error-not-reported", format!("a line evaluated on its own reports {} but the whole run answers {}", e, whole.status)); }
                else if whole.records() != concat { run.fail(desc.clone(), "rows-before-error-differ", format!("before the error the run printed {:?}, line by line {:?}", whole.records(), concat)); }
            }
            None => {
                if whole.status != "ok" { run.fail(desc.clone(), "spurious-error", format!("every line evaluates on its own but the whole run answers {}", whole.status)); }
                else if whole.records() != concat { run.fail(desc.clone(), "rows-not-per-row-in-order", format!("whole run {:?}, line by line {:?}", whole.records(), concat)); }
            }
        }
        // `*` lists the columns in definition order, `input` is the raw line
        if star && whole.status == "ok" {
            for rec in whole.records() {
                let cols: Vec<&str> = rec.split(", ").filter_map(|kv| kv.split(": ").next()).collect();
                let want: Vec<&str> = names.iter().map(|x| x.as_str()).collect();
                if cols.len() >= want.len() && cols[..1] != want[..1] { run.fail(desc.clone(), "star-order", format!("record {:?} does not start with the first defined column", rec)); break; }
            }
        }
    }
}

// ---------------------------------------------------------------------------------------------
// local time zones (child processes: chrono's local zone is fixed per process). `date_trunc('year'|'month'|'day', ts)`
// must give the START of that period of ts IN LOCAL TIME: an instant not after ts whose local civil fields are the
// period's first moment (same year / month / day as ts, the rest at its minimum). Where that local time does not exist
// (DST gap at midnight) an error is the documented answer. Judged from the result's own local fields — not by
// re-computing what chrono computes.
// ---------------------------------------------------------------------------------------------

/// does the LOCAL civil time of this instant lie inside chrono's range? (East of UTC the last hours of the range, west of
/// UTC the first hours, have a local time outside it: the civil fields are then not defined for the truncation.)
fn local_in_range(ts: &chrono::DateTime<chrono::Local>) -> bool {
    use chrono::Offset;
    ts.naive_utc().checked_add_offset(ts.offset().fix()).is_some()
}

/// `date_trunc('year'|'month'|'day', ts)` judged by the local civil fields of its result (`ev`): the first moment of that local
/// period, not after ts; an error only when that local start does not exist (or ts has no local civil time in range)
fn judge_trunc_period(part: &str, ts: chrono::DateTime<chrono::Local>, ev: Ev, desc: &str) {
    use chrono::{Datelike, Local, TimeZone, Timelike};
    if let Ev::Panic(m) = &ev { println!("FAIL panic:date-trunc :: {} panicked: {}", desc, m.replace('\n', " ")); return; }
    if !local_in_range(&ts) { return; }
    match ev {
        Ev::Ok(Value::Timestamp(r)) => {
            let first = r.hour() == 0 && r.minute() == 0 && r.second() == 0 && r.nanosecond() == 0
                && r.year() == ts.year()
                && match part { "year" => r.month() == 1 && r.day() == 1, "month" => r.month() == ts.month() && r.day() == 1, _ => r.month() == ts.month() && r.day() == ts.day() };
            if !first || r > ts {
                println!("FAIL date-trunc-not-local-period-start :: {} gave {} which is not the first moment of that local {}", desc, r, part);
            }
        }
        Ev::Ok(v) => println!("FAIL date-trunc-not-a-timestamp :: {} gave {}", desc, v),
        Ev::Err(_) => {
            // only when the local start of the period does not exist
            let (y, m, d) = match part { "year" => (ts.year(), 1, 1), "month" => (ts.year(), ts.month(), 1), _ => (ts.year(), ts.month(), ts.day()) };
            if Local.with_ymd_and_hms(y, m, d, 0, 0, 0).single().is_some() {
                println!("FAIL date-trunc-error-although-start-exists :: {}", desc);
            }
        }
        Ev::Panic(_) => {}
    }
}

/// hour / minute / second: the start of that local hour / minute / second — not after ts, less than one span
/// before it, same local date and hour, the smaller local fields zero (zones with :30 / :45 offsets tell local from
/// UTC truncation apart). An error is accepted only at a DST switch (the local target is ambiguous or missing).
fn judge_trunc_span(part2: &str, span: i64, ts: chrono::DateTime<chrono::Local>, ev: Ev, desc2: &str) {
    use chrono::{Local, TimeZone, Timelike};
    if let Ev::Panic(m) = &ev { println!("FAIL panic:date-trunc :: {} panicked: {}", desc2, m.replace('\n', " ")); return; }
    if !local_in_range(&ts) { return; }
    match ev {
        Ev::Ok(Value::Timestamp(r)) => {
            let fields = r.nanosecond() == 0 && r.date_naive() == ts.date_naive() && r.hour() == ts.hour()
                && match part2 { "hour" => r.minute() == 0 && r.second() == 0, "minute" => r.minute() == ts.minute() && r.second() == 0, _ => r.minute() == ts.minute() && r.second() == ts.second() };
            let near = r <= ts && (ts.timestamp() - r.timestamp()) <= span;
            // at a switch the same local hour may occur twice; only the field check is demanded there
            if !fields || !near {
                let switch = !local_in_range(&r) || Local.from_local_datetime(&r.naive_local()).single().is_none() || (ts.offset() != r.offset());
                if !switch { println!("FAIL date-trunc-not-local-{}-start :: {} gave {}", part2, desc2, r); }
            }
        }
        Ev::Ok(v) => println!("FAIL date-trunc-not-a-timestamp :: {} gave {}", desc2, v),
        Ev::Err(_) => {
            // the code truncates through the local time counted in nanoseconds in 64 bits (chrono's `duration_trunc`): outside
            // 1677-09-21 … 2262-04-11 it reports `Failed to truncate timestamp`. The sentence is silent on that limit; an error
            // (not a wrong value, not a panic) is accepted there — mirrored, not demanded
            if ts.naive_local().and_utc().timestamp_nanos_opt().is_none() { return; }
            let target = ts.naive_local().with_nanosecond(0).and_then(|t| if part2 == "second" { Some(t) } else { t.with_second(0) }).and_then(|t| if part2 == "hour" { t.with_minute(0) } else { Some(t) });
            let plain = target.map(|t| Local.from_local_datetime(&t).single().is_some()).unwrap_or(false);
            if plain { println!("FAIL date-trunc-error-although-start-exists :: {}", desc2); }
        }
        Ev::Panic(_) => {}
    }
}

/// Composition at the ends of the range (D73): `ts ± iv` with ts in the first / last day of chrono's range (years -262143 /
/// 262142) or ordinary and iv a few hours of either sign, then EVERY part of `date_trunc`, every part of `EXTRACT` and the
/// text cast applied to the sum. Judged: nothing panics; the sum is the instant ts ± iv exactly; where the sum's local civil
/// time is in range, `date_trunc` is judged by the local fields of its result as above (milliseconds / microseconds: not
/// after the sum, less than one unit before it, a whole number of units); `EXTRACT(part FROM e)` is the field that
/// `(e)::text` shows (two different routes through chrono: field accessors and the formatter) and `EXTRACT(EPOCH …)` is
/// the instant. Returns the number of checks.
fn tz_composed(rng: &mut Rng, n: usize) -> usize {
    use chrono::{Duration, Local, NaiveDate, TimeZone};
    let mut checks = 0usize;
    for _ in 0..n {
        let hms = |rng: &mut Rng, hours: &[u32]| (*rng.pick(hours), *rng.pick(&[0u32, 1, 29, 30, 59]), *rng.pick(&[0u32, 59]));
        let base = match rng.below(6) {
            0 | 1 => { let (h, m, s) = hms(rng, &[0, 9, 10, 12, 13, 20, 21, 22, 23, 23]); NaiveDate::from_ymd_opt(262142, 12, 31).and_then(|d| d.and_hms_opt(h, m, s)).and_then(|t| Local.from_local_datetime(&t).latest()) }
            2 | 3 => { let (h, m, s) = hms(rng, &[0, 0, 1, 2, 3, 11, 12, 13, 14, 23]); NaiveDate::from_ymd_opt(-262143, 1, 1).and_then(|d| d.and_hms_opt(h, m, s)).and_then(|t| Local.from_local_datetime(&t).latest()) }
            _ => Local.timestamp_opt(1_500_000_000i64 + rng.range(0, 250_000_000), 0).single(),
        };
        let base = match base { Some(b) => b, None => continue };
        let iv = Duration::milliseconds(rng.range(-15 * 3600, 15 * 3600) * 1000 + *rng.pick(&[0i64, 0, 1, 500, 999]));
        let subtract = rng.chance(1, 2);
        let inner = ExpressionTree::Arithmetic { operator: if subtract { ArithmeticOperator::Subtract } else { ArithmeticOperator::Add }, left: bx(lit(Value::Timestamp(base))), right: bx(lit(Value::Interval(iv))) };
        let idesc = format!("{} {} interval of {} ms [epoch ms {}]", base, if subtract { "-" } else { "+" }, iv.num_milliseconds(), base.timestamp_millis());
        checks += 1;
        let sum = match eval_real(&[], &inner) {
            Ev::Ok(Value::Timestamp(s)) => s,
            Ev::Panic(m) => { println!("FAIL panic:timestamp-arithmetic :: {} panicked: {}", idesc, m.replace('\n', " ")); continue; }
            _ => continue,   // beyond the range: an error is the documented answer (D51)
        };
        let want_ms = base.timestamp_millis() as i128 + if subtract { -(iv.num_milliseconds() as i128) } else { iv.num_milliseconds() as i128 };
        if sum.timestamp_millis() as i128 != want_ms {
            println!("FAIL timestamp-arithmetic-wrong-instant :: {} gave {} [epoch ms {}], the instant is epoch ms {}", idesc, sum, sum.timestamp_millis(), want_ms);
            continue;
        }
        let in_range = local_in_range(&sum);
        for part in &["year", "month", "day", "hour", "minute", "second", "milliseconds", "microseconds"] {
            let e = call(Function::TruncateTimestamp, vec![lit(Value::String((*part).to_owned())), inner.clone()]);
            let desc = format!("date_trunc('{}', {}){}", part, idesc, if in_range { "" } else { " (the sum's local time is outside the range)" });
            checks += 1;
            let ev = eval_real(&[], &e);
            match *part {
                "year" | "month" | "day" => judge_trunc_period(part, sum, ev, &desc),
                "hour" => judge_trunc_span(part, 3600, sum, ev, &desc),
                "minute" => judge_trunc_span(part, 60, sum, ev, &desc),
                "second" => judge_trunc_span(part, 1, sum, ev, &desc),
                _ => {
                    let unit_ns: i64 = if *part == "milliseconds" { 1_000_000 } else { 1_000 };
                    match ev {
                        Ev::Panic(m) => println!("FAIL panic:date-trunc :: {} panicked: {}", desc, m.replace('\n', " ")),
                        Ev::Ok(Value::Timestamp(r)) if in_range => {
                            let gap = sum.signed_duration_since(r).num_nanoseconds().unwrap_or(-1);
                            if r > sum || gap < 0 || gap >= unit_ns || (r.timestamp_subsec_nanos() as i64) % unit_ns != 0 {
                                println!("FAIL date-trunc-not-{}-start :: {} gave {}", part, desc, r);
                            }
                        }
                        Ev::Ok(Value::Timestamp(_)) | Ev::Err(_) => {}
                        Ev::Ok(v) => println!("FAIL date-trunc-not-a-timestamp :: {} gave {}", desc, v),
                    }
                }
            }
        }
        // the text of the sum, read field by field: [+-]Y…-MM-DD HH:MM:SS.mmm
        let text = match eval_real(&[], &ExpressionTree::TypeConversion { operand: bx(inner.clone()), convert_to_type: ValueType::String }) {
            Ev::Ok(Value::String(t)) => Some(t),
            Ev::Panic(m) => { println!("FAIL panic:timestamp-to-text :: ({})::text panicked: {}", idesc, m.replace('\n', " ")); None }
            _ => None,
        };
        checks += 1;
        let fields: Option<Vec<i64>> = text.as_ref().and_then(|t| {
            let (date, time) = { let mut it = t.splitn(2, ' '); (it.next()?, it.next()?) };
            let neg = date.starts_with('-');
            let d: Vec<&str> = date.trim_start_matches(|c| c == '+' || c == '-').split('-').collect();
            let tm: Vec<&str> = time.split(|c| c == ':' || c == '.').collect();
            if d.len() != 3 || tm.len() != 4 { return None; }
            let y: i64 = d[0].parse().ok()?;
            Some(vec![if neg { -y } else { y }, d[1].parse().ok()?, d[2].parse().ok()?, tm[0].parse().ok()?, tm[1].parse().ok()?, tm[2].parse().ok()?])
        });
        if text.is_some() && fields.is_none() { println!("FAIL timestamp-text-unreadable :: ({})::text = {:?}", idesc, text); }
        for (k, f) in [Function::TimestampExtractYear, Function::TimestampExtractMonth, Function::TimestampExtractDay, Function::TimestampExtractHour, Function::TimestampExtractMinute, Function::TimestampExtractSecond].iter().enumerate() {
            checks += 1;
            match eval_real(&[], &call(f.clone(), vec![inner.clone()])) {
                Ev::Panic(m) => println!("FAIL panic:extract :: EXTRACT({} FROM {}) panicked: {}", func_name(f), idesc, m.replace('\n', " ")),
                Ev::Ok(Value::Int(v)) => { if let Some(fs) = &fields { if fs[k] != v { println!("FAIL extract-differs-from-text-field :: {} of {} is {}, the text of the same value is {:?}", func_name(f), idesc, v, text); } } }
                Ev::Ok(v) => println!("FAIL extract-not-an-int :: {} of {} gave {}", func_name(f), idesc, v),
                Ev::Err(_) => println!("FAIL extract-error-on-a-timestamp :: {} of {}", func_name(f), idesc),
            }
        }
        checks += 1;
        match eval_real(&[], &call(Function::TimestampExtractEpoch, vec![inner.clone()])) {
            Ev::Panic(m) => println!("FAIL panic:extract :: EXTRACT(EPOCH FROM {}) panicked: {}", idesc, m.replace('\n', " ")),
            Ev::Ok(Value::Float(x)) => { if x.0 != want_ms as f64 / 1000.0 { println!("FAIL extract-epoch-wrong :: EXTRACT(EPOCH FROM {}) gave {}, the instant is {} ms", idesc, x.0, want_ms); } }
            Ev::Ok(v) => println!("FAIL extract-not-a-real :: EXTRACT(EPOCH FROM {}) gave {}", idesc, v),
            Ev::Err(_) => println!("FAIL extract-error-on-a-timestamp :: EXTRACT(EPOCH FROM {})", idesc),
        }
        // comparisons of such values: the sum against its own truncation (never after it) and against the base
        checks += 1;
        let trunc_hour = call(Function::TruncateTimestamp, vec![lit(Value::String("hour".to_owned())), inner.clone()]);
        let cmp = ExpressionTree::Compare { operator: CompareOperator::LessThanOrEqual, left: bx(trunc_hour), right: bx(inner.clone()) };
        match eval_real(&[], &cmp) {
            Ev::Panic(m) => println!("FAIL panic:compare :: date_trunc('hour', e) <= e for e = {} panicked: {}", idesc, m.replace('\n', " ")),
            Ev::Ok(Value::Bool(false)) => println!("FAIL date-trunc-after-its-argument :: date_trunc('hour', e) <= e is false for e = {}", idesc),
            _ => {}
        }
    }
    checks
}

pub fn tz_child(seed: u64, n: usize) {
    use chrono::{Datelike, Local, TimeZone, Timelike};
    use chrono::NaiveDate;
    let mut rng = Rng::new(seed ^ 0x037a);
    let mut checks = 0usize;
    // the local clock times that do not exist (DST gaps) in 2015..2026, at quarter-hour resolution
    let mut gaps: Vec<chrono::NaiveDateTime> = Vec::new();
    let mut day = NaiveDate::from_ymd_opt(2015, 1, 1).unwrap();
    while day.year() < 2026 {
        for q in 0..96u32 {
            let t = day.and_hms_opt(q / 4, (q % 4) * 15, 7).unwrap();
            if let chrono::LocalResult::None = Local.from_local_datetime(&t) { gaps.push(t); }
        }
        day = day.succ_opt().unwrap();
    }
    for i in 0..n {
        // instants spread over several years, denser around the usual switch-over months; every other case is aimed at a
        // gap: the same clock time on another day of that month, or another hour of that day with the gap's minutes
        let ts = if i % 2 == 1 && !gaps.is_empty() {
            let g = *rng.pick(&gaps);
            let cand = if rng.chance(1, 2) {
                NaiveDate::from_ymd_opt(g.year(), g.month(), 1 + rng.below(28) as u32).map(|d| d.and_time(g.time()))
            } else {
                g.date().and_hms_opt(rng.below(24) as u32, g.minute(), g.second())
            };
            match cand.and_then(|c| Local.from_local_datetime(&c).single()) { Some(t) => t, None => continue }
        } else {
            let base = 1_500_000_000i64 + rng.range(0, 250_000_000);
            let secs = if rng.chance(1, 3) { base - base % 86_400 + rng.range(-7_200, 7_200) } else { base };
            match Local.timestamp_opt(secs, (rng.below(3) as u32) * 500_000_000 % 1_000_000_000).single() { Some(t) => t, None => continue }
        };
        let secs = ts.timestamp();
        let part = *rng.pick(&["year", "month", "day"]);
        let e = call(Function::TruncateTimestamp, vec![ExpressionTree::Value(Value::String(part.to_owned())), ExpressionTree::Value(Value::Timestamp(ts))]);
        checks += 1;
        let desc = format!("date_trunc('{}', {}) [epoch {}]", part, ts, secs);
        judge_trunc_period(part, ts, eval_real(&[], &e), &desc);
        let (part2, span) = *rng.pick(&[("hour", 3600i64), ("minute", 60), ("second", 1)]);
        let e2 = call(Function::TruncateTimestamp, vec![ExpressionTree::Value(Value::String(part2.to_owned())), ExpressionTree::Value(Value::Timestamp(ts))]);
        checks += 1;
        let desc2 = format!("date_trunc('{}', {}) [epoch {}]", part2, ts, secs);
        judge_trunc_span(part2, span, ts, eval_real(&[], &e2), &desc2);
    }
    // the same local clock time means the same instant however it enters: built from its parts (`make_timestamp`, what a
    // TIMESTAMP column does) or written as a text literal compared with / cast to a timestamp — in particular in the repeated
    // hour at the end of daylight saving time, where the clock time is ambiguous (both ways must resolve it alike)
    let mut folds: Vec<chrono::NaiveDateTime> = Vec::new();
    let mut day = NaiveDate::from_ymd_opt(2015, 1, 1).unwrap();
    while day.year() < 2026 {
        for q in 0..96u32 {
            let t = day.and_hms_opt(q / 4, (q % 4) * 15, 7).unwrap();
            if let chrono::LocalResult::Ambiguous(_, _) = Local.from_local_datetime(&t) { folds.push(t); }
        }
        day = day.succ_opt().unwrap();
    }
    for i in 0..n.min(400) {
        let local = if i % 2 == 0 && !folds.is_empty() { *rng.pick(&folds) } else {
            match NaiveDate::from_ymd_opt(2015 + rng.below(11) as i32, 1 + rng.below(12) as u32, 1 + rng.below(28) as u32).and_then(|d| d.and_hms_opt(rng.below(24) as u32, rng.below(60) as u32, rng.below(60) as u32)) { Some(t) => t, None => continue }
        };
        if let chrono::LocalResult::None = Local.from_local_datetime(&local) { continue; }
        let text = local.format("%Y-%m-%d %H:%M:%S").to_string();
        let parts: Vec<ExpressionTree> = [local.year() as i64, local.month() as i64, local.day() as i64, local.hour() as i64, local.minute() as i64, local.second() as i64, 0].iter().map(|v| ExpressionTree::Value(Value::Int(*v))).collect();
        let built = call(Function::MakeTimestamp, parts);
        let lit_text = ExpressionTree::Value(Value::String(text.clone()));
        for (flip, name) in [(false, "built = 'text'"), (true, "'text' = built")] {
            let (l, r) = if flip { (lit_text.clone(), built.clone()) } else { (built.clone(), lit_text.clone()) };
            let e = ExpressionTree::Compare { operator: CompareOperator::Equal, left: Box::new(l), right: Box::new(r) };
            checks += 1;
            match eval_real(&[], &e) {
                Ev::Ok(Value::Bool(true)) => {}
                Ev::Ok(v) => println!("FAIL tz-same-clock-time-different-instant :: {} with the clock time {} (make_timestamp of its parts against the text literal) is {}", name, text, v),
                Ev::Err(_) => {}
                Ev::Panic(m) => println!("FAIL panic:tz :: {} with the clock time {}: {}", name, text, m),
            }
        }
    }
    checks += tz_composed(&mut rng, n);
    println!("CHECKS {}", checks);
}

fn tz_stream(run: &mut Run, p: &Params) {
    // east and west of UTC (the range-end cases need both), whole-hour, half-hour and 45-minute offsets, DST gaps at midnight, the date line
    let zones: &[&str] = if p.tier_thorough { &["CET-1CEST,M3.5.0,M10.5.0/3", "America/Sao_Paulo", "Europe/London", "Australia/Lord_Howe", "America/St_Johns", "Asia/Kathmandu", "Asia/Beirut", "Asia/Tokyo", "Pacific/Kiritimati", "Pacific/Pago_Pago", "Pacific/Chatham"] }
        else { &["CET-1CEST,M3.5.0,M10.5.0/3", "America/Sao_Paulo", "Australia/Lord_Howe", "Asia/Beirut", "Asia/Tokyo", "America/St_Johns", "Pacific/Kiritimati", "Pacific/Pago_Pago"] };
    let exe = match std::env::current_exe() { Ok(e) => e, Err(_) => return };
    for zone in zones {
        let out = std::process::Command::new(&exe).env("TZ", zone).arg("c03tz").arg(p.seed.to_string()).arg(p.n(150, 8_000).to_string()).output();
        match out {
            Ok(o) => {
                let text = String::from_utf8_lossy(&o.stdout).to_string();
                for l in text.lines() {
                    if let Some(rest) = l.strip_prefix("FAIL ") {
                        let mut it = rest.splitn(2, " :: ");
                        let class = it.next().unwrap_or("tz").to_owned();
                        run.fail(format!("TZ={} {}", zone, it.next().unwrap_or("")), &class, "under this local time zone".to_owned());
                    }
                    if let Some(c) = l.strip_prefix("CHECKS ") { run.oracle_checks += c.trim().parse().unwrap_or(0); }
                }
                run.count(&format!("tz:{}", zone));
                if !o.status.success() { run.fail(format!("TZ={}", zone), "panic:tz-child-died", format!("child exit {:?}", o.status)); }
            }
            Err(e) => run.notes.push(format!("could not start TZ child: {}", e)),
        }
    }
    run.notes.push("local time zones (child processes, zones east and west of UTC): date_trunc judged by the local civil fields of its result; composition at both ends of the range — every date_trunc / EXTRACT part and the text cast over ts ± iv, EXTRACT against the text's fields, the sum against the instant".to_owned());
}

pub fn run(p: &Params) -> Run {
    let mut run = Run::new("C03");
    let mut rng = Rng::new(p.seed ^ 0x03);
    let n = p.n(5000, 200_000);
    for i in 0..n {
        let env = gen_env(&mut rng);
        let t = any_type(&mut rng);
        let chaos = if i % 5 == 4 { 25 } else { 2 };
        let depth = 1 + rng.below(3);
        let want = if rng.chance(1, 3) { ValueType::Bool } else { t };
        let e = gen_expr(&mut rng, depth, &want, chaos);
        check_expr(&mut run, &env, &e, "");
    }
    // exhaustive operator × operand-type × operand-type table with boundary values
    let types = [ValueType::Int, ValueType::Float, ValueType::Bool, ValueType::String, ValueType::Timestamp, ValueType::Interval, ValueType::Array(Box::new(ValueType::Int))];
    let env = gen_env(&mut rng);
    let reps = p.n(1, 3);
    for lt in &types {
        for rt in &types {
            for _ in 0..reps {
                let mut operands = |rng: &mut Rng, t: &ValueType| -> ExpressionTree { if rng.chance(1, 6) { lit(Value::Null) } else { match t { ValueType::Timestamp | ValueType::Interval | ValueType::Array(_) => literal_of(rng, t), _ => lit(gen_value_of(rng, t, 0)) } } };
                for op in &[CompareOperator::Equal, CompareOperator::NotEqual, CompareOperator::GreaterThan, CompareOperator::GreaterThanOrEqual, CompareOperator::LessThan, CompareOperator::LessThanOrEqual] {
                    let e = ExpressionTree::Compare { operator: op.clone(), left: bx(operands(&mut rng, lt)), right: bx(operands(&mut rng, rt)) };
                    check_expr(&mut run, &env, &e, "tbl:");
                }
                for op in &[ArithmeticOperator::Add, ArithmeticOperator::Subtract, ArithmeticOperator::Multiply, ArithmeticOperator::Divide] {
                    let e = ExpressionTree::Arithmetic { operator: op.clone(), left: bx(operands(&mut rng, lt)), right: bx(operands(&mut rng, rt)) };
                    check_expr(&mut run, &env, &e, "tbl:");
                }
                let e = ExpressionTree::In { is_not: rng.chance(1, 2), operand: bx(operands(&mut rng, lt)), values: vec![operands(&mut rng, rt), operands(&mut rng, rt)] };
                check_expr(&mut run, &env, &e, "tbl:");
            }
        }
    }
    boundary_cases(&mut run, &env, p.tier_thorough);
    crate::c03func::function_cases(&mut run, &mut rng, p.tier_thorough);
    let n_stmt = p.n(1200, 40_000);
    select_level(&mut run, &mut rng, n_stmt);
    not_texts(&mut run, &mut rng, n_stmt / 2);
    anchor_cases(&mut run);
    ts_text_compare_cases(&mut run, &mut rng);
    input_column_cases(&mut run, &mut rng);
    tz_stream(&mut run, p);
    run.notes.push("statement level: SELECT lists mixing columns, qualified columns, expressions, `input`, `*`, aliases (also clashing ones) with WHERE; names checked against alias|column|p<i>; whole-run output = concatenation of the per-line outputs; three-way with Spec.Select".to_owned());
    run.notes.push("expression level: type-directed generator (≈ 80% well-typed, 20% with ill-typed sub-terms) + operator × type × type table".to_owned());
    // the end-to-end stream: the same property seen from raw texts and raw file bytes (`e2e.rs`, Lean `Pipeline.runText`)
    crate::e2e::stream(&mut run, &mut Rng::new(p.seed ^ 0xe2e03), p.n(250, 3000), "select");
    // REAL arithmetic of the Lean model (exact integer arithmetic on bit patterns) against Rust's / the hardware's
    let before = run.cases.len();
    crate::f64cases::arith_stream(&mut run, &mut Rng::new(p.seed ^ 0xA217), p.n(2500, 60_000));
    run.notes.push(format!("f64arith cases (Lean F64.add/sub/mul/div/sqrt/ofInt vs Rust): {}", run.cases.len() - before));
    run
}

/// exhaustive boundary tables: INT x INT arithmetic (overflow, MIN / -1, zero divisors) and INT x REAL comparisons
/// (values around 2^53 and 2^63 where rounding the INT would change the answer)
/// `array_unique` over arrays with many equal-but-not-identical and identical elements (NaN twice and with different
/// payloads, -0.0 / 0.0, infinities, i64 extremes, NULL elements, nested arrays): correspondence with the model's
/// `uniqueValues`, and on the implementation the meaning of "unique" itself — no two elements of the result are equal,
/// every element of the input is equal to one of the result and vice versa, and the result is the same for every order
/// of the input (C16: one total order consistent with equality, also for NaN)
pub fn array_unique_cases(run: &mut Run, rng: &mut Rng, n: usize) {
    let nan_bits: &[u64] = &[0x7ff8000000000000, 0xfff8000000000000, 0x7ff0000000000001, 0x7fffffffffffffff];
    for _ in 0..n {
        let (t, pool): (ValueType, Vec<Value>) = match rng.below(6) {
            0 | 1 | 2 => {
                let mut pool: Vec<Value> = Vec::new();
                for _ in 0..1 + rng.below(4) { pool.push(Value::Float(Float(f64::from_bits(*rng.pick(nan_bits))))); }
                for b in &[0x0000000000000000u64, 0x8000000000000000, 0x7ff0000000000000, 0xfff0000000000000, 0x3ff8000000000000, 0x3ff8000000000000] { if rng.chance(1, 2) { pool.push(Value::Float(Float(f64::from_bits(*b)))); } }
                for _ in 0..rng.below(3) { pool.push(Value::Float(Float(f64::from_bits(gen_f64_bits(rng))))); }
                (ValueType::Float, pool)
            }
            3 => (ValueType::Int, (0..2 + rng.below(5)).map(|_| Value::Int(*rng.pick(&[0i64, 1, 1, -1, i64::MAX, i64::MIN, 7]))).collect()),
            4 => (ValueType::String, (0..2 + rng.below(5)).map(|_| Value::String((*rng.pick(&["a", "a", "b", "", "é", "A"])).to_owned())).collect()),
            _ => { let t = gen_scalar_type(rng); let pool = (0..2 + rng.below(5)).map(|_| gen_value_of(rng, &t, 0)).collect(); (t, pool) }
        };
        let mut xs: Vec<Value> = (0..rng.below(9)).map(|_| rng.pick(&pool).clone()).collect();
        if rng.chance(1, 4) && !xs.is_empty() { let k = rng.below(xs.len() + 1); xs.insert(k, Value::Null); }
        let arr = Value::Array(t.clone(), xs.clone());
        let e = call(Function::ArrayUnique, vec![lit(arr.clone())]);
        check_expr(run, &[], &e, "unique:");
        run.oracle_checks += 1;
        let desc = format!("array_unique({})", arr);
        match eval_real(&[], &e) {
            Ev::Ok(Value::Array(_, ys)) => {
                let dup = (0..ys.len()).any(|i| (0..i).any(|j| ys[i] == ys[j]));
                let covers = xs.iter().all(|x| ys.iter().any(|y| y == x)) && ys.iter().all(|y| xs.iter().any(|x| y == x));
                if dup || !covers {
                    run.fail(desc, if dup { "array-unique-keeps-equal-elements" } else { "array-unique-loses-or-invents-elements" }, format!("result {}", Value::Array(t.clone(), ys.clone())));
                    continue;
                }
                // order of the input is irrelevant
                let mut rev = xs.clone(); rev.reverse();
                if let Ev::Ok(Value::Array(_, zs)) = eval_real(&[], &call(Function::ArrayUnique, vec![lit(Value::Array(t.clone(), rev))])) {
                    if zs.len() != ys.len() || !zs.iter().zip(ys.iter()).all(|(a, b)| a == b) {
                        run.fail(desc, "array-unique-depends-on-input-order", format!("{} vs reversed input {}", Value::Array(t.clone(), ys.clone()), Value::Array(t.clone(), zs.clone())));
                    }
                }
            }
            Ev::Ok(v) => run.fail(desc, "array-unique-not-an-array", format!("gave {}", v)),
            Ev::Err(_) => {}
            Ev::Panic(m) => run.fail(desc, "panic:array-unique", m),
        }
    }
}

/// ANCHORS: a small table of calls with the answer written down by hand from the README's signatures and the usual
/// meaning of the words — for the places where the oracle would otherwise only repeat the library call the code makes
/// (`pow` / `sqrt` on REAL, `regex_matches`: a search, not a full match; first argument the text, second the pattern)
/// "`input` denoting the raw line" — also in a table that has a COLUMN named `input` (a JSON log with an `input` field, a regex
/// group called so): `input` in a projection, in WHERE and as an argument is the raw line, `*` still lists the column's value
pub fn input_column_cases(run: &mut Run, rng: &mut Rng) {
    use crate::c04::join_lines;
    use crate::engine_run::{batch_case, prepare, run_files};
    const DEFS: &[&str] = &[
        "CREATE TABLE t(line = '^([a-z]+);([a-z ]*)$', line[1] => k TEXT, line[2] => input TEXT);",
        "CREATE TABLE t(line = '^([a-z]+);([a-z ]*)$', line[2] => input TEXT, line[1] => k TEXT);",
        "CREATE TABLE t({ .input } => input TEXT, { .k } => k TEXT);",
    ];
    for (di, defs) in DEFS.iter().enumerate() {
        for _ in 0..6 {
            let n = 1 + rng.below(4);
            let lines: Vec<String> = (0..n).map(|_| {
                let k = *rng.pick(&["a", "b", "zz"]); let v = *rng.pick(&["hello", "describe a cat", "", "x"]);
                if di == 2 { format!("{{\"k\": \"{}\", \"input\": \"{}\"}}", k, v) } else { format!("{};{}", k, v) }
            }).collect();
            for q in ["SELECT input FROM t", "SELECT k, input FROM t", "SELECT length(input) AS n, k FROM t", "SELECT k FROM t WHERE input != 'x'"] {
                let prepared = match prepare(defs, q) { Ok(p) => p, Err(_) => { run.count("input-column:rejected"); continue; } };
                let files = vec![join_lines(&lines)];
                let out = run_files(&prepared, &files);
                let desc = format!("defs={} query={} input={:?}", defs, q, lines);
                if let Some(case) = batch_case(&prepared, b"", &files, None) {
                    run.case_with_desc(case, out.wire(), format!("input-column:{}:{}", di, out.status), desc.clone());
                }
                run.oracle_checks += 1;
                if out.status != "ok" { run.fail(desc, "input-column-run-fails", format!("the run answers {}", out.status)); continue; }
                let want: Vec<String> = match q {
                    "SELECT input FROM t" => lines.iter().map(|l| format!("'{}'", l)).collect(),
                    "SELECT k, input FROM t" => lines.iter().map(|l| { let k = if di == 2 { l.split('"').nth(3).unwrap_or("") } else { l.split(';').next().unwrap_or("") }; format!("k: '{}', input: '{}'", k, l) }).collect(),
                    "SELECT length(input) AS n, k FROM t" => lines.iter().map(|l| { let k = if di == 2 { l.split('"').nth(3).unwrap_or("") } else { l.split(';').next().unwrap_or("") }; format!("n: {}, k: '{}'", l.chars().count(), k) }).collect(),
                    _ => lines.iter().map(|l| { let k = if di == 2 { l.split('"').nth(3).unwrap_or("") } else { l.split(';').next().unwrap_or("") }; format!("k: '{}'", k) }).collect(),
                };
                if out.records() != want {
                    run.fail(desc, "input-is-not-the-raw-line", format!("printed {:?}; with `input` the raw line the records are {:?}", out.records(), want));
                }
            }
        }
    }
}

/// a TIMESTAMP compared with a TEXT that is a timestamp literal — every operator, BOTH operand orders (`'text' > ts` must not be
/// read as `ts > 'text'`), texts equal to / before / after the timestamp, and texts that are no literal
pub fn ts_text_compare_cases(run: &mut Run, rng: &mut Rng) {
    use CompareOperator::*;
    let env = gen_env(rng);
    let texts = ["2000-01-01 00:00:00", "1999-12-31 23:59:59", "2000-01-01 00:00:01", "2024-02-29 13:45:12", "2024-02-29 13:45:13", "1970-01-01 00:00:00",
                 "9999-12-31 23:59:59", "0001-01-01 00:00:00", "2000-1-1 0:0:0", " 2000-01-01 00:00:00", "2000-01-01", "yesterday", ""];
    let stamps: Vec<Value> = crate::c03func::sample_timestamps().into_iter().map(Value::Timestamp).collect();
    for ts in &stamps {
        for t in &texts {
            for op in [Equal, NotEqual, GreaterThan, GreaterThanOrEqual, LessThan, LessThanOrEqual] {
                let a = ExpressionTree::Compare { operator: op.clone(), left: Box::new(ExpressionTree::Value(ts.clone())), right: Box::new(ExpressionTree::Value(Value::String((*t).to_owned()))) };
                let b = ExpressionTree::Compare { operator: op.clone(), left: Box::new(ExpressionTree::Value(Value::String((*t).to_owned()))), right: Box::new(ExpressionTree::Value(ts.clone())) };
                check_expr(run, &env, &a, "tscmp:ts-text:");
                check_expr(run, &env, &b, "tscmp:text-ts:");
            }
        }
    }
}

pub fn anchor_cases(run: &mut Run) {
    let r = |x: f64| lit(Value::Float(Float(x)));
    let t = |x: &str| lit(Value::String(x.to_owned()));
    let i = |x: i64| lit(Value::Int(x));
    let table: Vec<(ExpressionTree, Value)> = vec![
        (call(Function::Pow, vec![r(2.0), r(3.0)]), Value::Float(Float(8.0))),
        (call(Function::Pow, vec![r(3.0), r(2.0)]), Value::Float(Float(9.0))),
        (call(Function::Pow, vec![r(4.0), r(0.5)]), Value::Float(Float(2.0))),
        (call(Function::Pow, vec![r(7.5), r(0.0)]), Value::Float(Float(1.0))),
        (call(Function::Pow, vec![r(2.0), r(-1.0)]), Value::Float(Float(0.5))),
        (call(Function::Pow, vec![i(2), i(10)]), Value::Int(1024)),
        (call(Function::Pow, vec![i(10), i(2)]), Value::Int(100)),
        (call(Function::Sqrt, vec![r(9.0)]), Value::Float(Float(3.0))),
        (call(Function::Sqrt, vec![r(2.25)]), Value::Float(Float(1.5))),
        (call(Function::Sqrt, vec![r(0.0)]), Value::Float(Float(0.0))),
        (call(Function::RegexMatches, vec![t("abc"), t("b")]), Value::Bool(true)),
        (call(Function::RegexMatches, vec![t("abc"), t("^b")]), Value::Bool(false)),
        (call(Function::RegexMatches, vec![t("abc"), t("c$")]), Value::Bool(true)),
        (call(Function::RegexMatches, vec![t("b"), t("abc")]), Value::Bool(false)),
        (call(Function::RegexMatches, vec![t("hello world"), t("l{2}")]), Value::Bool(true)),
        (call(Function::RegexMatches, vec![t("a.c"), t("a\\.c")]), Value::Bool(true)),
        (call(Function::RegexMatches, vec![t("abc"), t("a\\.c")]), Value::Bool(false)),
        (call(Function::Greatest, vec![r(1.5), r(-2.0)]), Value::Float(Float(1.5))),
        (call(Function::Least, vec![r(1.5), r(-2.0)]), Value::Float(Float(-2.0))),
        (call(Function::Abs, vec![r(-2.5)]), Value::Float(Float(2.5))),
        (call(Function::StringLength, vec![t("na\u{ef}ve")]), Value::Int(5)),
        (call(Function::StringToUpper, vec![t("abc-1")]), Value::String("ABC-1".to_owned())),
        (call(Function::StringToLower, vec![t("AbC-1")]), Value::String("abc-1".to_owned())),
        (call(Function::ArrayLength, vec![lit(Value::Array(ValueType::Int, vec![Value::Int(4), Value::Int(5), Value::Int(6)]))]), Value::Int(3)),
        (ExpressionTree::ArrayElementAccess { array: bx(lit(Value::Array(ValueType::Int, vec![Value::Int(4), Value::Int(5), Value::Int(6)]))), index: bx(i(1)) }, Value::Int(4)),
        (ExpressionTree::ArrayElementAccess { array: bx(lit(Value::Array(ValueType::Int, vec![Value::Int(4), Value::Int(5), Value::Int(6)]))), index: bx(i(3)) }, Value::Int(6)),
        (ExpressionTree::Arithmetic { operator: ArithmeticOperator::Subtract, left: bx(r(5.0)), right: bx(r(1.5)) }, Value::Float(Float(3.5))),
        (ExpressionTree::Arithmetic { operator: ArithmeticOperator::Divide, left: bx(r(5.0)), right: bx(r(2.0)) }, Value::Float(Float(2.5))),
        (ExpressionTree::Arithmetic { operator: ArithmeticOperator::Divide, left: bx(i(7)), right: bx(i(2)) }, Value::Int(3)),
        (ExpressionTree::Arithmetic { operator: ArithmeticOperator::Divide, left: bx(i(-7)), right: bx(i(2)) }, Value::Int(-3)),
    ];
    for (e, want) in table {
        check_expr(run, &[], &e, "anchor:");
        run.oracle_checks += 1;
        match eval_real(&[], &e) {
            Ev::Ok(v) if bits_equal(&v, &want) => {}
            other => run.fail(format!("expr={}", e), "anchor-differs", format!("written down by hand: {}; evaluation gave {}", want, other.wire())),
        }
    }
}

pub fn boundary_cases(run: &mut Run, env: &[(String, Value)], thorough: bool) {
    for x in INT_EDGES {
        for y in INT_EDGES {
            for op in &[ArithmeticOperator::Add, ArithmeticOperator::Subtract, ArithmeticOperator::Multiply, ArithmeticOperator::Divide] {
                let e = ExpressionTree::Arithmetic { operator: op.clone(), left: bx(lit(Value::Int(*x))), right: bx(lit(Value::Int(*y))) };
                check_expr(run, env, &e, "edge:");
            }
        }
    }
    let ops: Vec<CompareOperator> = if thorough {
        vec![CompareOperator::Equal, CompareOperator::NotEqual, CompareOperator::GreaterThan, CompareOperator::GreaterThanOrEqual, CompareOperator::LessThan, CompareOperator::LessThanOrEqual]
    } else {
        vec![CompareOperator::Equal, CompareOperator::LessThan, CompareOperator::GreaterThanOrEqual]
    };
    for x in INT_EDGES {
        let mut floats: Vec<u64> = F64_EDGE_BITS.to_vec();
        let near = *x as f64;
        floats.push(near.to_bits());
        floats.push(near.to_bits().wrapping_add(1));
        floats.push(near.to_bits().wrapping_sub(1));
        for fb in floats {
            for op in &ops {
                let f = lit(Value::Float(Float(f64::from_bits(fb))));
                let i = lit(Value::Int(*x));
                let e = ExpressionTree::Compare { operator: op.clone(), left: bx(i.clone()), right: bx(f.clone()) };
                check_expr(run, env, &e, "edge:");
                let e = ExpressionTree::Compare { operator: op.clone(), left: bx(f.clone()), right: bx(i.clone()) };
                check_expr(run, env, &e, "edge:");
            }
            let e = ExpressionTree::In { is_not: false, operand: bx(lit(Value::Int(*x))), values: vec![lit(Value::Float(Float(f64::from_bits(fb))))] };
            check_expr(run, env, &e, "edge:");
        }
    }
    // REAL x REAL comparisons over the edge values (signed zeros, infinities, subnormals, extremes): "numbers compare
    // numerically", so -0.0 = 0.0 and the order is the order of the reals (NaN operands are left open by the oracle)
    for xb in F64_EDGE_BITS {
        for yb in F64_EDGE_BITS {
            for op in &ops {
                let e = ExpressionTree::Compare { operator: op.clone(), left: bx(lit(Value::Float(Float(f64::from_bits(*xb))))), right: bx(lit(Value::Float(Float(f64::from_bits(*yb))))) };
                check_expr(run, env, &e, "edge:");
            }
        }
    }
}
