import SqlgrepModel.Model.Reader
namespace Sqlgrep.Props.C12
open Sqlgrep.Reader

example : lines [97, 13, 10, 98] = [.ok [97], .ok [98]] := by rfl

end Sqlgrep.Props.C12
