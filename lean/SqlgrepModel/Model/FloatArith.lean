import SqlgrepModel.Model.Value
import SqlgrepModel.Model.DecFloat
/-
IEEE-754 binary64 arithmetic on bit patterns, in exact integer arithmetic (no `Float`): `+ − × ÷ sqrt` and `i64 as f64`
are *the correctly rounded (nearest, ties to even) result of the exact operation on the values of the operands*, which
is what the standard demands and what the hardware Rust runs on delivers. The exact result of an operation on two
finite patterns is a rational `N / D` in terms of the operands' whole numbers of units of 2^-1074 (`units`, `umag`: the sum
is `units a + units b` units, the product `umag a · umag b / 2^1074` units, the quotient the ratio of the unit counts, a square
root is bracketed by an integer square root with a sticky bit); `DecFloat.magBits N D` rounds it (`Lemmas/DecFloat.lean`
`magBits_nearest`, `magBits_tie_even`, `magBits_overflow_iff`). The special cases are those of the standard in the default
rounding mode:
* a NaN operand, `inf − inf`, `0 · inf`, `0 / 0`, `inf / inf`, `sqrt` of a negative number give NaN — the canonical quiet
  NaN `canonNaN` (payloads and the sign of a NaN are not observable in sqlgrep; the drivers canonicalise answers);
* an exact zero sum is `+0` unless both operands are `−0`; a zero product / quotient has the XOR of the signs;
  `sqrt(−0) = −0`;
* `x / 0 = ±inf` for `x ≠ 0`, `x / inf = ±0`, `inf · x = ±inf`; overflow gives `±inf`, underflow goes through the
  subnormals to `±0` (both are part of `magBits`).
`pow` is NOT here: Rust's `f64::powf` is the platform's libm, which is not correctly rounded — it stays a shipped fact.
-/
namespace Sqlgrep
namespace F64

def canonNaN : Nat := 0x7ff8000000000000
def signMask : Nat := 2 ^ 63
def posInf : Nat := 0x7ff0000000000000

/-! exact decomposition of a finite pattern: value = (-1)^s · m · 2^e -/
def expBits (n : Nat) : Nat := n / 2^52 % 2^11
def fracBits (n : Nat) : Nat := n % 2^52
def isInf (n : Nat) : Bool := mag n == 0x7ff0000000000000
/-- integer mantissa and binary exponent of a finite pattern -/
def mantExp (n : Nat) : Nat × Int :=
  if expBits n == 0 then (fracBits n, -1074) else (2^52 + fracBits n, (expBits n : Int) - 1075)

/-- magnitude in units of 2^-1074 (the spacing of the subnormals; every finite REAL is a whole number of units) -/
def umag (n : Nat) : Nat := (mantExp n).1 * 2 ^ ((mantExp n).2 + 1074).toNat

/-- the exact value in units of 2^-1074, an integer -/
def units (n : Nat) : Int := if signBit n then -(umag n : Int) else (umag n : Int)

/-- `2^1074`: the number of units in 1 -/
def unitScale : Nat := DecFloat.unitScale

/-- the pattern with sign `neg` and magnitude bits `m` -/
def withSign (neg : Bool) (m : Nat) : Nat := if neg then signMask + m else m

/-- `a + b`: the exact sum is `units a + units b` units -/
def addX (a b : Nat) : Nat :=
  if isNaN a || isNaN b then canonNaN
  else if isInf a then (if isInf b && (signBit a != signBit b) then canonNaN else withSign (signBit a) posInf)
  else if isInf b then withSign (signBit b) posInf
  else
    let u : Int := units a + units b
    if u = 0 then (if signBit a && signBit b then signMask else 0)
    else withSign (decide (u < 0)) (DecFloat.magBits u.natAbs unitScale)

/-- flips the sign bit -/
def negX (a : Nat) : Nat := if a / 2^63 % 2 == 1 then a - 2^63 else a + 2^63

/-- `a − b = a + (−b)` -/
def subX (a b : Nat) : Nat := addX a (negX b)

/-- `a · b`: the exact product is `umag a · umag b / 2^1074` units -/
def mulX (a b : Nat) : Nat :=
  if isNaN a || isNaN b then canonNaN
  else
    let neg := signBit a != signBit b
    if isInf a then (if mag b = 0 then canonNaN else withSign neg posInf)
    else if isInf b then (if mag a = 0 then canonNaN else withSign neg posInf)
    else withSign neg (DecFloat.magBits (umag a * umag b) (unitScale * unitScale))

/-- `a / b`: the exact quotient is the ratio of the unit counts -/
def divX (a b : Nat) : Nat :=
  if isNaN a || isNaN b then canonNaN
  else
    let neg := signBit a != signBit b
    if isInf a then (if isInf b then canonNaN else withSign neg posInf)
    else if isInf b then withSign neg 0
    else if mag b = 0 then (if mag a = 0 then canonNaN else withSign neg posInf)
    else withSign neg (DecFloat.magBits (umag a) (umag b))

/-- `⌊√n⌋` for `n < 4^bits`, bit by bit from the top (structural recursion, so the kernel can evaluate it) -/
def isqrtAux (n : Nat) : Nat → Nat → Nat
  | 0, r => r
  | i + 1, r => if (r + 2 ^ i) * (r + 2 ^ i) ≤ n then isqrtAux n i (r + 2 ^ i) else isqrtAux n i r

def isqrt (n : Nat) : Nat := isqrtAux n (n.log2 / 2 + 1) 0

/-- `sqrt a`. A positive finite `a` is `u = umag a ≥ 1` units, i.e. `u · 2^-1074`, so `√a = √(u · 2^112) · 2^-593`. With
`M = u · 2^112 ≥ 2^112` and `s = ⌊√M⌋ ≥ 2^56`, `√M` lies in `[s, s+1)`. No REAL and no midpoint between two adjacent REALs lies
strictly between `s` and `s + 1` (in units of `2^-593` they are multiples of 4 resp. 2, `s` having at least 57 bits), and `√M` is
never such a midpoint itself (its square would need more than 53 significant bits), so `√M` rounds like `s` when `M` is a perfect
square and like `s + ½` when it is not: the number rounded is `(2s + sticky) / 2^594`. -/
def sqrtX (a : Nat) : Nat :=
  if isNaN a then canonNaN
  else if mag a = 0 then a
  else if signBit a then canonNaN
  else if isInf a then a
  else
    let bigM := umag a * 2 ^ 112
    let s := isqrt bigM
    let sticky := if s * s = bigM then 0 else 1
    DecFloat.magBits (2 * s + sticky) (2 ^ 594)

/-- `i as f64` -/
def ofIntX (i : Int) : Nat := DecFloat.decToF64 (decide (i < 0)) i.natAbs 0

/-- clears the sign bit -/
def absX (a : Nat) : Nat := a % 2^63

end F64
end Sqlgrep
