import SqlgrepModel.Model.Exec
/-
Executable SPECIFICATION of joins (property C05), written from the property sentence: a nested loop.
The rows a statement sees are, for every admitted row `r` of the queried input in input order, the pairs
`(r, s)` with `s` ranging over the admitted rows of the joined file in file order whose join columns hold
equal non-NULL values; with OUTER JOIN (non-aggregate query) an `r` without partner yields one row whose
joined side is all NULL. No index, no hashing.
-/
namespace Sqlgrep.Spec.Join
open Sqlgrep

/-- a line is admitted when its row has a non-NULL column (C06) -/
def admitted (l : Line) : Bool := anyResult l.row

/-- the admitted rows of a file, in file order -/
def admittedRows (lines : List Line) : List (List Value) := (lines.filter admitted).map (·.row)

/-- the value a row holds in the named column (NULL when the row is too short) -/
def keyOf (cols : List String) (col : String) (row : List Value) : Value :=
  match indexOf? cols col with
  | some i => row.getD i .null
  | none => .null

/-- the join condition: equal non-NULL values (`==` of the value algebra, C16) -/
def keysMatch (a b : Value) : Bool := !a.isNull && !b.isNull && Value.beq a b

/-- what the pair `(r, s)` presents to the statement: the name → value bindings and the column list of `*`
(characterised by `Props.C05.join_names_*`) -/
def pairRow (t : TableInfo) (j : JoinInfo) (r : Line) (s : List Value) : Env × List String :=
  let (ins, keys) := joinedMapping t r.row r.text j s
  (envOfInsertions ins, keys)

/-- the partners of `r`: the joined rows, in file order, whose key equals `r`'s -/
def partners (qy : Query) (j : JoinInfo) (joined : List (List Value)) (r : Line) : List (List Value) :=
  joined.filter (fun s => keysMatch (keyOf qy.table.columns j.joinerColumn r.row) (keyOf j.joined.columns j.joinedColumn s))

/-- the rows the statement sees for one admitted row `r` of the queried input -/
def rowsOf (qy : Query) (j : JoinInfo) (joined : List (List Value)) (allowOuter : Bool) (r : Line) :
    List (Env × List String) :=
  let ps := partners qy j joined r
  if ps.isEmpty && j.isOuter && allowOuter then
    [pairRow qy.table j r (List.replicate j.joined.columns.length .null)]
  else ps.map (pairRow qy.table j r)

/-- **the nested loop**: all rows the statement sees, ordered by `r`'s position, then `s`'s position -/
def specJoin (qy : Query) (j : JoinInfo) (joinedLines : List Line) (allowOuter : Bool) (lines : List Line) :
    List (Env × List String) :=
  (lines.filter admitted).flatMap (rowsOf qy j (admittedRows joinedLines) allowOuter)

/-! ### whole batch runs over the nested loop (answered by the driver next to the model's answer) -/

/-- a non-aggregate statement over the joined rows of each line (WHERE, projections, DISTINCT are C03/C08's) -/
def selectLoop (O : Oracles) (q : SelectStmt) (rows : Line → List (Env × List String)) :
    List Line → List (List Value) → Outcome (List String)
  | [], _ => .ok []
  | l :: rest, seen => do
    let (seen', r) ← selectEnvs O q (rows l) seen none
    let more ← selectLoop O q rows rest seen'
    pure ((match r with
      | some r => printResult r false
      | none => []) ++ more)

/-- an aggregate statement over the joined rows of each line (the aggregation itself is C04's) -/
def aggLoop (O : Oracles) (q : AggStmt) (rows : Line → List (Env × List String)) :
    List Line → AggState → Outcome AggState
  | [], st => .ok st
  | l :: rest, st => do
    let (st', _) ← aggEnvs O q (rows l) st false
    aggLoop O q rows rest st'

/-- the specification's answer for a batch run of a statement with a join, with the class of the case; `none`
where the property sentence does not fix the outcome (LIMIT is C07's, unreadable lines C12's, evaluation
errors C03's) -/
def batch (O : Oracles) (qy : Query) (joined : List FileLine) (files : List (List FileLine)) : Option (RunOut × String) :=
  match qy.join with
  | none => none
  | some j =>
    if joined.any (fun fl => !fl.readable) || files.any (fun f => f.any (fun fl => !fl.readable)) then none
    else if (indexOf? qy.table.columns j.joinerColumn).isNone || (indexOf? j.joined.columns j.joinedColumn).isNone then
      -- a missing join column is an error, never an empty result (the kind mirrors the code)
      some ({ error := some .columnNotFound }, "missing-column")
    else
      let lines := files.flatten.map (·.line)
      let jrows := admittedRows (joined.map (·.line))
      let cls := (if j.isOuter then "outer" else "inner")
      match qy.stmt with
      | .select q =>
        if q.limit.isSome then none
        else match selectLoop O q (rowsOf qy j jrows true) (lines.filter admitted) [] with
          | .ok printed => some ({ printed := printed, totalLines := lines.length }, "join-select-" ++ cls)
          | _ => none
      | .aggregate q =>
        match aggLoop O q (rowsOf qy j jrows false) (lines.filter admitted) {} with
        | .ok st =>
          match finalResult O q { agg := st } with
          | .ok r => some ({ printed := printResult r true, totalLines := lines.length }, "join-aggregate-" ++ cls)
          | _ => none
        | _ => none

end Sqlgrep.Spec.Join
