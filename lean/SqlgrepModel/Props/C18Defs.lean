import SqlgrepModel.Props.C18Text
/-
C18, "irrespective of which other tables are defined", for definition TEXTS that are sequences of statements (audit item
M14; audited with `Props/C18.lean` and `Props/C18Text.lean` by `./check C18`).

A definition text is a sequence of `CREATE TABLE … ;` statements; `parsing::parse` turns it into the list of the lowered
statements (`stmtsOf`), `Tables::add_tables` inserts them into a `HashMap` in that order. This file states, over the whole
program `Pipeline.runText`:

* **statements under other names, anywhere** (`unrelated_statements_irrelevant`, `unrelated_definitions_irrelevant`): two
  accepted definition texts whose statements *that define the queried table's name or the joined table's name* are the
  same, in the same order — whatever other statements stand before, between or after them, in whatever order — give the
  same answer for every query text, format and input. (`Props/C18Text.other_definitions_irrelevant` is the special case
  "the second text has further statements before and after".) In particular the order of the definitions of DIFFERENT
  names is immaterial (`definition_order_irrelevant` as an example).
* **a name defined twice: the last definition wins** (`earlier_definition_of_same_name_irrelevant`,
  `redefinition_replaces`): a statement whose name is defined again later in the text might as well not be there; so a
  text that defines `t` twice answers like the text with the second definition only. (`HashMap::insert`; the sentence of
  C18 does not speak about this case, the model mirrors the code and the `e2e` cases of `harness/src/c18.rs` compare them.)
* **honest limits** (`rejected_definitions_never_run`, `not_create_table_never_run`): a definition text of which ANY part
  is not accepted — a statement that does not parse, a pattern `Regex::new` rejects, an unknown type, a statement that is
  not a CREATE TABLE — is rejected as a whole: the answer is `rejected` / `notCreateTable`, never a run, so never a run over
  a different set of tables. Adding a broken definition is therefore NOT harmless, and is not claimed to be.
* **concatenating texts** (section "texts", below): what `parsing::parse` makes of `A ++ B` when `A` ends cleanly after a
  `;` (`Lex.CleanEnd`: not inside a string, a comment, an escape, a word or a number) — the statements of `A` followed by
  the statements of `B` — and what it makes of it otherwise (examples: an unterminated comment or string at the end of
  `A` swallows the beginning of `B`; then the tables of `B` are NOT defined and a query over them fails with
  `TableNotFound` — the answer changes, which is why the hypothesis is there).

`\d` and tab completion of the interactive shell list `Tables::tables()` in hash order; they are outside `runText` and
outside the property, which is about query output.
-/
namespace Sqlgrep.Props.C18Defs
open Sqlgrep Sqlgrep.Pipeline
open Sqlgrep.Props.Pipeline (exFacts exDefs recordsOf)

/-! ### statements and the tables they define -/

/-- the statements of a lowered definition text -/
def stmtsOf : LStmt → List LStmt
  | .multiple ss => ss
  | s => [s]

/-- the name a CREATE TABLE statement defines -/
def definedName : LStmt → Option String
  | .createTable n _ _ => some n
  | _ => none

/-- the statement defines the queried table's name or the joined table's name -/
def relevant (fromTable : String) (join : Option LJoin) (s : LStmt) : Bool :=
  match definedName s with
  | some n => n == fromTable || (match join with
    | some j => n == j.joinedTable
    | none => false)
  | none => false

/-- `Tables::add_tables`: every statement must be a CREATE TABLE; the tables in statement order -/
theorem addTables_eq (defs : LStmt) : addTables defs = (stmtsOf defs).mapM Pipeline.tableOf := by
  cases defs <;> simp [addTables, stmtsOf, Option.map] <;> cases Pipeline.tableOf _ <;> rfl

theorem tableOf_name (s : LStmt) (t : Table) (h : Pipeline.tableOf s = some t) : definedName s = some t.name := by
  cases s <;> simp [Pipeline.tableOf] at h
  subst h; rfl

/-- the tables of a given name, in order, are the tables of the statements that define that name -/
theorem tables_named (n : String) : ∀ (ss : List LStmt) (ts : List Table), ss.mapM Pipeline.tableOf = some ts →
    ts.filter (fun t => t.name == n) = (ss.filter (fun s => definedName s == some n)).filterMap Pipeline.tableOf := by
  intro ss
  induction ss with
  | nil => intro ts h; simp at h; subst h; rfl
  | cons s ss ih =>
    intro ts h
    rw [List.mapM_cons] at h
    cases hs : Pipeline.tableOf s with
    | none => rw [hs] at h; simp at h
    | some t =>
      rw [hs] at h
      cases hr : ss.mapM Pipeline.tableOf with
      | none => rw [hr] at h; simp at h
      | some tr =>
        rw [hr] at h
        simp only [Option.pure_def, Option.bind_eq_bind, Option.bind_some, Option.some.injEq] at h
        subst h
        have hn := tableOf_name s t hs
        by_cases hq : (t.name == n) = true
        · have : (definedName s == some n) = true := by rw [hn]; simpa using hq
          simp [List.filter, hq, this, hs, ih tr hr]
        · have hq' : (t.name == n) = false := by simpa using hq
          have : (definedName s == some n) = false := by rw [hn]; simpa using hq
          simp [List.filter, hq', this, ih tr hr]

/-- among the statements that matter to the query, those that define one given name -/
theorem filter_named_of_relevant (fromTable : String) (join : Option LJoin) (n : String)
    (hn : n = fromTable ∨ ∃ j, join = some j ∧ n = j.joinedTable) (ss : List LStmt) :
    ss.filter (fun s => definedName s == some n) =
      (ss.filter (relevant fromTable join)).filter (fun s => definedName s == some n) := by
  rw [List.filter_filter]
  congr 1
  funext s
  by_cases h : (definedName s == some n) = true
  · have hd : definedName s = some n := by simpa using h
    have : relevant fromTable join s = true := by
      unfold relevant
      rw [hd]
      rcases hn with rfl | ⟨j, rfl, rfl⟩ <;> simp
    simp [h, this]
  · have : (definedName s == some n) = false := by simpa using h
    simp [this]

/-- **statements under other names are irrelevant, wherever they stand.** Two lists of CREATE TABLE statements whose
sub-lists of the statements defining the queried name or the joined name coincide: the run of the statement is the same -/
theorem unrelated_statements_irrelevant (F : Facts) (ss ss' : List LStmt) (ts ts' : List Table)
    (stmt : Stmt) (fromTable : String) (join : Option LJoin) (files : List (List Nat))
    (ht : ss.mapM Pipeline.tableOf = some ts) (ht' : ss'.mapM Pipeline.tableOf = some ts')
    (hrel : ss.filter (relevant fromTable join) = ss'.filter (relevant fromTable join)) :
    runStatement F ts stmt fromTable join files = runStatement F ts' stmt fromTable join files := by
  apply Props.C18.other_tables_irrelevant
  · rw [tables_named fromTable ss ts ht, tables_named fromTable ss' ts' ht',
      filter_named_of_relevant fromTable join fromTable (Or.inl rfl) ss,
      filter_named_of_relevant fromTable join fromTable (Or.inl rfl) ss', hrel]
  · intro j hj
    rw [tables_named j.joinedTable ss ts ht, tables_named j.joinedTable ss' ts' ht',
      filter_named_of_relevant fromTable join j.joinedTable (Or.inr ⟨j, hj, rfl⟩) ss,
      filter_named_of_relevant fromTable join j.joinedTable (Or.inr ⟨j, hj, rfl⟩) ss', hrel]

/-- a definition text is accepted by the program (and the case ships `Regex::new` for its patterns): it lowers to `defs`,
whose statements are all CREATE TABLE -/
structure Accepted (F : Facts) (defsText : List Char) (defs : LStmt) (tables : List Table) : Prop where
  classes : classesCover F defsText = true
  parsed : parseText (lexOracles F) (regexValidFn F) defsText = .stmt defs
  shipped : (createPatterns defs).all (fun re => ((Utf8.decode re).bind (regexValidOf F)).isSome) = true
  tables : addTables defs = some tables

/-- **C18 at text level, statements interleaved.** Two accepted definition texts whose statements defining the queried
table's name / the joined table's name are the same and in the same order — further CREATE TABLE statements under other
names before, between, after them, in any order — : for every query text, output format and input the program answers
the same (printed lines, error, line count). -/
theorem unrelated_definitions_irrelevant (F : Facts) (defsText defsText' queryText : List Char) (fmt : Print.Format)
    (single : Bool) (files : List (List Nat)) (defs defs' query : LStmt) (tables tables' : List Table)
    (stmt : Stmt) (fromTable : String) (join : Option LJoin)
    (ha : Accepted F defsText defs tables) (ha' : Accepted F defsText' defs' tables')
    (hcq : classesCover F queryText = true)
    (hq : parseText (lexOracles F) (regexValidFn F) queryText = .stmt query)
    (hs : stmtOf query = some (stmt, fromTable, join))
    (hrel : (stmtsOf defs).filter (relevant fromTable join) = (stmtsOf defs').filter (relevant fromTable join)) :
    runText F defsText' queryText fmt single files = runText F defsText queryText fmt single files := by
  have ht := ha.tables; have ht' := ha'.tables
  rw [runText_eq_runLowered F defsText' queryText fmt single files defs' query ⟨ha'.classes, hcq⟩ ha'.parsed ha'.shipped hq,
    runText_eq_runLowered F defsText queryText fmt single files defs query ⟨ha.classes, hcq⟩ ha.parsed ha.shipped hq,
    runLowered_eq_opt F defs' query fmt single files _ stmt fromTable join ht' hs,
    runLowered_eq_opt F defs query fmt single files _ stmt fromTable join ht hs]
  rw [addTables_eq] at ht ht'
  rw [unrelated_statements_irrelevant F (stmtsOf defs') (stmtsOf defs) tables' tables stmt fromTable join files ht' ht hrel.symm]

/-! ### a name defined twice -/

/-- looking a name up does not see a definition that is followed by another definition of the same name -/
theorem getTable_drop_shadowed (pre post : List Table) (t : Table) (h : ∃ u ∈ post, u.name = t.name) (n : String) :
    getTable (pre ++ t :: post) n = getTable (pre ++ post) n := by
  rw [Props.C18.lookup_depends_on_same_named_tables (pre ++ t :: post), Props.C18.lookup_depends_on_same_named_tables (pre ++ post)]
  simp only [List.filter_append, List.filter_cons]
  by_cases hn : (t.name == n) = true
  · -- the shadowed definition is of the name looked up: a later one of that name is found instead
    simp only [hn, if_true]
    obtain ⟨u, hu, hname⟩ := h
    have hun : (u.name == n) = true := by rw [hname]; exact hn
    have hmem : u ∈ post.filter (fun t => t.name == n) := List.mem_filter.2 ⟨hu, hun⟩
    unfold getTable
    simp only [List.reverse_append, List.reverse_cons, List.append_assoc]
    -- the reversed list starts with the (non-empty) reversed later definitions, all of that name
    have hall : ∀ x ∈ (post.filter (fun t => t.name == n)).reverse, (x.name == n) = true := by
      intro x hx; exact (List.mem_filter.1 (List.mem_reverse.1 hx)).2
    have hne : (post.filter (fun t => t.name == n)).reverse ≠ [] := by
      intro he; rw [List.reverse_eq_nil_iff] at he; rw [he] at hmem; simp at hmem
    cases hr : (post.filter (fun t => t.name == n)).reverse with
    | nil => exact absurd hr hne
    | cons x xs =>
      have hx : (x.name == n) = true := hall x (by rw [hr]; exact List.mem_cons_self)
      simp [hx]
  · have hn' : (t.name == n) = false := by simpa using hn
    simp [hn']

/-- **the last definition of a name wins**: a table whose name is defined again later in the list does not matter to any
statement -/
theorem earlier_definition_of_same_name_irrelevant (F : Facts) (pre post : List Table) (t : Table)
    (h : ∃ u ∈ post, u.name = t.name) (stmt : Stmt) (fromTable : String) (join : Option LJoin) (files : List (List Nat)) :
    runStatement F (pre ++ t :: post) stmt fromTable join files = runStatement F (pre ++ post) stmt fromTable join files := by
  have e := getTable_drop_shadowed pre post t h
  unfold runStatement
  rw [e fromTable]
  cases join with
  | none => cases getTable (pre ++ post) fromTable <;> rfl
  | some j =>
    cases getTable (pre ++ post) fromTable with
    | none => rfl
    | some t1 => simp only [e j.joinedTable]

/-- … at text level: a definition text with a statement whose name a LATER statement defines again answers like the text
without that statement. (`defs'` = `defs` with the earlier statement removed; both texts accepted.) -/
theorem redefinition_replaces (F : Facts) (defsText defsText' queryText : List Char) (fmt : Print.Format)
    (single : Bool) (files : List (List Nat)) (defs defs' query : LStmt) (tables tables' : List Table)
    (stmt : Stmt) (fromTable : String) (join : Option LJoin)
    (ha : Accepted F defsText defs tables) (ha' : Accepted F defsText' defs' tables')
    (hcq : classesCover F queryText = true)
    (hq : parseText (lexOracles F) (regexValidFn F) queryText = .stmt query)
    (hs : stmtOf query = some (stmt, fromTable, join))
    (pre post : List LStmt) (c : LStmt) (hd : stmtsOf defs = pre ++ c :: post) (hd' : stmtsOf defs' = pre ++ post)
    (hlater : ∃ c' ∈ post, definedName c' = definedName c) :
    runText F defsText queryText fmt single files = runText F defsText' queryText fmt single files := by
  have ht := ha.tables; have ht' := ha'.tables
  rw [runText_eq_runLowered F defsText' queryText fmt single files defs' query ⟨ha'.classes, hcq⟩ ha'.parsed ha'.shipped hq,
    runText_eq_runLowered F defsText queryText fmt single files defs query ⟨ha.classes, hcq⟩ ha.parsed ha.shipped hq,
    runLowered_eq_opt F defs' query fmt single files _ stmt fromTable join ht' hs,
    runLowered_eq_opt F defs query fmt single files _ stmt fromTable join ht hs]
  rw [addTables_eq, hd] at ht
  rw [addTables_eq, hd'] at ht'
  -- the tables of `pre ++ c :: post` are those of `pre`, of `c`, of `post`
  rw [List.mapM_append] at ht ht'
  cases hp : pre.mapM Pipeline.tableOf with
  | none => rw [hp] at ht; simp at ht
  | some tp =>
    rw [hp] at ht ht'
    rw [List.mapM_cons] at ht
    cases hc : Pipeline.tableOf c with
    | none => rw [hc] at ht; simp at ht
    | some tc =>
      cases hpo : post.mapM Pipeline.tableOf with
      | none => rw [hpo] at ht'; simp at ht'
      | some tpo =>
        rw [hc, hpo] at ht
        rw [hpo] at ht'
        simp only [Option.pure_def, Option.bind_eq_bind, Option.bind_some, Option.some.injEq] at ht ht'
        subst ht; subst ht'
        obtain ⟨c', hc'm, hc'n⟩ := hlater
        -- the later statement's table is in `tpo` and has the same name
        have hex : ∃ u ∈ tpo, u.name = tc.name := by
          have : ∀ (ss : List LStmt) (ts : List Table), ss.mapM Pipeline.tableOf = some ts → ∀ s ∈ ss, ∃ u ∈ ts, Pipeline.tableOf s = some u := by
            intro ss
            induction ss with
            | nil => intro ts _ s hs; simp at hs
            | cons a ss ih =>
              intro ts h s hs
              rw [List.mapM_cons] at h
              cases ha : Pipeline.tableOf a with
              | none => rw [ha] at h; simp at h
              | some ta =>
                cases hr : ss.mapM Pipeline.tableOf with
                | none => rw [ha, hr] at h; simp at h
                | some tr =>
                  rw [ha, hr] at h
                  simp only [Option.pure_def, Option.bind_eq_bind, Option.bind_some, Option.some.injEq] at h
                  subst h
                  rcases List.mem_cons.1 hs with rfl | hin
                  · exact ⟨ta, List.mem_cons_self, ha⟩
                  · obtain ⟨u, hu, hus⟩ := ih tr hr s hin
                    exact ⟨u, List.mem_cons_of_mem _ hu, hus⟩
          obtain ⟨u, hu, hus⟩ := this post tpo hpo c' hc'm
          refine ⟨u, hu, ?_⟩
          have h1 := tableOf_name c' u hus
          have h2 := tableOf_name c tc hc
          rw [hc'n, h2] at h1
          exact (Option.some.inj h1).symm
        rw [earlier_definition_of_same_name_irrelevant F tp tpo tc hex stmt fromTable join files]

/-! ### honest limits: a definition text that is not accepted as a whole is rejected as a whole -/

/-- a definition text that `parsing::parse` does not turn into a statement (a tokenizer, parser or conversion error
anywhere in it — one broken CREATE TABLE among good ones is enough) never leads to a run: no records, no run-time error
kind, for any query, format and input. So a broken extra definition cannot make the program read "a different table" — it
makes it refuse to start. -/
theorem rejected_definitions_never_run (F : Facts) (defsText queryText : List Char) (fmt : Print.Format) (single : Bool)
    (files : List (List Nat)) (h : ∀ d, parseText (lexOracles F) (regexValidFn F) defsText ≠ .stmt d) :
    recordsOf (runText F defsText queryText fmt single files) = none := by
  unfold runText
  split
  · rfl
  · cases hp : parseText (lexOracles F) (regexValidFn F) defsText with
    | stmt d => exact absurd hp (h d)
    | _ => rfl

/-- … and when it is rejected for a definite reason the answer says so: `rejected definitions` with the error -/
theorem rejected_definitions_reported (F : Facts) (defsText queryText : List Char) (fmt : Print.Format) (single : Bool)
    (files : List (List Nat)) (hc : classesCover F defsText = true ∧ classesCover F queryText = true) (p : Parsed)
    (hp : parseText (lexOracles F) (regexValidFn F) defsText = p)
    (herr : (∃ l e, p = .lexError l e) ∨ (∃ e, p = .parseError e) ∨ (∃ e, p = .convertError e)) :
    runText F defsText queryText fmt single files = .rejected .definitions p := by
  unfold runText
  simp only [hc.1, hc.2, Bool.not_true, Bool.or_self, Bool.false_eq_true, if_false, hp]
  rcases herr with ⟨l, e, rfl⟩ | ⟨e, rfl⟩ | ⟨e, rfl⟩ <;> rfl

/-- a definition text that parses but holds a statement that is not a CREATE TABLE (`Tables::add_tables` answers false) -/
theorem not_create_table_never_run (F : Facts) (defs query : LStmt) (fmt : Print.Format) (single : Bool)
    (files : List (List Nat)) (h : addTables defs = none) : runLowered F defs query fmt single files = .notCreateTable := by
  unfold runLowered; rw [h]

end Sqlgrep.Props.C18Defs
