import SqlgrepModel.Model.Lex
import SqlgrepModel.Lemmas.LexLayout
/-
Plumbing for proofs about the tokenizer fold: `R` is sticky on failure, `run` distributes over `++`,
ASCII characters have computed classes, and the behaviour of `body` on the two kinds of states the
rendering proof meets (`Clean`: between tokens; `InStr`: inside a string literal).
-/
set_option linter.unusedSimpArgs false
namespace Sqlgrep.Lex
open Sqlgrep

/-! ### `R` and `run` -/

@[simp] theorem R.bind_run (st : St) (f : St → R) : (R.run st).bind f = f st := rfl
@[simp] theorem R.bind_fail (l : Loc) (e : LexErr) (f : St → R) : (R.fail l e).bind f = .fail l e := rfl
@[simp] theorem R.bind_missing (w : List Char) (f : St → R) : (R.missing w).bind f = .missing w := rfl

theorem R.bind_assoc (r : R) (f g : St → R) : (r.bind f).bind g = r.bind (fun st => (f st).bind g) := by
  cases r <;> rfl

theorem foldl_stepR_fail (o : Oracles) (l : Loc) (e : LexErr) (cs : List Char) :
    cs.foldl (stepR o) (.fail l e) = .fail l e := by
  induction cs with
  | nil => rfl
  | cons c cs ih => simpa [List.foldl, stepR] using ih

theorem foldl_stepR_missing (o : Oracles) (w : List Char) (cs : List Char) :
    cs.foldl (stepR o) (.missing w) = .missing w := by
  induction cs with
  | nil => rfl
  | cons c cs ih => simpa [List.foldl, stepR] using ih

theorem foldl_stepR (o : Oracles) (r : R) (cs : List Char) :
    cs.foldl (stepR o) r = r.bind (fun st => run o st cs) := by
  cases r with
  | run st => rfl
  | fail l e => simpa using foldl_stepR_fail o l e cs
  | missing w => simpa using foldl_stepR_missing o w cs

@[simp] theorem run_nil (o : Oracles) (st : St) : run o st [] = .run st := rfl

theorem run_cons (o : Oracles) (st : St) (c : Char) (cs : List Char) :
    run o st (c :: cs) = (step o st c).bind (fun st' => run o st' cs) := by
  unfold run
  rw [List.foldl_cons, foldl_stepR]
  rfl

theorem run_append (o : Oracles) (st : St) (a b : List Char) :
    run o st (a ++ b) = (run o st a).bind (fun st' => run o st' b) := by
  unfold run
  rw [List.foldl_append, foldl_stepR]
  rfl

/-- a step from a state without pending word / number is the loop body -/
theorem step_of_pend_none (o : Oracles) (st : St) (c : Char) (h : st.pend = .none) :
    step o st c = .run (body o st c) := by
  unfold step; rw [h]

/-! ### ASCII characters -/

theorem info_of_ascii (o : Oracles) (c : Char) (h : c.toNat < 128) : o.info c = asciiInfo c := by
  simp [Oracles.info, h]


/-- classes of the ASCII characters that the loop body and the layout conditions test by equality -/
theorem info_special (o : Oracles) (c : Char) (h : c ∈ '\n' :: '_' :: '-' :: '.' :: '=' :: '>' :: special) :
    (o.info c).alpha = false ∧ (o.info c).numeric = false ∧ (o.info c).alnum = false ∧ (c ≠ '\n' → (o.info c).white = false) := by
  simp only [special, List.mem_cons, List.not_mem_nil, or_false] at h
  rcases h with h | h | h | h | h | h | h | h | h | h | h | h | h | h | h | h | h <;> subst h <;>
    (rw [info_of_ascii o _ (by decide)]; decide)

theorem not_special_of_alpha (o : Oracles) {c : Char} (h : (o.info c).alpha = true) :
    c ∉ '\n' :: '_' :: '-' :: '.' :: '=' :: '>' :: special := by
  intro hm; rw [(info_special o c hm).1] at h; exact Bool.noConfusion h

theorem not_special_of_numeric (o : Oracles) {c : Char} (h : (o.info c).numeric = true) :
    c ∉ '\n' :: '_' :: '-' :: '.' :: '=' :: '>' :: special := by
  intro hm; rw [(info_special o c hm).2.1] at h; exact Bool.noConfusion h

theorem not_special_of_space (o : Oracles) {c : Char} (h : isSpace o c = true) :
    c ∉ '_' :: '-' :: '.' :: '=' :: '>' :: special := by
  intro hm
  have hm' : c ∈ '\n' :: '_' :: '-' :: '.' :: '=' :: '>' :: special := List.mem_cons_of_mem _ hm
  have hn : c ≠ '\n' := by
    intro e; subst e; revert hm; decide
  have := (info_special o c hm').2.2.2 hn
  simp [isSpace, this] at h

theorem not_special_of_op (o : Oracles) {c : Char} (h : isOpChar o c = true) : c ∉ '\n' :: special := by
  intro hm
  simp only [List.mem_cons] at hm
  rcases hm with e | hm
  · subst e
    rw [isOpChar, info_of_ascii o _ (by decide)] at h
    revert h; decide
  · simp [isOpChar, hm] at h

/-! ### states between tokens -/

/-- a state between tokens: no open string, no escape, no comment, nothing pending; `T` = the tokens so far
(last first), none of them the comment opener; `p` = `previous_was_operator` -/
structure Clean (st : St) (T : List Tok) (p : Bool) : Prop where
  cur : st.cur = none
  esc : st.esc = false
  com : st.com = false
  pend : st.pend = .none
  prevOp : st.prevOp = p
  toks : st.toks.map (·.tok) = T
  nodash : T.head? ≠ some dashDash

theorem lastTok_eq (st : St) : st.lastTok = (st.toks.map (·.tok)).head? := by
  unfold St.lastTok; cases st.toks <;> rfl

theorem Clean.lastTok {st : St} {T : List Tok} {p : Bool} (h : Clean st T p) : st.lastTok = T.head? := by
  rw [lastTok_eq, h.toks]

theorem St.eta_clean (x : St) (h1 : x.cur = none) (h2 : x.esc = false) (h3 : x.com = false) :
    ({ toks := x.toks, line := x.line, col := x.col, start := x.start, prevOp := x.prevOp, pend := x.pend } : St) = x := by
  cases x; simp_all

theorem advance_clean {st : St} {T : List Tok} {p : Bool} (c : Char) (h : Clean st T p) :
    Clean (st.advance c) T false := by
  unfold St.advance
  split <;> exact ⟨h.cur, h.esc, h.com, h.pend, rfl, h.toks, h.nodash⟩

theorem dashCheck_clean {st : St} {T : List Tok} {p : Bool} (h : Clean st T p) : st.dashCheck = st := by
  unfold St.dashCheck
  rw [h.lastTok, if_neg h.nodash]

/-- on a state between tokens, a character other than `\` and `'` goes to the classification chain -/
theorem body_clean (o : Oracles) {st : St} {T : List Tok} {p : Bool} (c : Char) (h : Clean st T p)
    (h1 : c ≠ '\\') (h2 : c ≠ '\'') : body o st c = classify o (st.advance c) p c := by
  have ha := advance_clean c h
  unfold body
  simp only [dashCheck_clean ha, ha.com, ha.cur, h.prevOp, h1, h2, false_and, if_false, Bool.false_eq_true]
  rw [St.eta_clean _ ha.cur ha.esc ha.com]

theorem add_clean {st : St} {T : List Tok} {p : Bool} (t : Tok) (h : Clean st T p) (ht : t ≠ dashDash) :
    Clean (st.add t) (t :: T) p := by
  refine ⟨h.cur, h.esc, h.com, h.pend, h.prevOp, ?_, ?_⟩
  · simp [St.add, h.toks]
  · simpa using ht

theorem setLast_clean {st : St} {t0 : Tok} {T : List Tok} {p : Bool} (t : Tok) (h : Clean st (t0 :: T) p) (ht : t ≠ dashDash) :
    Clean (st.setLast t) (t :: T) p := by
  have ht0 := h.toks
  unfold St.setLast
  cases hs : st.toks with
  | nil => rw [hs] at ht0; simp at ht0
  | cons q rest =>
    rw [hs] at ht0
    simp only [List.map_cons, List.cons.injEq] at ht0
    refine ⟨h.cur, h.esc, h.com, h.pend, h.prevOp, ?_, ?_⟩
    · simp [ht0.2]
    · simpa using ht


/-! ### the classification chain -/

theorem classify_space (o : Oracles) (st : St) (adj : Bool) {c : Char} (h : isSpace o c = true) :
    classify o st adj c = st := by
  have hs := not_special_of_space o h
  simp only [special, List.mem_cons, List.not_mem_nil, or_false, not_or] at hs
  simp only [isSpace, Bool.and_eq_true, Bool.not_eq_eq_eq_not, Bool.not_true] at h
  unfold classify
  simp [h.1.1.1, h.1.1.2, h.1.2, hs]

theorem classify_op (o : Oracles) (st : St) (adj : Bool) {c : Char} (h : isOpChar o c = true) :
    classify o st adj c = operator st adj c := by
  have hs := not_special_of_op o h
  simp only [special, List.mem_cons, List.not_mem_nil, or_false, not_or] at hs
  simp only [isOpChar, Bool.and_eq_true, Bool.not_eq_eq_eq_not, Bool.not_true] at h
  unfold classify
  simp [h.1.1.1, h.1.1.2, h.1.2, hs]

theorem classify_alpha (o : Oracles) (st : St) (adj : Bool) {c : Char} (h : (o.info c).alpha = true) :
    classify o st adj c = { st with pend := .ident [c] } := by
  unfold classify
  simp [h]

theorem classify_numeric (o : Oracles) (st : St) (adj : Bool) {c : Char} (h0 : (o.info c).alpha = false)
    (h : (o.info c).numeric = true) : classify o st adj c = { st with pend := .number [c] false } := by
  unfold classify
  simp [h, h0]

theorem classify_punct (o : Oracles) (st : St) (adj : Bool) (p : Punct) (hp : p ≠ .colon) :
    classify o st adj p.char = st.add p.tok := by
  have hi := info_special o p.char (by cases p <;> decide)
  unfold classify
  cases p <;> simp_all [Punct.char, Punct.tok]

theorem classify_colon_fuse (o : Oracles) (st : St) (adj : Bool) (h : st.lastTok = some .colon) :
    classify o st adj ':' = st.setLast .dcolon := by
  have hi := info_special o ':' (by decide)
  unfold classify
  simp [hi, h]

theorem classify_colon_add (o : Oracles) (st : St) (adj : Bool) (h : st.lastTok ≠ some .colon) :
    classify o st adj ':' = st.add .colon := by
  have hi := info_special o ':' (by decide)
  unfold classify
  simp [hi]


/-! ### operator characters -/

theorem addOp_clean {st : St} {T : List Tok} {p : Bool} (c : Char) (h : Clean st T p) :
    Clean (addOp st c) (.op (.single c) :: T) true := by
  have := add_clean (.op (.single c)) h (by simp [dashDash])
  exact ⟨this.cur, this.esc, this.com, this.pend, rfl, this.toks, this.nodash⟩

theorem operator_not_adjacent (st : St) (c : Char) : operator st false c = addOp st c := by
  simp [operator]

/-- directly after the operator `a`: no fusion when `(a, c)` is neither `=>` nor a two-character operator -/
theorem operator_adjacent_plain {st : St} {a c : Char} (hl : st.lastTok = some (.op (.single a)))
    (h1 : ¬ (a = '=' ∧ c = '>')) (h2 : isTwoChar a c = false) : operator st true c = addOp st c := by
  simp [operator, hl, h1, h2]

theorem operator_adjacent_dual {st : St} {a c : Char} (hl : st.lastTok = some (.op (.single a)))
    (h1 : ¬ (a = '=' ∧ c = '>')) (h2 : isTwoChar a c = true) : operator st true c = st.setLast (.op (.dual a c)) := by
  simp [operator, hl, h1, h2]

theorem operator_adjacent_arrow {st : St} (hl : st.lastTok = some (.op (.single '='))) :
    operator st true '>' = st.setLast .rarrow := by
  simp [operator, hl]

theorem isTwoChar_dash {a : Char} (h : isTwoChar a '-' = true) : a = '-' := by
  simp [isTwoChar, twoCharOps] at h
  exact h

/-! ### inside a string literal -/

/-- inside a string literal: `s` = the content so far (reversed), `e` = the escape flag -/
structure InStr (st : St) (T : List Tok) (s : List Char) (e : Bool) : Prop where
  cur : st.cur = some s
  esc : st.esc = e
  com : st.com = false
  pend : st.pend = .none
  toks : st.toks.map (·.tok) = T
  nodash : T.head? ≠ some dashDash

theorem InStr.lastTok {st : St} {T : List Tok} {s : List Char} {e : Bool} (h : InStr st T s e) : st.lastTok = T.head? := by
  rw [lastTok_eq, h.toks]

theorem advance_instr {st : St} {T : List Tok} {s : List Char} {e : Bool} (c : Char) (h : InStr st T s e) :
    InStr (st.advance c) T s e := by
  unfold St.advance
  split <;> exact ⟨h.cur, h.esc, h.com, h.pend, h.toks, h.nodash⟩

theorem dashCheck_instr {st : St} {T : List Tok} {s : List Char} {e : Bool} (h : InStr st T s e) : st.dashCheck = st := by
  unfold St.dashCheck
  rw [h.lastTok, if_neg h.nodash]

/-- the opening quote -/
theorem body_open (o : Oracles) {st : St} {T : List Tok} {p : Bool} (h : Clean st T p) :
    InStr (body o st '\'') T [] false := by
  have ha := advance_clean '\'' h
  unfold body
  simp only [dashCheck_clean ha, ha.com, ha.esc, ha.cur, quote]
  simp
  exact ⟨rfl, by simp [ha.esc], by simp [ha.com], by simp [ha.pend], by simp [ha.toks], ha.nodash⟩

/-- an unescaped backslash inside a string sets the flag and is dropped -/
theorem body_instr_backslash (o : Oracles) {st : St} {T : List Tok} {s : List Char} (h : InStr st T s false) :
    InStr (body o st '\\') T s true := by
  have ha := advance_instr '\\' h
  unfold body
  simp only [dashCheck_instr ha, ha.com, ha.esc]
  simp
  exact ⟨by simp [ha.cur], rfl, by simp [ha.com], by simp [ha.pend], by simp [ha.toks], ha.nodash⟩

/-- an escaped character is pushed verbatim, whatever it is -/
theorem body_instr_escaped (o : Oracles) {st : St} {T : List Tok} {s : List Char} (c : Char) (h : InStr st T s true) :
    InStr (body o st c) T (c :: s) false := by
  have ha := advance_instr c h
  unfold body
  simp only [dashCheck_instr ha, ha.com, ha.esc, ha.cur]
  simp
  exact ⟨rfl, rfl, by simp [ha.com], by simp [ha.pend], by simp [ha.toks], ha.nodash⟩

/-- an ordinary character inside a string is pushed -/
theorem body_instr_plain (o : Oracles) {st : St} {T : List Tok} {s : List Char} (c : Char) (h : InStr st T s false)
    (h1 : c ≠ '\\') (h2 : c ≠ '\'') : InStr (body o st c) T (c :: s) false := by
  have ha := advance_instr c h
  unfold body
  simp only [dashCheck_instr ha, ha.com, ha.esc, ha.cur, h1, h2]
  simp
  exact ⟨rfl, rfl, by simp [ha.com], by simp [ha.pend], by simp [ha.toks], ha.nodash⟩

/-- the closing quote adds the string token -/
theorem body_close (o : Oracles) {st : St} {T : List Tok} {s : List Char} (h : InStr st T s false) :
    Clean (body o st '\'') (.str s.reverse :: T) false := by
  have ha := advance_instr '\'' h
  have hp : (st.advance '\'').prevOp = false := by unfold St.advance; split <;> rfl
  unfold body
  simp only [dashCheck_instr ha, ha.com, ha.esc, ha.cur, quote]
  simp
  refine ⟨rfl, by simp [St.add, ha.esc], by simp [St.add, ha.com], by simp [St.add, ha.pend], by simp [St.add, hp], ?_, ?_⟩
  · simp [St.add, ha.toks]
  · simp [dashDash]


/-! ### comments -/

/-- inside a comment -/
structure InCom (st : St) (T : List Tok) : Prop where
  cur : st.cur = none
  esc : st.esc = false
  com : st.com = true
  pend : st.pend = .none
  toks : st.toks.map (·.tok) = T
  nodash : T.head? ≠ some dashDash

/-- directly after the second `-`: the comment opener is the last token -/
structure Dashed (st : St) (T : List Tok) : Prop where
  cur : st.cur = none
  esc : st.esc = false
  com : st.com = false
  pend : st.pend = .none
  toks : st.toks.map (·.tok) = dashDash :: T
  nodash : T.head? ≠ some dashDash

theorem operator_dash (st : St) (p : Bool) (h : p = true → st.lastTok ≠ some (.op (.single '-'))) :
    operator st p '-' = addOp st '-' := by
  cases p with
  | false => exact operator_not_adjacent st '-'
  | true =>
    unfold operator
    simp only [if_true]
    split
    · rename_i a hl
      have ha : a ≠ '-' := by intro e; subst e; exact h rfl hl
      have h2 : isTwoChar a '-' = false := by
        cases hh : isTwoChar a '-' with
        | false => rfl
        | true => exact absurd (isTwoChar_dash hh) ha
      simp [h2]
    · rfl

theorem isOpChar_dash (o : Oracles) : isOpChar o '-' = true := by
  rw [isOpChar, info_of_ascii o _ (by decide)]; decide

/-- the first `-` of a comment (or the operator `-`): not fused when the previous token is not an adjacent `-` -/
theorem body_dash1 (o : Oracles) {st : St} {T : List Tok} {p : Bool} (h : Clean st T p)
    (hp : p = true → T.head? ≠ some (.op (.single '-'))) :
    Clean (body o st '-') (.op (.single '-') :: T) true := by
  have ha := advance_clean '-' h
  rw [body_clean o '-' h (by decide) (by decide), classify_op o _ _ (isOpChar_dash o),
    operator_dash _ _ (by rw [ha.lastTok]; exact hp)]
  exact addOp_clean '-' ha

/-- the second, adjacent `-` -/
theorem body_dash2 (o : Oracles) {st : St} {T : List Tok} (h : Clean st (.op (.single '-') :: T) true)
    (hT : T.head? ≠ some dashDash) : Dashed (body o st '-') T := by
  have ha := advance_clean '-' h
  rw [body_clean o '-' h (by decide) (by decide), classify_op o _ _ (isOpChar_dash o),
    operator_adjacent_dual (a := '-') (by rw [ha.lastTok]; rfl) (by decide) (by decide)]
  have ht0 := ha.toks
  unfold St.setLast
  cases hs : (st.advance '-').toks with
  | nil => rw [hs] at ht0; simp at ht0
  | cons q rest =>
    rw [hs] at ht0
    simp only [List.map_cons, List.cons.injEq] at ht0
    exact ⟨ha.cur, ha.esc, ha.com, ha.pend, by simp [ht0.2, dashDash], hT⟩

theorem advance_toks (st : St) (c : Char) : (st.advance c).toks = st.toks := by
  unfold St.advance; split <;> rfl
theorem advance_cur (st : St) (c : Char) : (st.advance c).cur = st.cur := by
  unfold St.advance; split <;> rfl
theorem advance_esc (st : St) (c : Char) : (st.advance c).esc = st.esc := by
  unfold St.advance; split <;> rfl
theorem advance_com (st : St) (c : Char) : (st.advance c).com = st.com := by
  unfold St.advance; split <;> rfl
theorem advance_pend (st : St) (c : Char) : (st.advance c).pend = st.pend := by
  unfold St.advance; split <;> rfl
theorem advance_lastTok (st : St) (c : Char) : (st.advance c).lastTok = st.lastTok := by
  unfold St.lastTok; rw [advance_toks]

/-- the character after `--` (whatever it is) removes the opener; a line break ends the comment at once -/
theorem body_dashed (o : Oracles) {st : St} {T : List Tok} (c : Char) (h : Dashed st T) :
    (c = '\n' → Clean (body o st c) T false) ∧ (c ≠ '\n' → InCom (body o st c) T) := by
  have hl : (st.advance c).lastTok = some dashDash := by rw [advance_lastTok, lastTok_eq, h.toks]; rfl
  have htl : ((st.advance c).toks.tail).map (·.tok) = T := by
    rw [advance_toks, List.map_tail, h.toks]; rfl
  have hp : (st.advance c).prevOp = false := by unfold St.advance; split <;> rfl
  unfold body
  simp only [St.dashCheck, hl, if_true]
  constructor
  · intro hc
    simp only [hc, if_true]
    exact ⟨by simp [advance_cur, h.cur], by simp [advance_esc, h.esc], rfl, by simp [advance_pend, h.pend],
      by simpa [hc] using hp, by simpa [hc] using htl, h.nodash⟩
  · intro hc
    simp only [hc, if_false]
    exact ⟨by simp [advance_cur, h.cur], by simp [advance_esc, h.esc], rfl, by simp [advance_pend, h.pend], htl, h.nodash⟩

theorem body_incom (o : Oracles) {st : St} {T : List Tok} (c : Char) (h : InCom st T) :
    (c = '\n' → Clean (body o st c) T false) ∧ (c ≠ '\n' → InCom (body o st c) T) := by
  have hl : (st.advance c).lastTok ≠ some dashDash := by rw [advance_lastTok, lastTok_eq, h.toks]; exact h.nodash
  have hp : (st.advance c).prevOp = false := by unfold St.advance; split <;> rfl
  unfold body
  simp only [St.dashCheck, hl, if_false, advance_com, h.com, if_true]
  constructor
  · intro hc
    simp only [hc, if_true]
    exact ⟨by simp [advance_cur, h.cur], by simp [advance_esc, h.esc], rfl, by simp [advance_pend, h.pend],
      by simpa [hc] using hp, by simp [advance_toks, h.toks], h.nodash⟩
  · intro hc
    simp only [hc, if_false]
    exact ⟨by simp [advance_cur, h.cur], by simp [advance_esc, h.esc], by simp [advance_com, h.com],
      by simp [advance_pend, h.pend], by simp [advance_toks, h.toks], h.nodash⟩

end Sqlgrep.Lex
