import SqlgrepModel.Lemmas.AggMerge
/-
C15, input split for ALL order-insensitive aggregates: every aggregate is the `finishSummary` of a part-wise `Summary`
(count; set of distinct values; sum; sum and count; sum, sum of squares and count; extreme; conjunction/disjunction;
sorted multiset), and the summary of a concatenation is the `combine` of the summaries of the parts.
-/
set_option linter.unusedSimpArgs false
namespace Sqlgrep
open Value Spec.Agg

/-! ### summaries: what a part of the input has to remember of a group, per aggregate -/

/-- the part-wise summary of one aggregate over one group -/
inductive Summary where
  | key                                   -- a key column: nothing to remember
  | count (n : Nat)                       -- COUNT(*), COUNT(c)
  | distinct (xs : List Value)            -- COUNT(DISTINCT c): the distinct non-NULL values
  | sum (s : Value)                       -- SUM: the partial sum (NULL = no addend)
  | avg (s : Value) (n : Nat)             -- AVG: sum and count
  | moments (s q : Value) (n : Nat)       -- STDDEV / VARIANCE: sum, sum of squares, count
  | extreme (v : Value)                   -- MIN / MAX (NULL = no value)
  | bool (b : Option Bool)                -- BOOL_AND / BOOL_OR
  | sorted (xs : List Value)              -- PERCENTILE: the non-NULL values, ascending
  deriving Inhabited

/-- the squares STDDEV / VARIANCE sums up (INT: each within range; REAL); `none` for other types -/
def squaresOf (xs : List Value) : Option (List Value) :=
  match ints xs, reals xs with
  | some is, _ => if (is.map (fun x => x * x)).all inI64 then some ((is.map (fun x => x * x)).map Value.int) else none
  | _, some rs => some ((rs.map (fun x => F64.mul x x)).map Value.real)
  | _, _ => none

def summarize (k : AggKind) (vs : List Value) : Option Summary :=
  match k with
  | .groupKey _ _ => some .key
  | .count none d => if d then none else some (.count vs.length)
  | .count (some _) false => some (.count (nonNull vs).length)
  | .count (some _) true => some (.distinct (firstOccs (nonNull vs)))
  | .sum _ => (sumOf (nonNull vs)).map .sum
  | .avg _ => (sumOf (nonNull vs)).map (fun s => .avg s (nonNull vs).length)
  | .stddev _ _ =>
    match squaresOf (nonNull vs) with
    | none => none
    | some sq =>
      match sumOf (nonNull vs), sumOf sq with
      | some s, some q => some (.moments s q (nonNull vs).length)
      | _, _ => none
  | .min _ => if sameType (nonNull vs) then some (.extreme (extreme true (nonNull vs))) else none
  | .max _ => if sameType (nonNull vs) then some (.extreme (extreme false (nonNull vs))) else none
  | .percentile _ p => if unitInterval p && sameType (nonNull vs) then some (.sorted (sortValues (nonNull vs))) else none
  | .boolAnd _ => (bools (nonNull vs)).map (fun bs => .bool (if bs.isEmpty then none else some (bs.all id)))
  | .boolOr _ => (bools (nonNull vs)).map (fun bs => .bool (if bs.isEmpty then none else some (bs.any id)))
  | .arrayAgg _ => none
  | .stringAgg _ _ => none

/-- AVG from sum and count (INT and INTERVAL truncate, as in the code) -/
def avgFinish (s : Value) (n : Nat) : Option Value :=
  match s with
  | .null => some .null
  | .int x => some (.int (Int.tdiv x n))
  | .real x => some (.real (F64.div x (F64.ofInt n)))
  | .interval x => some (.interval (Int.tdiv x n))
  | _ => none

def sdFinish (isVar : Bool) (s q : Value) (n : Nat) : Option Value :=
  match s, q with
  | .null, _ => some .null
  | .int a, .int b => some (.real (spreadInt n isVar a b))
  | .real a, .real b => some (.real (spread n isVar a b))
  | _, _ => none

/-- the aggregate's value from its summary -/
def finishSummary (k : AggKind) (s : Summary) : Option Value :=
  match k, s with
  | .count _ _, .count n => some (.int n)
  | .count _ _, .distinct xs => some (.int xs.length)
  | .sum _, .sum v => some v
  | .avg _, .avg v n => avgFinish v n
  | .stddev _ isVar, .moments a b n => sdFinish isVar a b n
  | .min _, .extreme v => some v
  | .max _, .extreme v => some v
  | .boolAnd _, .bool b => some (match b with
    | some x => .bool x
    | none => .null)
  | .boolOr _, .bool b => some (match b with
    | some x => .bool x
    | none => .null)
  | .percentile _ p, .sorted xs => some ((xs[min (f64ToNat (F64.mul p (F64.ofInt xs.length))) (xs.length - 1)]?).getD .null)
  | _, _ => none

theorem sumOf_nil : sumOf [] = some .null := rfl

theorem sumOf_ints_if (is : List Int) :
    sumOf (is.map Value.int) = if partialSumsOk inI64 0 is then some (intSumValue is) else none := by
  cases is with
  | nil => rfl
  | cons i is' =>
    have := ints_map_int (i :: is')
    simp only [List.map_cons] at this
    simp only [sumOf, List.map_cons, this, intSumValue, List.isEmpty_cons, Bool.false_eq_true, if_false]

theorem ints_reals_none (y : Nat) (ys : List Value) : ints (Value.real y :: ys) = none := by
  simp [ints, asInt, collect]

theorem sumOf_reals_if (y : Nat) (rs : List Nat) :
    sumOf ((y :: rs).map Value.real) = if zeroNeutral (y :: rs) then some (.real (realSum (y :: rs))) else none := by
  have h1 := reals_map_real (y :: rs)
  simp only [List.map_cons] at h1
  simp only [sumOf, List.map_cons, ints_reals_none, h1]

theorem aggregate_stddev_finish (e : Expr) (isVar : Bool) (vs : List Value) :
    aggregate (.stddev e isVar) vs = (summarize (.stddev e isVar) vs).bind (finishSummary (.stddev e isVar)) := by
  simp only [aggregate, summarize]
  generalize nonNull vs = xs
  cases xs with
  | nil => rfl
  | cons x xs' =>
    simp only [stddevOf, squaresOf]
    cases hi : ints (x :: xs') with
    | some is =>
      have hxs := ints_eq hi
      have hl : is.length = (x :: xs').length := by have := collect_length hi; simpa using this
      simp only
      by_cases hsq : (is.map (fun x => x * x)).all inI64 = true
      · simp only [hsq, if_true, Bool.true_and]
        rw [hxs, sumOf_ints_if, sumOf_ints_if]
        have hne : is ≠ [] := by intro h; rw [h] at hl; simp at hl
        have hne2 : is.map (fun x => x * x) ≠ [] := by simpa using hne
        by_cases h1 : partialSumsOk inI64 0 is = true
        · by_cases h2 : partialSumsOk inI64 0 (is.map (fun x => x * x)) = true
          · simp only [h1, h2, Bool.and_self, if_true]
            cases is with
            | nil => exact absurd rfl hne
            | cons i is' =>
              simp [intSumValue, finishSummary, sdFinish]
          · simp [h1, h2]
        · simp [h1]
      · simp [hsq]
    | none =>
      cases hr : reals (x :: xs') with
      | some rs =>
        have hxs := reals_eq hr
        simp only
        cases rs with
        | nil => simp at hxs
        | cons y rs' =>
          rw [hxs]
          have e1 := sumOf_reals_if y rs'
          have e2 := sumOf_reals_if (F64.mul y y) (rs'.map (fun x => F64.mul x x))
          simp only [List.map_cons] at e1 e2 ⊢
          rw [e1, e2]
          by_cases h1 : zeroNeutral (y :: rs') = true
          · by_cases h2 : zeroNeutral (F64.mul y y :: rs'.map (fun x => F64.mul x x)) = true
            · simp [h1, h2, finishSummary, sdFinish]
            · simp [h1, h2]
          · simp [h1]
      | none => rfl

/-- **every order-insensitive aggregate is its summary, finished** -/
theorem aggregate_eq_finish (k : AggKind) (hk : orderInsensitive k = true) (vs : List Value) :
    aggregate k vs = (summarize k vs).bind (finishSummary k) := by
  cases k with
  | groupKey e c => rfl
  | count col d =>
    cases col with
    | none => cases d <;> rfl
    | some cn => cases d <;> rfl
  | sum e =>
    simp only [aggregate, summarize]
    cases sumOf (nonNull vs) <;> rfl
  | avg e =>
    simp only [aggregate, summarize]
    generalize nonNull vs = xs
    cases xs with
    | nil => rfl
    | cons x xs' =>
      simp only [avgOf, sumOf]
      cases hi : ints (x :: xs') with
      | some is =>
        have hl : is.length = (x :: xs').length := by have := collect_length hi; simpa using this
        simp only; split <;> simp [finishSummary, avgFinish, hl]
      | none =>
        cases hr : reals (x :: xs') with
        | some rs =>
          have hl : rs.length = (x :: xs').length := by have := collect_length hr; simpa using this
          simp only; split <;> simp [finishSummary, avgFinish, hl]
        | none =>
          cases hn : intervals (x :: xs') with
          | some ns =>
            have hl : ns.length = (x :: xs').length := by have := collect_length hn; simpa using this
            simp only; split <;> simp [finishSummary, avgFinish, hl]
          | none => rfl
  | stddev e isVar => exact aggregate_stddev_finish e isVar vs
  | min e => simp only [aggregate, summarize]; split <;> rfl
  | max e => simp only [aggregate, summarize]; split <;> rfl
  | percentile e p =>
    simp only [aggregate, summarize, percentileOf]
    cases unitInterval p <;> cases sameType (nonNull vs) <;> simp [finishSummary, sortValues_length]
  | boolAnd e =>
    simp only [aggregate, summarize]
    cases bools (nonNull vs) with
    | none => rfl
    | some bs => cases bs <;> rfl
  | boolOr e =>
    simp only [aggregate, summarize]
    cases bools (nonNull vs) with
    | none => rfl
    | some bs => cases bs <;> rfl
  | arrayAgg e => simp [orderInsensitive] at hk
  | stringAgg e d => simp [orderInsensitive] at hk

/-! ### combining the summaries of two parts -/

def mergeBool (isAnd : Bool) : Option Bool → Option Bool → Option Bool
  | none, y => y
  | x, none => x
  | some a, some b => some (if isAnd then a && b else a || b)

def isMin : AggKind → Bool
  | .min _ => true
  | _ => false
def isAnd : AggKind → Bool
  | .boolAnd _ => true
  | _ => false

/-- the summary over a concatenation from the summaries over the parts: counts add, distinct sets unite, sums (and sums
of squares) add with NULL neutral, extremes combine with NULL neutral, conjunctions / disjunctions combine, sorted
multisets merge -/
def combine (k : AggKind) : Summary → Summary → Summary
  | .key, _ => .key
  | .count a, .count b => .count (a + b)
  | .distinct a, .distinct b => .distinct (a ++ b.filter (fun x => !a.any (fun y => Value.beq y x)))
  | .sum a, .sum b => .sum (mergeSum a b)
  | .avg a n, .avg b m => .avg (mergeSum a b) (n + m)
  | .moments a q n, .moments b r m => .moments (mergeSum a b) (mergeSum q r) (n + m)
  | .extreme a, .extreme b => .extreme (mergeExt (isMin k) a b)
  | .bool a, .bool b => .bool (mergeBool (isAnd k) a b)
  | .sorted a, .sorted b => .sorted (sortValues (a ++ b))
  | x, _ => x

theorem collect_append_inv {α : Type} {a b : List (Option α)} {r : List α} (h : collect (a ++ b) = some r) :
    ∃ x y, collect a = some x ∧ collect b = some y ∧ r = x ++ y := by
  induction a generalizing r with
  | nil => exact ⟨[], r, rfl, by simpa using h, rfl⟩
  | cons o os ih =>
    cases o with
    | none => simp [collect] at h
    | some v =>
      simp only [List.cons_append] at h
      obtain ⟨r', hr', hr⟩ := collect_eq_some_cons h
      obtain ⟨x, y, hx, hy, hxy⟩ := ih hr'
      exact ⟨v :: x, y, by simp [collect_cons_some, hx], hy, by simp [hr, hxy]⟩

theorem ints_append_inv {a b : List Value} {r : List Int} (h : ints (a ++ b) = some r) :
    ∃ x y, ints a = some x ∧ ints b = some y ∧ r = x ++ y := by
  unfold ints at *; rw [List.map_append] at h; exact collect_append_inv h
theorem reals_append_inv {a b : List Value} {r : List Nat} (h : reals (a ++ b) = some r) :
    ∃ x y, reals a = some x ∧ reals b = some y ∧ r = x ++ y := by
  unfold reals at *; rw [List.map_append] at h; exact collect_append_inv h
theorem intervals_append_inv {a b : List Value} {r : List Int} (h : intervals (a ++ b) = some r) :
    ∃ x y, intervals a = some x ∧ intervals b = some y ∧ r = x ++ y := by
  unfold intervals at *; rw [List.map_append] at h; exact collect_append_inv h

theorem some_of_ite {α : Type} {c : Prop} [Decidable c] {x y : α} (h : (if c then some x else none) = some y) : c ∧ x = y := by
  by_cases hc : c
  · simp only [hc, if_true, Option.some.injEq] at h; exact ⟨hc, h⟩
  · simp [hc] at h

theorem intervals_map_interval (l : List Int) : intervals (l.map Value.interval) = some l := by
  induction l with
  | nil => rfl
  | cons x xs ih => simp only [intervals, List.map_cons, asInterval, collect_cons_some] at ih ⊢; rw [ih]; rfl

def ivSumValue (ns : List Int) : Value := if ns.isEmpty then .null else .interval (intSum ns)

theorem ivSumValue_append (a b : List Int) : ivSumValue (a ++ b) = mergeSum (ivSumValue a) (ivSumValue b) := by
  cases a with
  | nil => cases b <;> simp [ivSumValue, mergeSum]
  | cons x xs =>
    cases b with
    | nil => simp [ivSumValue, mergeSum]
    | cons y ys =>
      simp only [ivSumValue, List.cons_append, List.isEmpty_cons, Bool.false_eq_true, if_false, mergeSum]
      rw [← List.cons_append, intSum_append]

theorem sumOf_intervals_if (n : Int) (ns : List Int) :
    sumOf ((n :: ns).map Value.interval) =
      if partialSumsOk inIv 0 (n :: ns) then some (.interval (intSum (n :: ns))) else none := by
  have h1 := intervals_map_interval (n :: ns)
  simp only [List.map_cons] at h1
  have h2 : ints (Value.interval n :: ns.map Value.interval) = none := by simp [ints, asInt, collect]
  have h3 : reals (Value.interval n :: ns.map Value.interval) = none := by simp [reals, asReal, collect]
  simp only [sumOf, List.map_cons, h1, h2, h3]

/-- the property's proviso for REAL sums, for two parts: the addition obeys `RealAddLaws` (`Lemmas/AggPerm.lean`: `0.0 + y = y`
and commutativity on the addends, associativity on the partial sums at hand — an assumption about IEEE addition on these
values) on the addends of both parts together. That the partial sums of the parts add up to the sum of the whole is
DERIVED from it (`realSum_append_of_laws`). -/
def RealSplitExact (xs ys : List Value) : Prop :=
  ∀ rs1 rs2, reals xs = some rs1 → reals ys = some rs2 → RealAddLaws (rs1 ++ rs2)

/-- **sums add** (every numeric type): the sum over a concatenation is `mergeSum` of the sums over the parts -/
theorem sumOf_append {xs ys : List Value} {a b r : Value}
    (h : sumOf (xs ++ ys) = some r) (h1 : sumOf xs = some a) (h2 : sumOf ys = some b) (hreal : RealSplitExact xs ys) :
    r = mergeSum a b := by
  cases xs with
  | nil =>
    simp only [List.nil_append] at h
    simp only [sumOf_nil, Option.some.injEq] at h1
    rw [h2] at h
    simp only [Option.some.injEq] at h
    rw [← h1, ← h]; cases b <;> rfl
  | cons x xs' =>
    cases ys with
    | nil =>
      simp only [List.append_nil] at h
      simp only [sumOf_nil, Option.some.injEq] at h2
      rw [h1] at h
      simp only [Option.some.injEq] at h
      rw [← h2, ← h]; cases a <;> rfl
    | cons y ys' =>
      cases hi : ints ((x :: xs') ++ (y :: ys')) with
      | some is =>
        obtain ⟨is1, is2, hi1, hi2, his⟩ := ints_append_inv hi
        have e1 := ints_eq hi1
        have e2 := ints_eq hi2
        rw [e1, e2, ← List.map_append, sumOf_ints_if] at h
        rw [e1, sumOf_ints_if] at h1
        rw [e2, sumOf_ints_if] at h2
        rw [← (some_of_ite h).2, ← (some_of_ite h1).2, ← (some_of_ite h2).2, intSumValue_append]
      | none =>
        cases hr : reals ((x :: xs') ++ (y :: ys')) with
        | some rs =>
          obtain ⟨rs1, rs2, hr1, hr2, hrs⟩ := reals_append_inv hr
          have e1 := reals_eq hr1
          have e2 := reals_eq hr2
          have hlaws := hreal rs1 rs2 hr1 hr2
          cases rs1 with
          | nil => simp at e1
          | cons p rs1' =>
            cases rs2 with
            | nil => simp at e2
            | cons p2 rs2' =>
              have hx := realSum_append_of_laws hlaws (by simp)
              have e12 : (x :: xs') ++ (y :: ys') = (p :: (rs1' ++ (p2 :: rs2'))).map Value.real := by
                rw [e1, e2, ← List.map_append]; rfl
              rw [e12, sumOf_reals_if] at h
              rw [e1, sumOf_reals_if] at h1
              rw [e2, sumOf_reals_if] at h2
              rw [← (some_of_ite h).2, ← (some_of_ite h1).2, ← (some_of_ite h2).2]
              simp only [mergeSum]
              rw [← hx]; rfl
        | none =>
          cases hn : intervals ((x :: xs') ++ (y :: ys')) with
          | some ns =>
            obtain ⟨ns1, ns2, hn1, hn2, hns⟩ := intervals_append_inv hn
            have e1 := intervals_eq hn1
            have e2 := intervals_eq hn2
            cases ns1 with
            | nil => simp at e1
            | cons p ns1' =>
              cases ns2 with
              | nil => simp at e2
              | cons p2 ns2' =>
                have e12 : (x :: xs') ++ (y :: ys') = (p :: (ns1' ++ (p2 :: ns2'))).map Value.interval := by
                  rw [e1, e2, ← List.map_append]; rfl
                rw [e12, sumOf_intervals_if] at h
                rw [e1, sumOf_intervals_if] at h1
                rw [e2, sumOf_intervals_if] at h2
                rw [← (some_of_ite h).2, ← (some_of_ite h1).2, ← (some_of_ite h2).2]
                simp only [mergeSum]
                have : p :: (ns1' ++ p2 :: ns2') = (p :: ns1') ++ (p2 :: ns2') := rfl
                rw [this, intSum_append]
          | none =>
            simp only [sumOf, List.cons_append] at h
            simp only [List.cons_append] at hi hr hn
            simp [hi, hr, hn] at h

/-! #### COUNT(DISTINCT): set union -/

theorem firstOccs_any (a : List Value) (x : Value) :
    (firstOccs a).any (fun y => Value.beq y x) = a.any (fun y => Value.beq y x) := by
  induction a with
  | nil => rfl
  | cons v a' ih =>
    simp only [firstOccs, List.any_cons, ← ih]
    cases hvx : Value.beq v x
    · simp only [Bool.false_or]
      -- dropping the values equal to v does not drop a value equal to x
      induction firstOccs a' with
      | nil => rfl
      | cons y F ihF =>
        by_cases hvy : Value.beq v y = true
        · have hyx : Value.beq y x = false := by
            cases h : Value.beq y x
            · rfl
            · have := beq_trans hvy h; rw [hvx] at this; exact absurd this (by simp)
          simp [List.filter_cons, hvy, hyx, ihF]
        · simp [List.filter_cons, hvy, ihF]
    · simp

/-- the distinct values of a concatenation: those of the first part, then those of the second not among the first -/
theorem firstOccs_append (a b : List Value) :
    firstOccs (a ++ b) = firstOccs a ++ (firstOccs b).filter (fun x => !(firstOccs a).any (fun y => Value.beq y x)) := by
  have key : ∀ a : List Value, firstOccs (a ++ b) = firstOccs a ++ (firstOccs b).filter (fun x => !a.any (fun y => Value.beq y x)) := by
    intro a
    induction a with
    | nil =>
      simp only [List.nil_append, firstOccs, List.any_nil, Bool.not_false]
      exact (List.filter_eq_self.mpr (fun _ _ => rfl)).symm
    | cons v a' ih =>
      simp only [List.cons_append, firstOccs, ih, List.filter_append, List.filter_filter, List.cons_append]
      congr 2
      apply List.filter_congr
      intro x _
      simp only [List.any_cons, Bool.not_or, Bool.and_comm]
  rw [key a]
  congr 1
  apply List.filter_congr
  intro x _
  rw [firstOccs_any]

/-! #### the summary of a concatenation -/

theorem bools_append_inv {a b : List Value} {r : List Bool} (h : bools (a ++ b) = some r) :
    ∃ x y, bools a = some x ∧ bools b = some y ∧ r = x ++ y := by
  unfold bools at *; rw [List.map_append] at h; exact collect_append_inv h

theorem squaresOf_append_inv {a b sq : List Value} (h : squaresOf (a ++ b) = some sq) :
    ∃ s1 s2, squaresOf a = some s1 ∧ squaresOf b = some s2 ∧ sq = s1 ++ s2 := by
  unfold squaresOf at h
  cases hi : ints (a ++ b) with
  | some is =>
    obtain ⟨i1, i2, h1, h2, he⟩ := ints_append_inv hi
    simp only [hi] at h
    obtain ⟨hall, hsq⟩ := some_of_ite h
    subst he
    simp only [List.map_append, List.all_append, Bool.and_eq_true] at hall hsq
    exact ⟨_, _, by simp [squaresOf, h1, hall.1], by simp [squaresOf, h2, hall.2], hsq.symm⟩
  | none =>
    cases hr : reals (a ++ b) with
    | some rs =>
      obtain ⟨r1, r2, h1, h2, he⟩ := reals_append_inv hr
      simp only [hi, hr, Option.some.injEq] at h
      subst he
      -- a part may be empty (then both readings exist); its squares are the empty list either way
      have part : ∀ (l : List Value) (r : List Nat), reals l = some r →
          squaresOf l = some ((r.map (fun x => F64.mul x x)).map Value.real) := by
        intro l r hlr
        unfold squaresOf
        cases hil : ints l with
        | none => simp [hlr]
        | some il =>
          have e1 := ints_eq hil
          have e2 := reals_eq hlr
          cases il with
          | nil => subst e1; simp [reals, collect] at hlr; subst hlr; rfl
          | cons i il' =>
            cases r with
            | nil => rw [e2] at e1; simp at e1
            | cons y r' => rw [e2] at e1; simp at e1
      exact ⟨_, _, part a r1 h1, part b r2 h2, by rw [← h]; simp [List.map_append]⟩
    | none => simp [hi, hr] at h

/-- the provisos of the property for the sums of two parts: for REAL addends (and their squares) the laws of
`RealSplitExact` -/
structure SplitExact (x1 x2 : List Value) : Prop where
  sums : RealSplitExact x1 x2
  squares : ∀ s1 s2, squaresOf x1 = some s1 → squaresOf x2 = some s2 → RealSplitExact s1 s2

theorem mergeBool_all (b1 b2 : List Bool) :
    (if (b1 ++ b2).isEmpty then none else some ((b1 ++ b2).all id)) =
      mergeBool true (if b1.isEmpty then none else some (b1.all id)) (if b2.isEmpty then none else some (b2.all id)) := by
  cases b1 <;> cases b2 <;> simp [mergeBool, Bool.and_assoc]

theorem mergeBool_any (b1 b2 : List Bool) :
    (if (b1 ++ b2).isEmpty then none else some ((b1 ++ b2).any id)) =
      mergeBool false (if b1.isEmpty then none else some (b1.any id)) (if b2.isEmpty then none else some (b2.any id)) := by
  cases b1 <;> cases b2 <;> simp [mergeBool, Bool.or_assoc]

/-- **monoid homomorphism, per aggregate**: the summary of a concatenation of two argument lists is the combination
of the summaries of the parts — counts add, distinct sets unite, sums and sums of squares add (REAL: under the
exactness proviso), extremes combine, conjunctions/disjunctions combine, sorted multisets merge (exact values) -/
theorem summarize_append (k : AggKind) (v1 v2 : List Value) {s s1 s2 : Summary}
    (h : summarize k (v1 ++ v2) = some s) (h1 : summarize k v1 = some s1) (h2 : summarize k v2 = some s2)
    (hsplit : usesSums k = true → SplitExact (nonNull v1) (nonNull v2))
    (hex : (∃ e p, k = .percentile e p) → ValuesExact (nonNull (v1 ++ v2))) :
    s = combine k s1 s2 := by
  cases k with
  | groupKey e c =>
    simp only [summarize, Option.some.injEq] at h h1 h2
    rw [← h, ← h1]; rfl
  | count col d =>
    cases col with
    | none =>
      cases d with
      | true => simp [summarize] at h
      | false =>
        simp only [summarize, Bool.false_eq_true, if_false, Option.some.injEq] at h h1 h2
        rw [← h, ← h1, ← h2]; simp [combine, List.length_append]
    | some cn =>
      cases d with
      | false =>
        simp only [summarize, Option.some.injEq] at h h1 h2
        rw [← h, ← h1, ← h2]; simp [combine, nonNull_append, List.length_append]
      | true =>
        simp only [summarize, Option.some.injEq] at h h1 h2
        rw [← h, ← h1, ← h2, nonNull_append, firstOccs_append]; rfl
  | sum e =>
    simp only [summarize, nonNull_append] at h h1 h2
    cases ha : sumOf (nonNull v1 ++ nonNull v2) with
    | none => simp [ha] at h
    | some r =>
      cases hb : sumOf (nonNull v1) with
      | none => simp [hb] at h1
      | some a =>
        cases hc : sumOf (nonNull v2) with
        | none => simp [hc] at h2
        | some b =>
          simp only [ha, hb, hc, Option.map_some, Option.some.injEq] at h h1 h2
          rw [← h, ← h1, ← h2, sumOf_append ha hb hc (hsplit rfl).sums]; rfl
  | avg e =>
    simp only [summarize, nonNull_append] at h h1 h2
    cases ha : sumOf (nonNull v1 ++ nonNull v2) with
    | none => simp [ha] at h
    | some r =>
      cases hb : sumOf (nonNull v1) with
      | none => simp [hb] at h1
      | some a =>
        cases hc : sumOf (nonNull v2) with
        | none => simp [hc] at h2
        | some b =>
          simp only [ha, hb, hc, Option.map_some, Option.some.injEq] at h h1 h2
          rw [← h, ← h1, ← h2, sumOf_append ha hb hc (hsplit rfl).sums]; simp [combine, List.length_append]
  | stddev e isVar =>
    simp only [summarize, nonNull_append] at h h1 h2
    cases hq : squaresOf (nonNull v1 ++ nonNull v2) with
    | none => simp [hq] at h
    | some sq =>
      obtain ⟨sq1, sq2, hq1, hq2, hsq⟩ := squaresOf_append_inv hq
      subst hsq
      simp only [hq, hq1, hq2] at h h1 h2
      cases ha : sumOf (nonNull v1 ++ nonNull v2) <;> cases ha' : sumOf (sq1 ++ sq2) <;> simp only [ha, ha'] at h <;> try (simp at h)
      cases hb : sumOf (nonNull v1) <;> cases hb' : sumOf sq1 <;> simp only [hb, hb'] at h1 <;> try (simp at h1)
      cases hc : sumOf (nonNull v2) <;> cases hc' : sumOf sq2 <;> simp only [hc, hc'] at h2 <;> try (simp at h2)
      try simp only [Option.some.injEq] at h
      try simp only [Option.some.injEq] at h1
      try simp only [Option.some.injEq] at h2
      rw [← h, ← h1, ← h2, sumOf_append ha hb hc (hsplit rfl).sums,
        sumOf_append ha' hb' hc' ((hsplit rfl).squares sq1 sq2 hq1 hq2)]
      simp [combine, List.length_append]
  | min e =>
    simp only [summarize] at h h1 h2
    rw [← (some_of_ite h).2, ← (some_of_ite h1).2, ← (some_of_ite h2).2, nonNull_append,
      extreme_merge true _ _ (nonNull_all v1) (nonNull_all v2)]; rfl
  | max e =>
    simp only [summarize] at h h1 h2
    rw [← (some_of_ite h).2, ← (some_of_ite h1).2, ← (some_of_ite h2).2, nonNull_append,
      extreme_merge false _ _ (nonNull_all v1) (nonNull_all v2)]; rfl
  | percentile e p =>
    simp only [summarize] at h h1 h2
    rw [← (some_of_ite h).2, ← (some_of_ite h1).2, ← (some_of_ite h2).2]
    simp only [combine]
    congr 1
    have hexact := hex ⟨e, p, rfl⟩
    apply sortValues_eq_of_perm _ hexact
    rw [nonNull_append]
    exact List.Perm.append (sortValues_perm _).symm (sortValues_perm _).symm
  | boolAnd e =>
    simp only [summarize, nonNull_append] at h h1 h2
    cases hb : bools (nonNull v1 ++ nonNull v2) with
    | none => simp [hb] at h
    | some bs =>
      obtain ⟨b1, b2, hb1, hb2, hbs⟩ := bools_append_inv hb
      subst hbs
      simp only [hb, hb1, hb2, Option.map_some, Option.some.injEq] at h h1 h2
      rw [← h, ← h1, ← h2, mergeBool_all]; rfl
  | boolOr e =>
    simp only [summarize, nonNull_append] at h h1 h2
    cases hb : bools (nonNull v1 ++ nonNull v2) with
    | none => simp [hb] at h
    | some bs =>
      obtain ⟨b1, b2, hb1, hb2, hbs⟩ := bools_append_inv hb
      subst hbs
      simp only [hb, hb1, hb2, Option.map_some, Option.some.injEq] at h h1 h2
      rw [← h, ← h1, ← h2, mergeBool_any]; rfl
  | arrayAgg e => simp [summarize] at h
  | stringAgg e d => simp [summarize] at h

end Sqlgrep
