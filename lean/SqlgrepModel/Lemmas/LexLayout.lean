import SqlgrepModel.Model.Lex
/-
Vocabulary of the layout theorems of C20 (lexical half): a statement text as a sequence of *lexemes*
(the spellings of tokens) separated by *gaps* (whitespace characters and `-- … \n` comments), the text it
renders to, and the condition under which neighbours stay apart.  The tokens a lexeme sequence denotes
(`fuse`) do not mention gaps, letter case, digit spelling or escapes.
-/
namespace Sqlgrep.Lex
open Sqlgrep

/-! ### character roles -/

/-- characters with a role of their own in the loop body: never operator characters, never inside words -/
def special : List Char := ['\\', '\'', '(', ')', '[', ']', '{', '}', ',', ';', ':']

/-- a character the tokenizer skips between tokens -/
def isSpace (o : Oracles) (c : Char) : Bool :=
  let i := o.info c
  i.white && !i.alpha && !i.numeric && !i.alnum

/-- a character that is an operator on its own -/
def isOpChar (o : Oracles) (c : Char) : Bool :=
  let i := o.info c
  !i.alpha && !i.numeric && !i.white && !special.contains c

def isWordCont (o : Oracles) (c : Char) : Bool := (o.info c).alnum || c = '_'

/-! ### gaps -/

inductive GapItem where
  | ws (c : Char)                 -- one whitespace character (space, tab, line break, U+00A0, …)
  | comment (body : List Char)    -- `--` body `\n`
  deriving Repr, DecidableEq

def GapItem.text : GapItem → List Char
  | .ws c => [c]
  | .comment b => '-' :: '-' :: (b ++ ['\n'])

def GapItem.Ok (o : Oracles) : GapItem → Prop
  | .ws c => isSpace o c = true
  | .comment b => '\n' ∉ b

abbrev Gap := List GapItem

def Gap.text (g : Gap) : List Char := g.flatMap GapItem.text

def Gap.Ok (o : Oracles) (g : Gap) : Prop := ∀ i ∈ g, i.Ok o

def Gap.startsWithComment : Gap → Bool
  | .comment _ :: _ => true
  | _ => false

/-! ### lexemes -/

def upperA (c : Char) : Char := if isLowerA c then Char.ofNat (c.toNat - 32) else c

/-- per-letter case choice (`true` = upper case) applied to a lower-case ASCII word -/
def applyCase : List Bool → List Char → List Char
  | _, [] => []
  | [], cs => cs
  | b :: bs, c :: cs => (if b then upperA c else c) :: applyCase bs cs

/-- the word of a keyword in `KEYWORDS` (`IsNot` / `NotIn` have none: they are two words) -/
def kwWord (k : Keyword) : Option (List Char) := (keywordTable.find? (fun e => e.2 == k)).map (·.1)

inductive LitWord where
  | null | tru | fls
  deriving Repr, DecidableEq

def LitWord.word : LitWord → List Char
  | .null => wNull | .tru => wTrue | .fls => wFalse

def LitWord.tok : LitWord → Tok
  | .null => .null | .tru => .tru | .fls => .fls

inductive Punct where
  | lp | rp | lsq | rsq | lcu | rcu | comma | semi | colon
  deriving Repr, DecidableEq

def Punct.char : Punct → Char
  | .lp => '(' | .rp => ')' | .lsq => '[' | .rsq => ']' | .lcu => '{' | .rcu => '}'
  | .comma => ',' | .semi => ';' | .colon => ':'

def Punct.tok : Punct → Tok
  | .lp => .lp | .rp => .rp | .lsq => .lsq | .rsq => .rsq | .lcu => .lcu | .rcu => .rcu
  | .comma => .comma | .semi => .semi | .colon => .colon

/-- the text between the quotes of a string literal with each escaping backslash removed and the escaped
character kept (a backslash escapes the character after it, whatever that is) -/
def unescape : List Char → List Char
  | [] => []
  | [c] => if c = '\\' then [] else [c]
  | c :: d :: rest => if c = '\\' then d :: unescape rest else c :: unescape (d :: rest)

/-- the text between the quotes contains no unescaped quote and does not end in an escaping backslash -/
def wellEscaped : List Char → Bool
  | [] => true
  | [c] => !(c = '\\' || c = '\'')
  | c :: d :: rest => if c = '\\' then wellEscaped rest else if c = '\'' then false else wellEscaped (d :: rest)

/-- the spelling of one token (`IS NOT`, `NOT IN`, `::` are two lexemes each) -/
inductive Lexeme where
  | kw (k : Keyword) (flips : List Bool)
  | lit (w : LitWord) (flips : List Bool)
  | ident (w : List Char)
  | int (digits : List Char)
  | float (a b : List Char)              -- `a.b`
  | str (body : List Char)               -- the text between the quotes, escapes included
  | op1 (c : Char)
  | op2 (a b : Char)
  | rarrow
  | punct (p : Punct)
  deriving Repr, DecidableEq

def Lexeme.text : Lexeme → List Char
  | .kw k f => applyCase f ((kwWord k).getD [])
  | .lit w f => applyCase f w.word
  | .ident w => w
  | .int ds => ds
  | .float a b => a ++ '.' :: b
  | .str body => '\'' :: (body ++ ['\''])
  | .op1 c => [c]
  | .op2 a b => [a, b]
  | .rarrow => ['=', '>']
  | .punct p => [p.char]

/-- the token a lexeme denotes: no flips, no escapes, the number's value -/
def Lexeme.tok (o : Oracles) : Lexeme → Tok
  | .kw k _ => .kw k
  | .lit w _ => w.tok
  | .ident w => .ident w
  | .int ds => .int ((Lit.parseI64 (ds.map Char.toNat)).getD 0)
  | .float a b => match o.fparse (a ++ '.' :: b) with | .bits n => .float n | _ => .float 0
  | .str body => .str (unescape body)
  | .op1 c => .op (.single c)
  | .op2 a b => .op (.dual a b)
  | .rarrow => .rarrow
  | .punct p => p.tok

def Lexeme.Valid (o : Oracles) : Lexeme → Prop
  | .kw k _ => (kwWord k).isSome
  | .lit _ _ => True
  | .ident w =>
    (match w with
     | [] => False
     | c :: r => (o.info c).alpha = true ∧ ∀ x ∈ r, isWordCont o x = true) ∧
    keywordOf (lower o w) = none ∧ lower o w ≠ wNull ∧ lower o w ≠ wTrue ∧ lower o w ≠ wFalse
  | .int ds => ds ≠ [] ∧ (∀ c ∈ ds, isDigitA c = true) ∧ (Lit.parseI64 (ds.map Char.toNat)).isSome
  | .float a b =>
    (match a with
     | [] => False
     | c :: _ => (o.info c).alpha = false) ∧ (∀ c ∈ a ++ b, (o.info c).numeric = true) ∧
    (match o.fparse (a ++ '.' :: b) with
     | .bits _ => True
     | _ => False)
  | .str body => wellEscaped body = true
  | .op1 c => isOpChar o c = true
  | .op2 a b => (a, b) ∈ twoCharOps ∧ (a, b) ≠ ('-', '-')
  | .rarrow => True
  | .punct _ => True

instance instDecidableValid (o : Oracles) : (l : Lexeme) → Decidable (l.Valid o)
  | .kw k _ => inferInstanceAs (Decidable ((kwWord k).isSome = true))
  | .lit _ _ => isTrue trivial
  | .ident [] => isFalse (fun h => h.1)
  | .ident (c :: r) => inferInstanceAs (Decidable (((o.info c).alpha = true ∧ ∀ x ∈ r, isWordCont o x = true) ∧
      keywordOf (lower o (c :: r)) = none ∧ lower o (c :: r) ≠ wNull ∧ lower o (c :: r) ≠ wTrue ∧ lower o (c :: r) ≠ wFalse))
  | .int ds => inferInstanceAs (Decidable (ds ≠ [] ∧ (∀ c ∈ ds, isDigitA c = true) ∧ (Lit.parseI64 (ds.map Char.toNat)).isSome))
  | .float [] _ => isFalse (fun h => h.1)
  | .float (c :: r) b =>
    match hf : o.fparse ((c :: r) ++ '.' :: b) with
    | .bits _ =>
      if h : (o.info c).alpha = false ∧ ∀ x ∈ (c :: r) ++ b, (o.info x).numeric = true then
        isTrue ⟨h.1, h.2, by simp only [hf]⟩
      else isFalse (fun h' => h ⟨h'.1, h'.2.1⟩)
    | .err => isFalse (fun h' => by have := h'.2.2; simp only [hf] at this)
    | .missing => isFalse (fun h' => by have := h'.2.2; simp only [hf] at this)
  | .str body => inferInstanceAs (Decidable (wellEscaped body = true))
  | .op1 c => inferInstanceAs (Decidable (isOpChar o c = true))
  | .op2 a b => inferInstanceAs (Decidable ((a, b) ∈ twoCharOps ∧ (a, b) ≠ ('-', '-')))
  | .rarrow => isTrue trivial
  | .punct _ => isTrue trivial

instance (o : Oracles) : (i : GapItem) → Decidable (i.Ok o)
  | .ws c => inferInstanceAs (Decidable (isSpace o c = true))
  | .comment b => inferInstanceAs (Decidable ('\n' ∉ b))

instance (o : Oracles) (g : Gap) : Decidable (g.Ok o) := inferInstanceAs (Decidable (∀ i ∈ g, i.Ok o))

/-- what the end of a lexeme leaves open -/
inductive EndKind where
  | other
  | word                -- a following word character would extend it
  | int                 -- a following numeric character or `.` would extend it
  | float               -- a following numeric character would extend it, a `.` is an error
  | op (a : Char)       -- a directly following operator character may fuse with it
  deriving Repr, DecidableEq

def Lexeme.endKind : Lexeme → EndKind
  | .kw _ _ => .word
  | .lit _ _ => .word
  | .ident _ => .word
  | .int _ => .int
  | .float _ _ => .float
  | .op1 c => .op c
  | _ => .other

/-- character `c` may directly follow a lexeme that ended as `k` without merging with it -/
def AdjOk (o : Oracles) : EndKind → Char → Prop
  | .other, _ => True
  | .word, c => isWordCont o c = false
  | .int, c => (o.info c).numeric = false ∧ c ≠ '.'
  | .float, c => (o.info c).numeric = false ∧ c ≠ '.'
  | .op a, c => ¬ (a = '=' ∧ c = '>') ∧ isTwoChar a c = false

/-- a gap may follow a lexeme that ended as `k`: directly after the operator `-` it must not begin with a comment
(`---` would be read as the comment `--` followed by `-`) -/
def GapStartOk (k : EndKind) (g : Gap) : Prop := k = .op '-' → g.startsWithComment = false

def firstChar (l : Lexeme) : Char := l.text.headD ' '

/-- neighbours stay apart: an empty gap only where the next character does not merge, else any gap -/
def SepOk (o : Oracles) (k : EndKind) (g : Gap) (l : Lexeme) : Prop :=
  (g = [] → AdjOk o k (firstChar l)) ∧ GapStartOk k g

instance (o : Oracles) : (k : EndKind) → (c : Char) → Decidable (AdjOk o k c)
  | .other, _ => isTrue trivial
  | .word, c => inferInstanceAs (Decidable (isWordCont o c = false))
  | .int, c => inferInstanceAs (Decidable ((o.info c).numeric = false ∧ c ≠ '.'))
  | .float, c => inferInstanceAs (Decidable ((o.info c).numeric = false ∧ c ≠ '.'))
  | .op a, c => inferInstanceAs (Decidable (¬ (a = '=' ∧ c = '>') ∧ isTwoChar a c = false))

instance (k : EndKind) (g : Gap) : Decidable (GapStartOk k g) :=
  inferInstanceAs (Decidable (k = .op '-' → g.startsWithComment = false))

instance (o : Oracles) (k : EndKind) (g : Gap) (l : Lexeme) : Decidable (SepOk o k g l) :=
  inferInstanceAs (Decidable ((g = [] → AdjOk o k (firstChar l)) ∧ GapStartOk k g))

def ItemsOk (o : Oracles) : EndKind → List (Gap × Lexeme) → Prop
  | _, [] => True
  | k, (g, l) :: rest => g.Ok o ∧ l.Valid o ∧ SepOk o k g l ∧ ItemsOk o l.endKind rest

instance instDecidableItemsOk (o : Oracles) : (k : EndKind) → (items : List (Gap × Lexeme)) → Decidable (ItemsOk o k items)
  | _, [] => isTrue trivial
  | k, (g, l) :: rest =>
    have := instDecidableItemsOk o l.endKind rest
    inferInstanceAs (Decidable (g.Ok o ∧ l.Valid o ∧ SepOk o k g l ∧ ItemsOk o l.endKind rest))

def lastKind : EndKind → List (Gap × Lexeme) → EndKind
  | k, [] => k
  | _, (_, l) :: rest => lastKind l.endKind rest

def renderItems : List (Gap × Lexeme) → List Char
  | [] => []
  | (g, l) :: rest => g.text ++ l.text ++ renderItems rest

/-- a whole text: lexemes with the gap before each, the gap after the last one, and possibly an unterminated
comment `-- …` at the very end -/
structure Layout where
  items : List (Gap × Lexeme)
  final : Gap := []
  tail : Option (List Char) := none

def Layout.text (L : Layout) : List Char :=
  renderItems L.items ++ L.final.text ++ (match L.tail with | none => [] | some b => '-' :: '-' :: b)

def Layout.Ok (o : Oracles) (L : Layout) : Prop :=
  ItemsOk o .other L.items ∧ L.final.Ok o ∧ GapStartOk (lastKind .other L.items) L.final ∧
  (match L.tail with
   | none => True
   | some b => '\n' ∉ b ∧ (L.final = [] → lastKind .other L.items ≠ .op '-'))

instance (o : Oracles) (L : Layout) : Decidable (L.Ok o) :=
  match ht : L.tail with
  | none =>
    if h : ItemsOk o .other L.items ∧ L.final.Ok o ∧ GapStartOk (lastKind .other L.items) L.final then
      isTrue ⟨h.1, h.2.1, h.2.2, by simp only [ht]⟩
    else isFalse (fun h' => h ⟨h'.1, h'.2.1, h'.2.2.1⟩)
  | some b =>
    if h : ItemsOk o .other L.items ∧ L.final.Ok o ∧ GapStartOk (lastKind .other L.items) L.final ∧
        ('\n' ∉ b ∧ (L.final = [] → lastKind .other L.items ≠ .op '-')) then
      isTrue ⟨h.1, h.2.1, h.2.2.1, by simp only [ht]; exact h.2.2.2⟩
    else isFalse (fun h' => h ⟨h'.1, h'.2.1, h'.2.2.1, by have := h'.2.2.2; simp only [ht] at this; exact this⟩)

def Layout.lexemes (L : Layout) : List Lexeme := L.items.map (·.2)

/-- replace every comment of a gap by a line break -/
def stripGap (g : Gap) : Gap :=
  g.map (fun i => match i with | .comment _ => .ws '\n' | i => i)

/-- replace every comment by a line break, drop an unterminated comment at the end -/
def stripComments (L : Layout) : Layout :=
  { items := L.items.map (fun x => (stripGap x.1, x.2)), final := stripGap L.final, tail := none }

/-! ### the tokens of a lexeme sequence -/

/-- the three fusions through the last token: `IS`+`NOT`, `NOT`+`IN`, `:`+`:` (last token first) -/
def pushTok (rev : List Tok) (t : Tok) : List Tok :=
  match t, rev with
  | .kw .not, .kw .is :: r => .kw .isNot :: r
  | .kw .in, .kw .not :: r => .kw .notIn :: r
  | .colon, .colon :: r => .dcolon :: r
  | t, r => t :: r

def fuse (ts : List Tok) : List Tok := (ts.foldl pushTok []).reverse

end Sqlgrep.Lex
