import SqlgrepModel.Spec.Agg
/-
C04 — GROUP BY: one row per group, every aggregate computed from that group's rows.
-/
namespace Sqlgrep.Props.C04
open Sqlgrep

/-- COUNT(*) of a group is the number of its rows -/
theorem spec_count_star (vs : List Value) : Spec.Agg.aggregate (.count none false) vs = some (.int vs.length) := rfl

end Sqlgrep.Props.C04
