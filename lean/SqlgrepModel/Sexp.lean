/- S-expressions: the wire format of the line protocol between the Rust harness and the driver. -/
namespace Sqlgrep

inductive Sexp where
  | atom (s : String)
  | list (xs : List Sexp)
  deriving Repr, Inhabited

namespace Sexp

structure PState where
  stack : List (List Sexp) := []
  cur : List Sexp := []          -- reversed
  buf : List Char := []          -- reversed
  bad : Bool := false

def flush (st : PState) : PState :=
  if st.buf.isEmpty then st else { st with cur := .atom (String.ofList st.buf.reverse) :: st.cur, buf := [] }

def step (st : PState) (c : Char) : PState :=
  if c == '(' then
    let st := flush st
    { st with stack := st.cur :: st.stack, cur := [] }
  else if c == ')' then
    let st := flush st
    match st.stack with
    | [] => { st with bad := true }
    | parent :: rest => { st with stack := rest, cur := .list st.cur.reverse :: parent }
  else if c == ' ' || c == '\t' || c == '\n' || c == '\r' then flush st
  else { st with buf := c :: st.buf }

/-- parse a whole line into its top-level items -/
def parseAll (s : String) : Option (List Sexp) :=
  let st := flush (s.toList.foldl step {})
  if st.bad || !st.stack.isEmpty then none else some st.cur.reverse

def atom? : Sexp → Option String
  | atom s => some s
  | _ => none

def list? : Sexp → Option (List Sexp)
  | list xs => some xs
  | _ => none

def int? (s : Sexp) : Option Int := s.atom?.bind String.toInt?
def nat? (s : Sexp) : Option Nat := s.atom?.bind String.toNat?

def hexVal (c : Char) : Option Nat :=
  if '0' ≤ c && c ≤ '9' then some (c.toNat - '0'.toNat)
  else if 'a' ≤ c && c ≤ 'f' then some (c.toNat - 'a'.toNat + 10)
  else none

def hexBytes : List Char → Option (List Nat)
  | [] => some []
  | [_] => none
  | a :: b :: rest => do
    let x ← hexVal a
    let y ← hexVal b
    let r ← hexBytes rest
    pure ((x * 16 + y) :: r)

/-- `x<hex>` atom → bytes -/
def bytes? (s : Sexp) : Option (List Nat) :=
  match s.atom? with
  | some str =>
    match str.toList with
    | 'x' :: rest => hexBytes rest
    | _ => none
  | none => none

def hexDigit (n : Nat) : Char :=
  if n < 10 then Char.ofNat (n + '0'.toNat) else Char.ofNat (n - 10 + 'a'.toNat)

def showBytes (bs : List Nat) : String :=
  String.ofList ('x' :: bs.flatMap (fun b => [hexDigit (b / 16 % 16), hexDigit (b % 16)]))

end Sexp
end Sqlgrep
