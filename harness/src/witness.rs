// Concrete witnesses of the defects observed on the pinned tree (DESIGN.md section 9).
// Each witness evaluates the *property* on the real implementation for one input and
// returns Err(description) when the property fails there. They run first in every check
// (regression corpus): a `fixed` finding that returns is reported as a violation again.
use std::sync::mpsc;
use std::time::Duration;

use sqlgrep::executor::OutputFormat;
use sqlgrep::model::{Float, Value};

use crate::runq::*;
use crate::util::{catch, Caught};

pub struct Witness {
    pub id: &'static str,
    pub props: &'static [&'static str],
    pub what: &'static str,
    pub run: fn() -> Result<(), String>,
}

const T3: &str = "CREATE TABLE t(line = '(\\\\w+);([0-9-]*);([0-9-]*)', line[1] => k TEXT, line[2] => v INT, line[3] => w INT);";

/// Marker of a witness of an OPEN finding whose outcome is EXACTLY the documented wrong answer of that finding. Only such
/// an `Err` is reported under the finding's class (`Dxx:witness`, KNOWN-FINDING); any other failure of the witness — a
/// panic, another error kind, a different wrong answer — is an unknown failure (`witness-failed-differently:Dxx`).
pub const KNOWN_DEVIATION: &str = "known deviation: ";
fn known(msg: String) -> String { format!("{}{}", KNOWN_DEVIATION, msg) }
fn records(l: &[String]) -> Vec<&str> { l.iter().map(|s| s.as_str()).filter(|s| !s.is_empty()).collect() }
/// `expected`: what the property demands; `deviation`: the records the open finding documents
fn expect_lines_or_known(o: Outcome, expected: &[&str], deviation: &[&str]) -> Result<(), String> {
    match &o {
        Outcome::Lines(l) if records(l) == expected => Ok(()),
        Outcome::Lines(l) if records(l) == deviation => Err(known(format!("expected {:?} got {}", expected, o.show()))),
        _ => Err(format!("expected {:?} (or the documented deviation {:?}) got {}", expected, deviation, o.show())),
    }
}

fn expect_lines(o: Outcome, expected: &[&str]) -> Result<(), String> {
    match &o {
        // blank separator lines after multi-row results are layout, not records
        Outcome::Lines(l) if l.iter().map(|s| s.as_str()).filter(|s| !s.is_empty()).collect::<Vec<_>>() == expected => Ok(()),
        _ => Err(format!("expected {:?} got {}", expected, o.show())),
    }
}

fn expect_error(o: Outcome) -> Result<(), String> {
    match &o {
        Outcome::Error(_) => Ok(()),
        _ => Err(format!("expected an error, got {}", o.show())),
    }
}

fn expect_no_panic(o: Outcome) -> Result<(), String> {
    match &o {
        Outcome::Panic(_) => Err(format!("got {}", o.show())),
        _ => Ok(()),
    }
}

fn tree(expr: &str) -> String {
    let text = format!("SELECT {} FROM t", expr);
    match catch(|| sqlgrep::parsing::parse_into_tree(&text)) {
        Caught::Done(Ok(t)) => {
            let s = format!("{}", t);
            s.trim_start_matches("SELECT ").trim_end_matches(" FROM t").to_owned()
        }
        Caught::Done(Err(e)) => format!("ERROR({})", e.error),
        Caught::Panic(m) => format!("PANIC({})", m),
    }
}

fn expect_tree(expr: &str, expected: &str) -> Result<(), String> {
    let got = tree(expr);
    if got == expected { Ok(()) } else { Err(format!("`{}` parsed as `{}`, expected `{}`", expr, got, expected)) }
}

fn expect_parse_ok(text: &str) -> Result<(), String> {
    match catch(|| sqlgrep::parsing::parse(text)) {
        Caught::Done(Ok(_)) => Ok(()),
        Caught::Done(Err(e)) => Err(format!("`{}` rejected: {}", text, e)),
        Caught::Panic(m) => Err(format!("`{}` PANIC({})", text, m)),
    }
}

fn expect_parse_err_located(text: &str) -> Result<(), String> {
    match catch(|| sqlgrep::parsing::parse(text).map(|_| ()).map_err(|e| e.location().extract_near(text))) {
        Caught::Done(Ok(())) => Err(format!("`{}` accepted", text)),
        Caught::Done(Err(_)) => Ok(()),
        Caught::Panic(m) => Err(format!("`{}` PANIC({})", text, m)),
    }
}

const TS3: &str = "CREATE TABLE t(line = '([0-9]+)-([0-9]+)-([0-9]+)', line[1], line[2], line[3] => ts TIMESTAMP);";
const TS7: &str = "CREATE TABLE t(line = '([0-9]+)-([0-9]+)-([0-9]+) ([0-9]+):([0-9]+):([0-9]+)\\\\.([0-9]+)', line[1], line[2], line[3], line[4], line[5], line[6], line[7] => ts TIMESTAMP);";

fn d01() -> Result<(), String> {
    expect_lines(run_batch(TS3, "SELECT ts FROM t", "2020-4294967297-05\n"), &[])
}
fn d02() -> Result<(), String> {
    expect_lines(run_batch(TS7, "SELECT ts FROM t", "2020-01-05 10:11:12.9999999\n"), &[])
}
fn d03() -> Result<(), String> {
    expect_lines(run_batch(T3, "SELECT v FROM t WHERE v > 1.5", "a;2;0\nb;1;0\n"), &["v: 2"])
}
fn d04() -> Result<(), String> {
    expect_error(run_batch(T3, "SELECT k FROM t WHERE k > 5", "a;2;0\n"))
}
fn d05() -> Result<(), String> {
    expect_lines(run_batch(T3, "SELECT k FROM t WHERE w IN (NULL, 5)", "a;1;\nb;1;5\n"), &["k: 'b'"])
}
fn d06() -> Result<(), String> {
    expect_lines(run_batch(T3, "SELECT k FROM t WHERE w NOT IN (5, 7)", "a;1;\nb;1;6\n"), &["k: 'b'"])
}
fn d07() -> Result<(), String> {
    expect_error(run_batch(T3, "SELECT v / 0 FROM t", "a;1;1\n"))
}
fn d08() -> Result<(), String> {
    expect_error(run_batch(T3, "SELECT v + 9223372036854775807 FROM t", "a;1;1\n"))
}
fn d09() -> Result<(), String> {
    expect_lines(run_batch(T3, "SELECT k FROM t WHERE regex_matches(k, '^a')", "ab;1;1\nb;1;1\n"), &["k: 'ab'"])
}
fn d10() -> Result<(), String> {
    // documented deviation (open): the group `b`, in which COUNT(v) creates no entry, is missing — and nothing else differs
    expect_lines_or_known(run_batch(T3, "SELECT k, COUNT(v) FROM t GROUP BY k", "a;1;1\nb;;2\n"),
        &["k: 'a', count1: 1", "k: 'b', count1: 0"], &["k: 'a', count1: 1"])
}
fn d11() -> Result<(), String> {
    expect_lines(
        run_batch(T3, "SELECT k, COUNT(v), SUM(w) FROM t GROUP BY k", "a;1;10\nb;;20\nc;3;30\n"),
        &["k: 'a', count1: 1, sum2: 10", "k: 'b', count1: 0, sum2: 20", "k: 'c', count1: 1, sum2: 30"],
    )
}
fn d12() -> Result<(), String> {
    expect_lines(run_batch(T3, "SELECT PERCENTILE(v, 1.0) FROM t", "a;1;1\nb;5;1\nc;3;1\n"), &["percentile0: 5"])
}
fn d13() -> Result<(), String> {
    expect_lines(run_batch(T3, "SELECT MIN(k), MAX(k) FROM t", "b;1;1\na;1;1\nc;1;1\n"), &["min0: 'a', max1: 'c'"])
}
fn d14() -> Result<(), String> {
    expect_lines(
        run_batch(T3, "SELECT k, COUNT(*) FROM t GROUP BY k HAVING COUNT(v) > 0", "a;1;1\nb;;2\n"),
        &["k: 'a', count1: 1"],
    )
}
fn d15() -> Result<(), String> {
    // documented deviation (open): the run is refused with `ExecutionError::CannotCreateArrayOfNullType`, nothing printed
    let o = run_batch(T3, "SELECT ARRAY_AGG(w) FROM t", "a;1;\nb;1;5\n");
    match &o {
        Outcome::Error(e) if e == "exec: Cannot create array of null type after []" => Err(known(format!("expected [\"array_agg0: {{NULL, 5}}\"] got {}", o.show()))),
        _ => expect_lines(o, &["array_agg0: {NULL, 5}"]),
    }
}
// D63 (C03; fixed /repo 91aa1f4): TIMESTAMP op INTERVAL ignored the operator — `ts - iv`, `ts * iv`, `ts / iv` all answered `ts + iv`
fn d63() -> Result<(), String> {
    expect_lines(run_batch(T3, "SELECT make_timestamp(2016, 12, 31, 10, 0, 0, 0, 0) - '01:00:00'::interval FROM t", "a;1;1\n"), &["p0: 2016-12-31 09:00:00.000"])?;
    expect_error(run_batch(T3, "SELECT make_timestamp(2016, 12, 31, 10, 0, 0, 0, 0) * '01:00:00'::interval FROM t", "a;1;1\n"))
}
// D64 (C03; fixed /repo 7252aee): the README's seven-argument make_timestamp was an "Undefined function" error (the evaluator wanted eight)
fn d64() -> Result<(), String> {
    expect_lines(run_batch(T3, "SELECT make_timestamp(2024, 2, 29, 13, 45, 12, 0) FROM t", "a;1;1\n"), &["p0: 2024-02-29 13:45:12.000"])
}
// D69 (C03; fixed in /repo): a condition — WHERE, HAVING, an operand of AND / OR, a WHEN clause — that is neither BOOLEAN nor
// NULL counted as FALSE (`Value::bool()`): `WHERE v + 1` silently selected nothing, `5 AND true` was false, `CASE WHEN 5 …`
// took the ELSE branch. A type mismatch must be reported as an error (NOT of an INT always was one). NULL still does not hold.
fn d69() -> Result<(), String> {
    expect_error(run_batch(T3, "SELECT k FROM t WHERE v + 1", "a;1;1\n")).map_err(|e| format!("WHERE v + 1: {}", e))?;
    expect_error(run_batch(T3, "SELECT v AND true FROM t", "a;1;1\n")).map_err(|e| format!("v AND true: {}", e))?;
    expect_error(run_batch(T3, "SELECT true AND k FROM t", "a;1;1\n")).map_err(|e| format!("true AND k: {}", e))?;
    expect_error(run_batch(T3, "SELECT k OR false FROM t", "a;1;1\n")).map_err(|e| format!("k OR false: {}", e))?;
    expect_error(run_batch(T3, "SELECT CASE WHEN v THEN 1 ELSE 2 END FROM t", "a;1;1\n")).map_err(|e| format!("CASE WHEN v: {}", e))?;
    expect_error(run_batch(T3, "SELECT COUNT(*) FROM t WHERE k", "a;1;1\n")).map_err(|e| format!("aggregate, WHERE k: {}", e))?;
    expect_error(run_batch(T3, "SELECT k, COUNT(*) FROM t GROUP BY k HAVING SUM(v)", "a;1;1\n")).map_err(|e| format!("HAVING SUM(v): {}", e))?;
    // what stays: NULL does not hold (no error), the left operand that decides hides the right one, BOOLEAN conditions work
    expect_lines(run_batch(T3, "SELECT k FROM t WHERE v + 1", "a;;1\n"), &[]).map_err(|e| format!("WHERE NULL: {}", e))?;
    expect_lines(run_batch(T3, "SELECT false AND v, true OR k, v IS NULL AND w FROM t", "a;1;1\n"), &["p0: false, p1: true, p2: false"])?;
    expect_lines(run_batch(T3, "SELECT k FROM t WHERE v > 0 AND w > 0", "a;1;1\nb;1;0\n"), &["k: 'a'"])
}
// D66 (C02; fixed /repo 265d413): a JSON number with a fraction or exponent was read by serde_json's default float reader
// (significand as f64, then one multiplication / division by a power of ten), which can be one unit in the last place off
// the nearest REAL; `f64::from_str` of the same text (a cast, a regex column) gives the nearest one. With `float_roundtrip` both agree.
fn d66() -> Result<(), String> {
    const TJ: &str = "CREATE TABLE t({.x} => x REAL);";
    for lit in ["239.21e-27", "2.2250738585072011e-308"] {
        let line = format!("{{\"x\":{}}}\n", lit);
        expect_lines(run_batch(TJ, &format!("SELECT x = '{}'::real FROM t", lit), &line), &["p0: true"])
            .map_err(|e| format!("JSON number {} is not the REAL f64::from_str gives for the same text: {}", lit, e))?;
    }
    Ok(())
}
fn d16() -> Result<(), String> {
    expect_error(run_batch(T3, "SELECT SUM(v) FROM t", "a;9223372036854775807;1\nb;1;1\n"))
}

const J2: &str = "CREATE TABLE a(line = 'A;(\\\\w*);([0-9]*)', line[1] => x TEXT, line[2] => k INT);\nCREATE TABLE b(line = 'B;(\\\\w*);([0-9]*)', line[1] => y TEXT, line[2] => k INT);";

fn join_query(outer: bool, sel: &str, joined: &str, tail: &str) -> (String, std::path::PathBuf) {
    let p = tmp_file(joined.as_bytes());
    let q = format!(
        "SELECT {} FROM a {} JOIN b::'{}' ON a.k = b.k{}",
        sel,
        if outer { "OUTER" } else { "INNER" },
        p.display(),
        tail
    );
    (q, p)
}

fn d17() -> Result<(), String> {
    let (q, p) = join_query(false, "x, y", "B;q;\nB;r;1\n", "");
    let r = run_batch(J2, &q, "A;n;\nA;m;1\n");
    let _ = std::fs::remove_file(p);
    expect_lines(r, &["x: 'm', y: 'r'"])
}
fn d18() -> Result<(), String> {
    let p = tmp_file(b"B;r;1\n");
    let q = format!("SELECT x FROM a INNER JOIN b::'{}' ON a.nosuch = b.k", p.display());
    let r = run_batch(J2, &q, "zzz\n");
    let _ = std::fs::remove_file(p);
    expect_error(r)
}
fn d19() -> Result<(), String> {
    let r = run_batch_full(T3, "SELECT k FROM t LIMIT 0", &[b"a;1;1\nb;1;1\n".to_vec()], &RunOpts::default());
    expect_lines(r.outcome, &[])?;
    if r.total_lines != 0 { return Err(format!("LIMIT 0 consumed {} lines", r.total_lines)); }
    Ok(())
}
fn d20() -> Result<(), String> {
    expect_lines(run_batch_files(T3, "SELECT k FROM t LIMIT 1", &["a;1;1\n", "b;1;1\n"]), &["k: 'a'"])
}
fn d21() -> Result<(), String> {
    let (q, p) = join_query(false, "x, y", "B;p;1\nB;q;1\nB;r;1\n", " LIMIT 2");
    let r = run_batch(J2, &q, "A;m;1\nA;n;1\n");
    let _ = std::fs::remove_file(p);
    expect_lines(r, &["x: 'm', y: 'p'", "x: 'm', y: 'q'"])
}
fn d22() -> Result<(), String> {
    expect_lines(run_batch(T3, "SELECT w FROM t LIMIT 2", "a;1;\nb;1;\nc;1;3\n"), &["w: NULL", "w: NULL"])
}
fn d23() -> Result<(), String> {
    expect_lines(run_batch(T3, "SELECT DISTINCT COUNT(*) AS c FROM t GROUP BY k", "a;1;1\na;1;1\nb;1;1\nb;1;1\n"), &["c: 2"])
}
fn d24() -> Result<(), String> {
    let lines: Vec<String> = vec!["a;1;1".to_owned(), "b;1;1".to_owned()];
    match run_incremental(T3, "SELECT DISTINCT k, COUNT(*) AS c FROM t GROUP BY k HAVING COUNT(*) > 0", &lines) {
        Ok(steps) => {
            let last = steps.last().unwrap();
            match last {
                Some((_, rows)) if rows.len() == 2 => Ok(()),
                other => Err(format!("table after second line: {:?}", other)),
            }
        }
        Err(o) => Err(o.show()),
    }
}
const R3: &str = "CREATE TABLE t(line = '^([^;]*);([0-9-]*);([0-9-]*)$', line[1] => r REAL, line[2] => v INT, line[3] => w INT);";
// D72 (C04, repaired): VARIANCE / STDDEV used to be the one-pass formula (Σx² − (Σx)²/n)/n in REAL arithmetic for INT and REAL
// arguments alike: the subtraction cancels, and over EQUAL values (exact variance 0) the cell was NEGATIVE and STDDEV NaN
// (`variance0: -0.00, stddev1: NaN` over three REAL rows 0.1; `variance0: -146.29, stddev1: NaN` over seven INT rows
// 1000000007; `variance0: 10.67, stddev1: 3.27` over three INT rows 300000007). Regression witness: all three print 0.00 / 0.00.
// Lean: `Props/C04Variance.lean` `d72_repaired_real`, `d72_repaired_int`, `d72_repaired_equal_ints` (same inputs, same cells).
fn d72() -> Result<(), String> {
    expect_lines(run_batch(R3, "SELECT VARIANCE(r), STDDEV(r) FROM t", "0.1;;\n0.1;;\n0.1;;\n"), &["variance0: 0.00, stddev1: 0.00"])?;
    expect_lines(run_batch(R3, "SELECT VARIANCE(v), STDDEV(v) FROM t", &";1000000007;\n".repeat(7)), &["variance0: 0.00, stddev1: 0.00"])?;
    expect_lines(run_batch(R3, "SELECT VARIANCE(v), STDDEV(v) FROM t", &";300000007;\n".repeat(3)), &["variance0: 0.00, stddev1: 0.00"])
}
// D76 (C04, OPEN): for REAL arguments VARIANCE / STDDEV are the one-pass formula (Σx² − (Σx)²/n)/n in REAL arithmetic (clamped at 0
// since D72): with a large mean and a small spread the subtraction cancels. 100000001.0, 100000002.0, 100000003.0 give VARIANCE 0.0
// and STDDEV 0.0 (exact 2/3 and 0.816…); 1000000.1, 1000000.2, 1000000.3 give 0.0068359375 (exact 0.006666…: 2.5 % off).
// The property holds when both cells are within a relative 1e-9 of the exact variance (computed in integers) and its square root;
// the documented deviation is EXACTLY the one-pass formula's value, bit for bit. Lean: `Props/C04Variance.lean`
// `d76_real_variance_far_from_exact`.
fn d76() -> Result<(), String> {
    let mut deviations = Vec::new();
    for texts in [["100000001.0", "100000002.0", "100000003.0"], ["1000000.1", "1000000.2", "1000000.3"]] {
        let xs: Vec<f64> = texts.iter().map(|t| t.parse::<f64>().unwrap()).collect();
        let lines: Vec<String> = texts.iter().map(|t| format!("{};;", t)).collect();
        match run_engine_batch(R3, "SELECT VARIANCE(r), STDDEV(r) FROM t", &lines) {
            RowsOutcome::Rows { rows, .. } if rows.len() == 1 && rows[0].len() == 2 => match (&rows[0][0], &rows[0][1]) {
                (Value::Float(v), Value::Float(sd)) => match crate::c04::judge_real_variance(&xs, v.0, sd.0) {
                    Some(Ok(())) => {}
                    Some(Err(true)) => deviations.push(format!("{:?}: VARIANCE {:?} STDDEV {:?} (exact variance {:?})", texts, v.0, sd.0, crate::c04::exact_real_variance(&xs).unwrap())),
                    _ => return Err(format!("{:?}: VARIANCE {:?} STDDEV {:?} is neither near the exact variance {:?} nor the one-pass formula's value {:?}", texts, v.0, sd.0, crate::c04::exact_real_variance(&xs), crate::c04::onepass_real_variance(&xs))),
                },
                other => return Err(format!("{:?}: cells {:?}", texts, other)),
            },
            other => return Err(format!("{:?}: {:?}", texts, other)),
        }
    }
    if deviations.is_empty() { Ok(()) } else { Err(known(deviations.join("; "))) }
}
// D74 (C04, repaired in ae3273b): AVG over INTERVAL used chrono's `TimeDelta / i32`, which divides seconds and nanoseconds apart:
// over 1.002 s, 0, 0 the program printed `00:00:00.333` (333 999 999 ns; the total 1 002 000 000 ns / 3 is exactly 334 000 000 ns),
// over −2 ms, 0, 0 the cell was −666 667 ns (total / count truncated towards zero: −666 666 ns). Regression witness, at value level.
// Lean: `Props/C04Avg.lean` `d74_avg_interval_exact`, `d74_avg_negative_interval` (same inputs, same cells).
fn d74() -> Result<(), String> {
    let q = "SELECT AVG(t2 - ts), COUNT(*) FROM t";
    let rows = |deltas: &[&str]| -> Vec<String> { deltas.iter().map(|t2| format!("a;;;;~;;;2000-03-04 05:06:30;2000-03-04 05:06:{}", t2)).collect() };
    expect_lines(run_batch(crate::c04::C04_DEF, q, &(rows(&["31.002000", "30.000000", "30.000000"]).join("\n") + "\n")), &["avg0: 00:00:00.334, count1: 3"])?;
    for (deltas, ns) in [(["31.002000", "30.000000", "30.000000"], 334_000_000i128), (["29.998000", "30.000000", "30.000000"], -666_666)] {
        match run_engine_batch(crate::c04::C04_DEF, q, &rows(&deltas)) {
            RowsOutcome::Rows { rows, .. } if rows.len() == 1 && matches!(&rows[0][0], Value::Interval(x) if crate::c04::iv_ns(x) == ns) => {}
            other => return Err(format!("AVG(t2 - ts) over the differences {:?}: expected the interval of {} ns (total / count, truncated towards zero), got {:?}", deltas, ns, other)),
        }
    }
    Ok(())
}
// D60 (C11): GROUP BY over REAL keys 0.0 / -0.0 (equal in the value order, printed differently): the table shown after
// the second line fed incrementally must equal the batch table over both lines
fn d60() -> Result<(), String> {
    // documented deviation (open): the two tables are equal once `-0.0 ↦ 0.0` is applied to the key column, and differ raw
    // (follow mode shows the key `0.0`, batch mode `-0.0`); anything else — an error, another row, another cell — is not D60
    let lines: Vec<String> = vec!["0.0;;1".to_owned(), "-0.0;1;2".to_owned()];
    let q = "SELECT r, COUNT(v), PERCENTILE(w, 0.5) FROM t GROUP BY r";
    let follow = match run_incremental(R3, q, &lines) {
        Ok(steps) => match steps.last().unwrap() { Some((_, rows)) => rows.clone(), None => return Err("no table after line 2".to_owned()) },
        Err(o) => return Err(o.show()),
    };
    let batch = match run_engine_batch(R3, q, &lines) { RowsOutcome::Rows { rows, .. } => rows, other => return Err(format!("batch run: {:?}", other)) };
    let show = |rows: &Vec<Vec<Value>>| format!("{:?}", rows);
    // … applied to the GROUP BY key column (the first select-list item) only
    let canon = |rows: &Vec<Vec<Value>>| -> Vec<Vec<Value>> { rows.iter().map(|r| r.iter().enumerate().map(|(i, v)| if i == 0 { crate::engine_run::canon_zero_nan(v) } else { v.clone() }).collect()).collect() };
    let msg = format!("after line 2 follow mode shows {} but a batch run over both lines gives {}", show(&follow), show(&batch));
    if show(&follow) == show(&batch) { Ok(()) }
    else if show(&canon(&follow)) == show(&canon(&batch)) { Err(known(msg)) }
    else { Err(msg) }
}
// D65 (C11 at program level): follow mode, CSV format, aggregate statement: every screen must be the batch output over the
// lines consumed so far — the second refresh must show the header again
fn d65() -> Result<(), String> {
    let c = crate::e2ef::FCase { defs: "CREATE TABLE t(line = '(.*)', line[1] => x TEXT);".to_owned(), query: "SELECT COUNT(*) AS n FROM t".to_owned(),
        format: sqlgrep::executor::OutputFormat::CSV(";".to_owned()), head: true, initial: b"a\nb\n".to_vec(), acts: Vec::new(), family: "witness" };
    let a = crate::e2ef::run_real(&c);
    // C, header, row, C, header, row
    let want = format!("ok out=C,{},{},C,{},{}", crate::util::hex(b"n"), crate::util::hex(b"1"), crate::util::hex(b"n"), crate::util::hex(b"2"));
    if a == want { Ok(()) } else { Err(format!("sqlgrep --follow --head --format csv wrote {} (C = screen cleared); every screen should be the batch output: {}", a, want)) }
}
// D61 (C11): aggregate over a JOIN in follow mode, a line with two partners: the refresh must be ONE table (the batch table)
fn d61() -> Result<(), String> {
    let p = tmp_file("B;x;1\nB;y;1\n".as_bytes());
    let q = format!("SELECT COUNT(*) FROM a INNER JOIN b::'{}' ON a.k = b.k", p.display());
    let r = catch(|| -> Result<usize, String> {
        let tables = parse_tables(J2)?;
        let statement = sqlgrep::parsing::parse(&q).map_err(|e| format!("parse: {}", e))?;
        let mut engine = sqlgrep::execution::execution_engine::ExecutionEngine::with_executed_joined_table(&tables, &statement).map_err(|e| format!("join: {}", e))?;
        let o = engine.execute("A;m;1".to_owned(), &sqlgrep::execution::execution_engine::ExecutionConfig::default()).map_err(|e| format!("exec: {}", e))?;
        Ok(o.result_row.map(|r| r.data.len()).unwrap_or(0))
    });
    let _ = std::fs::remove_file(p);
    match r {
        Caught::Done(Ok(1)) => Ok(()),
        Caught::Done(Ok(n)) => Err(format!("the refresh after a line with two join partners shows {} rows (one table per partner, concatenated: [1], [2]); a batch run shows the one row [2]", n)),
        Caught::Done(Err(e)) => Err(e),
        Caught::Panic(m) => Err(m),
    }
}
fn d26() -> Result<(), String> {
    expect_no_panic(run_batch(T3, "SELECT abs(v) FROM t", "a;-9223372036854775808;1\n"))?;
    expect_no_panic(run_batch(T3, "SELECT -v FROM t", "a;-9223372036854775808;1\n"))?;
    expect_no_panic(run_batch(T3, "SELECT pow(v, 70) FROM t", "a;3;1\n"))
}
const R1: &str = "CREATE TABLE t(line = '(\\\\S+)', line[1] => r REAL);";
fn d27() -> Result<(), String> {
    expect_no_panic(run_batch_fmt(R1, "SELECT r FROM t", "nan\ninf\n1e400\n", OutputFormat::Json))
}
fn d29() -> Result<(), String> {
    // the file first ends inside the two-byte character, the rest is appended at the first retry
    use std::io::{Seek, SeekFrom, Write};
    let path = tmp_file(b"");
    let (tx, rx) = mpsc::channel();
    let p2 = path.clone();
    std::thread::spawn(move || {
        let mut w = std::fs::OpenOptions::new().append(true).open(&p2).unwrap();
        w.write_all(&[b'a', 0xc3]).unwrap();
        w.flush().unwrap();
        let mut reader = std::io::BufReader::new(std::fs::File::open(&p2).unwrap());
        reader.seek(SeekFrom::Start(0)).unwrap();
        let mut step = 0;
        sqlgrep::helpers::verif_hooks::set_follow_retry_hook(Some(Box::new(move || {
            step += 1;
            if step == 1 {
                w.write_all(&[0xa9, b'\n']).unwrap();
                w.flush().unwrap();
                true
            } else {
                false
            }
        })));
        let got: Vec<String> = sqlgrep::helpers::FollowFileIterator::new(reader).collect();
        sqlgrep::helpers::verif_hooks::set_follow_retry_hook(None);
        let _ = tx.send(got);
    });
    let got = rx.recv_timeout(Duration::from_secs(10)).map_err(|_| "follow reader hung".to_owned())?;
    let _ = std::fs::remove_file(path);
    if got == vec!["a\u{e9}".to_owned()] { Ok(()) } else { Err(format!("delivered {:?}, expected [\"a\u{e9}\"]", got)) }
}
fn d30() -> Result<(), String> {
    expect_parse_err_located("CREATE TABLE t({ } => x INT);")
}
fn d31() -> Result<(), String> {
    let r = run_batch_full(T3, "SELECT k FROM t", &[b"a;1;1\n\xff\xfe;1;1\nc;1;1\n".to_vec()], &RunOpts::default());
    match &r.outcome {
        Outcome::Error(_) => Ok(()),
        Outcome::Lines(l) if l.iter().any(|x| x == "k: 'c'") => Ok(()),
        o => Err(format!("line after the invalid one silently dropped: {}", o.show())),
    }
}
fn d32() -> Result<(), String> { expect_tree("a OR b AND c", "(a OR (b AND c))") }
fn d33() -> Result<(), String> { expect_tree("NOT a = b", "NOT (a = b)") }
fn d34() -> Result<(), String> { expect_tree("a = b + c", "(a = (b + c))")?; expect_tree("a = b < c", "((a = b) < c)") }
fn d35() -> Result<(), String> { expect_tree("x + a[1]", "(x + a[1])")?; expect_tree("x = a[1]", "(x = a[1])") }
fn d36() -> Result<(), String> { expect_tree("x = -1", "(x = -1)")?; expect_tree("x < -1", "(x < -1)")?; expect_tree("x > -1", "(x > -1)") }
fn d37() -> Result<(), String> { expect_tree("x - -1", "(x - -1)") }
fn d38() -> Result<(), String> { expect_tree("x IN (1)", "(x IN (1))") }
fn d39() -> Result<(), String> { expect_tree("-t.x", "-t.x")?; expect_tree("a * -x::int", "(a * -x::int)") }
fn d40() -> Result<(), String> { expect_parse_err_located("SELEC x FROM t") }
fn d41() -> Result<(), String> { expect_parse_err_located("SELECT string_agg(x) FROM t") }
fn d43() -> Result<(), String> {
    let nan = Value::Float(Float(f64::NAN));
    let one = Value::Float(Float(1.0));
    let two = Value::Float(Float(2.0));
    if nan != nan.clone() { return Err("NaN != NaN (equality not reflexive)".to_owned()); }
    use std::cmp::Ordering::*;
    if one.cmp(&nan) == Equal && nan.cmp(&two) == Equal && one.cmp(&two) != Equal {
        return Err("1.0 = NaN and NaN = 2.0 but 1.0 < 2.0 (not transitive)".to_owned());
    }
    Ok(())
}
fn d44() -> Result<(), String> {
    use std::hash::{Hash, Hasher};
    let a = Value::Float(Float(0.0));
    let b = Value::Float(Float(-0.0));
    let h = |v: &Value| { let mut s = fnv::FnvHasher::default(); v.hash(&mut s); s.finish() };
    if a == b && h(&a) != h(&b) { return Err("0.0 == -0.0 but they hash differently".to_owned()); }
    expect_lines(run_batch(R1, "SELECT DISTINCT r FROM t", "0.0\n-0.0\n"), &["r: 0.00"])
}
// D67 (C04; fixed /repo d5e74f6): STRING_AGG swallowed the delimiter after a leading EMPTY text: of '', 'a' it gave 'a' (and of
// 'a', '' it gave 'a,'); an empty TEXT is a non-NULL value, so the join of all non-NULL values is ',a'
fn d67() -> Result<(), String> {
    const T67: &str = "CREATE TABLE t(line = '^([^;]*);([0-9]*)$', line[1] => s TEXT, line[2] => v INT);";
    expect_lines(run_batch(T67, "SELECT STRING_AGG(s, ',') FROM t", ";1\na;2\n"), &["string_agg0: ',a'"])?;
    expect_lines(run_batch(T67, "SELECT STRING_AGG(s, ',') FROM t", ";1\n;2\na;3\n;4\n"), &["string_agg0: ',,a,'"])
}
fn d45() -> Result<(), String> {
    // INT vs REAL through the derived order (used for GROUP BY keys / array_unique)
    let a = Value::Int(5);
    let b = Value::Float(Float(1.0));
    // documented deviation (open): every INT is below every REAL — `Less` here and `Greater` the other way round
    use std::cmp::Ordering;
    match (a.cmp(&b), b.cmp(&a)) {
        (Ordering::Greater, Ordering::Less) => Ok(()),
        (Ordering::Less, Ordering::Greater) => Err(known("Int(5) < Float(1.0) in the derived order".to_owned())),
        other => Err(format!("cmp(Int(5), Float(1.0)), cmp(Float(1.0), Int(5)) = {:?}", other)),
    }
}
fn d49() -> Result<(), String> {
    expect_lines(run_batch(T3, "SELECT k FROM t WHERE v IN (1.0, 7.5)", "a;1;1\nb;2;1\n"), &["k: 'a'"])
}
/// D53: IN compared its members with the raw derived order, not like `=`: a TIMESTAMP operand never matched a text
/// member that `=` parses as a timestamp, and a member of another type gave false instead of the type error `=` reports
fn d53() -> Result<(), String> {
    const TS: &str = "CREATE TABLE t(line = '^(.+);(.*)$', line[1] => ts TIMESTAMP, line[2] => k TEXT);";
    let input = "2020-01-01 00:00:00;a\n2021-05-05 10:00:00;b\n";
    // `ts = '…'` parses the text; IN means the OR of `=`
    expect_lines(run_batch(TS, "SELECT k FROM t WHERE ts = '2020-01-01 00:00:00'", input), &["k: 'a'"])?;
    expect_lines(run_batch(TS, "SELECT k FROM t WHERE ts IN ('2020-01-01 00:00:00', '2030-01-01 00:00:00')", input), &["k: 'a'"])?;
    expect_lines(run_batch(TS, "SELECT k FROM t WHERE ts NOT IN ('2020-01-01 00:00:00')", input), &["k: 'b'"])?;
    // a member of another type: `k = 1` is a type error, so is `k IN (1)`
    expect_error(run_batch(TS, "SELECT k FROM t WHERE k = 1", input))?;
    expect_error(run_batch(TS, "SELECT k FROM t WHERE k IN (1, 2)", input))
}
fn d50() -> Result<(), String> {
    // year 4294969313 = 2^32 + 2017 must not silently become 2017
    expect_lines(run_batch(T3, "SELECT make_timestamp(4294969313, 1, 2, 3, 4, 5, 0, 0) AS ts FROM t", "a;1;1\n"), &["ts: NULL"])
}
fn d51() -> Result<(), String> {
    expect_no_panic(run_batch(T3, "SELECT '9999999999999999:0:0'::interval FROM t", "a;1;1\n"))?;
    expect_no_panic(run_batch(T3, "SELECT '2562047788015:0:0'::interval + '2562047788015:0:0'::interval FROM t", "a;1;1\n"))?;
    expect_no_panic(run_batch(T3, "SELECT make_timestamp(262142, 12, 31, 0, 0, 0, 0, 0) + '2562047788015:0:0'::interval FROM t", "a;1;1\n"))
}
/// runs `probe` in a child process under the given TZ (chrono's Local zone is per process)
fn tz_child(zone: &str, probe: &str) -> Result<(), String> {
    let exe = std::env::current_exe().map_err(|e| e.to_string())?;
    let out = std::process::Command::new(exe).env("TZ", zone).arg("tzprobe").arg(probe).output().map_err(|e| e.to_string())?;
    let text = String::from_utf8_lossy(&out.stdout).to_string();
    if text.contains("PROBE-OK") { Ok(()) } else { Err(format!("TZ={} {} :: {}", zone, probe, text.trim())) }
}
pub fn tzprobe(name: &str) -> String {
    const TS1: &str = "CREATE TABLE t(line = '(.+)', line[1] => ts TIMESTAMP);";
    let o = match name {
        // 2018-11-04 00:00-01:00 does not exist in America/Sao_Paulo (DST started at midnight)
        "gap-literal" => run_batch(TS1, "SELECT ts FROM t", "2018-11-04 00:30:00\n2018-11-04 12:00:00\n"),
        "gap-compare" => run_batch(TS1, "SELECT ts FROM t WHERE ts > '2018-11-04 00:30:00'", "2018-11-04 12:00:00\n"),
        // 2018-02-17 23:00-24:00 happens twice (DST ended)
        "overlap-literal" => run_batch(TS1, "SELECT ts FROM t", "2018-02-17 23:30:00\n"),
        "trunc-day" => run_batch(TS1, "SELECT date_trunc('day', ts) FROM t", "2018-11-04 12:00:00\n"),
        "trunc-month" => run_batch(TS1, "SELECT date_trunc('month', ts) FROM t", "2018-11-04 12:00:00\n"),
        _ => Outcome::Error("unknown probe".to_owned()),
    };
    match o {
        Outcome::Panic(m) => format!("PANIC({})", m),
        other => format!("PROBE-OK {}", other.show()),
    }
}
fn d25() -> Result<(), String> {
    tz_child("America/Sao_Paulo", "gap-literal")?;
    tz_child("America/Sao_Paulo", "gap-compare")?;
    tz_child("America/Sao_Paulo", "overlap-literal")
}
fn d28() -> Result<(), String> {
    tz_child("America/Sao_Paulo", "trunc-day")?;
    tz_child("America/Sao_Paulo", "trunc-month")
}
fn d46() -> Result<(), String> {
    expect_parse_ok("CREATE TABLE t(line = SPLIT ';', line[1] => k TEXT);")?;
    expect_parse_ok("CREATE TABLE t(line = MATCH '(a)', line[1] => k TEXT);")
}
fn d47() -> Result<(), String> { expect_parse_ok("SELECT x::INT, y::Text FROM t") }
fn d48() -> Result<(), String> {
    expect_parse_ok("SELECT x FROM t --")?;
    expect_parse_ok("SELECT x FROM t -- trailing comment")
}

pub fn all() -> Vec<Witness> {
    macro_rules! w {
        ($id:expr, $props:expr, $what:expr, $f:ident) => {
            Witness { id: $id, props: $props, what: $what, run: $f }
        };
    }
    vec![
        w!("D01", &["C01", "C09"], "TIMESTAMP month group 4294967297 becomes January (as u32)", d01),
        w!("D02", &["C01", "C09"], "7-digit fraction group overflows u32*1000", d02),
        w!("D03", &["C03", "C16"], "WHERE v > 1.5 with v INT ordered by type", d03),
        w!("D04", &["C03"], "TEXT compared with INT yields a value instead of an error", d04),
        w!("D05", &["C03"], "w IN (NULL, 5) true for NULL w", d05),
        w!("D06", &["C03"], "w NOT IN (5, 7) true for NULL w", d06),
        w!("D07", &["C03", "C09"], "v / 0 panics", d07),
        w!("D08", &["C03", "C09"], "v + i64::MAX panics/wraps", d08),
        w!("D09", &["C03"], "README function regex_matches undefined", d09),
        w!("D10", &["C04"], "group whose only aggregate is COUNT(col) over all-NULL argument is dropped", d10),
        w!("D11", &["C04", "C09"], "COUNT(v) over all-NULL group shifts/panics mixed columns", d11),
        w!("D12", &["C04"], "PERCENTILE(v, 1.0) empties the table", d12),
        w!("D13", &["C04", "C15"], "MIN/MAX of TEXT keep the first value", d13),
        w!("D14", &["C04", "C09"], "HAVING aggregate over all-NULL group panics", d14),
        w!("D15", &["C04"], "ARRAY_AGG whose first value is NULL errors", d15),
        w!("D16", &["C04", "C09"], "SUM overflow panics/wraps", d16),
        w!("D17", &["C05"], "NULL join keys pair", d17),
        w!("D18", &["C05"], "unknown joiner column unreported when no row is admitted", d18),
        w!("D19", &["C07"], "LIMIT 0 prints a row / consumes a line", d19),
        w!("D20", &["C07"], "LIMIT stops only the current file", d20),
        w!("D21", &["C07"], "join fan-out overshoots LIMIT", d21),
        w!("D22", &["C07"], "NULL-only rows are not counted by LIMIT", d22),
        w!("D23", &["C08"], "aggregate DISTINCT without HAVING keeps duplicates", d23),
        w!("D63", &["C03"], "TIMESTAMP - INTERVAL (and * and /) adds the interval", d63),
        w!("D64", &["C03"], "make_timestamp with the README's seven arguments is an undefined function", d64),
        w!("D67", &["C04"], "STRING_AGG swallows the delimiter after a leading empty text", d67),
        w!("D69", &["C03"], "a condition (WHERE, HAVING, operand of AND / OR, WHEN) that is neither BOOLEAN nor NULL counts as false instead of being an error", d69),
        w!("D66", &["C02"], "a JSON number with fraction / exponent is not the nearest REAL (one unit in the last place off f64::from_str of the same text)", d66),
        w!("D72", &["C04"], "VARIANCE / STDDEV over equal values: the one-pass formula cancelled, VARIANCE was negative and STDDEV NaN (repaired)", d72),
        w!("D76", &["C04"], "VARIANCE / STDDEV of REAL values with a large mean and a small spread: the one-pass formula cancels (0.0 for 100000001.0, 100000002.0, 100000003.0)", d76),
        w!("D74", &["C04"], "AVG over INTERVAL divided seconds and nanoseconds apart: 1.002 s / 3 was 0.333999999 s (repaired)", d74),
        w!("D60", &["C11"], "REAL keys 0.0 / -0.0: follow mode and batch mode show different representatives of one group", d60),
        w!("D65", &["C11"], "follow mode, CSV, aggregate statement: the header was shown on the first screen only (fixed e80a2b6)", d65),
        w!("D61", &["C11"], "follow mode, aggregate over a join: a line with several partners showed one table per partner, concatenated (fixed 7277b4c)", d61),
        w!("D24", &["C08", "C11"], "aggregate DISTINCT+HAVING empties the table on refresh", d24),
        w!("D25", &["C09"], "TIMESTAMP text in a DST gap / overlap of the local zone panics (unwrap of LocalResult)", d25),
        w!("D53", &["C03"], "IN / NOT IN do not compare their members like = (timestamp text not parsed, other types silently false)", d53),
        w!("D28", &["C09"], "date_trunc to a local midnight that does not exist panics", d28),
        w!("D26", &["C09"], "abs / unary minus / pow overflow panic", d26),
        w!("D27", &["C09", "C17"], "non-finite REAL panics in JSON output", d27),
        w!("D29", &["C10"], "follow mode ends when an append ends inside a multi-byte character", d29),
        w!("D30", &["C14", "C02"], "empty JSON path panics", d30),
        w!("D31", &["C12"], "invalid UTF-8 line silently drops the rest of the file", d31),
        w!("D32", &["C13"], "a OR b AND c groups as (a OR b) AND c", d32),
        w!("D33", &["C13"], "NOT a = b groups as (NOT a) = b", d33),
        w!("D34", &["C13"], "= binds looser than < / mis-grouped comparisons", d34),
        w!("D35", &["C13"], "x + a[1] groups as (x + a)[1]", d35),
        w!("D36", &["C13", "C20"], "x = -1 fuses =- into one operator", d36),
        w!("D37", &["C13", "C20"], "x - -1 starts a comment", d37),
        w!("D38", &["C13"], "x IN (1) rejected", d38),
        w!("D39", &["C13"], "-t.x / -x::int mis-grouped", d39),
        w!("D40", &["C14"], "error in first word underflows extract_near", d40),
        w!("D41", &["C14"], "string_agg(x) panics", d41),
        w!("D43", &["C16"], "NaN breaks the order laws", d43),
        w!("D44", &["C16", "C08"], "0.0 == -0.0 but hash differently", d44),
        w!("D45", &["C16"], "INT vs REAL ordered by type in the derived order", d45),
        w!("D49", &["C03"], "x IN (..) compares an INT with a REAL by type while = compares by value", d49),
        w!("D50", &["C03", "C09"], "make_timestamp silently wraps out-of-range parts (as i32 / as u32)", d50),
        w!("D51", &["C09"], "interval literals / interval and timestamp arithmetic out of chrono's range panic", d51),
        w!("D46", &["C20"], "SPLIT/MATCH mode words case-sensitive", d46),
        w!("D47", &["C20"], "cast type names case-sensitive", d47),
        w!("D48", &["C20"], "text ending in -- leaves a dangling token", d48),
    ]
}
