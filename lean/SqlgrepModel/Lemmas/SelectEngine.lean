import SqlgrepModel.Lemmas.SelectList
import SqlgrepModel.Lemmas.ValueOrder
/-
The select engine (`selectOne`, `selectEnvs`, `executeLine` on a `Stmt.select`) in closed form: the rows of a
line are `Spec.Select.lineRows` (WHERE then projections, per environment), DISTINCT keeps the first occurrences
relative to the memory, `updateLimit` truncates to what is left of LIMIT.
-/
namespace Sqlgrep
open Sqlgrep.Spec.Select

/-! ### `tupleSame` is value equality of tuples (C16) -/

theorem tupleSame_eq_beqList (a b : List Value) : tupleSame a b = Value.beqList a b := by
  unfold tupleSame
  cases h : Value.beqList a b with
  | false => simp
  | true => simp [Value.hashList_eq_of_beqList a b h]

theorem tupleSame_isEquiv : IsEquiv tupleSame where
  refl a := by
    rw [tupleSame_eq_beqList]; exact (Value.cmpList_eq_iff_beqList a a).1 (by
      have := Value.cmpList_swap a a
      cases h : Value.cmpList a a <;> rw [h] at this <;> simp [Ordering.swap] at this ⊢)
  symm a b h := by
    rw [tupleSame_eq_beqList] at h ⊢
    have h1 := (Value.cmpList_eq_iff_beqList a b).2 h
    have := Value.cmpList_swap a b
    rw [h1] at this
    exact (Value.cmpList_eq_iff_beqList b a).1 (by simpa [Ordering.swap] using this)
  trans a b c h1 h2 := by
    rw [tupleSame_eq_beqList] at h1 h2 ⊢
    have e1 := (Value.cmpList_eq_iff_beqList a b).2 h1
    have e2 := (Value.cmpList_eq_iff_beqList b c).2 h2
    have t := (Value.cmpList_T a b c).2.1 e1
    exact (Value.cmpList_eq_iff_beqList a c).1 (by rw [t]; exact e2)

/-! ### one environment -/

/-- what DISTINCT does with the row of one environment -/
def keepRow (distinct : Bool) (seen : List (List Value)) (r : Option (List Value)) : List (List Value) :=
  if distinct then dedupFrom tupleSame seen r.toList else r.toList

def seenAfter (distinct : Bool) (seen : List (List Value)) (kept : List (List Value)) : List (List Value) :=
  if distinct then kept.reverse ++ seen else seen

/-- append rows to an accumulated result (`extendOut` for a whole list) -/
def appendRows (acc : Option RowOut) (names : List String) (rows : List (List Value)) : Option RowOut :=
  match rows with
  | [] => acc
  | _ :: _ => match acc with
    | none => some { columns := names, rows := rows }
    | some a => some { a with rows := a.rows ++ rows }

theorem selectOne_eq (O : Oracles) (q : SelectStmt) (seen : List (List Value)) (env : Env) (keys : List String) :
    selectOne O q seen env keys =
      (envRow O q env keys).bind (fun r =>
        .ok (seenAfter q.distinct seen (keepRow q.distinct seen r),
             appendRows none (outNames q keys) (keepRow q.distinct seen r))) := by
  have core : ∀ valid : Bool,
      (if (!valid) = true then (pure (seen, none) : Outcome _)
        else
          match
            (if q.wildcard = true then (keys, List.map Expr.column keys)
            else (List.map (fun x => x.fst) q.projections, List.map (fun x => x.snd) q.projections) : List String × List Expr) with
          | (names, exprs) => do
            let vals ← evalList O env exprs
            if q.distinct = true then
                match distinctAdd seen vals with
                | (seen', fresh) =>
                  if fresh = true then pure (seen', some { columns := names, rows := [vals] }) else pure (seen', none)
              else pure (seen, some { columns := names, rows := [vals] })) =
      (if valid = true then (do
          let vals ← evalList O env (outExprs q keys)
          pure (some vals))
        else pure none : Outcome (Option (List Value))).bind (fun r =>
        .ok (seenAfter q.distinct seen (keepRow q.distinct seen r),
             appendRows none (outNames q keys) (keepRow q.distinct seen r))) := by
    intro valid
    cases valid with
    | false => simp [Outcome.bind, pure, keepRow, seenAfter, appendRows]
    | true =>
      simp only [bind, Outcome.bind, pure, Bool.not_true, Bool.false_eq_true, if_false, if_true, outExprs, outNames]
      by_cases hw : q.wildcard = true
      · simp only [hw, if_true]
        cases evalList O env (keys.map Expr.column) with
        | ok vals =>
          simp only [keepRow, seenAfter, Option.toList]
          by_cases hd : q.distinct = true
          · simp only [hd, if_true, distinctAdd, dedupFrom]
            by_cases hs : seen.any (tupleSame vals) = true <;> simp [hs, appendRows]
          · simp [hd, appendRows]
        | error k => rfl
        | panic s => rfl
        | oracleMissing w => rfl
      · simp only [hw, Bool.false_eq_true, if_false]
        cases evalList O env (q.projections.map (·.2)) with
        | ok vals =>
          simp only [keepRow, seenAfter, Option.toList]
          by_cases hd : q.distinct = true
          · simp only [hd, if_true, distinctAdd, dedupFrom]
            by_cases hs : seen.any (tupleSame vals) = true <;> simp [hs, appendRows]
          · simp [hd, appendRows]
        | error k => rfl
        | panic s => rfl
        | oracleMissing w => rfl
  unfold selectOne envRow
  cases q.filter with
  | none => exact core true
  | some f =>
    simp only []
    cases eval O env f with
    | ok v =>
      simp only [bind, Outcome.bind]
      cases condHolds v with
      | ok b => exact core b
      | error k => rfl
      | panic s => rfl
      | oracleMissing w => rfl
    | error k => rfl
    | panic s => rfl
    | oracleMissing w => rfl

/-! ### all environments of a line -/

def keepRows (distinct : Bool) (seen : List (List Value)) (rs : List (List Value)) : List (List Value) :=
  if distinct then dedupFrom tupleSame seen rs else rs

theorem keepRows_append (d : Bool) (seen a b : List (List Value)) :
    keepRows d seen (a ++ b) = keepRows d seen a ++ keepRows d (seenAfter d seen (keepRows d seen a)) b := by
  cases d <;> simp [keepRows, seenAfter, dedupFrom_append]

theorem seenAfter_append (d : Bool) (seen a b : List (List Value)) :
    seenAfter d seen (a ++ b) = seenAfter d (seenAfter d seen a) b := by
  cases d <;> simp [seenAfter]

@[simp] theorem keepRows_nil (d : Bool) (seen : List (List Value)) : keepRows d seen [] = [] := by
  cases d <;> rfl
@[simp] theorem seenAfter_nil (d : Bool) (seen : List (List Value)) : seenAfter d seen [] = seen := by
  cases d <;> rfl

theorem appendRows_append (acc : Option RowOut) (n : List String) (a b : List (List Value)) :
    appendRows acc n (a ++ b) = appendRows (appendRows acc n a) n b := by
  cases a with
  | nil => rfl
  | cons x xs =>
    cases b with
    | nil => simp [appendRows]
    | cons y ys => cases acc <;> simp [appendRows]

theorem extendOut_appendRows (acc : Option RowOut) (n : List String) (a : List (List Value)) :
    extendOut acc (appendRows none n a) = appendRows acc n a := by
  cases a with
  | nil => cases acc <;> rfl
  | cons x xs => cases acc <;> rfl

theorem selectEnvs_eq (O : Oracles) (q : SelectStmt) (K : List String) :
    ∀ (envs : List (Env × List String)) (seen : List (List Value)) (acc : Option RowOut), (∀ p ∈ envs, p.2 = K) →
    selectEnvs O q envs seen acc =
      (envsRows O q envs).bind (fun rs =>
        .ok (seenAfter q.distinct seen (keepRows q.distinct seen rs),
             appendRows acc (outNames q K) (keepRows q.distinct seen rs))) := by
  intro envs
  induction envs with
  | nil => intro seen acc _; simp [selectEnvs, envsRows, Outcome.bind, appendRows]
  | cons p rest ih =>
    intro seen acc hK
    obtain ⟨env, keys⟩ := p
    have hk : keys = K := hK (env, keys) (List.mem_cons_self ..)
    subst hk
    have hrest : ∀ p ∈ rest, p.2 = keys := fun p hp => hK p (List.mem_cons_of_mem _ hp)
    simp only [selectEnvs, envsRows, bind, selectOne_eq]
    cases envRow O q env keys with
    | ok r =>
      simp only [Outcome.bind]
      rw [ih _ _ hrest]
      cases envsRows O q rest with
      | ok rs =>
        simp only [Outcome.bind, pure]
        have e : keepRow q.distinct seen r = keepRows q.distinct seen r.toList := rfl
        rw [e, keepRows_append, seenAfter_append, appendRows_append, extendOut_appendRows]
      | error k => rfl
      | panic s => rfl
      | oracleMissing w => rfl
    | error k => rfl
    | panic s => rfl
    | oracleMissing w => rfl

/-- every environment of a line carries the same key list (what `*` expands to) -/
theorem lineEnvs_keys (qy : Query) (idx : JoinIndex) (ao : Bool) (l : Line) (envs : List (Env × List String))
    (h : lineEnvs qy idx ao l = .ok envs) : ∀ p ∈ envs, p.2 = queryKeys qy := by
  unfold lineEnvs at h
  unfold queryKeys
  cases hj : qy.join with
  | none =>
    rw [hj] at h
    simp only [Outcome.ok.injEq] at h
    subst h
    intro p hp
    simp only [List.mem_singleton] at hp
    subst hp; rfl
  | some j =>
    rw [hj] at h
    simp only at h
    cases hi : indexOf? qy.table.columns j.joinerColumn with
    | none => rw [hi] at h; cases h
    | some ki =>
      rw [hi] at h
      simp only at h
      cases hg : joinIndexGet idx (l.row.getD ki .null) with
      | some partners =>
        rw [hg] at h
        simp only [Outcome.ok.injEq] at h
        subst h
        intro p hp
        obtain ⟨jrow, _, rfl⟩ := List.mem_map.1 hp
        rfl
      | none =>
        rw [hg] at h
        simp only at h
        split at h
        · simp only [Outcome.ok.injEq] at h
          subst h
          intro p hp
          simp only [List.mem_singleton] at hp
          subst hp; rfl
        · simp only [Outcome.ok.injEq] at h
          subst h
          intro p hp; cases hp

/-! ### one line -/

/-- the result table of a line: nothing when no row survives -/
def tableOf (names : List String) (rows : List (List Value)) : Option RowOut := appendRows none names rows

/-- `executeLine` on a non-aggregate statement, in closed form: the candidate rows of the line
(`Spec.Select.lineRows`), DISTINCT against the memory, LIMIT truncation by `updateLimit` -/
theorem executeLine_select (O : Oracles) (qy : Query) (q : SelectStmt) (hq : qy.stmt = .select q) (idx : JoinIndex)
    (w : Bool) (es : EngineState) (l : Line) :
    executeLine O qy idx w es l =
      (lineRows O qy q idx l).bind (fun rs =>
        .ok (updateLimit true q.limit { es with seen := seenAfter q.distinct es.seen (keepRows q.distinct es.seen rs) }
              (tableOf (columnsOf qy q) (keepRows q.distinct es.seen rs)))) := by
  unfold executeLine lineRows
  simp only [hq]
  by_cases ha : anyResult l.row = true
  · simp only [ha, Bool.not_true, Bool.false_eq_true, if_false, bind]
    cases he : lineEnvs qy idx true l with
    | ok envs =>
      simp only [Outcome.bind]
      rw [selectEnvs_eq O q (queryKeys qy) envs es.seen none (lineEnvs_keys qy idx true l envs he)]
      cases envsRows O q envs with
      | ok rs => rfl
      | error k => rfl
      | panic s => rfl
      | oracleMissing w => rfl
    | error k => rfl
    | panic s => rfl
    | oracleMissing w => rfl
  · simp only [ha, Bool.not_false, if_true, Outcome.bind, keepRows_nil, seenAfter_nil]
    rfl

end Sqlgrep
