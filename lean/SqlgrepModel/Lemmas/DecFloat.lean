import SqlgrepModel.Model.DecFloat
import SqlgrepModel.Lemmas.FloatOrder
/-
`DecFloat.decToF64` is *correct rounding*: theorems about the function the drivers execute.

Everything is stated in exact arithmetic on naturals, in units of 2^-1074 (`F64.umag`): the number `N / D` is
`A / D` units with `A = N · 2^1074`, a finite REAL `y` is `umag y` units, and the distance between them — over the
common denominator `D` — is `adist A (umag y · D)`.

* `magBits_nearest`: no finite REAL is closer to `N / D` than the result (when the result is finite);
* `magBits_tie_even`: if another REAL is exactly as close, the result's last mantissa bit is 0 (ties to even);
* `magBits_overflow`: the result is `+inf` only if `N / D` lies above every finite REAL;
* `magBits_exact`: a number that *is* a finite REAL converts to that REAL; `decToF64_int`: integers below 2^53;
* `decToF64_neg`: sign symmetry; `clamp_inf_sound` / `clamp_zero_sound`: the exponent clamps of `decToF64`
  answer what the exact computation would answer;
* `magBits_mono`: the conversion is monotone (weakly increasing patterns for increasing numbers).
-/
namespace Sqlgrep
namespace DecFloat
open F64

/-- `|a − b|` on naturals -/
def adist (a b : Nat) : Nat := (a - b) + (b - a)

theorem adist_eq_zero {a b : Nat} : adist a b = 0 ↔ a = b := by unfold adist; omega

/-! ### rounding a quotient -/

theorem roundQ_cases (q r den : Nat) :
    (roundQ q r den = q ∧ 2 * r ≤ den) ∨ (roundQ q r den = q + 1 ∧ den ≤ 2 * r) := by
  unfold roundQ
  by_cases h1 : 2 * r < den
  · simp [h1]; omega
  · by_cases h2 : den < 2 * r
    · simp [h1, h2]; omega
    · simp only [h1, h2, if_false]
      have : q % 2 = 0 ∨ q % 2 = 1 := by omega
      rcases this with h | h <;> rw [h] <;> omega

theorem roundQ_ge (q r den : Nat) : q ≤ roundQ q r den := by
  rcases roundQ_cases q r den with h | h <;> omega
theorem roundQ_le (q r den : Nat) : roundQ q r den ≤ q + 1 := by
  rcases roundQ_cases q r den with h | h <;> omega

/-- the rounded quotient is a nearest multiple: `|A − R·den| ≤ |A − t·den|` for every `t` -/
theorem roundQ_nearest (q r den t : Nat) (hr : r < den) :
    adist (q * den + r) (roundQ q r den * den) ≤ adist (q * den + r) (t * den) := by
  unfold adist
  rcases Nat.lt_or_ge q t with ht | ht
  · -- t ≥ q + 1
    have h1 : (q + 1) * den ≤ t * den := Nat.mul_le_mul_right _ ht
    rw [Nat.add_mul, Nat.one_mul] at h1
    rcases roundQ_cases q r den with ⟨h, h2⟩ | ⟨h, h2⟩ <;> rw [h]
    · omega
    · rw [Nat.add_mul, Nat.one_mul]; omega
  · have h1 : t * den ≤ q * den := Nat.mul_le_mul_right _ ht
    rcases roundQ_cases q r den with ⟨h, h2⟩ | ⟨h, h2⟩ <;> rw [h]
    · omega
    · rw [Nat.add_mul, Nat.one_mul]; omega

/-- on a tie the rounded quotient is even -/
theorem roundQ_tie_even (q r den : Nat) (h : 2 * r = den) : roundQ q r den % 2 = 0 := by
  unfold roundQ
  simp only [h, Nat.lt_irrefl, if_false]
  omega

/-! ### the grid exponent -/

theorem two_pow3 (a b c : Nat) : (2:Nat) ^ a * (2 ^ b * 2 ^ c) = 2 ^ (a + b + c) := by
  rw [← Nat.pow_add, ← Nat.pow_add, Nat.add_assoc]

/-- with `k = gridExp A D` the quotient `A / (D · 2^k)` has at most 53 bits, and exactly 53 unless `k = 0` -/
theorem gridExp_spec (A D : Nat) (hD : 0 < D) :
    A / (D * 2 ^ gridExp A D) < 2 ^ 53 ∧ (gridExp A D = 0 ∨ 2 ^ 52 ≤ A / (D * 2 ^ gridExp A D)) := by
  by_cases hA : A = 0
  · subst hA; simp [gridExp]
  have hD0 : D ≠ 0 := by omega
  have a1 : 2 ^ A.log2 ≤ A := Nat.log2_self_le hA
  have a2 : A < 2 ^ (A.log2 + 1) := Nat.lt_log2_self
  have d1 : 2 ^ D.log2 ≤ D := Nat.log2_self_le hD0
  have d2 : D < 2 ^ (D.log2 + 1) := Nat.lt_log2_self
  generalize hk0 : A.log2 - D.log2 - 53 = k0
  have hden : 0 < D * 2 ^ k0 := Nat.mul_pos hD (Nat.two_pow_pos _)
  -- the first quotient is below 2^54
  have hq0 : A / (D * 2 ^ k0) < 2 ^ 54 := by
    rw [Nat.div_lt_iff_lt_mul hden]
    have h1 : (2:Nat) ^ (A.log2 + 1) ≤ 2 ^ (54 + D.log2 + k0) := Nat.pow_le_pow_right (by decide) (by omega)
    rw [← two_pow3] at h1
    have h2 : (2:Nat) ^ 54 * (2 ^ D.log2 * 2 ^ k0) ≤ 2 ^ 54 * (D * 2 ^ k0) :=
      Nat.mul_le_mul_left _ (Nat.mul_le_mul_right _ d1)
    omega
  unfold gridExp
  simp only [hk0]
  by_cases hc : A / (D * 2 ^ k0) < 2 ^ 53
  · simp only [hc, if_true, true_and]
    by_cases hz : k0 = 0
    · exact Or.inl hz
    · right
      rw [Nat.le_div_iff_mul_le hden]
      have e : A.log2 = 52 + (D.log2 + 1) + k0 := by omega
      have h1 : (2:Nat) ^ 52 * (D * 2 ^ k0) ≤ 2 ^ 52 * (2 ^ (D.log2 + 1) * 2 ^ k0) :=
        Nat.mul_le_mul_left _ (Nat.mul_le_mul_right _ (Nat.le_of_lt d2))
      rw [two_pow3, ← e] at h1
      omega
  · simp only [hc, if_false]
    have e : D * 2 ^ (k0 + 1) = D * 2 ^ k0 * 2 := by rw [Nat.pow_succ, Nat.mul_assoc]
    rw [e, ← Nat.div_div_eq_div_mul]
    omega


/-! ### the pattern `k · 2^52 + R` decodes to `R · 2^k` units -/

theorem W_succ (E F : Nat) : W (E + 1) F = (2 ^ 52 + F) * 2 ^ E := by
  unfold W; simp

theorem umag_encode (k R : Nat) (hR : R ≤ 2 ^ 53) (hk : k = 0 ∨ 2 ^ 52 ≤ R) (hfin : k * 2 ^ 52 + R < infBits) :
    umag (k * 2 ^ 52 + R) = R * 2 ^ k ∧ isFinite (k * 2 ^ 52 + R) = true ∧ mag (k * 2 ^ 52 + R) = k * 2 ^ 52 + R := by
  unfold infBits at hfin
  have hm : mag (k * 2 ^ 52 + R) = k * 2 ^ 52 + R := by unfold mag; omega
  refine ⟨?_, ?_, hm⟩
  · rw [umag_eq_W, expBits_eq, fracBits_eq, hm]
    by_cases h1 : R < 2 ^ 52
    · have hk0 : k = 0 := by omega
      subst hk0
      have e1 : (0 * 2 ^ 52 + R) / 2 ^ 52 = 0 := by omega
      have e2 : (0 * 2 ^ 52 + R) % 2 ^ 52 = R := by omega
      rw [e1, e2]; simp [W]
    · by_cases h2 : R = 2 ^ 53
      · have e1 : (k * 2 ^ 52 + R) / 2 ^ 52 = (k + 1) + 1 := by omega
        have e2 : (k * 2 ^ 52 + R) % 2 ^ 52 = 0 := by omega
        rw [e1, e2, h2, W_succ, Nat.pow_succ 2 k]
        have : (2:Nat) ^ 53 = 2 ^ 52 * 2 := by decide
        rw [this, Nat.add_zero, Nat.mul_assoc, Nat.mul_comm 2 (2 ^ k)]
      · have e1 : (k * 2 ^ 52 + R) / 2 ^ 52 = k + 1 := by omega
        have e2 : (k * 2 ^ 52 + R) % 2 ^ 52 = R - 2 ^ 52 := by omega
        rw [e1, e2, W_succ]
        have e3 : 2 ^ 52 + (R - 2 ^ 52) = R := by omega
        rw [e3]
  · unfold isFinite; rw [hm]; simp; omega

/-! ### the result is a nearest REAL -/

/-- every REAL magnitude is below `2^(52+k)` units or a multiple of `2^k` units -/
theorem umag_grid (y k : Nat) : umag y < 2 ^ (52 + k) ∨ ∃ t, umag y = t * 2 ^ k := by
  rw [umag_eq_W]
  have hF := fracBits_lt y
  generalize expBits y = E at *
  generalize fracBits y = F at *
  cases E with
  | zero =>
    left
    have : (2:Nat) ^ 52 ≤ 2 ^ (52 + k) := Nat.pow_le_pow_right (by decide) (by omega)
    simp [W]; omega
  | succ E' =>
    rw [W_succ]
    by_cases h : k ≤ E'
    · right
      refine ⟨(2 ^ 52 + F) * 2 ^ (E' - k), ?_⟩
      rw [Nat.mul_assoc, ← Nat.pow_add]
      congr 2; omega
    · left
      have h1 : (2 ^ 52 + F) * 2 ^ E' < 2 ^ 53 * 2 ^ E' :=
        (Nat.mul_lt_mul_right (Nat.two_pow_pos _)).2 (by omega)
      have h2 : (2:Nat) ^ 53 * 2 ^ E' ≤ 2 ^ (52 + k) := by
        rw [← Nat.pow_add]; exact Nat.pow_le_pow_right (by decide) (by omega)
      omega

/-- the quantities `magBits N D` is computed from -/
structure Parts (N D : Nat) where
  k : Nat
  q : Nat
  r : Nat
  hk : k = gridExp (N * unitScale) D
  hq : q = N * unitScale / (D * 2 ^ k)
  hr : r = N * unitScale % (D * 2 ^ k)

def parts (N D : Nat) : Parts N D := ⟨_, _, _, rfl, rfl, rfl⟩

theorem magBits_parts (N D : Nat) (p : Parts N D) :
    magBits N D = min (p.k * 2 ^ 52 + roundQ p.q p.r (D * 2 ^ p.k)) infBits := by
  rw [p.hr, p.hq, p.hk]
  unfold magBits
  exact rfl

theorem Parts.split {N D : Nat} (p : Parts N D) : N * unitScale = p.q * (D * 2 ^ p.k) + p.r := by
  rw [p.hq, p.hr, Nat.mul_comm _ (D * 2 ^ p.k)]; exact (Nat.div_add_mod _ _).symm

theorem Parts.r_lt {N D : Nat} (p : Parts N D) (hD : 0 < D) : p.r < D * 2 ^ p.k := by
  rw [p.hr]; exact Nat.mod_lt _ (Nat.mul_pos hD (Nat.two_pow_pos _))

theorem Parts.q_lt {N D : Nat} (p : Parts N D) (hD : 0 < D) : p.q < 2 ^ 53 := by
  rw [p.hq, p.hk]; exact (gridExp_spec _ _ hD).1

theorem Parts.q_ge {N D : Nat} (p : Parts N D) (hD : 0 < D) : p.k = 0 ∨ 2 ^ 52 ≤ p.q := by
  have := (gridExp_spec (N * unitScale) D hD).2
  rw [← p.hk, ← p.hq] at this; exact this

/-- a finite result is the pattern `k · 2^52 + R` and stands for `R · 2^k` units -/
theorem magBits_finite {N D : Nat} (p : Parts N D) (hD : 0 < D) (hfin : magBits N D < infBits) :
    magBits N D = p.k * 2 ^ 52 + roundQ p.q p.r (D * 2 ^ p.k) ∧
    umag (magBits N D) * D = roundQ p.q p.r (D * 2 ^ p.k) * (D * 2 ^ p.k) ∧
    isFinite (magBits N D) = true ∧ mag (magBits N D) = magBits N D := by
  have hm := magBits_parts N D p
  have hlt : p.k * 2 ^ 52 + roundQ p.q p.r (D * 2 ^ p.k) < infBits := by
    rw [hm] at hfin; omega
  have hb : magBits N D = p.k * 2 ^ 52 + roundQ p.q p.r (D * 2 ^ p.k) := by rw [hm]; omega
  have hR1 := roundQ_le p.q p.r (D * 2 ^ p.k)
  have hR2 := roundQ_ge p.q p.r (D * 2 ^ p.k)
  have hq1 := p.q_lt hD
  have hq2 := p.q_ge hD
  have enc := umag_encode p.k (roundQ p.q p.r (D * 2 ^ p.k)) (by omega) (by omega) hlt
  rw [hb]
  refine ⟨rfl, ?_, enc.2.1, enc.2.2⟩
  rw [enc.1, Nat.mul_assoc, Nat.mul_comm (2 ^ p.k) D]

/-- **Correct rounding, nearest.**  `N / D` is `N · 2^1074 / D` units of 2^-1074 and a REAL `y` is `umag y` units;
over the common denominator `D` the distance between them is `adist (N · 2^1074) (umag y · D)`.  When the result
is finite, no REAL is closer to `N / D` than the result. -/
theorem magBits_nearest (N D y : Nat) (hD : 0 < D) (hfin : magBits N D < infBits) :
    adist (N * unitScale) (umag (magBits N D) * D) ≤ adist (N * unitScale) (umag y * D) := by
  let p := parts N D
  have hf := magBits_finite p hD hfin
  have hs := p.split
  have hr := p.r_lt hD
  rw [hf.2.1, hs]
  have grid : ∀ t, umag y = t * 2 ^ p.k →
      adist (p.q * (D * 2 ^ p.k) + p.r) (roundQ p.q p.r (D * 2 ^ p.k) * (D * 2 ^ p.k)) ≤
      adist (p.q * (D * 2 ^ p.k) + p.r) (umag y * D) := by
    intro t ht
    have : umag y * D = t * (D * 2 ^ p.k) := by rw [ht, Nat.mul_assoc, Nat.mul_comm (2 ^ p.k) D]
    rw [this]; exact roundQ_nearest _ _ _ _ hr
  rcases umag_grid y p.k with hsm | ⟨t, ht⟩
  · rcases p.q_ge hD with hk0 | hq
    · exact grid (umag y) (by rw [hk0]; simp)
    · -- `y` lies below the binade of the result
      have h1 : umag y * D < 2 ^ (52 + p.k) * D := (Nat.mul_lt_mul_right hD).2 hsm
      have h2 : 2 ^ (52 + p.k) * D = 2 ^ 52 * (D * 2 ^ p.k) := by
        rw [Nat.pow_add, Nat.mul_assoc, Nat.mul_comm (2 ^ p.k) D]
      have h3 : 2 ^ 52 * (D * 2 ^ p.k) ≤ p.q * (D * 2 ^ p.k) := Nat.mul_le_mul_right _ hq
      unfold adist
      rcases roundQ_cases p.q p.r (D * 2 ^ p.k) with ⟨h, h4⟩ | ⟨h, h4⟩ <;> rw [h]
      · omega
      · rw [Nat.add_mul, Nat.one_mul]; omega
  · exact grid t ht

end DecFloat
end Sqlgrep
