// C18: output is deterministic and independent of hash seeds: the same cases are executed in this process
// (twice), in k fresh child processes (fresh SipHash keys), and with unrelated extra tables defined; all outputs must
// be byte-identical, and equal to the (deterministic) Lean model's single answer.
use crate::c04::{gen_input, join_lines};
use crate::engine_run::*;
use crate::queries::*;
use crate::run::{Params, Run};
use crate::runq::tmp_file;
use crate::util::{hex, Rng};
use crate::e2e;
use sqlgrep::executor::OutputFormat;

const EXTRA_TABLES: &str = "CREATE TABLE zz1(line = '(x)', line[1] => a TEXT);\nCREATE TABLE aa2(line = '(y)(z)?', line[1] => b TEXT, line[2] => c TEXT);\nCREATE TABLE mm3({.q} => q INT);";

// statements whose output order would expose a leaked hash order: many groups, many columns, many partners
const WIDE: &[&str] = &[
    "SELECT * FROM t",
    "SELECT k, v, w, r, s, input FROM t",
    "SELECT k, w, COUNT(*), SUM(v), MIN(v), MAX(v), AVG(v), COUNT(DISTINCT v), PERCENTILE(v, 0.5) FROM t GROUP BY k, w",
    "SELECT v, COUNT(*), ARRAY_AGG(k), STRING_AGG(s, ',') FROM t GROUP BY v",
    "SELECT s, k, COUNT(DISTINCT w), BOOL_OR(v > 2), STDDEV(v) FROM t GROUP BY s, k HAVING COUNT(*) > 0 AND SUM(v) > -100",
    "SELECT DISTINCT k, w FROM t",
    "SELECT array_unique(create_array(v, w, 3, 1, 2)), k FROM t",
];

// names that differ only in letter case, and statements that spell them a third way: name resolution is exact, so
// these are "not found" errors — unless a lookup falls back to scanning a hash map, whose order depends on the seed
const CASE_TABLES: &str = "CREATE TABLE Sessions(line = '^([a-z]+);([0-9]+);([0-9]+)$', line[1] => Host TEXT, line[2] => id INT, line[3] => ID INT);\nCREATE TABLE SESSIONS(line = '^([a-z]+);([0-9]+);([0-9]+)$', line[1] => host TEXT, line[3] => Id INT);\nCREATE TABLE sessionS(line = '^([a-z]+)', line[1] => HOST TEXT);";
const CASE_QUERIES: &[&str] = &[
    "SELECT * FROM sessions",
    "SELECT host FROM sessions",
    "SELECT Id FROM Sessions",
    "SELECT HOST, iD FROM Sessions",
    "SELECT Host, id, ID FROM Sessions",
    "SELECT COUNT(*), MAX(Id) FROM Sessions",
    "SELECT Host, COUNT(iD) FROM Sessions GROUP BY Host",
    "SELECT host, COUNT(*) FROM sESSIONS GROUP BY host",
    "SELECT * FROM Sessions WHERE Id > 3",
];

pub struct Case { pub defs: String, pub query: String, pub files: Vec<Vec<u8>>, pub joined: Vec<u8> }

/// the deterministic list of cases (a function of the seed only), so that children regenerate the same ones
pub fn cases(seed: u64, n: usize, join_path: &str) -> Vec<Case> {
    let mut rng = Rng::new(seed ^ 0x18);
    let mut out = Vec::new();
    let jlines: Vec<String> = (0..12).map(|_| gen_join_line(&mut rng)).collect();
    let joined = join_lines(&jlines);
    for i in 0..n {
        if i % 8 == 7 {
            let nl = 3 + rng.below(6);
            let lines: Vec<String> = (0..nl).map(|_| format!("{};{};{}", rng.pick(&["web", "alpha", "db"]), rng.below(9), 10 + rng.below(9))).collect();
            out.push(Case { defs: CASE_TABLES.to_owned(), query: (*rng.pick(CASE_QUERIES)).to_owned(), files: vec![join_lines(&lines)], joined: joined.clone() });
            continue;
        }
        let sch = gen_schema(&mut rng);
        let query = if i % 3 == 0 {
            (*rng.pick(WIDE)).to_owned()
        } else if i % 3 == 1 {
            let sel = *rng.pick(&["*", "t.k, u.k, y, t.v", "x.k"]);
            let sel = if sel == "x.k" { "k, y" } else { sel };
            format!("SELECT {} FROM t {} JOIN u::'{}' ON t.k = u.k", sel, rng.pick(&["INNER", "OUTER"]), join_path)
        } else {
            let opts = QueryOpts { allow_limit: true, allow_distinct: true, allow_join: false, aggregate: None };
            gen_query(&mut rng, &sch, &opts, "").text
        };
        let nl = 10 + rng.below(30);
        let lines = gen_input(&mut rng, nl, 15, false);
        // 1..4 input files (rows of a plain query come out in command-line order of the files, then file order)
        let nfiles = *rng.pick(&[1usize, 1, 2, 3, 4]);
        let mut cuts: Vec<usize> = (0..nfiles - 1).map(|_| rng.below(lines.len() + 1)).collect();
        cuts.sort();
        let mut files = Vec::new();
        let mut last = 0;
        for c in cuts { files.push(join_lines(&lines[last..c])); last = c; }
        files.push(join_lines(&lines[last..]));
        let defs = if rng.chance(1, 2) { format!("{}\n{}", sch.defs, EXTRA_TABLES) } else { sch.defs.clone() };
        out.push(Case { defs, query, files, joined: joined.clone() });
    }
    out
}

fn outputs(seed: u64, n: usize) -> Vec<String> {
    let jpath = tmp_file(b"");
    let cs = cases(seed, n, &jpath.display().to_string());
    let mut res = Vec::new();
    for c in &cs {
        std::fs::write(&jpath, &c.joined).unwrap();
        match prepare(&c.defs, &c.query) {
            Ok(p) => res.push(run_files(&p, &c.files).wire()),
            Err(e) => res.push(format!("rejected {}", hex(e.as_bytes()))),
        }
    }
    let _ = std::fs::remove_file(jpath);
    res
}

pub fn child(seed: u64, n: usize) {
    for o in outputs(seed, n) { println!("{}", o); }
}

// ---------------------------------------------------------------------------------------------
// "irrespective of which other tables are defined", on the whole program and on raw TEXTS (Props/C18Defs.lean):
// the same query text, format and input files with definition texts that differ only in further CREATE TABLE
// statements under OTHER names — before, after, between the statements the query uses, with different separators — must
// give the identical answer (status, line count, printed lines). Every variant also goes to the model as an `e2e` case
// (`Pipeline.runText`), together with the cases the sentence does not speak about and the model mirrors: a name defined
// twice (the LAST definition is the one used), an extra definition that is rejected (the whole definition text is
// rejected: an error, never another table), a definition text whose end swallows the next one (an unterminated comment).
// ---------------------------------------------------------------------------------------------

const EXTRA_STMTS: &[&str] = &[
    "CREATE TABLE zz1(line = '(x)', line[1] => a TEXT);",
    "CREATE TABLE aa2(line = '(y)(z)?', line[1] => b TEXT, line[2] => c TEXT);",
    "CREATE TABLE mm3({.q} => q INT);",
    "CREATE TABLE T(line = '^(.*)$', line[1] => k TEXT, line[1] => v TEXT);",   // differs from `t` in letter case: another name
    "CREATE TABLE tt(row = split ';', row[1] => k TEXT, row[2] => v INT);",
    "CREATE TABLE odd(line = '(x)', other[1] => a TEXT);",   // a column over a pattern that is not defined: accepted (an extraction matter)
];
// other definitions of the queried / joined table's NAME (not "other tables": the last definition of a name wins)
const SHADOW_STMTS: &[&str] = &[
    "CREATE TABLE t(line = '^([a-z]+)', line[1] => k TEXT);",
    "CREATE TABLE t(line = '^([a-z]+)?;(-?[0-9]+)?', line[2] => v INT, line[1] => k TEXT);",
    "CREATE TABLE u(row = '^#([a-z]+)', row[1] => k TEXT);",
];
// extra definitions that are not accepted: the whole text is rejected
const BAD_STMTS: &[&str] = &[
    "CREATE TABLE bad(line = '(', line[1] => a TEXT);",
    "CREATE TABLE bad(line = '(x)', line[1] => a NOSUCHTYPE);",
    "CREATE TABLE bad(line = '(x)', line[1] => a TEXT)",
    "CREATE TABLE bad(",
    "SELECT 1 FROM t;",
];

fn split_defs(defs: &str) -> Option<(String, String)> {
    // the two statements of the schema of `queries.rs`, when the text was not re-laid-out
    for main in [MAIN_DEF, MAIN_DEF_BOOL] {
        if defs == format!("{}\n{}", main, JOIN_DEF) { return Some((main.to_owned(), JOIN_DEF.to_owned())); }
    }
    None
}

fn with_defs(c: &e2e::Case, defs: String, family: &'static str) -> e2e::Case {
    e2e::Case { defs, query: c.query.clone(), format: c.format.clone(), single: c.single, files: c.files.clone(), joined: c.joined.clone(), family }
}

pub fn defs_relation(run: &mut Run, rng: &mut Rng, n: usize) {
    let jpath = crate::runq::tmp_dir().join("c18-defs-joined.txt");
    let jp = jpath.display().to_string();
    let mut pairs = 0usize;
    for _ in 0..n {
        let base = e2e::gen_schema_case(rng, "c18", &jp);
        let _ = std::fs::remove_file(&jpath);
        if let Some((p, Some(b))) = &base.joined { std::fs::write(p, b).unwrap(); }
        let base_answer = e2e::run_real(&base);
        let mut emit = |run: &mut Run, c: &e2e::Case, answer: &str| {
            let tag = format!("e2e:{}:{}:{}", c.family, e2e::shape(&c.query), e2e::result_kind(answer));
            run.count(&format!("e2e:{}", c.family));
            let desc = format!("e2e defs={:?} query={:?} format={:?} single={} files={:?} joined={:?}", c.defs, c.query, c.format, c.single,
                c.files.iter().map(|f| String::from_utf8_lossy(f).to_string()).collect::<Vec<_>>(),
                c.joined.as_ref().map(|(p, b)| (p.clone(), b.as_ref().map(|b| String::from_utf8_lossy(b).to_string()))));
            run.case_with_desc(e2e::case_line(c), answer.to_owned(), tag, desc);
        };
        emit(run, &base, &base_answer);
        // 1..3 unrelated extra statements, in one of the positions
        let k = 1 + rng.below(3);
        let extras: Vec<&str> = (0..k).map(|_| *rng.pick(EXTRA_STMTS)).collect();
        let sep = *rng.pick(&["\n", " ", "", "\n\n", " -- more tables\n", "\r\n"]);
        let extra_text = extras.join(sep);
        let mut variants: Vec<(String, &'static str)> = vec![
            (format!("{}{}{}", extra_text, sep, base.defs), "c18-extra-before"),
            (format!("{}{}{}", base.defs, if base.defs.trim_end().ends_with(';') { sep } else { "\n" }, extra_text), "c18-extra-after"),
        ];
        if let Some((main, join)) = split_defs(&base.defs) {
            variants.push((format!("{}{}{}{}{}", main, sep, extra_text, sep, join), "c18-extra-between"));
            // interleaved: an extra statement before, between and after
            variants.push((format!("{}{}{}{}{}{}{}{}{}", extras[0], sep, main, sep, rng.pick(EXTRA_STMTS), sep, join, sep, rng.pick(EXTRA_STMTS)), "c18-extra-interleaved"));
            // the two statements the query uses in the other order (different names: the order of definition is immaterial)
            variants.push((format!("{}{}{}", join, sep, main), "c18-defs-swapped"));
        }
        for (defs, family) in variants {
            let v = with_defs(&base, defs, family);
            let a = e2e::run_real(&v);
            pairs += 1;
            run.oracle_checks += 1;
            // a definition text that was re-laid-out may end inside a comment: then the appended text is part of the comment
            // and the definitions are the same — still the identical answer
            if a != base_answer {
                run.fail(format!("query={:?} format={:?} files={:?}\n  definitions A={:?}\n  definitions B={:?}", base.query, base.format,
                        base.files.iter().map(|f| String::from_utf8_lossy(f).to_string()).collect::<Vec<_>>(), base.defs, v.defs),
                    "other-tables-change-output", format!("with definitions A the program answers {} ; with definitions B (A plus CREATE TABLE statements under other names) it answers {}", base_answer, a));
            }
            emit(run, &v, &a);
        }
        // not "other tables" — correspondence only (the model: the last definition of a name wins; a rejected extra
        // statement rejects the whole text; a text that ends inside a comment swallows what is appended up to the line end)
        let shadow = *rng.pick(SHADOW_STMTS);
        for (defs, family) in [
            (format!("{}\n{}", shadow, base.defs), "c18-same-name-before"),
            (format!("{}\n{}", base.defs, shadow), "c18-same-name-after"),
            (format!("{}\n{}", base.defs, rng.pick(BAD_STMTS)), "c18-bad-extra-after"),
            (format!("{}\n{}", rng.pick(BAD_STMTS), base.defs), "c18-bad-extra-before"),
            (format!("{} -- and now{}", rng.pick(EXTRA_STMTS), base.defs), "c18-comment-swallows"),
        ] {
            let v = with_defs(&base, defs, family);
            let a = e2e::run_real(&v);
            run.oracle_checks += 1;
            // the one thing demanded of these: a rejected extra statement never leaves a run over SOME table
            if family.starts_with("c18-bad") && !(a.starts_with("rejected defs") || a == "not-create-table") {
                run.fail(format!("query={:?} definitions={:?}", base.query, v.defs), "bad-definition-not-rejected", format!("a definition text with a statement that is not accepted gave {}", a));
            }
            // an EARLIER definition of a name that the base text defines again: by `HashMap::insert` the later one is used, so
            // the answer is the base answer. The sentence is silent about a name defined twice; a deviation shows as a
            // disagreement with the model, here it is only counted
            if family == "c18-same-name-before" && a != base_answer { run.count("c18:earlier-same-name-definition-visible"); }
            emit(run, &v, &a);
        }
    }
    let _ = std::fs::remove_file(&jpath);
    run.notes.push(format!("definition texts: {} base invocations (raw texts, every format), {} variants with unrelated extra CREATE TABLE statements before / after / between / interleaved / swapped — identical answer demanded —, and per base 5 variants outside the sentence (a name defined twice, a rejected extra statement, a comment swallowing the next statement) compared with Pipeline.runText only", n, pairs));
}

// ---------------------------------------------------------------------------------------------
// "Only now() may differ between runs." (Props/C18Now.lean)
//
// The model has no clock (a statement with `now()` is answered `skip`), so this part is an oracle on the real code:
// the same invocation is run several times AT LEAST A SECOND APART — in this process at the start and at the end of the
// check, in a fresh child process of the harness, and (when ./check built it) as the real `sqlgrep` program twice.
//  (1) projection statements: `now()` stands in the select list next to other columns. Status, line count, number of
//      printed lines, row order and every OTHER cell must be identical; the `now()` cells must be timestamps. They are
//      never compared: every `YYYY-MM-DD hh:mm:ss.mmm` in the output is replaced by a mark before the comparison (no
//      other column of the table is a TIMESTAMP), so nothing here depends on when a second ends.
//      The same statement with `now()` replaced by a fixed timestamp contains no `now()`: it must print the same marked
//      output (only the `now()` cells changed), and it goes to the Lean model as a `batch` case.
//  (2) statements that use `now()` only inside a comparison whose value is the same for decades
//      (`now() > make_timestamp(2000,1,1,0,0,0,0)`): the output must be byte-identical between the runs, and equal to the
//      output of the statement with the comparison replaced by its value (a `batch` case for the model).
// The spacing is the only use of a clock in the harness: it waits until 1.1 s have passed since the first run; what is
// compared never depends on it.
// ---------------------------------------------------------------------------------------------

/// expressions whose value is a TIMESTAMP read from the clock
const NOW_EXPRS: &[&str] = &["now()", "NOW()", "Now( )", "greatest(now(), make_timestamp(2000,1,1,0,0,0,0))", "date_trunc('second', now())"];
const FIXED_TS: &str = "make_timestamp(2000,1,1,0,0,0,0)";

/// (statement, number of `now()` cells per printed record, every record has exactly that many)
const NOW_PROJECTIONS: &[(&str, usize, bool)] = &[
    ("SELECT k, {N}, v FROM t", 1, true),
    ("SELECT {N}, k, w, s FROM t WHERE v > 0", 1, true),
    ("SELECT k, v, {N} AS seen, w, {N}, r FROM t", 2, true),
    ("SELECT input, {N} FROM t", 1, true),
    ("SELECT k, v, {N} FROM t LIMIT 4", 1, true),
    ("SELECT s, {N}, k FROM t WHERE w IS NOT NULL AND v < 40", 1, true),
    ("SELECT k, COUNT(*), MAX({N}), SUM(v) FROM t GROUP BY k", 1, true),
    ("SELECT k, w, MIN({N}), COUNT(v), MAX({N}) FROM t GROUP BY k, w", 2, true),
    ("SELECT v, ARRAY_AGG(k), MAX({N}) FROM t GROUP BY v HAVING COUNT(*) > 1", 1, true),
    ("SELECT MIN({N}), COUNT(*), MAX(v) FROM t", 1, false),   // over no admitted line MIN is NULL
    ("SELECT t.k, y, {N}, t.v FROM t INNER JOIN u::'{J}' ON t.k = u.k", 1, true),
    ("SELECT t.k, {N}, u.v, y FROM t OUTER JOIN u::'{J}' ON t.k = u.k", 1, true),
];

/// comparisons of the clock reading that hold / do not hold from 2000 to 2200
const NOW_TRUE: &[&str] = &[
    "now() > make_timestamp(2000,1,1,0,0,0,0)", "make_timestamp(2000,1,1,0,0,0,0) < NOW()", "now() >= make_timestamp(1999,12,31,23,59,59,0)",
    "now() != make_timestamp(2000,1,1,0,0,0,0)", "NOT (now() < make_timestamp(2000,1,1,0,0,0,0))", "now() < make_timestamp(2200,1,1,0,0,0,0)",
    "now() IS NOT NULL", "least(now(), make_timestamp(2000,1,1,0,0,0,0)) = make_timestamp(2000,1,1,0,0,0,0)",
];
const NOW_FALSE: &[&str] = &[
    "now() < make_timestamp(2000,1,1,0,0,0,0)", "now() = make_timestamp(2000,1,1,0,0,0,0)", "now() IS NULL", "now() > make_timestamp(2200,1,1,0,0,0,0)",
    "make_timestamp(2000,1,1,0,0,0,0) >= now()",
];
const NOW_CONSTANTS: &[&str] = &[
    "SELECT k, v FROM t WHERE {C}",
    "SELECT k, v, w FROM t WHERE v > 0 AND {C}",
    "SELECT k, v FROM t WHERE {C} OR w > 3",
    "SELECT k, CASE WHEN {C} THEN v ELSE w END FROM t",
    "SELECT k, {C}, v FROM t",
    "SELECT DISTINCT k, {C} FROM t",
    "SELECT k, v FROM t WHERE {C} LIMIT 3",
    "SELECT k, COUNT(*), SUM(v) FROM t WHERE {C} GROUP BY k",
    "SELECT k, COUNT(*) FROM t GROUP BY k HAVING COUNT(*) > 0 AND {C}",
    "SELECT k, BOOL_AND({C}), BOOL_OR({C}), COUNT(*) FROM t GROUP BY k",
    "SELECT COUNT(*), SUM(CASE WHEN {C} THEN v ELSE 0 END) FROM t",
    "SELECT t.k, y FROM t INNER JOIN u::'{J}' ON t.k = u.k WHERE {C}",
];

pub struct NowCase {
    pub case: e2e::Case,
    /// the same invocation without any `now()`: `now()` replaced by a fixed timestamp / the comparison by its value
    pub fixed: e2e::Case,
    /// `Some((cells, exact))` for a projection statement, `None` for a constant comparison
    pub cells: Option<(usize, bool)>,
    pub joined: Vec<u8>,
}

/// the deterministic list of `now()` invocations (a function of the seed and of the joined file's path only)
pub fn now_cases(seed: u64, n: usize, join_path: &str) -> Vec<NowCase> {
    let mut rng = Rng::new(seed ^ 0x18_0e0e);
    let jlines: Vec<String> = (0..10).map(|_| gen_join_line(&mut rng)).collect();
    let joined = join_lines(&jlines);
    let mut out = Vec::new();
    for i in 0..n {
        let defs = format!("{}\n{}", MAIN_DEF, JOIN_DEF);
        let (query, fixed, cells) = if i % 2 == 0 {
            let (tpl, cells, exact) = *rng.pick(NOW_PROJECTIONS);
            let e = *rng.pick(NOW_EXPRS);
            (tpl.replace("{N}", e), tpl.replace("{N}", FIXED_TS), Some((cells, exact)))
        } else {
            let tpl = *rng.pick(NOW_CONSTANTS);
            let holds = rng.chance(2, 3);
            let c = *rng.pick(if holds { NOW_TRUE } else { NOW_FALSE });
            (tpl.replace("{C}", c), tpl.replace("{C}", if holds { "true" } else { "false" }), None)
        };
        let nl = if rng.chance(1, 12) { 0 } else { 4 + rng.below(14) };
        let lines = gen_input(&mut rng, nl, 15, false);
        let nfiles = *rng.pick(&[1usize, 1, 2, 3]);
        let mut cuts: Vec<usize> = (0..nfiles - 1).map(|_| rng.below(lines.len() + 1)).collect();
        cuts.sort();
        let mut files = Vec::new();
        let mut last = 0;
        for c in cuts { files.push(join_lines(&lines[last..c])); last = c; }
        files.push(join_lines(&lines[last..]));
        let format = match rng.below(3) { 0 => OutputFormat::Text, 1 => OutputFormat::Json, _ => OutputFormat::CSV(";".to_owned()) };
        let single = rng.chance(1, 2);
        let mk = |q: String| e2e::Case { defs: defs.clone(), query: q.replace("{J}", join_path), format: format.clone(), single, files: files.clone(),
            joined: Some((join_path.to_owned(), Some(joined.clone()))), family: "c18-now" };
        out.push(NowCase { case: mk(query), fixed: mk(fixed), cells, joined: joined.clone() });
    }
    out
}

fn now_outputs(cs: &[NowCase], join_path: &std::path::Path) -> Vec<String> {
    cs.iter().map(|c| { std::fs::write(join_path, &c.joined).unwrap(); e2e::run_real(&c.case) }).collect()
}

/// `harness c18now <seed> <n>`: the answers of the `now()` invocations in a fresh process
pub fn now_child(seed: u64, n: usize) {
    let jpath = tmp_file(b"");
    let cs = now_cases(seed, n, &jpath.display().to_string());
    for o in now_outputs(&cs, &jpath) { println!("{}", o); }
    let _ = std::fs::remove_file(jpath);
}

fn is_ts_at(b: &[u8], i: usize) -> bool {
    const PAT: &[u8] = b"dddd-dd-dd dd:dd:dd.ddd";
    if i + PAT.len() > b.len() { return false; }
    PAT.iter().enumerate().all(|(j, p)| if *p == b'd' { b[i + j].is_ascii_digit() } else { b[i + j] == *p })
}

/// every `YYYY-MM-DD hh:mm:ss.mmm` replaced by a mark; the number of replacements
pub fn mask_timestamps(s: &str) -> (String, usize) {
    let b = s.as_bytes();
    let mut out: Vec<u8> = Vec::with_capacity(b.len());
    let (mut i, mut n) = (0usize, 0usize);
    while i < b.len() {
        if is_ts_at(b, i) { out.extend_from_slice(b"<TIMESTAMP>"); i += 23; n += 1; } else { out.push(b[i]); i += 1; }
    }
    (String::from_utf8_lossy(&out).to_string(), n)
}

fn unhex(h: &str) -> String {
    let h = h.strip_prefix('x').unwrap_or(h);
    let bytes: Vec<u8> = (0..h.len() / 2).filter_map(|i| u8::from_str_radix(&h[2 * i..2 * i + 2], 16).ok()).collect();
    String::from_utf8_lossy(&bytes).to_string()
}

/// an answer of `e2e::run_real` as (everything but the printed lines, the printed lines)
fn split_answer(a: &str) -> (String, Vec<String>) {
    match a.split_once(" out=") {
        Some((head, "")) => (head.to_owned(), Vec::new()),
        Some((head, ls)) => (head.to_owned(), ls.split(',').map(unhex).collect()),
        None => (a.to_owned(), Vec::new()),
    }
}

/// the answer with every timestamp marked: what two runs of a projection statement must agree on
fn masked_answer(a: &str) -> (String, Vec<String>) {
    let (head, ls) = split_answer(a);
    (head, ls.iter().map(|l| mask_timestamps(l).0).collect())
}

fn real_program_args(c: &e2e::Case, defs_path: &std::path::Path, files: &[std::path::PathBuf]) -> Vec<String> {
    let mut args: Vec<String> = files.iter().map(|p| p.display().to_string()).collect();
    args.push("-d".to_owned()); args.push(defs_path.display().to_string());
    args.push("-c".to_owned()); args.push(c.query.clone());
    args.push("--format".to_owned()); args.push(e2e::format_tag(&c.format).to_owned());
    args
}

pub struct NowFirst {
    started: std::time::Instant,
    jpath: std::path::PathBuf,
    cases: Vec<NowCase>,
    first: Vec<String>,
    /// the real program's standard output of the first `program.len()` invocations, with the files it was given
    program: Vec<(std::path::PathBuf, Vec<std::path::PathBuf>, Option<String>)>,
}

/// the first run of every `now()` invocation (library in this process; the real program for the first few)
pub fn now_begin(p: &Params) -> NowFirst {
    let jpath = crate::runq::tmp_dir().join("c18-now-joined.txt");
    let cases = now_cases(p.seed, p.n(72, 720), &jpath.display().to_string());
    let started = std::time::Instant::now();
    let first = now_outputs(&cases, &jpath);
    let mut program = Vec::new();
    if let Some(bin) = crate::cli::bin_path() {
        for c in cases.iter().take(p.n(16, 120)) {
            std::fs::write(&jpath, &c.joined).unwrap();
            let defs_path = tmp_file(c.case.defs.as_bytes());
            let files: Vec<std::path::PathBuf> = c.case.files.iter().map(|f| tmp_file(f)).collect();
            let o = crate::cli::run_cli(&bin, &real_program_args(&c.case, &defs_path, &files), None, std::time::Duration::from_secs(30));
            program.push((defs_path, files, if o.timed_out { None } else { Some(o.stdout) }));
        }
    }
    NowFirst { started, jpath, cases, first, program }
}

fn now_desc(c: &e2e::Case) -> String {
    format!("query={:?} format={} single={} files={:?} definitions={:?}", c.query, e2e::format_tag(&c.format), c.single,
        c.files.iter().map(|f| String::from_utf8_lossy(f).to_string()).collect::<Vec<_>>(), c.defs)
}

/// two answers of one `now()` invocation, taken at least a second apart
fn compare_now_runs(run: &mut Run, c: &NowCase, first: &str, later: &str, who: &str) {
    run.oracle_checks += 1;
    match c.cells {
        Some(_) => {
            if masked_answer(first) != masked_answer(later) {
                run.fail(now_desc(&c.case), "differs-beyond-now-cells", format!("first run: {:?} ; {}: {:?} (timestamps are marked, not compared)", masked_answer(first), who, masked_answer(later)));
            }
        }
        None => {
            if first != later {
                run.fail(now_desc(&c.case), "constant-now-comparison-differs-between-runs", format!("first run: {:?} ; {}: {:?}", split_answer(first), who, split_answer(later)));
            }
        }
    }
}

/// the later runs and every comparison
pub fn now_finish(run: &mut Run, p: &Params, nf: NowFirst) {
    // at least 1.1 s after the first run started (the rest of the check has usually taken longer)
    let apart = std::time::Duration::from_millis(1100);
    let waited = nf.started.elapsed();
    if waited < apart { std::thread::sleep(apart - waited); }
    let n = nf.cases.len();
    // a fresh process of the harness
    let exe = std::env::current_exe().unwrap();
    let child = std::process::Command::new(&exe).arg("c18now").arg(p.seed.to_string()).arg(n.to_string()).stdout(std::process::Stdio::piped()).spawn();
    // this process again
    let second = now_outputs(&nf.cases, &nf.jpath);
    let child_lines: Option<Vec<String>> = match child.and_then(|c| c.wait_with_output()) {
        Ok(o) => Some(String::from_utf8_lossy(&o.stdout).lines().map(|l| l.to_owned()).collect()),
        Err(e) => { run.notes.push(format!("now() child failed to run: {}", e)); None }
    };
    for (i, c) in nf.cases.iter().enumerate() {
        let first = &nf.first[i];
        let (head, lines) = split_answer(first);
        let kind = if c.cells.is_some() { "projection" } else { "constant" };
        run.count(&format!("now:{}:{}:{}", kind, e2e::format_tag(&c.case.format), head.split(' ').next().unwrap_or("")));
        compare_now_runs(run, c, first, &second[i], "second run in this process");
        match child_lines.as_ref().and_then(|l| l.get(i)) {
            Some(l) => compare_now_runs(run, c, first, l, "fresh process"),
            None => if child_lines.is_some() { run.fail(now_desc(&c.case), "differs-across-processes", "the fresh process printed no answer for this invocation".to_owned()); },
        }
        // the `now()` cells are timestamps: the expected number in every record
        if let Some((cells, exact)) = c.cells {
            if head.starts_with("ok ") {
                let csv = matches!(c.case.format, OutputFormat::CSV(_));
                for (li, l) in lines.iter().enumerate() {
                    if l.is_empty() || (csv && li == 0) { continue; }
                    let found = mask_timestamps(l).1;
                    run.oracle_checks += 1;
                    if found > cells || (exact && found != cells) {
                        run.fail(now_desc(&c.case), "now-cell-not-a-timestamp", format!("the record {:?} holds {} timestamps, the statement has {} now() cells", l, found, cells));
                    }
                }
            }
        }
        // the same invocation without `now()`: only the now() cells / nothing may differ
        std::fs::write(&nf.jpath, &c.joined).unwrap();
        let fixed = e2e::run_real(&c.fixed);
        run.oracle_checks += 1;
        if c.cells.is_some() {
            if masked_answer(first) != masked_answer(&fixed) {
                run.fail(format!("{}\n  without now(): query={:?}", now_desc(&c.case), c.fixed.query), "now-changes-other-cells",
                    format!("with now(): {:?} ; with a fixed timestamp in its place: {:?} (timestamps marked)", masked_answer(first), masked_answer(&fixed)));
            }
        } else if *first != fixed {
            run.fail(format!("{}\n  without now(): query={:?}", now_desc(&c.case), c.fixed.query), "now-comparison-differs-from-its-value",
                format!("with the comparison: {:?} ; with its value in its place: {:?}", split_answer(first), split_answer(&fixed)));
        }
        // the statement without `now()` is one the model runs: a correspondence case (text format, as `batch` cases are)
        if matches!(c.fixed.format, OutputFormat::Text) && !c.fixed.single {
            if let Ok(prepared) = prepare(&c.fixed.defs, &c.fixed.query) {
                if let Some(case) = batch_case(&prepared, &c.joined, &c.fixed.files, None) {
                    let r = run_files(&prepared, &c.fixed.files);
                    run.case_with_desc(case, r.wire(), format!("now-fixed:{}:{}", kind, r.status), now_desc(&c.fixed));
                }
            }
        }
    }
    // the real program, a second time
    let mut programs = 0usize;
    if let Some(bin) = crate::cli::bin_path() {
        for (i, (defs_path, files, first_out)) in nf.program.iter().enumerate() {
            let c = &nf.cases[i];
            std::fs::write(&nf.jpath, &c.joined).unwrap();
            let o = crate::cli::run_cli(&bin, &real_program_args(&c.case, defs_path, files), None, std::time::Duration::from_secs(30));
            run.oracle_checks += 1;
            programs += 1;
            match (first_out, o.timed_out) {
                (Some(a), false) => {
                    let same = if c.cells.is_some() { mask_timestamps(a).0 == mask_timestamps(&o.stdout).0 } else { *a == o.stdout };
                    if !same {
                        run.fail(format!("sqlgrep {}", real_program_args(&c.case, defs_path, files).join(" ")), "program-output-differs-between-runs",
                            format!("first run printed {:?} ; a second later {:?}{}", a, o.stdout, if c.cells.is_some() { " (timestamps are marked before the comparison)" } else { "" }));
                    }
                    // and what the program prints is what the library printed (up to the now() cells)
                    let (head, lines) = masked_answer(&nf.first[i]);
                    if head.starts_with("ok ") {
                        let got = mask_timestamps(&o.stdout).0;
                        let want: String = lines.iter().map(|l| format!("{}\n", l)).collect();
                        if got != want { run.count("now:program-differs-from-library"); }
                    }
                }
                _ => run.fail(now_desc(&c.case), "cli-hang", "the program did not finish within 30 s".to_owned()),
            }
        }
    } else {
        run.count("now:binary-not-available");
    }
    for (d, fs, _) in &nf.program { let _ = std::fs::remove_file(d); for f in fs { let _ = std::fs::remove_file(f); } }
    let _ = std::fs::remove_file(&nf.jpath);
    run.notes.push(format!("now(): {} invocations (half with now() in the select list next to other columns, half with now() only inside a comparison that is constant from 2000 to 2200; text / json / csv; 1-3 files; joins) run in this process twice and in a fresh process, at least 1.1 s after the first run ({} ms here); {} of them also as the real program, twice. Projection statements: status, line count, row order and every cell except the now() cells identical (timestamps are marked, never compared), the now() cells are timestamps, and replacing now() by a fixed timestamp changes nothing else; constant comparisons: byte-identical output, equal to the output with the comparison replaced by its value. The statements without now() are `batch` cases for the model", n, nf.started.elapsed().as_millis(), programs));
}

pub fn run(p: &Params) -> Run {
    let mut run = Run::new("C18");
    // the first run of the `now()` invocations; the later runs come at the end of the check, at least a second later
    let now_first = now_begin(p);
    let n = p.n(250, 3000);
    let procs = p.n(4, 32);
    let first = outputs(p.seed, n);
    let second = outputs(p.seed, n);
    let jpath = tmp_file(b"");
    let cs = cases(p.seed, n, &jpath.display().to_string());
    for (i, c) in cs.iter().enumerate() {
        run.oracle_checks += 1;
        let desc = format!("query={} files={:?}", c.query, c.files.iter().map(|f| String::from_utf8_lossy(f).to_string()).collect::<Vec<_>>());
        if first[i] != second[i] {
            run.fail(desc.clone(), "differs-within-process", format!("{} vs {}", first[i], second[i]));
        }
        // rows of a plain query come out in input order: over several files the output is the concatenation, in
        // command-line order, of the outputs over each file alone
        let q = c.query.to_uppercase();
        if c.files.len() > 1 && !q.contains("GROUP BY") && !q.contains("DISTINCT") && !q.contains("LIMIT") && !q.contains("COUNT(") && !q.contains("SUM(") && !q.contains("MAX(") && !q.contains("MIN(") && !q.contains("AVG(") && !q.contains("_AGG(") && !q.contains("STDDEV") && !q.contains("VARIANCE") && !q.contains("PERCENTILE") && !q.contains("BOOL_") {
            std::fs::write(&jpath, &c.joined).unwrap();
            if let Ok(prepared) = prepare(&c.defs, &c.query) {
                let whole = run_files(&prepared, &c.files);
                if whole.status == "ok" {
                    let mut concat: Vec<String> = Vec::new();
                    let mut all_ok = true;
                    for f in &c.files {
                        let one = run_files(&prepared, std::slice::from_ref(f));
                        if one.status != "ok" { all_ok = false; break; }
                        concat.extend(one.records());
                    }
                    run.oracle_checks += 1;
                    if all_ok && whole.records() != concat {
                        run.fail(desc.clone(), "rows-not-in-input-order", format!("over {} files the run prints {:?}; file by file in command-line order: {:?}", c.files.len(), whole.records(), concat));
                    }
                }
            }
        }
        // correspondence: the model has no hash iteration at all, its answer is the single reference
        std::fs::write(&jpath, &c.joined).unwrap();
        if let Ok(prepared) = prepare(&c.defs, &c.query) {
            if let Some(case) = batch_case(&prepared, &c.joined, &c.files, None) {
                let status = first[i].split(' ').next().unwrap_or("").to_owned();
                run.case_with_desc(case, first[i].clone(), format!("{}:{}:f{}:x{}", if c.query.contains("JOIN") { "join" } else if c.query.contains("GROUP BY") { "group" } else { "plain" }, status, c.files.len(), c.defs.contains("zz1") as u8), desc.clone());
            }
        }
    }
    let _ = std::fs::remove_file(jpath);
    let exe = std::env::current_exe().unwrap();
    let mut children = Vec::new();
    for _ in 0..procs {
        children.push(std::process::Command::new(&exe).arg("c18child").arg(p.seed.to_string()).arg(n.to_string()).stdout(std::process::Stdio::piped()).spawn());
    }
    for (ci, ch) in children.into_iter().enumerate() {
        match ch.and_then(|c| c.wait_with_output()) {
            Ok(o) => {
                let text = String::from_utf8_lossy(&o.stdout).to_string();
                let lines: Vec<&str> = text.lines().collect();
                // the joined-file path differs per process only inside the SQL text, never in the output
                for i in 0..n {
                    run.oracle_checks += 1;
                    if lines.get(i).copied() != Some(first[i].as_str()) {
                        run.fail(format!("query={} child={}", cs[i].query, ci), "differs-across-processes", format!("{} vs {:?}", first[i], lines.get(i)));
                        break;
                    }
                }
            }
            Err(e) => run.notes.push(format!("child failed to run: {}", e)),
        }
    }
    defs_relation(&mut run, &mut Rng::new(p.seed ^ 0x1818_d3f5), p.n(50, 500));
    now_finish(&mut run, p, now_first);
    run.notes.push("every 8th case uses tables and columns whose names differ only in letter case and statements spelling them a third way (exact name resolution: not-found errors; a hash-order fallback would differ between runs)".to_owned());
    run.notes.push(format!("{} cases executed twice in-process and once in each of {} fresh processes (fresh SipHash keys); half of the cases with three unrelated extra tables defined", n, procs));
    run
}
