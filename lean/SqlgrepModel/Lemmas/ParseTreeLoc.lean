import SqlgrepModel.Lemmas.ParseWithinStmt
import SqlgrepModel.Lemmas.ParseJson
import SqlgrepModel.Lemmas.LowerLoc
/-
Every location stored in a tree the parser returns is the location of one of the input tokens
(`parseTokens T toks = .tree t → t.AllLoc (TokLoc toks)`); with `lowerStatement_errAt` this locates every
conversion error at a token.
-/
namespace Sqlgrep
namespace Parse

theorem allLocList_append {P : Loc → Prop} : ∀ (xs : List PExpr) (e : PExpr),
    PExpr.AllLocList P (xs ++ [e]) ↔ PExpr.AllLocList P xs ∧ PExpr.AllLoc P e := by
  intro xs e
  induction xs with
  | nil => simp [PExpr.AllLocList]
  | cons x xs ih => simp [PExpr.AllLocList, ih, and_assoc]

theorem allLocClauses_append {P : Loc → Prop} : ∀ (xs : List (PExpr × PExpr)) (c r : PExpr),
    PExpr.AllLocClauses P (xs ++ [(c, r)]) ↔ PExpr.AllLocClauses P xs ∧ PExpr.AllLoc P c ∧ PExpr.AllLoc P r := by
  intro xs c r
  induction xs with
  | nil => simp [PExpr.AllLocClauses]
  | cons x xs ih => obtain ⟨a, b⟩ := x; simp [PExpr.AllLocClauses, ih, and_assoc]

theorem combine_allLoc {P : Loc → Prop} {l : Loc} {op : Tok} {a b r : PExpr} (h : combine l op a b = .ok r)
    (hl : P l) (ha : a.AllLoc P) (hb : b.AllLoc P) : r.AllLoc P := by
  unfold combine at h
  repeat' split at h
  all_goals first
    | (cases h; done)
    | (cases h; simp_all [PExpr.AllLoc]; done)

/-- the induction hypothesis for the six expression functions at one fuel value -/
structure TreeIH (T : PrecTables) (toks : List PTok) (fuel : Nat) : Prop where
  e : ∀ s, s.Suffix toks → (parseExpr T fuel s).OkP (PExpr.AllLoc (TokLoc toks))
  r : ∀ prec lhs s, s.Suffix toks → lhs.AllLoc (TokLoc toks) →
        (parseRhs T fuel prec lhs s).OkP (PExpr.AllLoc (TokLoc toks))
  u : ∀ s, s.Suffix toks → (parseUnary T fuel s).OkP (PExpr.AllLoc (TokLoc toks))
  p : ∀ s, s.Suffix toks → (parsePrimary T fuel s).OkP (PExpr.AllLoc (TokLoc toks))
  c : ∀ loc cl s, s.Suffix toks → TokLoc toks loc → PExpr.AllLocClauses (TokLoc toks) cl →
        (parseCase T fuel loc cl s).OkP (PExpr.AllLoc (TokLoc toks))
  l : ∀ close acc s, s.Suffix toks → PExpr.AllLocList (TokLoc toks) acc →
        (parseList T fuel close acc s).OkP (PExpr.AllLocList (TokLoc toks))

macro "tleaf" "[" ls:Lean.Parser.Tactic.grindParam,* "]" : tactic => `(tactic| first
  | exact okP_err
  | exact okP_mkErr
  | exact okP_fuel
  | grind (gen := 40) (ematch := 40) [PRes.OkP, PRes.Within, PRes.bind, mkErr, suffix_loc, PExpr.AllLoc, PExpr.AllLocList,
      PExpr.AllLocClauses, allLocList_append, allLocClauses_append, combine_allLoc, $ls,*])

theorem parseUnary_within {T : PrecTables} {fuel : Nat} {s : PSt} {toks} (h : s.Suffix toks) :
    (parseUnary T fuel s).Within toks := (locIH_all T toks fuel).u s h
theorem parseRhs_within {T : PrecTables} {fuel : Nat} {prec lhs} {s : PSt} {toks} (h : s.Suffix toks) :
    (parseRhs T fuel prec lhs s).Within toks := (locIH_all T toks fuel).r prec lhs s h
theorem parseCase_within {T : PrecTables} {fuel : Nat} {loc cl} {s : PSt} {toks} (h : s.Suffix toks) :
    (parseCase T fuel loc cl s).Within toks := (locIH_all T toks fuel).c loc cl s h
theorem parseList_within {T : PrecTables} {fuel : Nat} {close acc} {s : PSt} {toks} (h : s.Suffix toks) :
    (parseList T fuel close acc s).Within toks := (locIH_all T toks fuel).l close acc s h

grind_pattern parseUnary_within => parseUnary T fuel s, s.Suffix toks
grind_pattern parseRhs_within => parseRhs T fuel prec lhs s, s.Suffix toks
grind_pattern parseCase_within => parseCase T fuel loc cl s, s.Suffix toks
grind_pattern parseList_within => parseList T fuel close acc s, s.Suffix toks

theorem tree_step_expr (T : PrecTables) (toks : List PTok) (fuel : Nat) (ih : TreeIH T toks fuel) :
    ∀ s, s.Suffix toks → (parseExpr T (fuel + 1) s).OkP (PExpr.AllLoc (TokLoc toks)) := by
  intro s hs
  have ihr := ih.r; have ihu := ih.u
  rw [parseExpr]
  psplit
  all_goals tleaf []

theorem tree_step_rhs (T : PrecTables) (toks : List PTok) (fuel : Nat) (ih : TreeIH T toks fuel) :
    ∀ prec lhs s, s.Suffix toks → lhs.AllLoc (TokLoc toks) →
      (parseRhs T (fuel + 1) prec lhs s).OkP (PExpr.AllLoc (TokLoc toks)) := by
  intro prec lhs s hs hl
  have ihe := ih.e; have ihr := ih.r; have ihu := ih.u; have ihl := ih.l
  have htp := @tokenPrecedence_ok T
  rw [parseRhs]
  psplit
  all_goals tleaf []

theorem tree_step_unary (T : PrecTables) (toks : List PTok) (fuel : Nat) (ih : TreeIH T toks fuel) :
    ∀ s, s.Suffix toks → (parseUnary T (fuel + 1) s).OkP (PExpr.AllLoc (TokLoc toks)) := by
  intro s hs
  have ihr := ih.r; have ihu := ih.u; have ihp := ih.p
  rw [parseUnary]
  psplit
  all_goals tleaf []

set_option maxHeartbeats 1000000 in
theorem tree_step_primary (T : PrecTables) (toks : List PTok) (fuel : Nat) (ih : TreeIH T toks fuel) :
    ∀ s, s.Suffix toks → (parsePrimary T (fuel + 1) s).OkP (PExpr.AllLoc (TokLoc toks)) := by
  intro s hs
  have ihe := ih.e; have ihc := ih.c; have ihl := ih.l
  rw [parsePrimary]
  simp only [PRes.bind]
  psplit
  all_goals tleaf []

theorem tree_step_case (T : PrecTables) (toks : List PTok) (fuel : Nat) (ih : TreeIH T toks fuel) :
    ∀ loc cl s, s.Suffix toks → TokLoc toks loc → PExpr.AllLocClauses (TokLoc toks) cl →
      (parseCase T (fuel + 1) loc cl s).OkP (PExpr.AllLoc (TokLoc toks)) := by
  intro loc cl s hs hloc hcl
  have ihe := ih.e; have ihc := ih.c
  rw [parseCase]
  psplit
  all_goals tleaf []

theorem tree_step_list (T : PrecTables) (toks : List PTok) (fuel : Nat) (ih : TreeIH T toks fuel) :
    ∀ close acc s, s.Suffix toks → PExpr.AllLocList (TokLoc toks) acc →
      (parseList T (fuel + 1) close acc s).OkP (PExpr.AllLocList (TokLoc toks)) := by
  intro close acc s hs hacc
  have ihe := ih.e; have ihl := ih.l
  rw [parseList]
  simp only [PRes.bind]
  psplit
  all_goals tleaf []

theorem treeIH_all (T : PrecTables) (toks : List PTok) : ∀ fuel, TreeIH T toks fuel := by
  intro fuel
  induction fuel with
  | zero =>
    constructor
    · intro s _; rw [parseExpr]; exact okP_fuel
    · intro p l s _ _; rw [parseRhs]; exact okP_fuel
    · intro s _; rw [parseUnary]; exact okP_fuel
    · intro s _; rw [parsePrimary]; exact okP_fuel
    · intro l c s _ _ _; rw [parseCase]; exact okP_fuel
    · intro c a s _ _; rw [parseList]; exact okP_fuel
  | succ n ih =>
    exact ⟨tree_step_expr T toks n ih, tree_step_rhs T toks n ih, tree_step_unary T toks n ih,
           tree_step_primary T toks n ih, tree_step_case T toks n ih, tree_step_list T toks n ih⟩

theorem parseExpr_allLoc {T : PrecTables} {fuel : Nat} {s : PSt} {toks} (h : s.Suffix toks) :
    (parseExpr T fuel s).OkP (PExpr.AllLoc (TokLoc toks)) := (treeIH_all T toks fuel).e s h

/-- the slots hold trees made of token locations -/
def ClausesLoc (P : Loc → Prop) (c : Clauses) : Prop :=
  (∀ e, c.filter = some e → e.AllLoc P) ∧ (∀ ks, c.groupBy = some ks → PExpr.AllLocList P ks) ∧
  (∀ e, c.having = some e → e.AllLoc P)

theorem projLoop_allLoc {T : PrecTables} {toks} : ∀ fuel acc s, s.Suffix toks →
    (∀ p ∈ acc, PExpr.AllLoc (TokLoc toks) p.2) →
    (projLoop T fuel acc s).OkP (fun ps => ∀ p ∈ ps, PExpr.AllLoc (TokLoc toks) p.2) := by
  intro fuel
  induction fuel with
  | zero => intro acc s _ _; rw [projLoop]; exact okP_fuel
  | succ n ih =>
    intro acc s hs hacc
    have he := @parseExpr_allLoc T n
    rw [projLoop]
    psplit
    all_goals first
      | exact okP_err
      | exact okP_mkErr
      | exact okP_fuel
      | grind (gen := 40) (ematch := 40) [PRes.OkP, PRes.Within, List.mem_append, List.mem_singleton]

theorem groupKeysLoop_allLoc {T : PrecTables} {toks} : ∀ fuel acc s, s.Suffix toks →
    PExpr.AllLocList (TokLoc toks) acc →
    (groupKeysLoop T fuel acc s).OkP (PExpr.AllLocList (TokLoc toks)) := by
  intro fuel
  induction fuel with
  | zero => intro acc s _ _; rw [groupKeysLoop]; exact okP_fuel
  | succ n ih =>
    intro acc s hs hacc
    have he := @parseExpr_allLoc T n
    rw [groupKeysLoop]
    psplit
    all_goals tleaf []

theorem clauseTurn_allLoc {T : PrecTables} {fuel : Nat} {c : Clauses} {s : PSt} {toks} (hs : s.Suffix toks)
    (hc : ClausesLoc (TokLoc toks) c) :
    (clauseTurn T fuel c s).OkP (fun r => ClausesLoc (TokLoc toks) r.1) := by
  have he := @parseExpr_allLoc T fuel
  have hg := @groupKeysLoop_allLoc T toks fuel
  unfold clauseTurn
  psplit
  all_goals first
    | exact okP_err
    | exact okP_mkErr
    | exact okP_fuel
    | (apply okP_ok; unfold ClausesLoc at *; grind (gen := 40) (ematch := 40) [PRes.OkP, PRes.Within, PExpr.AllLocList])

theorem clauseLoop_allLoc {T : PrecTables} {toks} : ∀ fuel c s, s.Suffix toks → ClausesLoc (TokLoc toks) c →
    (clauseLoop T fuel c s).OkP (ClausesLoc (TokLoc toks)) := by
  intro fuel
  induction fuel with
  | zero => intro c s _ _; rw [clauseLoop]; exact okP_fuel
  | succ n ih =>
    intro c s hs hc
    have ht := @clauseTurn_allLoc T n c s toks hs hc
    rw [clauseLoop]
    psplit
    all_goals first
      | exact okP_err
      | exact okP_fuel
      | grind (gen := 40) (ematch := 40) [PRes.OkP, PRes.Within]

theorem clauses_allLoc {T : PrecTables} {fuel : Nat} {s : PSt} {toks} (hs : s.Suffix toks) :
    (clauses T fuel s).OkP (ClausesLoc (TokLoc toks)) := by
  have h0 : ClausesLoc (TokLoc toks) {} := by simp [ClausesLoc]
  have hl := @clauseLoop_allLoc T toks fuel {} s hs h0
  unfold clauses
  psplit
  all_goals first
    | exact hl
    | (apply okP_ok; exact h0)

theorem parseSelect_allLoc {T : PrecTables} {fuel : Nat} {s : PSt} {toks} (hs : s.Suffix toks) :
    (parseSelect T fuel s).OkP (POp.AllLoc (TokLoc toks)) := by
  have hp := @projLoop_allLoc T toks fuel []
  have hc := @clauses_allLoc T fuel
  unfold parseSelect
  psplit
  all_goals first
    | exact okP_err
    | exact okP_fuel
    | (apply okP_ok; simp only [POp.AllLoc, PSelect.AllLoc]; unfold ClausesLoc at hc
       grind (gen := 40) (ematch := 40) [PRes.OkP, PRes.Within, suffix_loc])

theorem parseCreateTable_allLoc {T : PrecTables} {fuel : Nat} {s : PSt} {toks} (hs : s.Suffix toks) :
    (parseCreateTable T fuel s).OkP (fun c => TokLoc toks c.loc) := by
  unfold parseCreateTable
  psplit
  all_goals first
    | exact okP_err
    | exact okP_fuel
    | (apply okP_ok; exact suffix_loc hs)

theorem opOfCreates_allLoc {P : Loc → Prop} (cs : List PCreate) (h : ∀ c ∈ cs, P c.loc) : (opOfCreates cs).AllLoc P := by
  unfold opOfCreates
  split
  · simp [POp.AllLoc]; exact h _ (by simp)
  · simpa [POp.AllLoc] using h

theorem multiCreateLoop_allLoc {T : PrecTables} {toks} : ∀ fuel acc s, s.Suffix toks →
    (∀ c ∈ acc, TokLoc toks c.loc) → (multiCreateLoop T fuel acc s).OkP (POp.AllLoc (TokLoc toks)) := by
  intro fuel
  induction fuel with
  | zero => intro acc s _ _; rw [multiCreateLoop]; exact okP_fuel
  | succ n ih =>
    intro acc s hs hacc
    have hc := @parseCreateTable_allLoc T n s toks hs
    rw [multiCreateLoop]
    psplit
    all_goals first
      | exact okP_err
      | exact okP_fuel
      | (apply okP_ok; apply opOfCreates_allLoc; grind [PRes.OkP, List.mem_append, List.mem_singleton])
      | (apply ih
         · grind (gen := 40) (ematch := 40) [PRes.Within]
         · grind [PRes.OkP, List.mem_append, List.mem_singleton])

theorem parseOp_allLoc {T : PrecTables} {fuel : Nat} {s : PSt} {toks} (hs : s.Suffix toks) :
    (parseOp T fuel s).OkP (POp.AllLoc (TokLoc toks)) := by
  have h1 := @parseSelect_allLoc T fuel s toks hs
  have h2 := @multiCreateLoop_allLoc T toks fuel [] s hs (by simp)
  unfold parseOp parseStatement
  psplit
  all_goals first
    | exact okP_err
    | exact okP_mkErr
    | exact okP_fuel
    | (apply okP_ok; grind [PRes.OkP])

end Parse
end Sqlgrep
