import SqlgrepModel.Model.Value
/-
REAL arithmetic. Bit patterns are `Nat` (< 2^64). `+ − × ÷ sqrt pow` are executed with Lean's `Float`
(the same IEEE-754 hardware operations Rust uses); theorems treat them as uninterpreted.
`{:.2}` rendering and INT/REAL comparison are exact integer arithmetic on the bit pattern.
-/
namespace Sqlgrep
namespace F64

def toFloat (bits : Nat) : Float := Float.ofBits (UInt64.ofNat bits)
def ofFloat (f : Float) : Nat := f.toBits.toNat
def canonNaN : Nat := 0x7ff8000000000000
/-- results are reported with NaN payloads normalised (payloads are not observable in sqlgrep) -/
def canon (bits : Nat) : Nat := if isNaN bits then canonNaN else bits

def add (a b : Nat) : Nat := ofFloat (toFloat a + toFloat b)
def sub (a b : Nat) : Nat := ofFloat (toFloat a - toFloat b)
def mul (a b : Nat) : Nat := ofFloat (toFloat a * toFloat b)
def div (a b : Nat) : Nat := ofFloat (toFloat a / toFloat b)
def sqrt (a : Nat) : Nat := ofFloat (Float.sqrt (toFloat a))
def pow (a b : Nat) : Nat := ofFloat (Float.pow (toFloat a) (toFloat b))
def neg (a : Nat) : Nat := if a / 2^63 % 2 == 1 then a - 2^63 else a + 2^63   -- flips the sign bit
def abs (a : Nat) : Nat := a % 2^63                                            -- clears the sign bit
def ofInt (i : Int) : Nat := ofFloat (Float.ofInt i)                            -- `i as f64`
def zero : Nat := 0

/-- `f64::max`/`f64::min` (Rust: if one operand is NaN the other is returned) -/
def fmax (a b : Nat) : Nat :=
  if isNaN a then b else if isNaN b then a else if key a < key b then b else a
def fmin (a b : Nat) : Nat :=
  if isNaN a then b else if isNaN b then a else if key b < key a then b else a

/-! exact decomposition of a finite pattern: value = (-1)^s · m · 2^e -/
def expBits (n : Nat) : Nat := n / 2^52 % 2^11
def fracBits (n : Nat) : Nat := n % 2^52
def isInf (n : Nat) : Bool := mag n == 0x7ff0000000000000
/-- integer mantissa and binary exponent of a finite pattern -/
def mantExp (n : Nat) : Nat × Int :=
  if expBits n == 0 then (fracBits n, -1074) else (2^52 + fracBits n, (expBits n : Int) - 1075)

/-- exact comparison of an integer with a REAL (`compare_int_float`): NaN is greater than every number -/
def cmpIntReal (x : Int) (y : Nat) : Ordering :=
  if isNaN y then .lt
  else if isInf y then (if signBit y then .gt else .lt)
  else
    let (m, e) := mantExp y
    -- compare x with s·m·2^e exactly
    let sm : Int := if signBit y then -(m : Int) else m
    if e ≥ 0 then compare x (sm * 2^e.toNat)
    else compare (x * 2^(-e).toNat) sm

/-- `format!("{:.2}", f)`: exact decimal expansion rounded half-to-even to two places -/
def fmt2 (n : Nat) : String :=
  if isNaN n then "NaN"
  else
    let sign := if signBit n then "-" else ""
    if isInf n then sign ++ "inf"
    else
      let (m, e) := mantExp n
      let q : Nat :=
        if e ≥ 0 then m * 2^e.toNat * 100
        else
          let den := 2^(-e).toNat
          let num := m * 100
          let q := num / den
          let r := num % den
          if 2 * r > den then q + 1 else if 2 * r < den then q else (if q % 2 == 0 then q else q + 1)
      let frac := q % 100
      sign ++ toString (q / 100) ++ "." ++ (if frac < 10 then "0" else "") ++ toString frac

end F64
end Sqlgrep
