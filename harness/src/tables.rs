// Tables regenerated from the running code into lean/SqlgrepModel/Generated/*.lean.
pub fn write_all(out: &str) {
    crate::tables_prec::write(out);
}
