import SqlgrepModel.Model.Json
import SqlgrepModel.Model.Extract
import SqlgrepModel.Model.Text
import SqlgrepModel.Model.DecFloat
import SqlgrepModel.Lemmas.JsonParser
/-
`serde_json::from_str::<serde_json::Value>(line)` computed in Lean, as sqlgrep uses it (serde_json 1.0.134 with
`preserve_order`, without `arbitrary_precision` and without `float_roundtrip`):

  docOfLine : bytes of the line → Option Json        (`none` = `Err`: sqlgrep then extracts from `Value::Null`)

1. the bytes must be UTF-8 (`Utf8.decode`; `from_str` takes a `&str`);
2. the text must be one JSON document of RFC 8259: the parser `parseJsonL` is `Lemmas/JsonParser.parseJson` — proved
   sound and complete for the grammar of `Spec/JsonGrammar.lean` (`parseJson_iff`) — which additionally keeps the
   *lexeme* of every number (`parseJsonL_erase`: forgetting the lexemes gives exactly `parseJson`'s answer);
3. serde_json's own limits: nesting deeper than 127 containers is an error (`remaining_depth: 128`), and so is a
   number outside the REAL range;
4. numbers (`serdeNumber`, a transcription of `Deserializer::parse_integer / parse_number / parse_decimal /
   parse_exponent / parse_long_integer / parse_decimal_overflow / parse_exponent_overflow / f64_from_parts`):
   an integer literal that fits `u64` (`i64` when negative) is an integer; every other literal is an `f64` computed
   the way serde_json computes it *without* `float_roundtrip`: the first digits that fit a `u64` as significand,
   `significand as f64`, then one multiplication or division by a power of ten from the table `POW10` (two when the
   exponent is below −308) — each step a correctly rounded IEEE operation, done here exactly (`DecFloat.magBits`);
   the result is NOT always the correctly rounded value of the literal, and this function reproduces that;
5. objects: `Map::insert` with `preserve_order` — a repeated key keeps its first position and takes the last value;
6. strings and keys are the UTF-8 bytes of the characters the literal denotes.
-/
namespace Sqlgrep
namespace JsonDoc
open JsonGrammar

/-! ### the RFC 8259 parser, keeping number lexemes -/

inductive LVal where
  | null
  | bool (b : Bool)
  | num (lex : List Char)
  | str (s : List Char)
  | arr (xs : List LVal)
  | obj (ms : List (List Char × LVal))
  deriving Repr, Inhabited

mutual
/-- `JsonGrammar.parseVal` with `.num` carrying the number's text instead of its denotation -/
def parseValL : Nat → List Char → Option (LVal × List Char)
  | 0, _ => none
  | fuel + 1, cs =>
    match dropWs cs with
    | [] => none
    | c :: t =>
      if c = '"' then
        match parseChars t with
        | some (s, r) => some (.str s, dropWs r)
        | none => none
      else if c = '{' then
        match dropWs t with
        | [] => none
        | c2 :: t2 =>
          if c2 = '}' then some (.obj [], dropWs t2)
          else
            match parseMembersL fuel (c2 :: t2) with
            | some (ms, r) => some (.obj ms, r)
            | none => none
      else if c = '[' then
        match dropWs t with
        | [] => none
        | c2 :: t2 =>
          if c2 = ']' then some (.arr [], dropWs t2)
          else
            match parseElemsL fuel (c2 :: t2) with
            | some (xs, r) => some (.arr xs, r)
            | none => none
      else if c = 't' then
        match stripLit ['r', 'u', 'e'] t with
        | some r => some (.bool true, dropWs r)
        | none => none
      else if c = 'f' then
        match stripLit ['a', 'l', 's', 'e'] t with
        | some r => some (.bool false, dropWs r)
        | none => none
      else if c = 'n' then
        match stripLit ['u', 'l', 'l'] t with
        | some r => some (.null, dropWs r)
        | none => none
      else
        match numValue (spanNum (c :: t)).1 with
        | some _ => some (.num (spanNum (c :: t)).1, dropWs (spanNum (c :: t)).2)
        | none => none
def parseMembersL : Nat → List Char → Option (List (List Char × LVal) × List Char)
  | 0, _ => none
  | fuel + 1, cs =>
    match parseMemberL fuel cs with
    | none => none
    | some (m, r) =>
      match r with
      | [] => none
      | c :: t =>
        if c = '}' then some ([m], dropWs t)
        else if c = ',' then
          match parseMembersL fuel t with
          | some (ms, r') => some (m :: ms, r')
          | none => none
        else none
def parseMemberL : Nat → List Char → Option ((List Char × LVal) × List Char)
  | 0, _ => none
  | fuel + 1, cs =>
    match dropWs cs with
    | [] => none
    | c :: t =>
      if c = '"' then
        match parseChars t with
        | none => none
        | some (k, r) =>
          match dropWs r with
          | [] => none
          | c2 :: t2 =>
            if c2 = ':' then
              match parseValL fuel t2 with
              | some (x, r2) => some ((k, x), r2)
              | none => none
            else none
      else none
def parseElemsL : Nat → List Char → Option (List LVal × List Char)
  | 0, _ => none
  | fuel + 1, cs =>
    match parseValL fuel cs with
    | none => none
    | some (x, r) =>
      match r with
      | [] => none
      | c :: t =>
        if c = ']' then some ([x], dropWs t)
        else if c = ',' then
          match parseElemsL fuel t with
          | some (xs, r') => some (x :: xs, r')
          | none => none
        else none
end

/-- a whole text as `JSON-text = ws value ws`, numbers as lexemes -/
def parseJsonL (cs : List Char) : Option LVal :=
  match parseValL (cs.length + 1) cs with
  | some (x, []) => some x
  | _ => none

mutual
/-- forget the lexemes: every number by the value it denotes (`JsonGrammar.numValue`) -/
def LVal.erase : LVal → JVal
  | .null => .null
  | .bool b => .bool b
  | .num lex => .num ((numValue lex).getD default)
  | .str s => .str s
  | .arr xs => .arr (LVal.eraseList xs)
  | .obj ms => .obj (LVal.eraseMembers ms)
def LVal.eraseList : List LVal → List JVal
  | [] => []
  | x :: xs => x.erase :: LVal.eraseList xs
def LVal.eraseMembers : List (List Char × LVal) → List (List Char × JVal)
  | [] => []
  | (k, x) :: ms => (k, x.erase) :: LVal.eraseMembers ms
end

/-! ### IEEE-754 `×` and `÷` of non-negative finite REALs, exactly (correct rounding of the exact product / quotient) -/

/-- `a * b` for finite patterns with the sign bit clear; overflow gives `+inf` -/
def mulF (a b : Nat) : Nat :=
  let (m1, e1) := F64.mantExp a
  let (m2, e2) := F64.mantExp b
  let e := e1 + e2
  if 0 ≤ e then DecFloat.magBits (m1 * m2 * 2 ^ e.toNat) 1 else DecFloat.magBits (m1 * m2) (2 ^ (-e).toNat)

/-- `a / b` for finite patterns with the sign bit clear, `b ≠ 0` -/
def divF (a b : Nat) : Nat :=
  let (m1, e1) := F64.mantExp a
  let (m2, e2) := F64.mantExp b
  let e := e1 - e2
  if 0 ≤ e then DecFloat.magBits (m1 * 2 ^ e.toNat) m2 else DecFloat.magBits m1 (m2 * 2 ^ (-e).toNat)

/-! ### serde_json's number reader (no `float_roundtrip`, no `arbitrary_precision`) -/

def u64Max : Nat := 18446744073709551615
def i32Max : Int := 2147483647
def i32Min : Int := -2147483648
/-- `i32::saturating_add` / `saturating_sub` of the exact result -/
def satI32 (x : Int) : Int := if x < i32Min then i32Min else if i32Max < x then i32Max else x

/-- the table `POW10[k]` (`1e0 … 1e308`, each literal correctly rounded by rustc) -/
def pow10 (k : Nat) : Nat := DecFloat.decToF64 false 1 k

/-- `significand as f64` -/
def u64ToF64 (n : Nat) : Nat := DecFloat.decToF64 false n 0

/-- the loop of `f64_from_parts` on the magnitude; `none` = `NumberOutOfRange`.  At most two passes go through the
`None` arm with `f ≠ 0` (`f ≤ 2^64`, two divisions by `1e308` give 0), so the fuel is never exhausted. -/
def fromPartsLoop : Nat → Nat → Int → Option Nat
  | 0, f, _ => some f
  | fuel + 1, f, e =>
    if e.natAbs ≤ 308 then
      if 0 ≤ e then
        let r := mulF f (pow10 e.toNat)
        if r = DecFloat.infBits then none else some r
      else some (divF f (pow10 (-e).toNat))
    else if f = 0 then some 0
    else if 0 ≤ e then none
    else fromPartsLoop fuel (divF f (pow10 308)) (e + 308)

/-- `f64_from_parts(positive, significand, exponent)`: the bits, `none` = error -/
def f64FromParts (neg : Bool) (sig : Nat) (exponent : Int) : Option Nat :=
  (fromPartsLoop 6 (u64ToF64 sig) exponent).map (fun m => (if neg then DecFloat.signMask else 0) + m)

/-- digits are taken into the `u64` significand while `significand * 10 + digit` fits; returns the significand and the
digits not taken -/
def accum (sig : Nat) : List Char → Nat × List Char
  | [] => (sig, [])
  | c :: cs =>
    if u64Max < sig * 10 + (c.toNat - 48) then (sig, c :: cs) else accum (sig * 10 + (c.toNat - 48)) cs

/-- the parts of a number lexeme `[-] int [. frac] [(e|E) [+|-] digits]` (the lexeme is a `number` of the grammar) -/
structure NumLex where
  neg : Bool
  int : List Char
  frac : Option (List Char)            -- digits after the point
  exp : Option (Bool × List Char)      -- exponent: negative?, digits
  deriving Repr, Inhabited

def splitExp (cs : List Char) : Option (Bool × List Char) :=
  match cs with
  | e :: t =>
    if e = 'e' ∨ e = 'E' then
      match t with
      | '-' :: ds => some (true, ds)
      | '+' :: ds => some (false, ds)
      | ds => some (false, ds)
    else none
  | [] => none

def splitNum (lex : List Char) : NumLex :=
  let (neg, body) : Bool × List Char := match lex with | '-' :: t => (true, t) | t => (false, t)
  let (i, r) := spanDigits body
  match r with
  | '.' :: t => let (fd, r2) := spanDigits t; { neg := neg, int := i, frac := some fd, exp := splitExp r2 }
  | r => { neg := neg, int := i, frac := none, exp := splitExp r }

/-- `parse_exponent` and what follows: the exponent digits are read into an `i32`; if they do not fit
(`parse_exponent_overflow`) a non-zero significand with a positive exponent is `NumberOutOfRange`, everything else
is ±0; else `f64_from_parts(significand, starting_exp ± exp)` with saturating arithmetic -/
def withExponent (neg : Bool) (sig : Nat) (startingExp : Int) : Option (Bool × List Char) → Option Nat
  | none => f64FromParts neg sig startingExp
  | some (eneg, ds) =>
    let ev : Int := digitsVal ds
    if i32Max < ev then
      if sig ≠ 0 ∧ !eneg then none else some (if neg then DecFloat.signMask else 0)
    else f64FromParts neg sig (satI32 (if eneg then startingExp - ev else startingExp + ev))

/-- serde_json's value of a number lexeme; `none` = `NumberOutOfRange` (the whole text is then not a document) -/
def serdeNumber (lex : List Char) : Option JNum :=
  let n := splitNum lex
  let (sig, dropped) := accum 0 n.int
  match dropped, n.frac, n.exp with
  | [], none, none =>
    -- `parse_number`, an integer literal that fits `u64`
    if !n.neg then some (.posInt sig (u64ToF64 sig))
    else if sig = 0 then some (.float DecFloat.signMask)                             -- `-0` is the float -0.0
    else if sig ≤ 9223372036854775808 then some (.negInt (-(sig : Int)) (DecFloat.decToF64 true sig 0))
    else some (.float (DecFloat.decToF64 true sig 0))                                 -- below `i64::MIN`: `-(sig as f64)`
  | _, _, _ =>
    -- `parse_long_integer` counts the integer digits that did not fit; `parse_decimal` goes on taking fraction
    -- digits while they fit (`parse_decimal_overflow` ignores the rest)
    let (sig2, expo) : Nat × Int :=
      match n.frac with
      | none => (sig, (dropped.length : Int))
      | some fd =>
        let (s2, rest) := accum sig fd
        (s2, (dropped.length : Int) - ((fd.length - rest.length : Nat) : Int))
    (withExponent n.neg sig2 expo n.exp).map .float

/-! ### the document -/

/-- `Map::insert` with `preserve_order`: a repeated key keeps its position and takes the new value -/
def insertMember (m : List (List Nat × Json)) (k : List Nat) (v : Json) : List (List Nat × Json) :=
  match m with
  | [] => [(k, v)]
  | (k', v') :: rest => if k' = k then (k', v) :: rest else (k', v') :: insertMember rest k v

mutual
/-- nesting depth in containers -/
def LVal.depth : LVal → Nat
  | .arr xs => 1 + LVal.depthList xs
  | .obj ms => 1 + LVal.depthMembers ms
  | _ => 0
def LVal.depthList : List LVal → Nat
  | [] => 0
  | x :: xs => max x.depth (LVal.depthList xs)
def LVal.depthMembers : List (List Char × LVal) → Nat
  | [] => 0
  | (_, x) :: ms => max x.depth (LVal.depthMembers ms)
end

mutual
/-- the `serde_json::Value` of a parsed text; `none` = a number out of range -/
def toJson : LVal → Option Json
  | .null => some .null
  | .bool b => some (.bool b)
  | .num lex => (serdeNumber lex).map .num
  | .str s => some (.str (Utf8.encode s))
  | .arr xs => (toJsonList xs).map .arr
  | .obj ms => (toJsonMembers ms).map (fun kvs => .obj (kvs.foldl (fun m kv => insertMember m kv.1 kv.2) []))
def toJsonList : List LVal → Option (List Json)
  | [] => some []
  | x :: xs =>
    match toJson x, toJsonList xs with
    | some v, some vs => some (v :: vs)
    | _, _ => none
def toJsonMembers : List (List Char × LVal) → Option (List (List Nat × Json))
  | [] => some []
  | (k, x) :: ms =>
    match toJson x, toJsonMembers ms with
    | some v, some vs => some ((Utf8.encode k, v) :: vs)
    | _, _ => none
end

/-- serde_json's recursion limit: `remaining_depth` starts at 128 and must stay positive -/
def maxDepth : Nat := 127

/-- `serde_json::from_str::<Value>` of a text -/
def docOfChars (cs : List Char) : Option Json :=
  match parseJsonL cs with
  | some l => if l.depth ≤ maxDepth then toJson l else none
  | none => none

/-- `serde_json::from_str::<Value>(line).ok()` from the bytes of the line: invalid UTF-8 is not JSON -/
def docOfLine (line : List Nat) : Option Json :=
  match Utf8.decode line with
  | some cs => docOfChars cs
  | none => none

/-- the line oracle whose JSON document is *computed* from the bytes of the line (regex answers stay oracles) -/
def withDoc (lo : Extract.LineOracle) : Extract.LineOracle := { lo with json := docOfLine lo.line }

end JsonDoc
end Sqlgrep
