import SqlgrepModel.Lemmas.LimitSelect
import SqlgrepModel.Lemmas.LimitAgg
import SqlgrepModel.Lemmas.FollowBridge
/-
C07 — LIMIT n outputs exactly the first n rows of the unlimited result.

Model: `runBatch` (Model/Exec.lean: `FileExecutor::execute` with the `reached_limit()` check before every
file and the `break 'readers` after the line that reaches the limit), `executeLine` / `updateLimit`
(Model/Engine.lean: the rows of a line are cut to what is left of LIMIT, every row counts — NULL-only rows
too —, the flag is raised with the row that reaches the limit), `finalResult` (the final aggregate table is cut
to n rows). These are the definitions the driver executes (`batch` cases).

Vocabulary (Spec/Select.lean): the output of a non-aggregate run is a stream of typed rows grouped by the
input line that produced them ("blocks"; `batchBlocks` = the candidate rows of every line of every file,
`applyDistinct` = first occurrences, `render` = the text records, with the empty separator line the text
printer puts after a line's table of several rows). `takeBlocks n` is `take n` on the stream with the grouping
kept; `consumed n` is the number of lines up to the one that supplies the n-th row.

The sentence does not speak of errors: with LIMIT a run may stop before a later line on which an expression
has no value (or that is unreadable), so the theorems are about runs whose version WITHOUT LIMIT does not fail
(`hasFailed … = false`); the LIMIT run then does not fail either. The last example shows the hypothesis cannot
be dropped.
All theorems hold for every n, every list of files (any number, any split — also empty files), every join index
(fan-out: several environments per line), DISTINCT or not, and rows consisting only of NULLs.
Only this file states property theorems; helper lemmas live in `Lemmas/`.
-/
namespace Sqlgrep.Props.C07
open Sqlgrep Sqlgrep.Spec.Select

/-- **LIMIT n = the first n rows of the unlimited output** (non-aggregate statements). If the run without
LIMIT does not fail, then with `B` the row blocks it outputs (DISTINCT applied): the run without LIMIT prints
`render B` after reading every line; the run with LIMIT n prints `render (takeBlocks n B)` — and the rows of
`takeBlocks n B` are exactly the first n rows of `B` (all of them if there are fewer) — reads `consumed n B`
lines and reports no error. -/
theorem limit_is_take (O : Oracles) (qy : Query) (q : SelectStmt) (joined : List FileLine)
    (files : List (List FileLine)) (n : Nat)
    (hu : hasFailed (runBatch O (qy.withSelect (q.withLimit none)) joined files none) = false) :
    ∃ blocks : List (List (List Value)),
      batchBlocks O qy q joined files = some blocks ∧
      runBatch O (qy.withSelect (q.withLimit none)) joined files none =
        { printed := render (columnsOf qy q) (applyDistinct q.distinct blocks), totalLines := blocks.length } ∧
      runBatch O (qy.withSelect (q.withLimit (some n))) joined files none =
        { printed := render (columnsOf qy q) (takeBlocks n (applyDistinct q.distinct blocks)),
          totalLines := consumed n (applyDistinct q.distinct blocks) } ∧
      (takeBlocks n (applyDistinct q.distinct blocks)).flatten = (applyDistinct q.distinct blocks).flatten.take n := by
  obtain ⟨blocks, hb⟩ := batchBlocks_of_unlimited_ok O (qy.withSelect (q.withLimit none)) (q.withLimit none) rfl rfl
    joined files hu
  have hb0 : batchBlocks O qy q joined files = some blocks := by
    rw [← batchBlocks_same O qy q (q.withLimit none) (sameRows_limit q none)]; exact hb
  have hbn : batchBlocks O (qy.withSelect (q.withLimit (some n))) (q.withLimit (some n)) joined files = some blocks := by
    rw [batchBlocks_same O qy q (q.withLimit (some n)) (sameRows_limit q (some n))]; exact hb0
  refine ⟨blocks, hb0, ?_, ?_, takeBlocks_flatten _ _⟩
  · rw [runBatch_select_eq_spec O _ (q.withLimit none) rfl joined files blocks hb]
    simp only [runOf, outBlocks, applyLimit, linesConsumed, SelectStmt.withLimit_limit,
      SelectStmt.withLimit_distinct, columnsOf_same qy q _ (sameRows_limit q none)]
    cases q.distinct <;> simp [applyDistinct]
  · rw [runBatch_select_eq_spec O _ (q.withLimit (some n)) rfl joined files blocks hbn]
    simp only [runOf, outBlocks, applyLimit, linesConsumed, SelectStmt.withLimit_limit,
      SelectStmt.withLimit_distinct, columnsOf_same qy q _ (sameRows_limit q (some n))]

/-- **consumption bound** (non-aggregate statements): the run with LIMIT n reads no line beyond the one that
produced its n-th row: whenever the first `i` lines already yield n output rows, at most `i` lines are read;
none at all for n = 0; and all of them when the whole output has fewer than n rows. (Lines are counted over
all files in order; lines that yield no row count as lines.) -/
theorem limit_consumption (O : Oracles) (qy : Query) (q : SelectStmt) (joined : List FileLine)
    (files : List (List FileLine)) (n : Nat)
    (hu : hasFailed (runBatch O (qy.withSelect (q.withLimit none)) joined files none) = false) :
    ∃ blocks : List (List (List Value)),
      batchBlocks O qy q joined files = some blocks ∧ blocks.length = files.flatten.length ∧
      (∀ i, n ≤ ((applyDistinct q.distinct blocks).take i).flatten.length →
        (runBatch O (qy.withSelect (q.withLimit (some n))) joined files none).totalLines ≤ i) ∧
      (n = 0 → (runBatch O (qy.withSelect (q.withLimit (some n))) joined files none).totalLines = 0) ∧
      ((applyDistinct q.distinct blocks).flatten.length < n →
        (runBatch O (qy.withSelect (q.withLimit (some n))) joined files none).totalLines = files.flatten.length) := by
  obtain ⟨blocks, hb, _, hl, _⟩ := limit_is_take O qy q joined files n hu
  have hlen : blocks.length = files.flatten.length := by
    unfold batchBlocks at hb
    cases hj : joinIndexOf qy joined with
    | ok idx =>
      rw [hj] at hb
      simp only at hb
      split at hb
      · cases hl2 : linesRows O qy q idx (files.flatten.map (·.line)) with
        | ok bl =>
          rw [hl2] at hb
          simp only [Option.some.injEq] at hb
          subst hb
          rw [linesRows_length O qy q idx _ _ hl2, List.length_map]
        | error k => rw [hl2] at hb; cases hb
        | panic s => rw [hl2] at hb; cases hb
        | oracleMissing s => rw [hl2] at hb; cases hb
      · cases hb
    | error k => rw [hj] at hb; cases hb
    | panic s => rw [hj] at hb; cases hb
    | oracleMissing s => rw [hj] at hb; cases hb
  have hB : (applyDistinct q.distinct blocks).length = blocks.length := by
    cases q.distinct <;> simp [applyDistinct]
  refine ⟨blocks, hb, hlen, ?_, ?_, ?_⟩
  · intro i hi
    rw [hl]; exact consumed_le_of_enough n i _ hi
  · intro h0
    rw [hl, h0]; simp [consumed]
  · intro hlt
    rw [hl]
    show consumed n (applyDistinct q.distinct blocks) = _
    rw [consumed_all n _ hlt, hB, hlen]

/-- **aggregate statements in batch mode**: with LIMIT n everything is read (same number of lines, same
outcome) and the printed table consists of the first n records — the first n groups — of the table printed
without LIMIT. (The printer emits one record per row for the final table, so records and groups coincide.) -/
theorem agg_limit_is_take (O : Oracles) (qy : Query) (q : AggStmt) (joined : List FileLine)
    (files : List (List FileLine)) (n : Nat)
    (hu : hasFailed (runBatch O (qy.withAgg (q.withLimit none)) joined files none) = false) :
    (runBatch O (qy.withAgg (q.withLimit (some n))) joined files none).printed =
        (runBatch O (qy.withAgg (q.withLimit none)) joined files none).printed.take n ∧
    (runBatch O (qy.withAgg (q.withLimit (some n))) joined files none).totalLines =
        (runBatch O (qy.withAgg (q.withLimit none)) joined files none).totalLines ∧
    hasFailed (runBatch O (qy.withAgg (q.withLimit (some n))) joined files none) = false := by
  rw [runBatch_agg_limit O qy q n joined files hu]
  refine ⟨rfl, rfl, ?_⟩
  simpa [hasFailed] using hu

/-- the engine-level statement behind `agg_limit_is_take`: the final table with LIMIT n is the final table
without LIMIT cut to its first n rows (same columns; an error of the one is an error of the other) -/
theorem agg_final_table_take (O : Oracles) (q : AggStmt) (n : Nat) (es : EngineState) :
    finalResult O (q.withLimit (some n)) es =
      Outcome.mapOk (fun r => { r with rows := r.rows.take n }) (finalResult O (q.withLimit none) es) := by
  rw [finalResult_eq, finalResult_eq,
    aggResult_same O (q := q.withLimit none) (q' := q.withLimit (some n)) ⟨rfl, rfl, rfl, rfl, rfl, rfl⟩ rfl]
  cases aggResult O (q.withLimit none) es.agg <;> rfl

/-- **follow mode** (non-aggregate statement; follow mode has no joins): the executed follow loop
(`Model/ExecI.lean` `runFollowAll` = `FollowFileExecutor::execute`, driver kind `followi`: nothing read when the
limit is 0, else every delivered line fed to the engine with update + result, every result table printed, the loop
left after a table that came with `reached_limit`) has exactly the outcome of the batch run over the same lines:
same records, same number of lines read, same error. So `limit_is_take` and `limit_consumption` (and C08's
`distinct_is_first_occurrences`) hold verbatim for follow mode. -/
theorem follow_prints_batch_output (O : Oracles) (qy : Query) (q : SelectStmt) (hq : qy.stmt = .select q)
    (hj : qy.join = none) (lines : List Line) :
    runFollowAll O qy none lines = runBatch O qy [] [readableFile lines] none :=
  runFollowAll_select_eq_runBatch O qy q hq hj lines

/-! ### non-vacuity and concrete behaviour -/

def exTable : TableInfo := { name := "t", columns := ["v", "w"] }
def exQuery (lim : Option Nat) (d : Bool) : Query :=
  { stmt := .select { projections := [("v", .column "v")], wildcard := false, filter := none, limit := lim, distinct := d },
    table := exTable, join := none }
def exLine (v : Value) : FileLine := { readable := true, line := { text := [], row := [v, .int 7] } }
/-- two files; a NULL-only row, a repeated row, a line that is not admitted -/
def exFiles : List (List FileLine) :=
  [[exLine (.int 1), exLine .null], [{ readable := true, line := { text := [], row := [.null, .null] } }, exLine (.int 1), exLine (.int 2)]]

-- the hypothesis of `limit_is_take` / `limit_consumption` holds on this input
example : hasFailed (runBatch {} (exQuery none false) [] exFiles none) = false := by decide
-- LIMIT 2 prints the first two records (the second row is a NULL-only row) and reads two lines, all in file 1
example : (runBatch {} (exQuery (some 2) false) [] exFiles none).printed = ["v: 1", "v: NULL"] ∧
    (runBatch {} (exQuery (some 2) false) [] exFiles none).totalLines = 2 := by decide
-- LIMIT 0 prints nothing and reads nothing
example : (runBatch {} (exQuery (some 0) false) [] exFiles none).printed = [] ∧
    (runBatch {} (exQuery (some 0) false) [] exFiles none).totalLines = 0 := by decide
-- with DISTINCT the third output row comes from the fifth line (second file)
example : (runBatch {} (exQuery (some 3) true) [] exFiles none).printed = ["v: 1", "v: NULL", "v: 2"] ∧
    (runBatch {} (exQuery (some 3) true) [] exFiles none).totalLines = 5 := by decide

/-- the hypothesis cannot be dropped: with LIMIT 1 the run ends before the line on which `v + 1` overflows;
without LIMIT the run reports that error -/
def exOverflow (lim : Option Nat) : Query :=
  { stmt := .select { projections := [("p0", .arith .add (.column "v") (.value (.int 1)))], wildcard := false, filter := none,
                      limit := lim, distinct := false },
    table := exTable, join := none }
example : hasFailed (runBatch {} (exOverflow (some 1)) [] [[exLine (.int 1), exLine (.int 9223372036854775807)]] none) = false ∧
    hasFailed (runBatch {} (exOverflow none) [] [[exLine (.int 1), exLine (.int 9223372036854775807)]] none) = true := by
  decide

end Sqlgrep.Props.C07
