// Generated/LowerTables.lean: the name tables of the lowering (`parser_tree_converter.rs`) and of the column-definition
// syntax, read off the running code:
//  lowerNames      : `parser_tree_converter::completion_words()` (function + aggregate names), lower-cased, sorted
//  lowerFunctions  : the names for which `parsing::parse("SELECT <name>(x) FROM t")` yields a function call, with the function
//  lowerAggregates : the names for which some probe yields an aggregate
//  lowerProbes     : per name, in lower and in upper case, what `parsing::parse("SELECT <name>(<args>) FROM t")` answers for the
//                    argument lists `()`, `(x)`, `(x, 0.5)`, `(x, 'a')`, `(x, y)`, `(x, y, z)`, `(*)` (accepted arities)
//  lowerUnknown    : near-miss names that must stay undefined
//  typeWords       : `ValueType::from_str(base ++ "[]"^n)` over candidate spellings
//  regexModeWords  : `CREATE TABLE t(line = <word> 'a', line[1] => x TEXT);`  -> split | captures | reject
//  modifierWords   : `CREATE TABLE t(line = 'a', line[1] => x TEXT <word>);`  -> trim | convert | microseconds | none | reject
// `Lemmas/LowerTables.lean` proves by `decide` that these equal what the Lean model computes.
use sqlgrep::data_model::RegexMode;
use sqlgrep::model::{Aggregate, ExpressionTree, ValueType};
use sqlgrep::parsing::verif_hooks::completion_words;
use sqlgrep::parsing::{parse, CommonParserError};
use sqlgrep::Statement;

use crate::exprs::func_name;
use crate::util::{catch, Caught};

fn lean_chars(s: &str) -> String {
    format!("cs [{}]", s.chars().map(|c| (c as u32).to_string()).collect::<Vec<_>>().join(", "))
}

fn agg_name(a: &Aggregate) -> &'static str {
    match a {
        Aggregate::GroupKey(_) => "gkey",
        Aggregate::Count(_, _) => "count",
        Aggregate::Min(_) => "min",
        Aggregate::Max(_) => "max",
        Aggregate::Sum(_) => "sum",
        Aggregate::Average(_) => "avg",
        Aggregate::StandardDeviation(_, false) => "stddev",
        Aggregate::StandardDeviation(_, true) => "variance",
        Aggregate::Percentile(_, _) => "percentile",
        Aggregate::BoolAnd(_) => "booland",
        Aggregate::BoolOr(_) => "boolor",
        Aggregate::CollectArray(_) => "arrayagg",
        Aggregate::CollectString(_, _) => "stringagg",
    }
}

pub const ARG_LISTS: &[&str] = &["", "x", "x, 0.5", "x, 'a'", "x, y", "x, y, z", "*"];

/// what `parsing::parse("SELECT <name>(<args>) FROM t")` answers
fn probe(name: &str, args: &str) -> String {
    let text = format!("SELECT {}({}) FROM t", name, args);
    match catch(|| parse(&text)) {
        Caught::Done(Ok(Statement::Select(s))) => match s.projections.get(0).map(|p| &p.1) {
            Some(ExpressionTree::FunctionCall { function, .. }) => format!("fn:{}", func_name(function)),
            _ => "expr".to_owned(),
        },
        Caught::Done(Ok(Statement::Aggregate(a))) => match a.aggregates.get(0) {
            Some(it) => format!("agg:{}", agg_name(&it.aggregate)),
            None => "agg:".to_owned(),
        },
        Caught::Done(Ok(_)) => "other".to_owned(),
        Caught::Done(Err(CommonParserError::ParserError(_))) => "perr".to_owned(),
        Caught::Done(Err(CommonParserError::ConvertParserTreeError(e))) => {
            let s = format!("{:?}", e.error);
            s.split(|c: char| !c.is_alphanumeric()).next().unwrap_or("").to_owned()
        }
        Caught::Panic(_) => "panic".to_owned(),
    }
}

fn vtype_lean(t: &ValueType) -> String {
    match t {
        ValueType::Int => ".int".to_owned(),
        ValueType::Float => ".real".to_owned(),
        ValueType::Bool => ".bool".to_owned(),
        ValueType::String => ".text".to_owned(),
        ValueType::Timestamp => ".timestamp".to_owned(),
        ValueType::Interval => ".interval".to_owned(),
        ValueType::Array(e) => format!("(.array {})", vtype_lean(e)),
    }
}

const UNKNOWN_CANDIDATES: &[&str] = &["regexp_match", "regex_match", "median", "len", "substr", "coalesce", "array", "date_part",
                                      "timestamp_extract_week", "concat", "counts", "mean", "std", "group_concat", "max_", "min_by"];
const TYPE_CANDIDATES: &[&str] = &["int", "integer", "bigint", "real", "float", "double", "text", "string", "varchar", "boolean", "bool",
                                   "timestamp", "datetime", "date", "interval", "time", "array", "null"];
const MODE_CANDIDATES: &[&str] = &["split", "SPLIT", "Split", "match", "MATCH", "Match", "captures", "capture", "regex", "find", "splits"];
const MODIFIER_CANDIDATES: &[&str] = &["trim", "TRIM", "Trim", "convert", "CONVERT", "Convert", "microseconds", "MICROSECONDS",
                                       "Microseconds", "strip", "nullable", "unique", "milliseconds", "converted", "trims"];

fn mode_probe(word: &str) -> String {
    let text = format!("CREATE TABLE t(line = {} 'a', line[1] => x TEXT);", word);
    match catch(|| parse(&text)) {
        Caught::Done(Ok(Statement::CreateTable(td))) => match td.patterns.get(0).map(|p| &p.2) {
            Some(RegexMode::Split) => "split".to_owned(),
            Some(RegexMode::Captures) => "captures".to_owned(),
            None => "nopattern".to_owned(),
        },
        Caught::Done(Ok(_)) => "other".to_owned(),
        Caught::Done(Err(_)) => "reject".to_owned(),
        Caught::Panic(_) => "panic".to_owned(),
    }
}

fn modifier_probe(word: &str) -> String {
    let text = format!("CREATE TABLE t(line = 'a', line[1] => x TEXT {});", word);
    match catch(|| parse(&text)) {
        Caught::Done(Ok(Statement::CreateTable(td))) => match td.columns.get(0).map(|c| &c.options) {
            Some(o) if o.trim => "trim".to_owned(),
            Some(o) if o.convert => "convert".to_owned(),
            Some(o) if o.microseconds => "microseconds".to_owned(),
            Some(_) => "none".to_owned(),
            None => "nocolumn".to_owned(),
        },
        Caught::Done(Ok(_)) => "other".to_owned(),
        Caught::Done(Err(_)) => "reject".to_owned(),
        Caught::Panic(_) => "panic".to_owned(),
    }
}

pub fn file() -> String {
    let mut names: Vec<String> = completion_words().iter().map(|w| w.to_lowercase()).collect();
    names.sort();
    names.dedup();
    let mut functions = Vec::new();
    let mut aggregates = Vec::new();
    let mut probes = Vec::new();
    for n in &names {
        let mut is_agg = false;
        for spelling in &[n.clone(), n.to_uppercase()] {
            let outcomes: Vec<String> = ARG_LISTS.iter().map(|a| probe(spelling, a)).collect();
            if outcomes.iter().any(|o| o.starts_with("agg:")) { is_agg = true; }
            if spelling == n {
                if let Some(f) = outcomes[1].strip_prefix("fn:") {
                    functions.push(format!("  ({}, \"{}\")   /- {} -/", lean_chars(n), f, n));
                }
            }
            probes.push(format!("  ({}, [{}])   /- {} -/", lean_chars(spelling),
                                outcomes.iter().map(|o| format!("\"{}\"", o)).collect::<Vec<_>>().join(", "), spelling));
        }
        if is_agg { aggregates.push(format!("  {}   /- {} -/", lean_chars(n), n)); }
    }
    let unknown: Vec<String> = UNKNOWN_CANDIDATES.iter()
        .map(|n| format!("  ({}, \"{}\")   /- {} -/", lean_chars(n), probe(n, "x"), n)).collect();
    let mut types = Vec::new();
    for base in TYPE_CANDIDATES {
        for n in 0..3usize {
            let text = format!("{}{}", base, "[]".repeat(n));
            let t = ValueType::from_str(&text);
            types.push(format!("  ({}, {}, {})   /- {} -/", lean_chars(base), n,
                               match &t { Some(t) => format!("some {}", vtype_lean(t)), None => "none".to_owned() }, text));
        }
    }
    let modes: Vec<String> = MODE_CANDIDATES.iter().map(|w| format!("  ({}, \"{}\")   /- {} -/", lean_chars(w), mode_probe(w), w)).collect();
    let mods: Vec<String> = MODIFIER_CANDIDATES.iter().map(|w| format!("  ({}, \"{}\")   /- {} -/", lean_chars(w), modifier_probe(w), w)).collect();
    format!("import SqlgrepModel.Model.Value\nimport SqlgrepModel.Generated.Keywords\n\
/- GENERATED by `harness tables` from the running code (`parser_tree_converter::completion_words()`, one `parsing::parse` per\n\
   name, spelling and argument list, `ValueType::from_str` over candidate spellings, one `parsing::parse` of a table\n\
   definition per candidate mode / modifier word). Do not edit. -/\n\
namespace Sqlgrep.Generated\n\n\
/-- the function and aggregate names of the lowering (lower-cased, sorted) -/\n\
def lowerNames : List (List Char) := [\n{}\n]\n\n\
/-- names that lower to a function call, with the function -/\n\
def lowerFunctions : List (List Char × String) := [\n{}\n]\n\n\
/-- names that lower to an aggregate -/\n\
def lowerAggregates : List (List Char) := [\n{}\n]\n\n\
/-- per name (lower case, then upper case): the answers for the argument lists `()`, `(x)`, `(x, 0.5)`, `(x, 'a')`, `(x, y)`,\n\
`(x, y, z)`, `(*)` — `fn:<function>`, `agg:<aggregate>`, or the `ConvertParserTreeErrorType` -/\n\
def lowerProbes : List (List Char × List String) := [\n{}\n]\n\n\
/-- near misses: the answer for `(x)` -/\n\
def lowerUnknown : List (List Char × String) := [\n{}\n]\n\n\
/-- `ValueType::from_str(base ++ \"[]\"^n)` -/\n\
def typeWords : List (List Char × Nat × Option VType) := [\n{}\n]\n\n\
/-- `line = <word> 'a'` -/\n\
def regexModeWords : List (List Char × String) := [\n{}\n]\n\n\
/-- `x TEXT <word>` -/\n\
def modifierWords : List (List Char × String) := [\n{}\n]\n\n\
end Sqlgrep.Generated\n",
        names.iter().map(|n| format!("  {}   /- {} -/", lean_chars(n), n)).collect::<Vec<_>>().join(",\n"),
        functions.join(",\n"), aggregates.join(",\n"), probes.join(",\n"), unknown.join(",\n"), types.join(",\n"),
        modes.join(",\n"), mods.join(",\n"))
}

pub fn write(out: &str) {
    std::fs::write(format!("{}/LowerTables.lean", out), file()).expect("write LowerTables.lean");
}
