import SqlgrepModel.Model.Civil
import SqlgrepModel.Lemmas.CivilAgree
/-!
The day number of the model's calendar (`Civil.daysFromCE`, chrono's `num_days_from_ce`) *counts days*:
0001-01-01 is day 1 and the day after any date of the proleptic Gregorian calendar (month lengths
`monthLen`, leap rule `isLeap`) has the next number.  Together with `isLeap_iff` this is a specification of
`daysFromCE` that does not mention the closed formulas `daysBeforeYear` / `daysBeforeMonth` (audit item L17:
the cumulative table `daysBeforeMonth` was not tied to `monthLen`).
-/
namespace Sqlgrep
namespace Civil

/-- the calendar day after `(y, m, d)` -/
def nextDay (y : Int) (m d : Nat) : Int × Nat × Nat :=
  if d < monthLen y m then (y, m, d + 1)
  else if m < 12 then (y, m + 1, 1)
  else (y + 1, 1, 1)

theorem daysBeforeMonth_one (y : Int) : daysBeforeMonth y 1 = 0 := rfl

/-- the cumulative table is the running sum of the month lengths -/
theorem daysBeforeMonth_succ (y : Int) (m : Nat) (hm : 1 ≤ m ∧ m < 12) :
    daysBeforeMonth y (m + 1) = daysBeforeMonth y m + monthLen y m := by
  obtain ⟨h1, h2⟩ := hm
  have : m = 1 ∨ m = 2 ∨ m = 3 ∨ m = 4 ∨ m = 5 ∨ m = 6 ∨ m = 7 ∨ m = 8 ∨ m = 9 ∨ m = 10 ∨ m = 11 := by omega
  rcases this with h | h | h | h | h | h | h | h | h | h | h <;> subst h <;>
    simp only [daysBeforeMonth, monthLen] <;> cases isLeap y <;> simp

/-- a year is as long as its twelve months -/
theorem yearLen_eq_months (y : Int) : yearLen y = daysBeforeMonth y 12 + monthLen y 12 := by
  simp only [yearLen, daysBeforeMonth, monthLen]; cases isLeap y <;> simp

theorem daysBeforeYear_one : daysBeforeYear 1 = 0 := by decide

/-- 0001-01-01 is day 1 -/
theorem daysFromCE_origin : daysFromCE 1 1 1 = 1 := by decide

/-- the day after any calendar date has the next day number (no year-range restriction) -/
theorem daysFromCE_nextDay (y : Int) (m d : Nat) (hm : 1 ≤ m ∧ m ≤ 12) (hd : 1 ≤ d ∧ d ≤ monthLen y m) :
    daysFromCE (nextDay y m d).1 (nextDay y m d).2.1 (nextDay y m d).2.2 = daysFromCE y m d + 1 := by
  unfold nextDay
  by_cases h1 : d < monthLen y m
  · simp only [h1, if_true, daysFromCE]; omega
  · have hd' : d = monthLen y m := by omega
    by_cases h2 : m < 12
    · simp only [h1, h2, if_true, if_false, daysFromCE]
      rw [daysBeforeMonth_succ y m ⟨hm.1, h2⟩, hd']; omega
    · have hm' : m = 12 := by omega
      simp only [h1, h2, if_false, daysFromCE]
      have := CivilE.dby_succ y
      rw [this, yearLen_eq_months, hd', hm', daysBeforeMonth_one]; omega

/-- the day after a valid date is a valid date (up to chrono's last year) -/
theorem nextDay_valid (y : Int) (m d : Nat) (h : validDate y m d = true) (hy : y < maxYear) :
    validDate (nextDay y m d).1 (nextDay y m d).2.1 (nextDay y m d).2.2 = true := by
  simp only [validDate, Bool.and_eq_true, decide_eq_true_eq] at h
  obtain ⟨⟨⟨⟨⟨a, b⟩, c⟩, e⟩, f⟩, g⟩ := h
  unfold nextDay
  by_cases h1 : d < monthLen y m
  · simp only [h1, if_true, validDate, Bool.and_eq_true, decide_eq_true_eq]; omega
  · by_cases h2 : m < 12
    · simp only [h1, h2, if_true, if_false, validDate, Bool.and_eq_true, decide_eq_true_eq]
      have : 1 ≤ monthLen y (m + 1) := by
        have : m = 1 ∨ m = 2 ∨ m = 3 ∨ m = 4 ∨ m = 5 ∨ m = 6 ∨ m = 7 ∨ m = 8 ∨ m = 9 ∨ m = 10 ∨ m = 11 := by omega
        rcases this with h | h | h | h | h | h | h | h | h | h | h <;> subst h <;> simp only [monthLen] <;>
          first | omega | (cases isLeap y <;> simp)
      omega
    · rw [if_neg h1, if_neg h2]
      show validDate (y + 1) 1 1 = true
      simp only [validDate, Bool.and_eq_true, decide_eq_true_eq, monthLen]
      have hmin : minYear = -262143 := rfl
      have hmax : maxYear = 262142 := rfl
      omega

example : nextDay 2024 2 28 = (2024, 2, 29) ∧ nextDay 2023 2 28 = (2023, 3, 1) ∧ nextDay 1999 12 31 = (2000, 1, 1) := by decide

end Civil
end Sqlgrep
