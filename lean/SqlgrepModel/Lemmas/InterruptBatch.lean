import SqlgrepModel.Model.ExecI
/-
Helper lemmas for C19 (batch loop): a run whose `running` flag is found cleared before input line `k` is the
uninterrupted run over the first `k` lines; relation between the interrupted and the uninterrupted run over
the same files.
-/
namespace Sqlgrep

/-- the first `k` lines of the input files (file boundaries kept) -/
def takeLines : Nat → List (List FileLine) → List (List FileLine)
  | _, [] => []
  | k, f :: rest => f.take k :: takeLines (k - f.length) rest

@[simp] theorem failWith_printed {α : Type} (ro : RunOut) (o : Outcome α) : (failWith ro o).printed = ro.printed := by
  cases o <;> rfl
@[simp] theorem failWith_totalLines {α : Type} (ro : RunOut) (o : Outcome α) : (failWith ro o).totalLines = ro.totalLines := by
  cases o <;> rfl

/-! ### one file -/

theorem runFile_stop_eq_take (O : Oracles) (qy : Query) (idx : JoinIndex) (w : Bool) (k : Nat) (f : List FileLine)
    (ls : LoopState) (h : ls.consumed ≤ k) :
    runFile O qy idx w (some k) f ls = runFile O qy idx w none (f.take (k - ls.consumed)) ls := by
  induction f generalizing ls with
  | nil => simp [runFile]
  | cons fl rest ih =>
    by_cases hk : k = ls.consumed
    · simp [runFile, hk]
    · have hpos : k - ls.consumed = (k - (ls.consumed + 1)) + 1 := by omega
      rw [hpos, List.take_succ_cons]
      simp only [runFile]
      have h1 : (some k == some ls.consumed) = false := by simpa using hk
      have h2 : ((none : Option Nat) == some ls.consumed) = false := by simp
      simp only [h1, h2, Bool.false_eq_true, if_false]
      by_cases hr : fl.readable = true
      · simp only [hr, Bool.not_true, Bool.false_eq_true, if_false]
        cases hx : executeLine O qy idx w ls.es fl.line with
        | ok p =>
          obtain ⟨es1, lo1⟩ := p
          simp only
          by_cases hl : lo1.reachedLimit = true
          · simp only [hl, if_true]
          · simp only [hl, Bool.false_eq_true, if_false]
            exact ih _ (by simp only; omega)
        | error e => rfl
        | panic s => rfl
        | oracleMissing s => rfl
      · simp only [hr, Bool.not_false, if_true]

theorem runFile_consumed_le (O : Oracles) (qy : Query) (idx : JoinIndex) (w : Bool) (sa : Option Nat) (f : List FileLine)
    (ls : LoopState) : ls.consumed ≤ (runFile O qy idx w sa f ls).consumed ∧
      (runFile O qy idx w sa f ls).consumed ≤ ls.consumed + f.length := by
  induction f generalizing ls with
  | nil => simp [runFile]
  | cons fl rest ih =>
    simp only [runFile]
    by_cases hs : (sa == some ls.consumed) = true
    · simp [hs]
    · simp only [hs, Bool.false_eq_true, if_false]
      by_cases hr : fl.readable = true
      · simp only [hr, Bool.not_true, Bool.false_eq_true, if_false]
        cases hx : executeLine O qy idx w ls.es fl.line with
        | ok p =>
          obtain ⟨es1, lo1⟩ := p
          simp only
          by_cases hl : lo1.reachedLimit = true
          · simp [hl]
          · simp only [hl, Bool.false_eq_true, if_false]
            refine ⟨Nat.le_trans ?_ (ih _).1, Nat.le_trans (ih _).2 ?_⟩
            · simp
            · simp only [List.length_cons]; omega
        | error e => simp
        | panic s => simp
        | oracleMissing s => simp
      · simp [hr]

theorem runFile_stop_consumed_le (O : Oracles) (qy : Query) (idx : JoinIndex) (w : Bool) (k : Nat) (f : List FileLine)
    (ls : LoopState) (h : ls.consumed ≤ k) : (runFile O qy idx w (some k) f ls).consumed ≤ k := by
  rw [runFile_stop_eq_take O qy idx w k f ls h]
  have := (runFile_consumed_le O qy idx w none (f.take (k - ls.consumed)) ls).2
  rw [List.length_take] at this
  omega

/-- an uninterrupted pass over a file that did not stop looked at every line of it -/
theorem runFile_none_consumed (O : Oracles) (qy : Query) (idx : JoinIndex) (w : Bool) (f : List FileLine)
    (ls : LoopState) (h : (runFile O qy idx w none f ls).stop = false) :
    (runFile O qy idx w none f ls).consumed = ls.consumed + f.length := by
  induction f generalizing ls with
  | nil => simp [runFile]
  | cons fl rest ih =>
    simp only [runFile] at h ⊢
    have h2 : ((none : Option Nat) == some ls.consumed) = false := by simp
    simp only [h2, Bool.false_eq_true, if_false] at h ⊢
    by_cases hr : fl.readable = true
    · simp only [hr, Bool.not_true, Bool.false_eq_true, if_false] at h ⊢
      cases hx : executeLine O qy idx w ls.es fl.line with
      | ok p =>
        obtain ⟨es1, lo1⟩ := p
        simp only [hx] at h ⊢
        by_cases hl : lo1.reachedLimit = true
        · simp [hl] at h
        · simp only [hl, Bool.false_eq_true, if_false] at h ⊢
          rw [ih _ h]
          simp only [List.length_cons]; omega
      | error e => simp [hx] at h
      | panic s => simp [hx] at h
      | oracleMissing s => simp [hx] at h
    · simp [hr] at h

/-! ### all files -/

theorem runFiles_stop_eq_take (O : Oracles) (qy : Query) (idx : JoinIndex) (w : Bool) (k : Nat)
    (files : List (List FileLine)) (ls : LoopState) (h : ls.consumed ≤ k) :
    runFiles O qy idx w (some k) files ls = runFiles O qy idx w none (takeLines (k - ls.consumed) files) ls := by
  induction files generalizing ls with
  | nil => simp [runFiles, takeLines]
  | cons f rest ih =>
    simp only [runFiles, takeLines]
    by_cases hs : (ls.stop || reachedLimit qy ls.es) = true
    · simp only [hs, if_true]
    · simp only [hs, Bool.false_eq_true, if_false]
      rw [runFile_stop_eq_take O qy idx w k f ls h]
      by_cases hst : (runFile O qy idx w none (f.take (k - ls.consumed)) ls).stop = true
      · simp only [hst, if_true]
      · simp only [hst, Bool.false_eq_true, if_false]
        have hc := runFile_none_consumed O qy idx w (f.take (k - ls.consumed)) ls (by simpa using hst)
        have hle : (runFile O qy idx w none (f.take (k - ls.consumed)) ls).consumed ≤ k := by
          rw [hc, List.length_take]; omega
        rw [ih _ hle, hc, List.length_take]
        congr 2
        omega

end Sqlgrep
