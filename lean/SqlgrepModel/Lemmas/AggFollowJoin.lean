import SqlgrepModel.Lemmas.AggJoin
import SqlgrepModel.Lemmas.AggFindings
/-
Follow mode (update + result per line) for an aggregate statement over a JOIN: the rows of a line's join partners go
through update + result one by one and the results are concatenated (finding D61); each of them is the table a batch
run would show at that point.
-/
set_option linter.unusedSimpArgs false
namespace Sqlgrep
open Value Spec.Agg

/-! ### follow mode over a JOIN: one table per join partner -/

/-- batch side: after each admitted row of `envs` (update only), the table a result would show then -/
def tablesAfter (O : Oracles) (q : AggStmt) : List Env → AggState → Outcome (AggState × List RowOut)
  | [], sb => .ok (sb, [])
  | env :: rest, sb =>
    (aggUpdateRow O q sb env).bind (fun p =>
      if p.2 then
        (aggResult O q p.1).bind (fun r => (tablesAfter O q rest p.1).bind (fun x => .ok (x.1, r.2 :: x.2)))
      else tablesAfter O q rest p.1)

def extendAll (acc : Option RowOut) (ts : List RowOut) : Option RowOut := ts.foldl (fun a t => extendOut a (some t)) acc

/-- `ExecutionEngine::execute(line, default config)` for an aggregate statement over a JOIN: the rows of the line's join
partners go one by one through update + result, the results are concatenated -/
theorem executeLine_follow_join (O : Oracles) (qy : Query) (q : AggStmt) (idx : JoinIndex) (es : EngineState) (l : Line)
    (hq : qy.stmt = .aggregate q) (hadm : anyResult l.row = true) :
    executeLine O qy idx true es l =
      (lineEnvs qy idx false l).bind (fun envs =>
        (executeLine.go O q envs es.agg none).bind (fun p => .ok (updateLimit false q.limit { es with agg := p.1 } p.2))) := by
  simp only [executeLine, hq, hadm, Bool.not_true, Bool.false_eq_true, if_false, bind, if_true, pure]

/-- **follow mode, one line with several rows** (a JOIN's partners): the refresh is the concatenation of the tables a
batch run would show after each admitted partner row — the LAST of them is the batch table over everything fed so far -/
theorem go_tables {O : Oracles} {q : AggStmt} (envs : List (Env × List String)) {sf sb sf' sb' : AggState}
    {S K : List (List Value)} (h : Sim2 q sf sb S) (hS : ∀ k ∈ S, k ∈ K)
    (hK : ∀ k ∈ groupKeysOf O q (envs.map (·.1)), k ∈ K) (hex : KeysExact K)
    {acc r : Option RowOut} {ts : List RowOut}
    (hf : executeLine.go O q envs sf acc = .ok (sf', r)) (hb : tablesAfter O q (envs.map (·.1)) sb = .ok (sb', ts)) :
    r = extendAll acc ts ∧ ∃ S', Sim2 q sf' sb' S' ∧ ∀ k ∈ S', k ∈ K := by
  induction envs generalizing sf sb S acc ts with
  | nil =>
    simp only [executeLine.go, Outcome.ok.injEq, Prod.mk.injEq] at hf
    simp only [List.map_nil, tablesAfter, Outcome.ok.injEq, Prod.mk.injEq] at hb
    obtain ⟨h1, h2⟩ := hf
    obtain ⟨h3, h4⟩ := hb
    subst h1; subst h2; subst h3; subst h4
    exact ⟨rfl, S, h, hS⟩
  | cons e rest ih =>
    obtain ⟨env, keys⟩ := e
    simp only [executeLine.go, bind] at hf
    simp only [List.map_cons, tablesAfter] at hb
    obtain ⟨⟨sf1, u⟩, hfu, hf2⟩ := obind_ok hf
    obtain ⟨⟨sb1, u'⟩, hbu, hb2⟩ := obind_ok hb
    obtain ⟨hu, S1, hsim1, hsub, hnew⟩ := sim2_step h hfu hbu
    subst hu
    have hS1 : ∀ k ∈ S1, k ∈ K := by
      intro k hk
      rcases hnew k hk with h1 | h1
      · exact hS k (h1)
      · exact hK k (by simp [groupKeysOf, h1])
    have hKrest : ∀ k ∈ groupKeysOf O q (rest.map (·.1)), k ∈ K := by
      intro k hk
      apply hK
      simp only [groupKeysOf, List.map_cons, List.filterMap_cons] at hk ⊢
      cases keyOf O q env with
      | none => exact hk
      | some k0 => exact List.mem_cons_of_mem _ hk
    cases u with
    | false =>
      simp only [Bool.false_eq_true, if_false] at hf2 hb2
      exact ih hsim1 hS1 hKrest hf2 hb2
    | true =>
      simp only [if_true] at hf2 hb2
      obtain ⟨⟨sf2, outf⟩, hrf, hf3⟩ := obind_ok hf2
      obtain ⟨⟨sb2, outb⟩, hrb, hb3⟩ := obind_ok hb2
      obtain ⟨⟨sb3, ts'⟩, hb4, hb5⟩ := obind_ok hb3
      simp only [Outcome.ok.injEq, Prod.mk.injEq] at hb5
      obtain ⟨hb6, hb7⟩ := hb5
      subst hb6; subst hb7
      -- the two results show the same table
      have hexS : KeysExact S1 := fun a ha b hb' hab => hex a (hS1 a ha) b (hS1 b hb') hab
      have hsame := aggResult_sim2 (O := O) hsim1 hexS
      rw [hrf, hrb] at hsame
      simp only [Outcome.bind, Outcome.ok.injEq] at hsame
      subst hsame
      have hsim2 : Sim2 q sf2 sb1 S1 := by rw [aggResult_state hrf]; exact sim2_publish hsim1
      obtain ⟨hr, S', hs', hk'⟩ := ih hsim2 hS1 hKrest hf3 hb4
      exact ⟨by rw [hr]; rfl, S', hs', hk'⟩

end Sqlgrep
