import SqlgrepModel.Lemmas.AggSummaryTable
import SqlgrepModel.Lemmas.AggDeviationPerm
/-
Sufficient conditions for the hypotheses of C15 (`ValuesExact`, `SumsOrderFree`, `PermSafe`) that can be checked on a
concrete input: every argument value is NULL or an INT of magnitude ≤ 2^20 and there are at most 2^20 rows. Then no
partial sum (of values or of squares) leaves the 64-bit range in any order, values picked by order are exact, and the
REAL clauses are about the empty list of addends.
-/
set_option linter.unusedSimpArgs false
namespace Sqlgrep
open Value Spec.Agg

/-- the laws hold trivially when there is nothing to add (no instance of `assoc` with non-empty `b`, `c` exists) -/
theorem realAddLaws_nil : RealAddLaws [] := by
  refine ⟨by simp, by simp, ?_⟩
  intro a b c hb _ hs
  obtain ⟨rest, hr⟩ := hs
  have := List.Perm.eq_nil hr
  simp only [List.append_eq_nil_iff] at this
  exact absurd this.1.1.2 hb

/-- if every addend is within `±m` and `acc ± length·m` stays within `±B`, every partial sum is accepted -/
theorem partialSumsOk_of_bound (ok : Int → Bool) (B : Int) (hok : ∀ n, -B ≤ n → n ≤ B → ok n = true) (m : Int) (hm : 0 ≤ m) :
    ∀ (l : List Int) (acc : Int), (∀ x ∈ l, -m ≤ x ∧ x ≤ m) → -B ≤ acc - l.length * m → acc + l.length * m ≤ B →
      partialSumsOk ok acc l = true := by
  intro l
  induction l with
  | nil => intros; rfl
  | cons x xs ih =>
    intro acc hx h1 h2
    have hxm := hx x (by simp)
    have hlen : (((x :: xs).length : Nat) : Int) * m = (xs.length : Int) * m + m := by
      simp only [List.length_cons, Int.natCast_add, Int.natCast_one, Int.add_mul, Int.one_mul]
    have hnn : 0 ≤ (xs.length : Int) * m := Int.mul_nonneg (Int.natCast_nonneg _) hm
    rw [hlen] at h1 h2
    simp only [partialSumsOk, Bool.and_eq_true]
    exact ⟨hok _ (by omega) (by omega), ih (acc + x) (fun y hy => hx y (by simp [hy])) (by omega) (by omega)⟩

theorem inI64_of_bound (n : Int) (h1 : -9223372036854775807 ≤ n) (h2 : n ≤ 9223372036854775807) : inI64 n = true := by
  simp only [inI64, i64Min, i64Max, Bool.and_eq_true, decide_eq_true_eq]
  constructor <;> (apply decide_eq_true; omega)

/-- an INT within ±2^20 -/
def smallInt (i : Int) : Prop := -1048576 ≤ i ∧ i ≤ 1048576

theorem sq_small {i : Int} (h : smallInt i) : -1099511627776 ≤ i * i ∧ i * i ≤ 1099511627776 := by
  have h1 : i * i = ((i.natAbs * i.natAbs : Nat) : Int) := by rw [Int.natCast_mul]; exact Int.natAbs_mul_self.symm
  have h2 : i.natAbs ≤ 1048576 := by unfold smallInt at h; omega
  have h3 : i.natAbs * i.natAbs ≤ 1048576 * 1048576 := Nat.mul_le_mul h2 h2
  rw [h1]
  omega

theorem ints_of_all_ints {xs : List Value} (hx : ∀ v ∈ xs, ∃ i, v = .int i) : ∃ is, ints xs = some is ∧ xs = is.map Value.int := by
  induction xs with
  | nil => exact ⟨[], rfl, rfl⟩
  | cons v rest ih =>
    obtain ⟨i, hi⟩ := hx v (by simp)
    obtain ⟨is, h1, h2⟩ := ih (fun w hw => hx w (by simp [hw]))
    subst hi
    refine ⟨i :: is, ?_, by rw [h2]; simp⟩
    simp only [ints, List.map_cons, asInt, collect] at h1 ⊢
    rw [h1]; rfl

/-- **the sum hypotheses hold for small INTs**: at most 2^20 values, each an INT within ±2^20 -/
theorem sumsOrderFree_of_small_ints {xs : List Value} (hx : ∀ v ∈ xs, ∃ i, v = .int i ∧ smallInt i)
    (hlen : xs.length ≤ 1048576) : SumsOrderFree xs := by
  obtain ⟨is0, hi0, hxs⟩ := ints_of_all_ints (fun v hv => let ⟨i, h, _⟩ := hx v hv; ⟨i, h⟩)
  have hsmall : ∀ i ∈ is0, smallInt i := by
    intro i hi
    obtain ⟨j, hj, hs⟩ := hx (.int i) (by rw [hxs]; exact List.mem_map.mpr ⟨i, hi, rfl⟩)
    cases hj; exact hs
  have hl0 : is0.length ≤ 1048576 := by rw [hxs] at hlen; simpa using hlen
  have hnil : ∀ {α : Type} (f : Value → Option α) (rs : List α), (∀ i, f (.int i) = none) →
      collect (xs.map f) = some rs → rs = [] := by
    intro α f rs hf h
    rw [hxs] at h
    cases is0 with
    | nil => simp [collect] at h; exact h
    | cons i rest => simp [collect, hf] at h
  refine ⟨?_, ?_, ?_, ?_, ?_⟩
  · intro is hi l hp
    rw [hi0] at hi; cases hi
    apply partialSumsOk_of_bound inI64 9223372036854775807 inI64_of_bound 1048576 (by omega) l 0
    · intro x hx'; exact hsmall x (hp.mem_iff.mp hx')
    · have := hp.length_eq; omega
    · have := hp.length_eq; omega
  · intro is hi l hp
    rw [hi0] at hi; cases hi
    apply partialSumsOk_of_bound inI64 9223372036854775807 inI64_of_bound 1099511627776 (by omega) l 0
    · intro x hx'
      obtain ⟨i, hi, rfl⟩ := List.mem_map.mp (hp.mem_iff.mp hx')
      exact sq_small (hsmall i hi)
    · have := hp.length_eq; simp only [List.length_map] at this; omega
    · have := hp.length_eq; simp only [List.length_map] at this; omega
  · intro ns hn l hp
    have := hnil asInterval ns (fun _ => rfl) hn
    subst this
    rw [List.Perm.eq_nil hp]; rfl
  · intro rs hr
    have := hnil asReal rs (fun _ => rfl) hr
    subst this
    exact realAddLaws_nil
  · intro rs hr
    have := hnil asReal rs (fun _ => rfl) hr
    subst this
    exact realAddLaws_nil

/-- INT values are exact: equal in the value order ⇒ identical -/
theorem valuesExact_of_ints {xs : List Value} (hx : ∀ v ∈ xs, ∃ i, v = .int i) : ValuesExact xs := by
  intro a ha b hb h
  obtain ⟨i, rfl⟩ := hx a ha
  obtain ⟨j, rfl⟩ := hx b hb
  exact cmp_eq_of_simple rfl rfl h

theorem collect_mem {α : Type} {l : List (Option α)} {r : List α} (h : collect l = some r) : ∀ v ∈ r, some v ∈ l := by
  induction l generalizing r with
  | nil => simp [collect] at h; subst h; simp
  | cons o rest ih =>
    cases o with
    | none => simp [collect] at h
    | some a =>
      simp only [collect, Option.map_eq_some_iff] at h
      obtain ⟨r', hr', rfl⟩ := h
      intro v hv
      simp only [List.mem_cons] at hv
      rcases hv with rfl | hv
      · simp
      · exact List.mem_cons_of_mem _ (ih hr' v hv)

/-- NULL, or an INT within ±2^20 (checkable) -/
def smallIntOrNull : Value → Bool
  | .null => true
  | .int i => decide (-1048576 ≤ i) && decide (i ≤ 1048576)
  | _ => false

/-- **a checkable sufficient condition for `PermSafe`**: only order-insensitive aggregates, at most 2^20 admitted rows,
and every aggregate's argument on every admitted row is NULL or an INT within ±2^20 -/
theorem permSafe_of_small_ints {O : Oracles} {q : AggStmt} {keyed : List (List Value × Env)}
    (hk : ∀ kind ∈ slotKinds q, orderInsensitive kind = true)
    (hv : ∀ kind ∈ slotKinds q, ∀ r ∈ keyed, (okOf (argument O q r.2 kind)).all smallIntOrNull = true)
    (hlen : keyed.length ≤ 1048576) : PermSafe O q keyed := by
  refine ⟨hk, ?_⟩
  intro k kind vs hkind hargs
  have hmem : ∀ v ∈ nonNull vs, ∃ i, v = .int i ∧ smallInt i := by
    intro v hv'
    simp only [nonNull, List.mem_filter, Bool.not_eq_true'] at hv'
    have := collect_mem hargs v hv'.1
    simp only [List.mem_map] at this
    obtain ⟨env, henv, he⟩ := this
    simp only [rowsOfKey, List.mem_map, List.mem_filter] at henv
    obtain ⟨r, ⟨hr, _⟩, rfl⟩ := henv
    have hs := hv kind hkind r hr
    rw [he] at hs
    simp only [Option.all_some] at hs
    cases v with
    | null => simp [Value.isNull] at hv'
    | int i =>
      simp only [smallIntOrNull, Bool.and_eq_true, decide_eq_true_eq] at hs
      exact ⟨i, rfl, hs⟩
    | real _ => simp [smallIntOrNull] at hs
    | bool _ => simp [smallIntOrNull] at hs
    | text _ => simp [smallIntOrNull] at hs
    | array _ _ => simp [smallIntOrNull] at hs
    | timestamp _ _ _ => simp [smallIntOrNull] at hs
    | interval _ => simp [smallIntOrNull] at hs
  have hl : (nonNull vs).length ≤ 1048576 := by
    have h1 : (nonNull vs).length ≤ vs.length := List.length_filter_le _ _
    have h2 := collect_length hargs
    have h3 : (rowsOfKey k keyed).length ≤ keyed.length := by
      simp only [rowsOfKey, List.length_map]; exact List.length_filter_le _ _
    simp only [List.length_map] at h2
    omega
  exact ⟨fun _ => valuesExact_of_ints (fun v hv' => let ⟨i, h, _⟩ := hmem v hv'; ⟨i, h⟩),
         fun _ => sumsOrderFree_of_small_ints hmem hl⟩

/-! ### the same for the input split (`SplitSafe`) -/

theorem reals_of_ints_nil {xs : List Value} (hx : ∀ v ∈ xs, ∃ i, v = .int i) {rs : List Nat} (h : reals xs = some rs) : rs = [] := by
  cases xs with
  | nil => simp [reals, collect] at h; exact h
  | cons v rest =>
    obtain ⟨i, rfl⟩ := hx v (by simp)
    simp [reals, asReal, collect] at h

theorem realSplitExact_of_ints {x1 x2 : List Value} (h1 : ∀ v ∈ x1, ∃ i, v = .int i) (h2 : ∀ v ∈ x2, ∃ i, v = .int i) :
    RealSplitExact x1 x2 := by
  intro rs1 rs2 hr1 hr2
  rw [reals_of_ints_nil h1 hr1, reals_of_ints_nil h2 hr2]
  exact realAddLaws_nil

theorem squaresOf_ints {xs s : List Value} (hx : ∀ v ∈ xs, ∃ i, v = .int i) (h : squaresOf xs = some s) : ∀ v ∈ s, ∃ i, v = .int i := by
  obtain ⟨is, hi, _⟩ := ints_of_all_ints hx
  simp only [squaresOf, hi] at h
  split at h
  · simp only [Option.some.injEq] at h
    subst h
    intro v hv
    simp only [List.mem_map] at hv
    obtain ⟨i, _, rfl⟩ := hv
    exact ⟨_, rfl⟩
  · simp at h

/-- the split hypotheses hold when all non-NULL argument values of both parts are INTs: the REAL clauses are then about
the empty list of addends -/
theorem splitExact_of_ints {x1 x2 : List Value} (h1 : ∀ v ∈ x1, ∃ i, v = .int i) (h2 : ∀ v ∈ x2, ∃ i, v = .int i) :
    SplitExact x1 x2 :=
  ⟨realSplitExact_of_ints h1 h2, fun _ _ hs1 hs2 => realSplitExact_of_ints (squaresOf_ints h1 hs1) (squaresOf_ints h2 hs2)⟩

/-! ### line order, at the level of the executed batch run -/

theorem envsOf_perm (t : TableInfo) {l1 l2 : List FileLine} (h : l1.Perm l2) : (envsOf t l1).Perm (envsOf t l2) := by
  unfold envsOf
  exact (h.filter _).map _

/-- the deviation class (D10 / D15) of a permuted input is that of the input, whenever the specification's table exists
for the input and `PermSafe` holds (only its first component is used: every aggregate order-insensitive) -/
theorem deviationClass_perm_of_safe {O : Oracles} {q : AggStmt} {e1 e2 : List Env} (h : e1.Perm e2)
    (hsafe : ∀ keyed, keyedRows O q e1 = some keyed → PermSafe O q keyed) {t : List (List Value)} (ht : table O q e1 = some t) :
    deviationClass O q e2 = deviationClass O q e1 := by
  obtain ⟨rows, hr⟩ := keyedRows_of_table ht
  exact (deviationClass_perm (hsafe rows hr).kinds h).symm

/-- the specification's answer for a batch run (table, line count AND deviation class) depends on the multiset of all
input lines only (under `PermSafe`) -/
theorem specBatch_perm {O : Oracles} {qy : Query} {q : AggStmt} (hj : qy.join = none) (joined : List FileLine)
    {f1 f2 : List (List FileLine)} (hp : f1.flatten.Perm f2.flatten)
    (hsafe : ∀ keyed, keyedRows O q (envsOf qy.table f1.flatten) = some keyed → PermSafe O q keyed)
    {a : RunOut × String} (h1 : Spec.Agg.batch O qy q joined f1 = some a) :
    Spec.Agg.batch O qy q joined f2 = some a := by
  unfold Spec.Agg.batch at h1 ⊢
  simp only [hj] at h1 ⊢
  have hany : f2.flatten.any (fun fl => !fl.readable) = f1.flatten.any (fun fl => !fl.readable) := hp.symm.any_eq
  rw [hany]
  split at h1
  · simp at h1
  · rename_i hr
    simp only [hr, if_false, Bool.false_eq_true]
    unfold Spec.Agg.batchOver at h1 ⊢
    rw [← table_perm (envsOf_perm qy.table hp) hsafe, ← hp.length_eq]
    cases ht : table O q (envsOf qy.table f1.flatten) with
    | none => simp [ht] at h1
    | some t =>
      simp only [ht] at h1 ⊢
      rw [deviationClass_perm_of_safe (envsOf_perm qy.table hp) hsafe ht]
      exact h1

/-- **the executed batch run ignores line order**: for an aggregate statement without join, two files whose lines are
permutations of each other, `runBatch` prints the same and counts the same — whenever the specification answers for the
first with an empty deviation class and `PermSafe` holds for its admitted rows. (That the second file is outside D10 / D15
as well is not a hypothesis: the class is a function of the multiset of the lines, `deviationClass_perm`.) -/
theorem runBatch_perm_invariant {O : Oracles} {qy : Query} {q : AggStmt} (hq : qy.stmt = .aggregate q) (hwf : StmtWF q)
    (hj : qy.join = none) (joined : List FileLine) {l1 l2 : List FileLine} (hp : l1.Perm l2)
    (hsafe : ∀ keyed, keyedRows O q (envsOf qy.table l1) = some keyed → PermSafe O q keyed)
    {ro : RunOut} (h1 : Spec.Agg.batch O qy q joined [l1] = some (ro, "")) :
    runBatch O qy joined [l1] none = runBatch O qy joined [l2] none := by
  have hp' : [l1].flatten.Perm [l2].flatten := by simpa using hp
  have h2 : Spec.Agg.batch O qy q joined [l2] = some (ro, "") :=
    specBatch_perm hj joined hp' (by simpa using hsafe) h1
  rw [batch_refines_spec_nojoin hq hwf hj joined [l1] h1, batch_refines_spec_nojoin hq hwf hj joined [l2] h2]

end Sqlgrep
