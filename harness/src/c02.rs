// C02: JSON-path extraction yields exactly the addressed JSON value, typed (JSON columns alone and mixed
// with regex columns); shares generator, oracles and `spec_column` with C01 (extract.rs).
use crate::run::{Params, Run};

pub fn run(p: &Params) -> Run {
    crate::extract::run("C02", p, true)
}
