import SqlgrepModel.Props.C03
import SqlgrepModel.Props.C03Select
/-
C03 (expression level, second file) — the clauses of the sentence that `Props/C03.lean` left to examples, for ALL
operands, environments and oracle tables (audited together with `C03.lean` and `C03Select.lean` by `./check C03`):

* NOT is two-valued on BOOLEAN (and NULL stays NULL — which every condition treats as not holding —, anything else is
  an error, not a value);
* a comparison of two non-NULL operands of one comparable kind is decided by the order of the values
  (`compare_by_order`: the Boolean is `applyCmp op (compareValues lv rv)`; what that order IS on numbers, text and
  timestamps is `Props/C16.lean`);
* a comparison of operands of two different types (other than INT with REAL, and TIMESTAMP with text that `=` parses)
  is a type error (`cmp_type_mismatch_general` — `C03.cmp_type_mismatch_is_error` is the INT-vs-TEXT instance);
* an unknown column is an error (`unknown_column_is_error`, `unknown_scoped_column_is_error`);
* **an expression without a value makes the query report an error rather than emit a row**: evaluation is strict
  (`no_value_propagates`: an error in an operand is the error of the whole expression, for every constructor except
  the right operand of a short-circuiting AND/OR and the branches CASE does not take), a WHERE or a projection
  without a value on an admitted line is the error of `executeLine` (`where_error_is_line_error`,
  `projection_error_is_line_error`), and therefore of the run, with nothing printed for that line
  (`no_value_is_reported`);
* a WHERE that HAS a value but no truth value (another type than BOOLEAN, not NULL) is likewise the type error of the
  line and of the run, not "no row" (`where_type_mismatch_is_line_error`, `where_type_mismatch_is_reported`; finding
  D69), while FALSE and NULL give no row and no error (`where_null_is_no_row`). The same for the operands of AND / OR
  and for WHEN conditions: `C03.bool_op_type_mismatch_is_error`, `C03.case_condition_type_mismatch_is_error`.
-/
namespace Sqlgrep.Props.C03Expr
open Sqlgrep

variable (O : Oracles) (env : Env)

/-! ### NOT -/

/-- NOT is two-valued: on a BOOLEAN it is the other BOOLEAN -/
theorem not_two_valued (e : Expr) (b : Bool) (he : eval O env e = .ok (.bool b)) :
    eval O env (.not e) = .ok (.bool (!b)) := by
  simp [eval, he, bind, Outcome.bind, invert]

/-- NOT of NULL is NULL. NOT is the one Boolean operator that is not two-valued (AND / OR never give NULL,
`C03.bool_ops_two_valued`); wherever the result is used as a condition — WHERE, HAVING, an operand of AND / OR, a WHEN
clause — NULL does not hold (`condHolds`; `C03.and_meaning`, `C03.case_skip_false`, `where_null_is_no_row`), so
`WHERE NOT x` selects no row on which `x` is NULL, just as `WHERE x` does -/
theorem not_null (e : Expr) (he : eval O env e = .ok .null) : eval O env (.not e) = .ok .null := by
  simp [eval, he, bind, Outcome.bind, invert]

/-- NOT of anything that is neither BOOLEAN nor NULL has no value -/
theorem not_non_boolean_is_error (e : Expr) (v : Value) (he : eval O env e = .ok v)
    (hb : ∀ b, v ≠ .bool b) (hn : v ≠ .null) : eval O env (.not e) = .error .undefinedOperation := by
  cases v <;> simp_all [eval, bind, Outcome.bind, invert]

/-! ### comparisons -/

/-- a comparison of two non-NULL operands that `=` compares as they are (same type, or INT with REAL) is decided by
the value order alone -/
theorem compare_by_order (op : CmpOp) (l r : Expr) (lv rv : Value)
    (hl : eval O env l = .ok lv) (hr : eval O env r = .ok rv)
    (hp : Props.C03.PlainComparable O lv rv) (hln : lv.isNull = false) (hrn : rv.isNull = false) :
    eval O env (.compare op l r) = .ok (.bool (applyCmp op (compareValues lv rv))) := by
  unfold Props.C03.PlainComparable at hp
  simp [eval, hl, hr, bind, Outcome.bind, hp, hln, hrn, pure]

/-- the six operators read the order as their names say -/
theorem applyCmp_table (o : Ordering) :
    applyCmp .eq o = (o == .eq) ∧ applyCmp .ne o = (o != .eq) ∧ applyCmp .lt o = (o == .lt) ∧
    applyCmp .le o = (o != .gt) ∧ applyCmp .gt o = (o == .gt) ∧ applyCmp .ge o = (o != .lt) := by
  simp [applyCmp]

/-- `<` and `>=`, `>` and `<=`, `=` and `!=` are complementary on operands that compare -/
theorem applyCmp_complement (o : Ordering) :
    applyCmp .ge o = !applyCmp .lt o ∧ applyCmp .le o = !applyCmp .gt o ∧ applyCmp .ne o = !applyCmp .eq o := by
  cases o <;> simp [applyCmp]

/-- neither operand being a TIMESTAMP-with-text pair, two non-NULL operands of different types (other than INT with
REAL) have no comparison: a type error, never a Boolean -/
theorem cmp_type_mismatch_general (op : CmpOp) (l r : Expr) (lv rv : Value)
    (hl : eval O env l = .ok lv) (hr : eval O env r = .ok rv)
    (hln : lv.isNull = false) (hrn : rv.isNull = false)
    (hco : coerceTs O lv rv = .ok (lv, rv)) (hty : typesComparable lv rv = false) :
    eval O env (.compare op l r) = .error .typeError := by
  simp [eval, hl, hr, bind, Outcome.bind, prepCompare, hco, hln, hrn, hty]

/-- operands that are not a TIMESTAMP/TEXT pair are compared as they are -/
theorem coerceTs_plain (lv rv : Value)
    (h1 : ∀ d s n t, ¬ (lv = .timestamp d s n ∧ rv = .text t))
    (h2 : ∀ d s n t, ¬ (lv = .text t ∧ rv = .timestamp d s n)) : coerceTs O lv rv = .ok (lv, rv) := by
  unfold coerceTs
  split
  · rename_i d s n t; exact absurd ⟨rfl, rfl⟩ (h1 d s n t)
  · rename_i t d s n; exact absurd ⟨rfl, rfl⟩ (h2 d s n t)
  · rfl

/-! ### unknown columns -/

/-- a column the row does not have is an error -/
theorem unknown_column_is_error (name : String) (h : env.get .table name = none) :
    eval O env (.column name) = .error .columnNotFound := by
  simp [eval, h, Outcome.ofOption]

/-- the same for a column addressed in another scope (aggregate value / group key) -/
theorem unknown_scoped_column_is_error (s : Scope) (name : String) (h : env.get s name = none) :
    eval O env (.scoped s name) = .error .columnNotFound := by
  simp [eval, h, Outcome.ofOption]

/-- a column the row has is its value — nothing else is consulted -/
theorem known_column_value (name : String) (v : Value) (h : env.get .table name = some v) :
    eval O env (.column name) = .ok v := by
  simp [eval, h, Outcome.ofOption]

/-! ### strictness: an operand without a value leaves the expression without a value -/

/-- the error of the first operand is the error of the whole expression, whatever the constructor -/
theorem no_value_propagates_first (e r : Expr) (k : ErrKind) (he : eval O env e = .error k) :
    (∀ op, eval O env (.compare op e r) = .error k) ∧
    (∀ n, eval O env (.nullCmp n e r) = .error k) ∧
    (∀ op, eval O env (.arith op e r) = .error k) ∧
    (∀ a, eval O env (.boolOp a e r) = .error k) ∧
    eval O env (.neg e) = .error k ∧
    eval O env (.not e) = .error k ∧
    (∀ n ms, eval O env (.inList n e ms) = .error k) ∧
    eval O env (.index e r) = .error k ∧
    (∀ t, eval O env (.cast e t) = .error k) ∧
    (∀ f rest, eval O env (.call f (e :: rest)) = .error k) ∧
    (∀ res rest els, eval O env (.case ((e, res) :: rest) els) = .error k) := by
  refine ⟨?_, ?_, ?_, ?_, ?_, ?_, ?_, ?_, ?_, ?_, ?_⟩ <;> intros <;>
    simp [eval, evalList, evalCase, he, bind, Outcome.bind]

/-- … and so is the error of the second operand of a comparison, of arithmetic, of IS, of a subscript -/
theorem no_value_propagates_second (l e : Expr) (lv : Value) (k : ErrKind) (hl : eval O env l = .ok lv)
    (he : eval O env e = .error k) :
    (∀ op, eval O env (.compare op l e) = .error k) ∧
    (∀ n, eval O env (.nullCmp n l e) = .error k) ∧
    (∀ op, eval O env (.arith op l e) = .error k) := by
  refine ⟨?_, ?_, ?_⟩ <;> intros <;> simp [eval, hl, he, bind, Outcome.bind]

/-- AND / OR evaluate their right operand exactly when the left one does not decide; then its error is the error.
(The left operand a condition: BOOLEAN or NULL; for any other type see `C03.bool_op_type_mismatch_is_error`.) -/
theorem bool_right_error (l e : Expr) (lv : Value) (k : ErrKind) (hl : eval O env l = .ok lv)
    (he : eval O env e = .error k) :
    (lv = .bool true →
      eval O env (.boolOp true l e) = .error k ∧ eval O env (.boolOp false l e) = .ok (.bool true)) ∧
    (lv = .bool false ∨ lv = .null →
      eval O env (.boolOp true l e) = .ok (.bool false) ∧ eval O env (.boolOp false l e) = .error k) := by
  refine ⟨fun h => ?_, fun h => ?_⟩
  · subst h; simp [eval_boolOp, hl, he, Outcome.bind]
  · rcases h with rfl | rfl <;> simp [eval_boolOp, hl, he, Outcome.bind]

/-- a member of an IN list without a value: an error unless an earlier member already matched -/
theorem evalList_error (es : List Expr) (vs : List Value) (e : Expr) (rest : List Expr) (k : ErrKind)
    (hes : evalList O env es = .ok vs) (he : eval O env e = .error k) :
    evalList O env (es ++ e :: rest) = .error k := by
  induction es generalizing vs with
  | nil => simp [evalList, he, bind, Outcome.bind]
  | cons a as ih =>
    simp only [List.cons_append, evalList, bind, Outcome.bind] at hes ⊢
    cases ha : eval O env a with
    | ok av =>
      simp only [ha] at hes ⊢
      cases has : evalList O env as with
      | ok avs => simp [ih avs has]
      | error k' => simp [has] at hes
      | panic s => simp [has] at hes
      | oracleMissing => simp [has] at hes
    | error k' => simp [ha] at hes
    | panic s => simp [ha] at hes
    | oracleMissing => simp [ha] at hes

/-- an argument of a function call without a value (the earlier arguments having values) is the error of the call -/
theorem call_argument_error (f : Func) (es : List Expr) (vs : List Value) (e : Expr) (rest : List Expr) (k : ErrKind)
    (hes : evalList O env es = .ok vs) (he : eval O env e = .error k) :
    eval O env (.call f (es ++ e :: rest)) = .error k := by
  simp [eval, evalList_error O env es vs e rest k hes he, bind, Outcome.bind]

/-! ### an expression without a value on a processed row is the error of the run -/

/-- WHERE without a value on an admitted line: the line's execution is that error -/
theorem where_error_is_line_error (qy : Query) (q : SelectStmt) (hq : qy.stmt = .select q) (hj : qy.join = none)
    (idx : JoinIndex) (w : Bool) (es : EngineState) (l : Line) (hadm : anyResult l.row = true)
    (f : Expr) (hf : q.filter = some f) (k : ErrKind)
    (hk : eval O (envOfInsertions (columnsMapping qy.table l.row l.text)) f = .error k) :
    executeLine O qy idx w es l = .error k := by
  simp [executeLine, hq, hadm, lineEnvs, hj, bind, Outcome.bind, selectEnvs, selectOne, hf, hk]

/-- a projected expression without a value on an admitted line that passes WHERE: the line's execution is that error -/
theorem projection_error_is_line_error (qy : Query) (q : SelectStmt) (hq : qy.stmt = .select q) (hj : qy.join = none)
    (hw : q.wildcard = false)
    (idx : JoinIndex) (w : Bool) (es : EngineState) (l : Line) (hadm : anyResult l.row = true)
    (hpass : match q.filter with
      | some f => eval O (envOfInsertions (columnsMapping qy.table l.row l.text)) f = .ok (.bool true)
      | none => True)
    (k : ErrKind)
    (hk : evalList O (envOfInsertions (columnsMapping qy.table l.row l.text)) (q.projections.map (·.2)) = .error k) :
    executeLine O qy idx w es l = .error k := by
  cases hf : q.filter with
  | none => simp [executeLine, hq, hadm, lineEnvs, hj, bind, Outcome.bind, selectEnvs, selectOne, hf, hw, hk, pure]
  | some f =>
    rw [hf] at hpass
    simp [executeLine, hq, hadm, lineEnvs, hj, bind, Outcome.bind, selectEnvs, selectOne, hf, hw, hk, hpass, pure]

/-- **an expression that has no value on some processed row makes the query report an error rather than emit a wrong
value**: the run over a file whose next line is such a line ends with that error, and prints nothing for the line
(everything printed was printed before it) -/
theorem no_value_is_reported (qy : Query) (q : SelectStmt) (hq : qy.stmt = .select q) (hj : qy.join = none)
    (idx : JoinIndex) (w : Bool) (ls : LoopState) (fl : FileLine) (rest : List FileLine) (hr : fl.readable = true)
    (hadm : anyResult fl.line.row = true) (f : Expr) (hf : q.filter = some f) (k : ErrKind)
    (hk : eval O (envOfInsertions (columnsMapping qy.table fl.line.row fl.line.text)) f = .error k) :
    (runFile O qy idx w none (fl :: rest) ls).out.error = some k ∧
    (runFile O qy idx w none (fl :: rest) ls).out.printed = ls.out.printed :=
  Props.C03Select.error_is_reported O qy idx w ls fl rest k hr
    (where_error_is_line_error O qy q hq hj idx w ls.es fl.line hadm f hf k hk)

/-- **a type mismatch in WHERE is an error, not "no row"**: a WHERE expression whose value on an admitted line is of
another type than BOOLEAN (and not NULL) — `WHERE v + 1`, `WHERE name` — has no truth value; the line's execution is
the type error (finding D69, repaired: such a line used to be dropped silently) -/
theorem where_type_mismatch_is_line_error (qy : Query) (q : SelectStmt) (hq : qy.stmt = .select q) (hj : qy.join = none)
    (idx : JoinIndex) (w : Bool) (es : EngineState) (l : Line) (hadm : anyResult l.row = true)
    (f : Expr) (hf : q.filter = some f) (v : Value)
    (hv : eval O (envOfInsertions (columnsMapping qy.table l.row l.text)) f = .ok v) (hn : Props.C03.NoTruthValue v) :
    executeLine O qy idx w es l = .error .typeError := by
  simp [executeLine, hq, hadm, lineEnvs, hj, bind, Outcome.bind, selectEnvs, selectOne, hf, hv,
    condHolds_typeError v hn.1 hn.2]

/-- … and therefore of the run, with nothing printed for that line: the counterpart of `no_value_is_reported` for a
WHERE that has a value but no truth value -/
theorem where_type_mismatch_is_reported (qy : Query) (q : SelectStmt) (hq : qy.stmt = .select q) (hj : qy.join = none)
    (idx : JoinIndex) (w : Bool) (ls : LoopState) (fl : FileLine) (rest : List FileLine) (hr : fl.readable = true)
    (hadm : anyResult fl.line.row = true) (f : Expr) (hf : q.filter = some f) (v : Value)
    (hv : eval O (envOfInsertions (columnsMapping qy.table fl.line.row fl.line.text)) f = .ok v)
    (hn : Props.C03.NoTruthValue v) :
    (runFile O qy idx w none (fl :: rest) ls).out.error = some .typeError ∧
    (runFile O qy idx w none (fl :: rest) ls).out.printed = ls.out.printed :=
  Props.C03Select.error_is_reported O qy idx w ls fl rest .typeError hr
    (where_type_mismatch_is_line_error O qy q hq hj idx w ls.es fl.line hadm f hf v hv hn)

/-- a WHERE that is FALSE or NULL on an admitted line does not hold: the line gives no row and the engine state is
that of a line that is not admitted (NULL is "not true", not an error) -/
theorem where_null_is_no_row (qy : Query) (q : SelectStmt) (hq : qy.stmt = .select q) (hj : qy.join = none)
    (idx : JoinIndex) (w : Bool) (es : EngineState) (l : Line) (hadm : anyResult l.row = true)
    (f : Expr) (hf : q.filter = some f) (v : Value)
    (hv : eval O (envOfInsertions (columnsMapping qy.table l.row l.text)) f = .ok v) (hn : v = .bool false ∨ v = .null) :
    executeLine O qy idx w es l = .ok (updateLimit true q.limit es none) := by
  rcases hn with rfl | rfl <;>
    simp [executeLine, hq, hadm, lineEnvs, hj, bind, Outcome.bind, selectEnvs, selectOne, hf, hv, pure] <;> rfl

/-! ### non-vacuity -/

example : eval {} {} (.not (.value (.bool true))) = .ok (.bool false) := by rfl
example : eval {} {} (.not (.value (.int 1))) = .error .undefinedOperation := by rfl
example : eval {} {} (.not (.value .null)) = .ok .null ∧
    eval {} {} (.boolOp false (.not (.value .null)) (.value (.bool false))) = .ok (.bool false) := ⟨rfl, rfl⟩
example : eval {} {} (.column "nope") = .error .columnNotFound := by rfl
example : eval {} { table := [("x", .int 3)] } (.column "x") = .ok (.int 3) := by rfl
example : eval {} {} (.compare .lt (.value (.bool true)) (.value (.int 1))) = .error .typeError := by rfl
/-- the right operand of a deciding AND is not evaluated: `false AND (1/0 = 1)` is false -/
example : eval {} {} (.boolOp true (.value (.bool false))
    (.compare .eq (.arith .div (.value (.int 1)) (.value (.int 0))) (.value (.int 1)))) = .ok (.bool false) := by rfl
example : eval {} {} (.boolOp true (.value (.bool true))
    (.compare .eq (.arith .div (.value (.int 1)) (.value (.int 0))) (.value (.int 1)))) = .error .undefinedOperation := by rfl

end Sqlgrep.Props.C03Expr
