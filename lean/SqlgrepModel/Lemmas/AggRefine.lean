import SqlgrepModel.Lemmas.AggResult
/-
Update half + result half: the engine's answer for a whole input against `Spec.Agg.table`.
-/
set_option linter.unusedSimpArgs false
namespace Sqlgrep
open Value Spec.Agg

/-! ### exact keys -/

theorem F64.cmp_eq_of_canonical {a b : Nat} (ha : a < 2^64) (hb : b < 2^64) (ha0 : a ≠ 2^63) (hb0 : b ≠ 2^63)
    (han : F64.isNaN a = true → a = F64.canonNaN) (hbn : F64.isNaN b = true → b = F64.canonNaN)
    (h : F64.cmp a b = .eq) : a = b := by
  unfold F64.cmp at h
  by_cases h1 : F64.isNaN a = true
  · by_cases h2 : F64.isNaN b = true
    · rw [han h1, hbn h2]
    · simp [h1, h2] at h
  · by_cases h2 : F64.isNaN b = true
    · simp [h1, h2] at h
    · simp only [h1, h2, Bool.false_eq_true, if_false, Int.compare_eq_eq] at h
      unfold F64.key F64.mag F64.signBit at h
      have ea := Nat.div_add_mod a (2^63)
      have eb := Nat.div_add_mod b (2^63)
      have ra : a % 2^63 < 2^63 := Nat.mod_lt _ (by decide)
      have rb : b % 2^63 < 2^63 := Nat.mod_lt _ (by decide)
      have qa : a / 2^63 < 2 := by omega
      have qb : b / 2^63 < 2 := by omega
      by_cases sa : a / 2^63 = 1 <;> by_cases sb : b / 2^63 = 1
      · simp [sa, sb] at h; omega
      · have : b / 2^63 = 0 := by omega
        simp [sa, this] at h; omega
      · have : a / 2^63 = 0 := by omega
        simp [sb, this] at h; omega
      · have e1 : a / 2^63 = 0 := by omega
        have e2 : b / 2^63 = 0 := by omega
        simp [e1, e2] at h; omega
theorem cmp_eq_of_simple {a b : Value} (ha : simpleValue a = true) (hb : simpleValue b = true)
    (h : Value.cmp a b = .eq) : a = b := by
  have hr := rank_eq_of_cmp_eq h
  cases a <;> cases b <;> simp [rank] at hr <;> simp [simpleValue] at ha hb <;> simp only [Value.cmp] at h
  · rfl
  · rw [Int.compare_eq_eq] at h; rw [h]
  · rename_i x y
    have hx : x < 2^64 ∧ x ≠ 2^63 ∧ (F64.isNaN x = true → x = F64.canonNaN) := by
      refine ⟨by simpa using ha.1.1, by simpa using ha.1.2, fun hn => ?_⟩
      rcases ha.2 with h' | h'
      · rw [hn] at h'; simp at h'
      · exact h'
    have hy : y < 2^64 ∧ y ≠ 2^63 ∧ (F64.isNaN y = true → y = F64.canonNaN) := by
      refine ⟨by simpa using hb.1.1, by simpa using hb.1.2, fun hn => ?_⟩
      rcases hb.2 with h' | h'
      · rw [hn] at h'; simp at h'
      · exact h'
    rw [F64.cmp_eq_of_canonical hx.1 hy.1 hx.2.1 hy.2.1 hx.2.2 hy.2.2 h]
  · rw [cmpBool_eq_iff] at h; rw [h]
  · rw [cmpBytes_eq_iff] at h; rw [h]
  · simp only [Ordering.then_eq_eq, Int.compare_eq_eq] at h
    obtain ⟨⟨h1, h2⟩, h3⟩ := h
    rw [h1, h2, h3]
  · rw [Int.compare_eq_eq] at h; rw [h]

theorem cmpList_eq_of_simple : ∀ {a b : List Value}, a.all simpleValue = true → b.all simpleValue = true →
    cmpList a b = .eq → a = b
  | [], [], _, _, _ => rfl
  | [], _ :: _, _, _, h => by simp [cmpList] at h
  | _ :: _, [], _, _, h => by simp [cmpList] at h
  | x :: xs, y :: ys, ha, hb, h => by
    simp only [List.all_cons, Bool.and_eq_true] at ha hb
    simp only [cmpList, Ordering.then_eq_eq] at h
    rw [cmp_eq_of_simple ha.1 hb.1 h.1, cmpList_eq_of_simple ha.2 hb.2 h.2]

theorem keysExact_of_simple {rows : List (List Value × Env)} (h : rows.all (fun r => r.1.all simpleValue) = true) :
    KeysExact (rows.map (·.1)) := by
  intro a ha b hb hab
  obtain ⟨ra, hra, rfl⟩ := List.mem_map.mp ha
  obtain ⟨rb, hrb, rfl⟩ := List.mem_map.mp hb
  rw [List.all_eq_true] at h
  exact cmpList_eq_of_simple (h ra hra) (h rb hrb) hab

/-! ### the whole run -/

theorem deviationClass_empty {O : Oracles} {q : AggStmt} {envs : List Env} {rows : List (List Value × Env)}
    (hr : keyedRows O q envs = some rows) (h : deviationClass O q envs = "") :
    (∀ kg ∈ groups rows, groupVisible O q kg.2 = true) ∧ (∀ kg ∈ groups rows, arrayAggFirstNull O q kg.2 = false) := by
  unfold deviationClass at h
  simp only [hr] at h
  split at h
  · exact absurd h (by decide)
  · rename_i h15
    split at h
    · exact absurd h (by decide)
    · rename_i h10
      simp only [Bool.not_eq_true] at h15 h10
      constructor
      · intro kg hkg
        have := List.any_eq_false.mp h10 kg hkg
        simpa using this
      · intro kg hkg
        have := List.any_eq_false.mp h15 kg hkg
        simpa using this

/-- **refinement, engine level** (`agg_refines_spec`, partial-correctness form): whatever rows are fed to
`execute_update`, if no update fails, the table `execute_result` (+ LIMIT) then shows is the specification's table
for those rows — whenever the specification fixes the outcome and the input is outside the two known deviation
classes (D10: a group without any `group_values` entry, D15: ARRAY_AGG starting with NULL). -/
theorem engine_refines_spec {O : Oracles} {q : AggStmt} (hwf : StmtWF q) (envs : List Env) {st : AggState}
    (hrun : aggRun O q envs {} = .ok st) {t : List (List Value)} (hspec : table O q envs = some t)
    (hclass : deviationClass O q envs = "") :
    finalResult O q { agg := st } = .ok { columns := q.items.map (·.name), rows := t } := by
  obtain ⟨rows, hrows, hc⟩ := aggRun_coupled envs (coupled_init O q) hrun
  simp only [List.nil_append] at hc
  unfold table at hspec
  simp only [hrows] at hspec
  split at hspec
  · simp at hspec
  · rename_i hcond
    simp only [Bool.or_eq_true, Bool.not_eq_true', not_or, Bool.not_eq_false] at hcond
    obtain ⟨hvis, hd15⟩ := deviationClass_empty hrows hclass
    exact finalResult_refines hwf hc (keysExact_of_simple hcond.2) hspec hvis hd15

end Sqlgrep
