import SqlgrepModel.Lemmas.PipelineLines
import SqlgrepModel.Props.Pipeline
import SqlgrepModel.Props.C01
import SqlgrepModel.Props.C02
/-
END-TO-END theorems, part two: the LINE STRUCTURE of the input. Four more properties carried from their stage
theorems to the whole program `Pipeline.runText` (`Model/Pipeline.lean`: definition TEXT, query TEXT, output format,
file BYTES ↦ the lines handed to `Printer::println`, or the error) — the function the compiled driver executes for
every `e2e` case. Like `Props/Pipeline.lean` this file has no property id of its own; each theorem names the property
it carries:

* C06 at byte level — `same_rows_same_output`, `noise_block_invisible`, `noise_line_invisible`,
  `joined_noise_block_invisible`: inserting into / deleting from any input file (or the joined file), at any line
  boundary, newline-terminated lines that yield no row for the table they are read with leaves the OUTPUT of the
  program unchanged — printed lines and error / ok status, in every output format, for every statement kind.
  "Output" is `Answer.output`: everything but the statistics counter `totalLines`, which does change (noise lines are
  lines read; see the example).
  Boundary conditions, exactly: the insertion point is a line boundary (`NlTerminated pre`: start of file or just
  after a `\n` — the end of a file that lacks a final newline is NOT one: bytes inserted there continue its last line,
  see the example); the inserted bytes are whole lines (`NlTerminated block`); each of them, AS THE READER YIELDS IT
  (the `\n` and one `\r` before it removed: CRLF input is covered), is valid UTF-8 (an invalid line is an error, not
  noise: the example shows the answer change to `FailReadFile`) and yields no row by the facts shipped with the case
  (`noRow`: `Extract.admitted = false`); what follows the insertion point (`post`) is arbitrary — with or without a
  final newline, valid UTF-8 or not. The FROM table must be defined (`queriedTable = some t`): with an undefined
  table there are no rows at all and the first line read raises `TableNotFound` (example).
* C12 at program level — `multi_file_eq_concat_program`: the program over several newline-terminated files answers
  exactly as over the one file holding their concatenation, for EVERY pair of texts (every statement, with or without
  LIMIT, join, rejected texts included), counter included; `invalid_utf8_never_ok`, `invalid_utf8_is_reported`: if any
  file holds a line that is not valid UTF-8, a statement without LIMIT never ends `records … Ok`; it ends in an error
  report — `FailReadFile`, unless an earlier line (or the join set-up) already ended the run with its own error.
  (With LIMIT the run may end `Ok` BEFORE the bad line is reached: it stops reading, C07 — example.)
  `lines_before_invalid_line_are_processed` (non-aggregate statements, LIMIT or not): the answer over input whose lines
  are `A ++ invalid :: rest` is the answer over the lines `A` alone — same printed lines, same count — ended the same
  way if that run had ended on its own, and with `FailReadFile` if it ended `Ok`.
* C15 at program level — `line_order_irrelevant`, `permuted_lines_same_answer`: for an aggregate statement text
  whose lowered statement is `PermSafe` on the input, every permutation of the input LINES (within and across
  files) gives the same answer; `split_input_is_merge_of_summaries`, `split_file_is_split_input`: over an input split in
  two the program prints the table of the key-wise merged per-part summaries (`partSummaries`, `mergeSummaries`) — the
  summaries BEFORE HAVING, not the parts' printed tables (`having_parts_do_not_determine_the_whole`); the parts must be outside
  D10's shape, which for statements with COUNT(*) every cut is (`split_input_all_cuts_of_count_star`).
* C01 / C02 inside the program — `query_sees_extracted_rows`, `seen_row_is_specified`, `seen_json_column_is_specified`:
  the row the statement is given for a line of an input file (or of the joined file) is `Extract.extractRow` of the
  table definition the definition text lowers to, on the facts of that very line — so the theorems of `Props/C01.lean`
  / `Props/C02.lean` about `extractRow` speak about what the query sees.

Helper lemmas: `Lemmas/ExecTLines.lean`, `Lemmas/ExecTAgg.lean`, `Lemmas/PipelineLines.lean` (they strengthen
`runBatch_noise`, `exec_multi_file_eq_concat`, `runBatch_perm_invariant`, `batch_refines_spec_nojoin` from the text
rendering of the records to the result tables handed to the printer model, which every output format is computed from).
-/
namespace Sqlgrep.Props.PipelineLines
open Sqlgrep Sqlgrep.Pipeline Sqlgrep.Spec.Pipeline Sqlgrep.Reader Sqlgrep.Extract Sqlgrep.Spec.Agg
open Sqlgrep.Props.Pipeline (exFacts exDefs recordsOf)

/-! ### C06: lines that yield no row are invisible to the program -/

/-- **Same rows, same output** (C06, the general form of "inserted into or deleted from any positions"): two lists of
input files — any bytes — that are equally covered by the facts shipped and whose files hold the same lines once the
lines that yield no row are removed (`denoise`; a line that is not valid UTF-8 is not noise and stays) give the same
output: the same printed lines in the requested format and the same way of ending, for every definition text, query
text (plain, DISTINCT, LIMIT, aggregate, with or without join), format and display option. `t` is the table the lines
are read with. -/
theorem same_rows_same_output (F : Facts) (defsText queryText : List Char) (fmt : Print.Format) (single : Bool)
    (files files' : List (List Nat)) (t : Table) (ht : queriedTable F defsText queryText = some t)
    (hcov : filesCovered F t.defn files = filesCovered F t.defn files')
    (hden : (files.map (fileOf (extractedLine F t.defn))).map denoise =
            (files'.map (fileOf (extractedLine F t.defn))).map denoise) :
    (runText F defsText queryText fmt single files).output = (runText F defsText queryText fmt single files').output := by
  apply runText_rel_files (fun a b => a.output = b.output) (fun _ => rfl)
  intro defs query tables stmt fromTable join hd hq hta hs
  rw [queriedTable_eq F defsText queryText defs query tables stmt fromTable join hd hq hta hs] at ht
  exact answerOfOpt_output F fmt single (runStatement_same_rows F tables stmt fromTable join files files' t ht hcov hden)

/-- **Inserting (or deleting) lines that yield no row, at any line boundary of any input file** (C06 at byte level).
`pre ++ block ++ post` is an input file with a block of bytes inserted between `pre` and `post`; `pre` ends at a line
boundary, the block consists of whole lines, and every line of the block — as `BufRead::lines` yields it — is valid
UTF-8 and yields no row for the table `t` the statement reads from (`noRow`: the facts are shipped and
`Extract.admitted = false`). Then the program's output over the files with the block equals its output over the files
without it. Read from right to left this is deletion. -/
theorem noise_block_invisible (F : Facts) (defsText queryText : List Char) (fmt : Print.Format) (single : Bool)
    (before after : List (List Nat)) (pre block post : List Nat) (t : Table)
    (ht : queriedTable F defsText queryText = some t) (hpre : NlTerminated pre) (hblock : NlTerminated block)
    (hnoise : ∀ item ∈ Reader.lines block, ∃ l, item = .ok l ∧ noRow F t.defn l = true) :
    (runText F defsText queryText fmt single (before ++ [pre ++ block ++ post] ++ after)).output =
    (runText F defsText queryText fmt single (before ++ [pre ++ post] ++ after)).output := by
  obtain ⟨hc, hd⟩ := insert_noise_block F t.defn pre block post hpre hblock hnoise
  apply same_rows_same_output F defsText queryText fmt single _ _ t ht
  · simp only [filesCovered, List.all_append, List.all_cons, List.all_nil, Bool.and_true, hc]
  · simp only [List.map_append, List.map_cons, List.map_nil, hd]

/-- the single-line form: `line` holds no `\n`, `line ++ "\n"` is valid UTF-8, and the line the reader yields for it
(`stripCr`: one `\r` before the `\n` removed) yields no row -/
theorem noise_line_invisible (F : Facts) (defsText queryText : List Char) (fmt : Print.Format) (single : Bool)
    (before after : List (List Nat)) (pre line post : List Nat) (t : Table)
    (ht : queriedTable F defsText queryText = some t) (hpre : NlTerminated pre)
    (hnl : nl ∉ line) (hutf : validUtf8 (line ++ [nl]) = true) (hnoise : noRow F t.defn (stripCr line) = true) :
    (runText F defsText queryText fmt single (before ++ [pre ++ (line ++ [nl]) ++ post] ++ after)).output =
    (runText F defsText queryText fmt single (before ++ [pre ++ post] ++ after)).output := by
  apply noise_block_invisible F defsText queryText fmt single before after pre (line ++ [nl]) post t ht hpre
    (nlTerminated_snoc line)
  intro item hi
  rw [lines_single line hnl] at hi
  simp only [List.mem_singleton] at hi
  subst hi
  exact ⟨stripCr line, by simp [finishLine, hutf], hnoise⟩

/-- **… and of the JOINED file** (C06, the other side of a join). The joined file lives in the file system around the
run (`F.fs`); `fs'` is the file system in which the file `name` holds `pre ++ post` instead of `pre ++ block ++ post`
and every other file is as before. If every line of the block yields no row for the joined table `u` (whenever `name`
is the file the statement joins with), the answer of the program is the same — counter included: the loader's lines
are not counted. -/
theorem joined_noise_block_invisible (F : Facts) (fs' : List (String × List Nat)) (defsText queryText : List Char)
    (fmt : Print.Format) (single : Bool) (files : List (List Nat)) (name : String) (pre block post : List Nat)
    (h1 : F.fs.lookup name = some (pre ++ block ++ post)) (h2 : fs'.lookup name = some (pre ++ post))
    (hother : ∀ n, n ≠ name → fs'.lookup n = F.fs.lookup n)
    (hpre : NlTerminated pre) (hblock : NlTerminated block)
    (hnoise : ∀ u, joinedSource F defsText queryText = some (u, name) →
      ∀ item ∈ Reader.lines block, ∃ l, item = .ok l ∧ noRow F u.defn l = true) :
    runText F defsText queryText fmt single files = runText { F with fs := fs' } defsText queryText fmt single files := by
  apply runText_rel (fun a b => a = b) (fun _ => rfl)
  intro defs query tables stmt fromTable join hd hq hta hs
  congr 1
  apply runStatement_fs
  intro t j fs _ hj
  subst hj
  by_cases hn : j.joinedFilename = name
  · apply runDefined_joined_noise F fs' tables stmt t j fs pre block post hpre hblock (by rw [hn]; exact h1) (by rw [hn]; exact h2)
    intro u hu
    apply hnoise u
    rw [joinedSource_eq F defsText queryText defs query tables stmt fromTable j hd hq hta hs, hu, hn]
    rfl
  · unfold runDefined
    have : openJoined { F with fs := fs' } j = openJoined F j := hother _ hn
    simp only [this, fileLines_fs]

/-! ### C12: several files are their concatenation; an invalid line is never passed over silently -/

/-- **Multi-file = concatenation, for the whole program** (C12). For every definition text, every query text (any
statement — plain, DISTINCT, LIMIT, aggregate, join —, also texts that are rejected), every format and display option:
the program over files of which all but the last are newline-terminated (or empty) answers exactly as over the one
file holding their concatenation — same printed lines, same error / ok status, same line count. -/
theorem multi_file_eq_concat_program (F : Facts) (defsText queryText : List Char) (fmt : Print.Format) (single : Bool)
    (files : List (List Nat)) (last : List Nat) (h : ∀ f ∈ files, NlTerminated f) :
    runText F defsText queryText fmt single (files ++ [last]) =
      runText F defsText queryText fmt single [(files ++ [last]).flatten] := by
  apply runText_rel_files (fun a b => a = b) (fun _ => rfl)
  intro defs query tables stmt fromTable join _ _ _ _
  rw [runStatement_concat F tables stmt fromTable join files last h]

/-- the statement of the query text has no LIMIT that could end the batch loop early (an aggregate statement's LIMIT
cuts the final table only) -/
def QueryNoLimit (F : Facts) (queryText : List Char) : Prop :=
  ∀ query stmt fromTable join, parseText (lexOracles F) (regexValidFn F) queryText = .stmt query →
    stmtOf query = some (stmt, fromTable, join) → NoLimit stmt

/-- **A line that is not valid UTF-8 never lets the program end `Ok`** (C12: "never causes later lines to be dropped
silently"). If some input file holds such a line, then for every definition text and every query text without LIMIT the
answer is never `records … Ok` — not with fewer rows, not with any rows. (What it is: `invalid_utf8_is_reported`.) -/
theorem invalid_utf8_never_ok (F : Facts) (defsText queryText : List Char) (fmt : Print.Format) (single : Bool)
    (files : List (List Nat)) (hbad : .error () ∈ files.flatMap Reader.lines) (hnl : QueryNoLimit F queryText)
    (n : Nat) (ls : List Print.Bytes) : runText F defsText queryText fmt single files ≠ .records none n ls := by
  apply runText_pred (fun a => a ≠ .records none n ls) (by simp) (by simp) (by simp) (by simp) (by simp)
  intro defs query tables stmt fromTable join _ hq _ hs
  cases hr : runStatement F tables stmt fromTable join files with
  | none => simp [answerOfOpt]
  | some t =>
    exact answerOf_failed F fmt single t
      (runStatement_unreadable_fails F tables stmt fromTable join files (hnl query stmt fromTable join hq hs) hbad t hr) n ls

/-- **… it ends in an error report**: when both texts are accepted, the definitions are CREATE TABLEs, the query is a
query and the facts the run asks for are shipped (the answer is a run: `records`), the run carries an error kind —
`FailReadFile` raised at the invalid line, unless an earlier line or the join set-up already ended the run with its
own error (the batch loop stops at the first failure, `Props/C12.lean` `exec_read_error_reported`). -/
theorem invalid_utf8_is_reported (F : Facts) (defsText queryText : List Char) (fmt : Print.Format) (single : Bool)
    (files : List (List Nat)) (hbad : .error () ∈ files.flatMap Reader.lines) (hnl : QueryNoLimit F queryText)
    (e : Option ErrKind) (n : Nat) (ls : List Print.Bytes)
    (h : runText F defsText queryText fmt single files = .records e n ls) : ∃ k, e = some k := by
  cases e with
  | some k => exact ⟨k, rfl⟩
  | none => exact absurd h (invalid_utf8_never_ok F defsText queryText fmt single files hbad hnl n ls)

/-- the statement of the query text is not an aggregate statement -/
def QueryIsSelect (F : Facts) (queryText : List Char) : Prop :=
  ∀ query stmt fromTable join, parseText (lexOracles F) (regexValidFn F) queryText = .stmt query →
    stmtOf query = some (stmt, fromTable, join) → ∃ s, stmt = .select s

/-- **Which error, and what of the lines before** (C12, non-aggregate statements, with or without LIMIT). Let the lines
of all input files be `A ++ invalid :: rest` — `invalid` the first line that is not valid UTF-8 — and let `files'` be any
input holding exactly the lines `A` (e.g. the files cut off before that line). Then the answer over `files` is
(a) `skip` — the case did not ship a fact about a later line —, or (b) the answer over `files'` itself — that run had
ended before reaching the line: an error of its own, LIMIT reached, a rejected text —, or (c) the answer over `files'`,
which ended `Ok`, with the SAME printed lines and the SAME line count and the error `FailReadFile`: every line before
the invalid one is processed and printed exactly as if the input ended there, and the invalid line is reported.
With `invalid_utf8_never_ok`: without LIMIT, (b) can only be an error that an earlier line raised. -/
theorem lines_before_invalid_line_are_processed (F : Facts) (defsText queryText : List Char) (fmt : Print.Format)
    (single : Bool) (files files' : List (List Nat)) (rest : List (Except Unit (List Nat)))
    (hsplit : files.flatMap Reader.lines = files'.flatMap Reader.lines ++ .error () :: rest)
    (hsel : QueryIsSelect F queryText) :
    runText F defsText queryText fmt single files = .skip "line facts" ∨
    runText F defsText queryText fmt single files = runText F defsText queryText fmt single files' ∨
    ∃ n ls, runText F defsText queryText fmt single files' = .records none n ls ∧
      runText F defsText queryText fmt single files = .records (some .failReadFile) n ls := by
  apply runText_rel_files (fun a b => a = .skip "line facts" ∨ a = b ∨
    ∃ n ls, b = .records none n ls ∧ a = .records (some .failReadFile) n ls) (fun _ => .inr (.inl rfl))
  intro defs query tables stmt fromTable join _ hq _ hs
  obtain ⟨q, rfl⟩ := hsel query stmt fromTable join hq hs
  rcases runStatement_read_error F tables q fromTable join files files' rest hsplit with h | h | ⟨t, h1, h2, h3⟩
  · left; rw [h]; rfl
  · right; left; rw [h]
  · rw [h1, h3]
    rcases answerOf_read_error F fmt single t h2 with e | ⟨n, ls, e1, e2⟩
    · right; left; exact e
    · right; right; exact ⟨n, ls, e1, e2⟩

/-! ### C15: order-insensitive aggregates ignore the order of the input lines -/

/-- **The program ignores the order of the input lines** (C15 at program level). Two lists of input files whose LINES
(`BufRead::lines` of all files, in order) are permutations of each other give the same answer — same printed table in
every format, same status, same line count — for every definition text and every aggregate statement text without
join, whenever for the first input the specification `Spec.Agg.batch` answers with an empty deviation class on the
extracted rows, the lowered statement is `PermSafe` on them (the hypotheses of `Props/C15.lean`: order-insensitive
aggregates, exact extremes, order-free sums). `StmtWF` is discharged by the lowering
(`lowered_aggregate_is_wellformed`); that the second input is covered by the facts, prepared, and outside D10 / D15 as
well follows from the first (`deviationClass_perm`: the class is a function of the multiset of the lines). -/
theorem line_order_irrelevant (F : Facts) (defsText queryText : List Char) (fmt : Print.Format) (single : Bool)
    (files₁ files₂ : List (List Nat)) (hperm : (files₁.flatMap Reader.lines).Perm (files₂.flatMap Reader.lines))
    (defs : LStmt) (tables : List Table) (a : AggStmt) (fromTable : String) (file : Option String) (p₁ : Prepared) (ro : RunOut)
    (hc : classesCover F defsText = true ∧ classesCover F queryText = true)
    (hd : parseText (lexOracles F) (regexValidFn F) defsText = .stmt defs)
    (hp : (createPatterns defs).all (fun re => ((Utf8.decode re).bind (regexValidOf F)).isSome) = true)
    (hq : parseText (lexOracles F) (regexValidFn F) queryText = .stmt (.aggregate a fromTable file none))
    (ht : addTables defs = some tables)
    (hprep : prepare F tables (.aggregate a) fromTable none files₁ = some p₁)
    (hb : Spec.Agg.batch F.eval p₁.qy a p₁.joined p₁.files = some (ro, ""))
    (hsafe : ∀ keyed, keyedRows F.eval a (envsOf p₁.qy.table p₁.files.flatten) = some keyed → PermSafe F.eval a keyed) :
    runText F defsText queryText fmt single files₁ = runText F defsText queryText fmt single files₂ := by
  obtain ⟨t, hg, htab, hstmt, hcov, hfiles, hnj, _⟩ := prepare_files F tables (.aggregate a) fromTable none files₁ p₁ hprep
  obtain ⟨hj, _⟩ := hnj rfl
  have hcov₂ : filesCovered F t.defn files₂ = true := by
    rw [filesCovered_flatMap] at hcov ⊢
    rw [← hperm.all_eq]; exact hcov
  have e₁ := prepare_nojoin_of_covered F tables (.aggregate a) fromTable files₁ t hg hcov
  have hprep₂ := prepare_nojoin_of_covered F tables (.aggregate a) fromTable files₂ t hg hcov₂
  have hp₁ := Option.some.inj (hprep.symm.trans e₁)
  have hqy : p₁.qy = { stmt := .aggregate a, table := t.info, join := none } := by rw [hp₁]
  have hjd : p₁.joined = [] := by rw [hp₁]
  have hwf := Props.Pipeline.lowered_aggregate_is_wellformed _ _ _ a fromTable file none hq
  have hperm' : p₁.files.flatten.Perm ((files₂.map (fileOf (extractedLine F t.defn))).flatten) := by
    rw [hfiles, fileOf_flatten, fileOf_flatten]; exact hperm.map _
  have hrun := runBatchT_perm_invariant hstmt hwf hj p₁.joined (some p₁.joined) hperm' hsafe hb
  obtain ⟨hr₁, _⟩ := runStatement_of_prepare F tables (.aggregate a) fromTable none files₁ _ hprep
  obtain ⟨hr₂, _⟩ := runStatement_of_prepare F tables (.aggregate a) fromTable none files₂ _ hprep₂
  rw [runText_eq_runLowered F defsText queryText fmt single files₁ defs _ hc hd hp hq,
    runText_eq_runLowered F defsText queryText fmt single files₂ defs _ hc hd hp hq,
    runLowered_eq F defs _ fmt single files₁ tables (.aggregate a) fromTable none _ ht rfl hr₁,
    runLowered_eq F defs _ fmt single files₂ tables (.aggregate a) fromTable none _ ht rfl hr₂, hrun]
  simp only [hqy, hjd]

/-- **re-joining permuted lines**: the lines read back from `unlines ls₂` are a permutation of the lines read back from
`unlines ls₁` whenever `ls₂` is a permutation of `ls₁` (lines without `\n`; CR LF ends and invalid UTF-8 allowed: an
item is the line as the reader yields it) — the hypothesis `hperm` of `line_order_irrelevant` for a file whose lines
were shuffled -/
theorem permuted_lines_read_back (ls₁ ls₂ : List (List Nat)) (hp : ls₁.Perm ls₂) (h : ∀ l ∈ ls₁, nl ∉ l) :
    ([unlines ls₁].flatMap Reader.lines).Perm ([unlines ls₂].flatMap Reader.lines) ∧
    Reader.lines (unlines ls₂) = ls₂.map (fun l => finishLine l true) := by
  have h₂ : ∀ l ∈ ls₂, nl ∉ l := fun l hl => h l (hp.mem_iff.2 hl)
  simp only [List.flatMap_cons, List.flatMap_nil, List.append_nil]
  rw [lines_unlines ls₁ h, lines_unlines ls₂ h₂]
  exact ⟨hp.map _, rfl⟩

/-- **Permuting the lines of an input file leaves the answer unchanged** (C15): `line_order_irrelevant` for the one
file `ls₁` written out line by line and any permutation `ls₂` of its lines written out the same way -/
theorem permuted_lines_same_answer (F : Facts) (defsText queryText : List Char) (fmt : Print.Format) (single : Bool)
    (ls₁ ls₂ : List (List Nat)) (hperm : ls₁.Perm ls₂) (hnl : ∀ l ∈ ls₁, nl ∉ l)
    (defs : LStmt) (tables : List Table) (a : AggStmt) (fromTable : String) (file : Option String) (p₁ : Prepared) (ro : RunOut)
    (hc : classesCover F defsText = true ∧ classesCover F queryText = true)
    (hd : parseText (lexOracles F) (regexValidFn F) defsText = .stmt defs)
    (hp : (createPatterns defs).all (fun re => ((Utf8.decode re).bind (regexValidOf F)).isSome) = true)
    (hq : parseText (lexOracles F) (regexValidFn F) queryText = .stmt (.aggregate a fromTable file none))
    (ht : addTables defs = some tables)
    (hprep : prepare F tables (.aggregate a) fromTable none [unlines ls₁] = some p₁)
    (hb : Spec.Agg.batch F.eval p₁.qy a p₁.joined p₁.files = some (ro, ""))
    (hsafe : ∀ keyed, keyedRows F.eval a (envsOf p₁.qy.table p₁.files.flatten) = some keyed → PermSafe F.eval a keyed) :
    runText F defsText queryText fmt single [unlines ls₁] = runText F defsText queryText fmt single [unlines ls₂] :=
  line_order_irrelevant F defsText queryText fmt single _ _ (permuted_lines_read_back ls₁ ls₂ hperm hnl).1
    defs tables a fromTable file p₁ ro hc hd hp hq ht hprep hb hsafe

/-- **The program over a split input prints the table of the merged summaries of the parts** (C15, input split, at program
level). Input files `files₁` followed by `files₂` (any bytes; e.g. one file each), an aggregate statement text without join
whose aggregates are order-insensitive. Whenever the runs over the two parts are prepared (`p₁`, `p₂`: tables defined, facts
shipped — the run over all files is then prepared too), the specification `Spec.Agg.batch` answers for the rows extracted
from `files₁`, from `files₂` and from all files — with an empty deviation class for the two parts; the class `cls` of the whole
is then empty too —, and `SplitSafe` holds per group (the provisos of
`Props/C15.lean`): there are keyed summaries `S₁`, `S₂` — `Sᵢ = partSummaries` of the rows extracted from part i, what that
part has to remember — such that the program's answer over part i is the rendering, in the requested format, of the one table
`tableOfSummaries … Sᵢ` (`tableTrace`: `Ok`, the part's lines counted, one final print call), and its answer over
`files₁ ++ files₂` is the rendering of `tableOfSummaries … (mergeSummaries a S₁ S₂)` with all lines counted: the output over
the whole input is determined by the per-part summaries. `StmtWF` is discharged by the lowering.
Read carefully: (1) merged are the parts' SUMMARIES (per group and aggregate, of the rows passing WHERE) BEFORE HAVING, transforms,
DISTINCT, LIMIT — not what the part runs PRINT. With HAVING the printed part tables do not determine the whole:
`having_parts_do_not_determine_the_whole` below. (2) `hb₁`, `hb₂` with the class `""` exclude every cut that leaves a group
without a value entry (the shape of finding D10) in one of the parts — e.g. every cut of `SELECT k … GROUP BY k` — although the
program is consistent there; for statement texts with COUNT(*) no cut is excluded: `split_input_all_cuts_of_count_star`. -/
theorem split_input_is_merge_of_summaries (F : Facts) (defsText queryText : List Char) (fmt : Print.Format) (single : Bool)
    (files₁ files₂ : List (List Nat))
    (defs : LStmt) (tables : List Table) (a : AggStmt) (fromTable : String) (file : Option String) (p₁ p₂ : Prepared)
    (ro ro₁ ro₂ : RunOut) (cls : String)
    (hc : classesCover F defsText = true ∧ classesCover F queryText = true)
    (hd : parseText (lexOracles F) (regexValidFn F) defsText = .stmt defs)
    (hp : (createPatterns defs).all (fun re => ((Utf8.decode re).bind (regexValidOf F)).isSome) = true)
    (hq : parseText (lexOracles F) (regexValidFn F) queryText = .stmt (.aggregate a fromTable file none))
    (ht : addTables defs = some tables)
    (hprep₁ : prepare F tables (.aggregate a) fromTable none files₁ = some p₁)
    (hprep₂ : prepare F tables (.aggregate a) fromTable none files₂ = some p₂)
    (hOI : ∀ kind ∈ slotKinds a, orderInsensitive kind = true)
    (hb : Spec.Agg.batch F.eval p₁.qy a p₁.joined (p₁.files ++ p₂.files) = some (ro, cls))
    (hb₁ : Spec.Agg.batch F.eval p₁.qy a p₁.joined p₁.files = some (ro₁, ""))
    (hb₂ : Spec.Agg.batch F.eval p₂.qy a p₂.joined p₂.files = some (ro₂, ""))
    (hsafe : ∀ k₁ k₂, keyedRows F.eval a (envsOf p₁.qy.table p₁.files.flatten) = some k₁ →
      keyedRows F.eval a (envsOf p₂.qy.table p₂.files.flatten) = some k₂ →
      ∀ k, SplitSafe F.eval a (rowsOfKey k k₁) (rowsOfKey k k₂)) :
    ∃ S₁ S₂ t₁ t₂ t,
      partSummaries F.eval a (envsOf p₁.qy.table p₁.files.flatten) = some S₁ ∧
      partSummaries F.eval a (envsOf p₂.qy.table p₂.files.flatten) = some S₂ ∧
      tableOfSummaries F.eval a S₁ = some t₁ ∧ tableOfSummaries F.eval a S₂ = some t₂ ∧
      tableOfSummaries F.eval a (mergeSummaries a S₁ S₂) = some t ∧
      runText F defsText queryText fmt single files₁ = answerOf F fmt single (tableTrace a t₁ p₁.files.flatten.length) ∧
      runText F defsText queryText fmt single files₂ = answerOf F fmt single (tableTrace a t₂ p₂.files.flatten.length) ∧
      runText F defsText queryText fmt single (files₁ ++ files₂) =
        answerOf F fmt single (tableTrace a t (p₁.files.flatten.length + p₂.files.flatten.length)) := by
  obtain ⟨t, hg, _, hstmt, hcov₁, _, hnj, _⟩ := prepare_files F tables (.aggregate a) fromTable none files₁ p₁ hprep₁
  obtain ⟨t', hg', _, _, hcov₂, _, _, _⟩ := prepare_files F tables (.aggregate a) fromTable none files₂ p₂ hprep₂
  have htt : t' = t := Option.some.inj (hg'.symm.trans hg)
  subst htt
  obtain ⟨hj, _⟩ := hnj rfl
  have hcov : filesCovered F t'.defn (files₁ ++ files₂) = true := by rw [filesCovered_append, hcov₁, hcov₂]; rfl
  have e₁ := prepare_nojoin_of_covered F tables (.aggregate a) fromTable files₁ t' hg hcov₁
  have e₂ := prepare_nojoin_of_covered F tables (.aggregate a) fromTable files₂ t' hg hcov₂
  have hprep := prepare_nojoin_of_covered F tables (.aggregate a) fromTable (files₁ ++ files₂) t' hg hcov
  have hp₁ := Option.some.inj (hprep₁.symm.trans e₁)
  have hp₂ := Option.some.inj (hprep₂.symm.trans e₂)
  have hqy : p₂.qy = p₁.qy := by rw [hp₁, hp₂]
  have hjd₁ : p₁.joined = [] := by rw [hp₁]
  have hjd₂ : p₂.joined = [] := by rw [hp₂]
  have hfiles : (files₁ ++ files₂).map (fileOf (extractedLine F t'.defn)) = p₁.files ++ p₂.files := by
    rw [List.map_append, hp₁, hp₂]
  have hwf := Props.Pipeline.lowered_aggregate_is_wellformed _ _ _ a fromTable file none hq
  rw [hqy, hjd₂, ← hjd₁] at hb₂
  rw [hqy] at hsafe
  obtain ⟨S₁, S₂, t₁, t₂, tt, hS₁, hS₂, hT₁, hT₂, hT, r₁, r₂, r⟩ :=
    runBatchT_concat_merge_summaries hstmt hwf hj hOI p₁.joined (some p₁.joined) (f := p₁.files ++ p₂.files)
      (List.flatten_append) hb hb₁ hb₂ hsafe
  obtain ⟨hr₁, _⟩ := runStatement_of_prepare F tables (.aggregate a) fromTable none files₁ _ hprep₁
  obtain ⟨hr₂, _⟩ := runStatement_of_prepare F tables (.aggregate a) fromTable none files₂ _ hprep₂
  obtain ⟨hr, _⟩ := runStatement_of_prepare F tables (.aggregate a) fromTable none (files₁ ++ files₂) _ hprep
  simp only [hfiles] at hr
  have hq₀ : ({ stmt := Stmt.aggregate a, table := t'.info, join := none } : Query) = p₁.qy := by rw [hp₁]
  rw [hq₀] at hr
  rw [hqy, hjd₂, ← hjd₁] at hr₂
  have hr' : runStatement F tables (.aggregate a) fromTable none (files₁ ++ files₂) =
      some (runBatchT F.eval p₁.qy (some p₁.joined) (p₁.files ++ p₂.files)) := by rw [hr, hjd₁]
  refine ⟨S₁, S₂, t₁, t₂, tt, hS₁, by rw [hqy]; exact hS₂, hT₁, hT₂, hT, ?_, ?_, ?_⟩
  · rw [runText_eq_runLowered F defsText queryText fmt single files₁ defs _ hc hd hp hq,
      runLowered_eq F defs _ fmt single files₁ tables (.aggregate a) fromTable none _ ht rfl hr₁, r₁]
  · rw [runText_eq_runLowered F defsText queryText fmt single files₂ defs _ hc hd hp hq,
      runLowered_eq F defs _ fmt single files₂ tables (.aggregate a) fromTable none _ ht rfl hr₂, r₂]
  · rw [runText_eq_runLowered F defsText queryText fmt single (files₁ ++ files₂) defs _ hc hd hp hq,
      runLowered_eq F defs _ fmt single (files₁ ++ files₂) tables (.aggregate a) fromTable none _ ht rfl hr', r]

/-- **all cut points, for statements with COUNT(*)**: `split_input_is_merge_of_summaries` without the hypothesis that the
specification's class for the parts is empty. For a statement text whose aggregates are order-insensitive and which has COUNT(*)
in its select list or in HAVING, the classes `c₁`, `c₂`, `cls` the specification reports are empty for EVERY input (COUNT(*)
creates an entry in every group that has a row: `deviationClass_empty_of_countStar`), so every way of splitting the input files
in two is covered. -/
theorem split_input_all_cuts_of_count_star (F : Facts) (defsText queryText : List Char) (fmt : Print.Format) (single : Bool)
    (files₁ files₂ : List (List Nat))
    (defs : LStmt) (tables : List Table) (a : AggStmt) (fromTable : String) (file : Option String) (p₁ p₂ : Prepared)
    (ro ro₁ ro₂ : RunOut) (cls c₁ c₂ : String)
    (hc : classesCover F defsText = true ∧ classesCover F queryText = true)
    (hd : parseText (lexOracles F) (regexValidFn F) defsText = .stmt defs)
    (hp : (createPatterns defs).all (fun re => ((Utf8.decode re).bind (regexValidOf F)).isSome) = true)
    (hq : parseText (lexOracles F) (regexValidFn F) queryText = .stmt (.aggregate a fromTable file none))
    (ht : addTables defs = some tables)
    (hprep₁ : prepare F tables (.aggregate a) fromTable none files₁ = some p₁)
    (hprep₂ : prepare F tables (.aggregate a) fromTable none files₂ = some p₂)
    (hOI : ∀ kind ∈ slotKinds a, orderInsensitive kind = true)
    (hstar : AggKind.count none false ∈ slotKinds a)
    (hb : Spec.Agg.batch F.eval p₁.qy a p₁.joined (p₁.files ++ p₂.files) = some (ro, cls))
    (hb₁ : Spec.Agg.batch F.eval p₁.qy a p₁.joined p₁.files = some (ro₁, c₁))
    (hb₂ : Spec.Agg.batch F.eval p₂.qy a p₂.joined p₂.files = some (ro₂, c₂))
    (hsafe : ∀ k₁ k₂, keyedRows F.eval a (envsOf p₁.qy.table p₁.files.flatten) = some k₁ →
      keyedRows F.eval a (envsOf p₂.qy.table p₂.files.flatten) = some k₂ →
      ∀ k, SplitSafe F.eval a (rowsOfKey k k₁) (rowsOfKey k k₂)) :
    ∃ S₁ S₂ t₁ t₂ t,
      partSummaries F.eval a (envsOf p₁.qy.table p₁.files.flatten) = some S₁ ∧
      partSummaries F.eval a (envsOf p₂.qy.table p₂.files.flatten) = some S₂ ∧
      tableOfSummaries F.eval a S₁ = some t₁ ∧ tableOfSummaries F.eval a S₂ = some t₂ ∧
      tableOfSummaries F.eval a (mergeSummaries a S₁ S₂) = some t ∧
      runText F defsText queryText fmt single files₁ = answerOf F fmt single (tableTrace a t₁ p₁.files.flatten.length) ∧
      runText F defsText queryText fmt single files₂ = answerOf F fmt single (tableTrace a t₂ p₂.files.flatten.length) ∧
      runText F defsText queryText fmt single (files₁ ++ files₂) =
        answerOf F fmt single (tableTrace a t (p₁.files.flatten.length + p₂.files.flatten.length)) := by
  obtain ⟨_, _, _, _, _, _, hnj₁, _⟩ := prepare_files F tables (.aggregate a) fromTable none files₁ p₁ hprep₁
  obtain ⟨_, _, _, _, _, _, hnj₂, _⟩ := prepare_files F tables (.aggregate a) fromTable none files₂ p₂ hprep₂
  have e₁ : c₁ = "" := specBatch_class_of_countStar (hnj₁ rfl).1 hOI hstar hb₁
  have e₂ : c₂ = "" := specBatch_class_of_countStar (hnj₂ rfl).1 hOI hstar hb₂
  subst e₁; subst e₂
  exact split_input_is_merge_of_summaries F defsText queryText fmt single files₁ files₂ defs tables a fromTable file p₁ p₂
    ro ro₁ ro₂ cls hc hd hp hq ht hprep₁ hprep₂ hOI hb hb₁ hb₂ hsafe

/-- … and for ONE file cut in two at a line boundary: the program over the file `pre ++ post` (`pre` ends with a newline, or
is empty) answers as over the two files `[pre, post]` (`multi_file_eq_concat_program`, C12), i.e. with the table of the merged
summaries of `pre` and `post` -/
theorem split_file_is_split_input (F : Facts) (defsText queryText : List Char) (fmt : Print.Format) (single : Bool)
    (pre post : List Nat) (h : NlTerminated pre) :
    runText F defsText queryText fmt single [pre ++ post] = runText F defsText queryText fmt single ([pre] ++ [post]) := by
  have := multi_file_eq_concat_program F defsText queryText fmt single [pre] post (by simpa using h)
  rw [this]
  simp

/-! ### C01 / C02: the rows the query sees are `extractRow` of the lowered table definition -/

/-- **The row the statement sees for a line is `Extract.extractRow` of the lowered table definition on that line's
facts** (C01 / C02 inside the program). For every definition text, query text, format and file list whose run is
prepared (both texts accepted, the tables the statement names defined by the definition text, the joined file present,
the facts shipped): the answer of the program is the answer of the engine-level run `runBatchT` over `p.files` /
`p.joined`, where `t` is the FROM table as the definition text defines it (`getTable`: the last definition of the name)
and every readable line `fl` of every input file carries its own text and the row
`extractRow (extractOracles F) t.defn (lineOracle fl.line.text …)` — the extraction of `t`'s definition on what `regex` /
`serde_json` answered about THIS line (never another line's facts, never another table's definition); `p.files` are
the files' `BufRead::lines` in order, one `FileLine` per item; likewise the joined file under the joined table `u`. -/
theorem query_sees_extracted_rows (F : Facts) (defsText queryText : List Char) (fmt : Print.Format) (single : Bool)
    (files : List (List Nat)) (defs query : LStmt) (tables : List Table) (stmt : Stmt) (fromTable : String)
    (join : Option LJoin) (p : Prepared)
    (hc : classesCover F defsText = true ∧ classesCover F queryText = true)
    (hd : parseText (lexOracles F) (regexValidFn F) defsText = .stmt defs)
    (hp : (createPatterns defs).all (fun re => ((Utf8.decode re).bind (regexValidOf F)).isSome) = true)
    (hq : parseText (lexOracles F) (regexValidFn F) queryText = .stmt query)
    (ht : addTables defs = some tables) (hs : stmtOf query = some (stmt, fromTable, join))
    (hprep : prepare F tables stmt fromTable join files = some p) :
    runText F defsText queryText fmt single files = answerOf F fmt single (runBatchT F.eval p.qy (some p.joined) p.files) ∧
    ∃ t, getTable tables fromTable = some t ∧ p.qy.table = t.info ∧
      p.files = files.map (fun bytes => (Reader.lines bytes).map (toFileLine (extractedLine F t.defn))) ∧
      (∀ f ∈ p.files, ∀ fl ∈ f, fl.readable = true →
        fl.line.row = extractRow (extractOracles F) t.defn (lineOracle fl.line.text ((F.lines.lookup fl.line.text).getD {}))) ∧
      (∀ j, join = some j → ∃ u bytes, getTable tables j.joinedTable = some u ∧ openJoined F j = some bytes ∧
        p.joined = (Reader.lines bytes).map (toFileLine (extractedLine F u.defn)) ∧
        ∀ fl ∈ p.joined, fl.readable = true →
          fl.line.row = extractRow (extractOracles F) u.defn (lineOracle fl.line.text ((F.lines.lookup fl.line.text).getD {}))) := by
  obtain ⟨hrun, _⟩ := runStatement_of_prepare F tables stmt fromTable join files p hprep
  obtain ⟨t, hg, htab, _, _, hfiles, _, hjoin⟩ := prepare_files F tables stmt fromTable join files p hprep
  have rowOf : ∀ (d : TableDef) (items : List (Except Unit (List Nat))), ∀ fl ∈ items.map (toFileLine (extractedLine F d)),
      fl.readable = true →
      fl.line.row = extractRow (extractOracles F) d (lineOracle fl.line.text ((F.lines.lookup fl.line.text).getD {})) := by
    intro d items fl hfl hr
    obtain ⟨x, _, rfl⟩ := List.mem_map.1 hfl
    cases x with
    | ok l => rfl
    | error u => cases hr
  refine ⟨?_, t, hg, htab, hfiles, ?_, ?_⟩
  · rw [runText_eq_runLowered F defsText queryText fmt single files defs query hc hd hp hq,
      runLowered_eq F defs query fmt single files tables stmt fromTable join _ ht hs hrun]
  · intro f hf fl hfl hr
    rw [hfiles] at hf
    obtain ⟨bytes, _, rfl⟩ := List.mem_map.1 hf
    exact rowOf t.defn _ fl hfl hr
  · intro j hj
    obtain ⟨u, bytes, hu, ho, _, hjl⟩ := hjoin j hj
    refine ⟨u, bytes, hu, ho, hjl, ?_⟩
    intro fl hfl hr
    rw [hjl] at hfl
    exact rowOf u.defn _ fl hfl hr

/-- … hence **every cell the query sees is the specified one** (C01 `extract_column_spec` about the program's rows): the
row of a line of an input file — unless a NOT NULL column cut it to the empty row — holds for each column of the table
the definition text lowers to exactly `specColumn`: the referenced group's text of this line converted to the declared
type, NULL / DEFAULT, BOOLEAN = existence, TRIM, arrays and timestamps position by position; and for a JSON-path column
the value at its path in this line's JSON document (C02 `json_column_spec`, next theorem). -/
theorem seen_row_is_specified (F : Facts) (t : Table) (bytes : List Nat)
    (fl : FileLine) (hfl : fl ∈ (Reader.lines bytes).map (toFileLine (extractedLine F t.defn))) (hr : fl.readable = true)
    (hkeep : ¬ cutBy (extractOracles F) (ParsingInput.new t.defn (lineOracle fl.line.text ((F.lines.lookup fl.line.text).getD {})))
      t.defn.columns) :
    fl.line.row = t.defn.columns.map (fun c => specColumn (extractOracles F) c
      (ParsingInput.new t.defn (lineOracle fl.line.text ((F.lines.lookup fl.line.text).getD {})))) := by
  obtain ⟨x, _, rfl⟩ := List.mem_map.1 hfl
  cases x with
  | error u => cases hr
  | ok l => exact Props.C01.extract_column_spec (extractOracles F) t.defn _ hkeep

/-- C02 about the program's rows: position `i` of the row the query sees is column `i`'s value, and a JSON-path
column's value is the one found by following its path through this line's JSON document, typed without coercion -/
theorem seen_json_column_is_specified (F : Facts) (t : Table) (bytes : List Nat)
    (fl : FileLine) (hfl : fl ∈ (Reader.lines bytes).map (toFileLine (extractedLine F t.defn))) (hr : fl.readable = true)
    (hkeep : ¬ cutBy (extractOracles F) (ParsingInput.new t.defn (lineOracle fl.line.text ((F.lines.lookup fl.line.text).getD {})))
      t.defn.columns)
    (i : Nat) (c : Column) (hc : t.defn.columns[i]? = some c) (a : JsonAccess) (hp : c.parsing = .json a) :
    fl.line.row[i]? = some (applyTrim c
      (match followPath a.steps (ParsingInput.new t.defn (lineOracle fl.line.text ((F.lines.lookup fl.line.text).getD {}))).json with
        | none => c.defaultValue
        | some v =>
          if c.options.convert then (match v with | .str s => literal (extractOracles F) c.type s | _ => .null)
          else noCoercion c.type v)) := by
  obtain ⟨x, _, rfl⟩ := List.mem_map.1 hfl
  cases x with
  | error u => cases hr
  | ok l =>
    have h1 := Props.C02.row_is_columnwise (extractOracles F) t.defn
      (lineOracle l ((F.lines.lookup l).getD {})) hkeep i c hc
    rw [Props.C02.json_column_spec (extractOracles F) c _ a hp] at h1
    exact h1

/-! ### non-vacuity and concrete behaviour (kernel-evaluated on `exFacts` / `exDefs` of `Props/Pipeline.lean`) -/

/-- the hypotheses of `noise_block_invisible` as a decidable check: the FROM table is defined and every line of the
block is readable and yields no row by the shipped facts -/
def exNoiseHyps (F : Facts) (defsText queryText : List Char) (pre block : List Nat) : Bool :=
  match queriedTable F defsText queryText with
  | some t => decide (NlTerminated pre) && decide (NlTerminated block) &&
      (Reader.lines block).all (fun item => match item with
        | .ok l => noRow F t.defn l
        | .error _ => false)
  | none => false

/-- `zzz` does not match the pattern: a block of two such lines (one with CR LF) after the first line -/
example : exNoiseHyps exFacts exDefs "select distinct k from t limit 5".toList (strBytes "a;1\n") (strBytes "zzz\r\nzzz\n") = true := by
  decide +kernel

/-- … from which the hypotheses of `same_rows_same_output` follow for the files with and without the block
(`insert_noise_block`): equally covered, the same lines once the noise is removed -/
example : ∃ t, queriedTable exFacts exDefs "select distinct k from t limit 5".toList = some t ∧
    filesCovered exFacts t.defn [strBytes "a;1\n" ++ strBytes "zzz\r\nzzz\n" ++ strBytes "b;2"] =
      filesCovered exFacts t.defn [strBytes "a;1\n" ++ strBytes "b;2"] ∧
    ([strBytes "a;1\n" ++ strBytes "zzz\r\nzzz\n" ++ strBytes "b;2"].map (fileOf (extractedLine exFacts t.defn))).map denoise =
      ([strBytes "a;1\n" ++ strBytes "b;2"].map (fileOf (extractedLine exFacts t.defn))).map denoise := by
  have h : exNoiseHyps exFacts exDefs "select distinct k from t limit 5".toList (strBytes "a;1\n") (strBytes "zzz\r\nzzz\n") = true := by
    decide +kernel
  unfold exNoiseHyps at h
  split at h
  · rename_i t ht
    simp only [Bool.and_eq_true, decide_eq_true_eq, List.all_eq_true] at h
    obtain ⟨⟨hpre, hblock⟩, hall⟩ := h
    have hn : ∀ item ∈ Reader.lines (strBytes "zzz\r\nzzz\n"), ∃ l, item = .ok l ∧ noRow exFacts t.defn l = true := by
      intro item hi
      have := hall item hi
      cases item with
      | ok l => exact ⟨l, rfl, this⟩
      | error u => cases this
    obtain ⟨h1, h2⟩ := insert_noise_block exFacts t.defn _ _ (strBytes "b;2") hpre hblock hn
    exact ⟨t, ht, by simp only [filesCovered, List.all_cons, List.all_nil, Bool.and_true, h1],
      by simp only [List.map_cons, List.map_nil, h2]⟩
  · cases h

/-- the hypotheses of `noise_line_invisible` for the line `zzz` with a CR LF end: no `\n` inside, valid UTF-8 with its
newline, and the line the reader yields (`zzz`, the `\r` removed) yields no row -/
example : nl ∉ strBytes "zzz\r" ∧ validUtf8 (strBytes "zzz\r" ++ [nl]) = true ∧
    ((queriedTable exFacts exDefs "select k from t".toList).map (fun t => noRow exFacts t.defn (stripCr (strBytes "zzz\r")))) = some true := by
  decide +kernel

/-- … and the output with and without the block is the same; the line counter is not (4 lines read against 2) -/
example :
    recordsOf (runText exFacts exDefs "select distinct k from t limit 5".toList .text false [strBytes "a;1\nzzz\r\nzzz\nb;2"]) =
      some (none, 4, [strBytes "k: 'a'", strBytes "k: 'b'"]) ∧
    recordsOf (runText exFacts exDefs "select distinct k from t limit 5".toList .text false [strBytes "a;1\nb;2"]) =
      some (none, 2, [strBytes "k: 'a'", strBytes "k: 'b'"]) := by decide +kernel

/-- boundary: the end of a file without final newline is not a line boundary — the inserted bytes continue the last
line (`b;2zzz` is another line; here the case does not even ship its facts) -/
example : ¬ NlTerminated (strBytes "a;1\nb;2") ∧
    recordsOf (runText exFacts exDefs "select k from t".toList .text false [strBytes "a;1\nb;2" ++ strBytes "zzz\n"]) = none := by
  constructor
  · decide +kernel
  · decide +kernel

/-- boundary: a line that is not valid UTF-8 is not noise — inserting it turns the answer into `FailReadFile` -/
example : recordsOf (runText exFacts exDefs "select k from t".toList .text false [strBytes "a;1\n" ++ [255, 10] ++ strBytes "b;2\n"]) =
    some (some .failReadFile, 1, [strBytes "k: 'a'"]) := by decide +kernel

/-- boundary: with the FROM table not defined there are no rows; the first line read raises `TableNotFound`, so even a
line that "matches nothing" changes the status of a run over an empty file -/
example : recordsOf (runText exFacts exDefs "select k from nosuch".toList .text false [[]]) = some (none, 0, []) ∧
    recordsOf (runText exFacts exDefs "select k from nosuch".toList .text false [strBytes "zzz\n"]) = some (some .tableNotFound, 1, []) := by
  decide +kernel

/-- a joined file (`u.log`) with a noise line: facts, definitions of both tables -/
def exJoinFacts (joined : List Nat) : Facts := { exFacts with fs := [("u.log", joined)] }
def exJoinDefs : List Char :=
  "CREATE TABLE t(line = '^([a-z]+);([0-9]+)$', line[1] => k TEXT, line[2] => v INT); CREATE TABLE u(line = '^([a-z]+);([0-9]+)$', line[1] => k TEXT, line[2] => w INT);".toList

/-- hypotheses of `joined_noise_block_invisible`: the joined table is defined, the block's line yields no row for it -/
example : (match joinedSource (exJoinFacts (strBytes "a;1\nzzz\nb;2\n")) exJoinDefs "select t.k, w from t inner join u::'u.log' on t.k = u.k".toList with
    | some (u, name) => name == "u.log" && noRow (exJoinFacts (strBytes "a;1\nzzz\nb;2\n")) u.defn (strBytes "zzz")
    | none => false) = true := by decide +kernel

example :
    recordsOf (runText (exJoinFacts (strBytes "a;1\nzzz\nb;2\n")) exJoinDefs "select t.k, w from t inner join u::'u.log' on t.k = u.k".toList .text false [strBytes "b;2\n"]) =
    recordsOf (runText (exJoinFacts (strBytes "a;1\nb;2\n")) exJoinDefs "select t.k, w from t inner join u::'u.log' on t.k = u.k".toList .text false [strBytes "b;2\n"]) ∧
    recordsOf (runText (exJoinFacts (strBytes "a;1\nb;2\n")) exJoinDefs "select t.k, w from t inner join u::'u.log' on t.k = u.k".toList .text false [strBytes "b;2\n"]) =
      some (none, 1, [strBytes "t.k: 'b', w: 2"]) := by decide +kernel

/-- `multi_file_eq_concat_program` on three files (CR LF, an empty file, a last line without newline), with LIMIT -/
example : (∀ f ∈ [strBytes "a;1\r\n", [], strBytes "zzz\n"], NlTerminated f) ∧
    recordsOf (runText exFacts exDefs "select k, v from t limit 2".toList (.csv [59]) false ([strBytes "a;1\r\n", [], strBytes "zzz\n"] ++ [strBytes "b;2"])) =
    recordsOf (runText exFacts exDefs "select k, v from t limit 2".toList (.csv [59]) false [strBytes "a;1\r\nzzz\nb;2"]) := by
  constructor
  · decide +kernel
  · decide +kernel

/-- hypotheses of `invalid_utf8_never_ok`: a file with an invalid line after a good one; the answer is `FailReadFile`
with the record before it printed; the later line `b;2` is not processed, and that is reported, not silent -/
example : Except.error () ∈ [[97, 59, 49, 10, 195, 10, 98, 59, 50, 10]].flatMap Reader.lines := by
  show Except.error () ∈ [Except.ok [97, 59, 49], Except.error (), Except.ok [98, 59, 50]]
  simp
example : recordsOf (runText exFacts exDefs "select count(*) from t".toList .text false [strBytes "a;1\n" ++ [195, 10] ++ strBytes "b;2\n"]) =
    some (some .failReadFile, 1, []) := by decide +kernel
/-- `QueryNoLimit` holds for `select count(*) from t` and for `select k from t`; `QueryIsSelect` for the latter -/
example : QueryNoLimit exFacts "select count(*) from t".toList := by
  intro query stmt f j hq hs
  have := exQueryShape_sound exFacts _ (fun st => match st with | .select s => s.limit.isNone | .aggregate _ => true)
    (by decide +kernel) query stmt f j hq hs
  cases stmt with
  | select s => simp only [Option.isNone_iff_eq_none] at this; exact this
  | aggregate a => trivial
example : QueryNoLimit exFacts "select k from t".toList ∧ QueryIsSelect exFacts "select k from t".toList := by
  constructor
  · intro query stmt f j hq hs
    have := exQueryShape_sound exFacts _ (fun st => match st with | .select s => s.limit.isNone | .aggregate _ => true)
      (by decide +kernel) query stmt f j hq hs
    cases stmt with
    | select s => simp only [Option.isNone_iff_eq_none] at this; exact this
    | aggregate a => trivial
  · intro query stmt f j hq hs
    have := exQueryShape_sound exFacts _ (fun st => match st with | .select _ => true | .aggregate _ => false)
      (by decide +kernel) query stmt f j hq hs
    cases stmt with
    | select s => exact ⟨s, rfl⟩
    | aggregate a => cases this

/-- hypothesis of `lines_before_invalid_line_are_processed`: the lines of the files are the lines of the cut-off input,
the invalid line, and the rest; its case (c): the same record, the same count, `Ok` against `FailReadFile` -/
example : [[97, 59, 49, 10, 195, 10, 98, 59, 50, 10]].flatMap Reader.lines =
    [[97, 59, 49, 10]].flatMap Reader.lines ++ Except.error () :: [Except.ok [98, 59, 50]] := by rfl
example : recordsOf (runText exFacts exDefs "select k from t".toList .text false [strBytes "a;1\n"]) = some (none, 1, [strBytes "k: 'a'"]) ∧
    recordsOf (runText exFacts exDefs "select k from t".toList .text false [strBytes "a;1\n" ++ [195, 10] ++ strBytes "b;2\n"]) =
      some (some .failReadFile, 1, [strBytes "k: 'a'"]) := by decide +kernel
/-- with LIMIT the run may end `Ok` before the invalid line is reached: it stopped reading (C07) -/
example : recordsOf (runText exFacts exDefs "select k from t limit 1".toList .text false [strBytes "a;1\n" ++ [195, 10] ++ strBytes "b;2\n"]) =
    some (none, 1, [strBytes "k: 'a'"]) := by decide +kernel

/-- equality of `BufRead::lines` items is decidable (for the `Perm` hypothesis below) -/
instance : DecidableEq (Except Unit (List Nat))
  | .ok a, .ok b => if h : a = b then isTrue (by rw [h]) else isFalse (fun e => h (Except.ok.inj e))
  | .error _, .error _ => isTrue rfl
  | .ok _, .error _ => isFalse (fun e => by cases e)
  | .error _, .ok _ => isFalse (fun e => by cases e)

/-- the hypotheses of `line_order_irrelevant` that can be evaluated (texts lower, run prepared, the specification
answers with an empty deviation class for the first input) on a concrete pair of inputs … -/
def exPermHyps (F : Facts) (defsText queryText : List Char) (files₁ files₂ : List (List Nat)) : Bool :=
  classesCover F defsText && classesCover F queryText &&
  decide ((files₁.flatMap Reader.lines).Perm (files₂.flatMap Reader.lines)) &&
  match parseText (lexOracles F) (regexValidFn F) defsText, parseText (lexOracles F) (regexValidFn F) queryText with
  | .stmt defs, .stmt (.aggregate a fromTable _ none) =>
    (createPatterns defs).all (fun re => ((Utf8.decode re).bind (regexValidOf F)).isSome) &&
    match addTables defs with
    | some tables =>
      match prepare F tables (.aggregate a) fromTable none files₁ with
      | some p₁ =>
        (match Spec.Agg.batch F.eval p₁.qy a p₁.joined p₁.files with
          | some (_, cls) => cls == ""
          | none => false)
      | none => false
    | none => false
  | _, _ => false

example : exPermHyps exFacts exDefs "select k, count(*), max(v), sum(v) from t group by k".toList
    [strBytes "a;1\nb;2\nzzz\n", strBytes "a;1\n"] [strBytes "a;1\r\nzzz\n", strBytes "a;1\nb;2"] = true := by decide +kernel

/-- … the hypothesis `hsafe` of `line_order_irrelevant` on that invocation: the admitted rows of the first input pass the
check, hence are `PermSafe` -/
def exPermSafe (F : Facts) (defsText queryText : List Char) (files₁ : List (List Nat)) : Bool :=
  match parseText (lexOracles F) (regexValidFn F) defsText, parseText (lexOracles F) (regexValidFn F) queryText with
  | .stmt defs, .stmt (.aggregate a fromTable _ none) =>
    match (addTables defs).bind (fun tables => prepare F tables (.aggregate a) fromTable none files₁) with
    | some p₁ => (match keyedRows F.eval a (envsOf p₁.qy.table p₁.files.flatten) with
      | some keyed => permSafeB F.eval a keyed
      | none => false)
    | none => false
  | _, _ => false

example : exPermSafe exFacts exDefs "select k, count(*), max(v), sum(v) from t group by k".toList
    [strBytes "a;1\nb;2\nzzz\n", strBytes "a;1\n"] = true := by decide +kernel

/-- … whose answers are the same table -/
example :
    recordsOf (runText exFacts exDefs "select k, count(*), max(v), sum(v) from t group by k".toList .text false [strBytes "a;1\nb;2\nzzz\n", strBytes "a;1\n"]) =
    recordsOf (runText exFacts exDefs "select k, count(*), max(v), sum(v) from t group by k".toList .text false [strBytes "a;1\r\nzzz\n", strBytes "a;1\nb;2"]) := by
  decide +kernel

/-- the hypotheses of `split_input_is_merge_of_summaries` that can be evaluated (texts lower, order-insensitive aggregates,
both parts prepared, the specification answers with an empty deviation class for the parts and for the whole, `SplitSafe` by
the decidable check `splitSafeInputsB`) on a concrete invocation … -/
def exSplitHyps (F : Facts) (defsText queryText : List Char) (files₁ files₂ : List (List Nat)) : Bool :=
  classesCover F defsText && classesCover F queryText &&
  match parseText (lexOracles F) (regexValidFn F) defsText, parseText (lexOracles F) (regexValidFn F) queryText with
  | .stmt defs, .stmt (.aggregate a fromTable _ none) =>
    (createPatterns defs).all (fun re => ((Utf8.decode re).bind (regexValidOf F)).isSome) &&
    (slotKinds a).all orderInsensitive &&
    match addTables defs with
    | some tables =>
      match prepare F tables (.aggregate a) fromTable none files₁, prepare F tables (.aggregate a) fromTable none files₂ with
      | some p₁, some p₂ =>
        (Spec.Agg.batch F.eval p₁.qy a p₁.joined (p₁.files ++ p₂.files)).map (·.2) == some "" &&
        (Spec.Agg.batch F.eval p₁.qy a p₁.joined p₁.files).map (·.2) == some "" &&
        (Spec.Agg.batch F.eval p₂.qy a p₂.joined p₂.files).map (·.2) == some "" &&
        splitSafeInputsB F.eval a (envsOf p₁.qy.table p₁.files.flatten) (envsOf p₂.qy.table p₂.files.flatten)
      | _, _ => false
    | none => false
  | _, _ => false

example : exSplitHyps exFacts exDefs
    "select k, count(*), max(v), sum(v), avg(v), min(v), count(distinct v), percentile(v, 0.5) from t group by k".toList
    [strBytes "a;1\nb;2\nzzz\n"] [strBytes "b;2\nb;2\na;1"] = true := by decide +kernel

/-- … whose answers are: over the parts (a: 1 row, b: 1 row | a: 1 row, b: 2 rows) and over the whole, as two files and as one
file cut at the line boundary — counts and sums added, extremes combined, 6 lines counted -/
example :
    recordsOf (runText exFacts exDefs "select k, count(*), max(v), sum(v), avg(v), min(v), count(distinct v), percentile(v, 0.5) from t group by k".toList
      .text false [strBytes "a;1\nb;2\nzzz\n"]) =
      some (none, 3, [strBytes "k: 'a', count1: 1, max2: 1, sum3: 1, avg4: 1, min5: 1, count6: 1, percentile7: 1",
                      strBytes "k: 'b', count1: 1, max2: 2, sum3: 2, avg4: 2, min5: 2, count6: 1, percentile7: 2"]) ∧
    recordsOf (runText exFacts exDefs "select k, count(*), max(v), sum(v), avg(v), min(v), count(distinct v), percentile(v, 0.5) from t group by k".toList
      .text false [strBytes "b;2\nb;2\na;1"]) =
      some (none, 3, [strBytes "k: 'a', count1: 1, max2: 1, sum3: 1, avg4: 1, min5: 1, count6: 1, percentile7: 1",
                      strBytes "k: 'b', count1: 2, max2: 2, sum3: 4, avg4: 2, min5: 2, count6: 1, percentile7: 2"]) ∧
    recordsOf (runText exFacts exDefs "select k, count(*), max(v), sum(v), avg(v), min(v), count(distinct v), percentile(v, 0.5) from t group by k".toList
      .text false ([strBytes "a;1\nb;2\nzzz\n"] ++ [strBytes "b;2\nb;2\na;1"])) =
      some (none, 6, [strBytes "k: 'a', count1: 2, max2: 1, sum3: 2, avg4: 1, min5: 1, count6: 1, percentile7: 1",
                      strBytes "k: 'b', count1: 3, max2: 2, sum3: 6, avg4: 2, min5: 2, count6: 1, percentile7: 2"]) ∧
    runText exFacts exDefs "select k, count(*), max(v), sum(v), avg(v), min(v), count(distinct v), percentile(v, 0.5) from t group by k".toList
      .text false [strBytes "a;1\nb;2\nzzz\n" ++ strBytes "b;2\nb;2\na;1"] =
    runText exFacts exDefs "select k, count(*), max(v), sum(v), avg(v), min(v), count(distinct v), percentile(v, 0.5) from t group by k".toList
      .text false ([strBytes "a;1\nb;2\nzzz\n"] ++ [strBytes "b;2\nb;2\na;1"]) := by
  refine ⟨by decide +kernel, by decide +kernel, by decide +kernel, ?_⟩
  exact split_file_is_split_input _ _ _ _ _ _ _ (by decide +kernel)

/-- **With HAVING the parts' PRINTED tables do not determine the whole** (why the split theorems speak of summaries).
Statement `select k, count(*), sum(v) from t where v > 0 group by k having count(*) > 1`. Part 1 = lines (a,1), (b,2), (b,2):
group a has ONE row and fails HAVING, the part prints `[b, 2, 4]`. Part 2 = line (a,1): prints nothing. The whole prints
`[a, 2, 2], [b, 2, 4]`: group a, printed by NEITHER part, is in the result. With part 2' = a line that is no row the parts print
exactly the same two tables (`[b, 2, 4]` and nothing) and the whole prints `[b, 2, 4]` only. All hypotheses of
`split_input_is_merge_of_summaries` hold on both invocations (`exSplitHyps`; the statement has COUNT(*), so
`split_input_all_cuts_of_count_star` applies as well): what is merged are the per-group summaries before HAVING — part 1
remembers (a: count 1, sum 1) although it does not print it. (The real program prints the same records: third review, M9.) -/
theorem having_parts_do_not_determine_the_whole :
    let q := "select k, count(*), sum(v) from t where v > 0 group by k having count(*) > 1".toList
    recordsOf (runText exFacts exDefs q .text false [strBytes "a;1\nb;2\nb;2\n"]) = some (none, 3, [strBytes "k: 'b', count1: 2, sum2: 4"]) ∧
    recordsOf (runText exFacts exDefs q .text false [strBytes "a;1\n"]) = some (none, 1, []) ∧
    recordsOf (runText exFacts exDefs q .text false [strBytes "zzz\n"]) = some (none, 1, []) ∧
    recordsOf (runText exFacts exDefs q .text false ([strBytes "a;1\nb;2\nb;2\n"] ++ [strBytes "a;1\n"])) =
      some (none, 4, [strBytes "k: 'a', count1: 2, sum2: 2", strBytes "k: 'b', count1: 2, sum2: 4"]) ∧
    recordsOf (runText exFacts exDefs q .text false ([strBytes "a;1\nb;2\nb;2\n"] ++ [strBytes "zzz\n"])) =
      some (none, 4, [strBytes "k: 'b', count1: 2, sum2: 4"]) ∧
    exSplitHyps exFacts exDefs q [strBytes "a;1\nb;2\nb;2\n"] [strBytes "a;1\n"] = true ∧
    exSplitHyps exFacts exDefs q [strBytes "a;1\nb;2\nb;2\n"] [strBytes "zzz\n"] = true := by
  refine ⟨by decide +kernel, by decide +kernel, by decide +kernel, by decide +kernel, by decide +kernel, by decide +kernel, by decide +kernel⟩

/-- the hypothesis of `query_sees_extracted_rows` (a prepared run) holds on the invocations of `Props/Pipeline.lean`
(`exSelectHyps`, `exAggHyps` evaluate `prepare … = some p`); the row seen for `a;1` is the extracted one -/
example : ((queriedTable exFacts exDefs "select k from t".toList).bind (fun t => fileLines exFacts t.defn (strBytes "a;1\nzzz\n"))).map
      (fun fls => fls.map (fun fl => (fl.readable, fl.line.row.map display))) =
    some [(true, ["'a'", "1"]), (true, ["NULL", "NULL"])] := by decide +kernel

end Sqlgrep.Props.PipelineLines
