// C15: order-insensitive aggregates ignore line order and how the input is split.
use sqlgrep::model::Value;

use crate::c04::join_lines;
use crate::engine_run::*;
use crate::queries::*;
use crate::run::{Params, Run};
use crate::runq::{run_engine_batch, RowsOutcome};
use crate::util::Rng;

const KEYS: &[&str] = &["a", "b", "c", "ab"];
// REAL values whose sums, squares and sums of squares are exactly representable
const REALS: &[&str] = &["0.5", "1.5", "-2.25", "100", "3", "8", "0.25"];

fn line(rng: &mut Rng) -> String {
    if rng.chance(1, 12) { return (*rng.pick(&["", "garbage", ";;;;;"])).to_owned(); }
    let f = |rng: &mut Rng, s: String| if rng.chance(1, 5) { String::new() } else { s };
    let k = (*rng.pick(KEYS)).to_owned();
    let v = rng.range(-20, 40).to_string();
    let w = rng.range(-3, 3).to_string();
    let r = (*rng.pick(REALS)).to_owned();
    let s = (*rng.pick(&["x", "y", "z"])).to_owned();
    format!("{};{};{};{};{};", f(rng, k), f(rng, v), f(rng, w), f(rng, r), f(rng, s))
}

fn agg(rng: &mut Rng) -> String {
    match rng.below(13) {
        0 => "COUNT(*)".to_owned(),
        1 => format!("COUNT({})", rng.pick(&["v", "w", "k", "r"])),
        2 => format!("COUNT(DISTINCT {})", rng.pick(&["v", "w", "k"])),
        3 | 4 => format!("SUM({})", rng.pick(&["v", "w", "r", "v * 2", "v + w"])),
        5 => format!("MIN({})", rng.pick(&["v", "w", "k", "s", "r"])),
        6 => format!("MAX({})", rng.pick(&["v", "w", "k", "s", "r"])),
        7 => format!("AVG({})", rng.pick(&["v", "w", "r"])),
        8 => format!("{}({})", rng.pick(&["STDDEV", "VARIANCE"]), rng.pick(&["v", "w", "r"])),
        9 => format!("PERCENTILE({}, {})", rng.pick(&["v", "w", "k"]), rng.pick(&["0.0", "0.5", "0.9", "1.0"])),
        10 => format!("BOOL_AND({})", rng.pick(&["v > 0", "w = 1", "k = 'a'"])),
        11 => format!("BOOL_OR({})", rng.pick(&["v > 30", "w = 1", "k = 'a'"])),
        _ => "COUNT(*) + 1".to_owned(),
    }
}

fn query(rng: &mut Rng) -> String {
    let group: Vec<&str> = match rng.below(4) { 0 => vec![], 1 => vec!["k"], 2 => vec!["w"], _ => vec!["k", "w"] };
    let mut items: Vec<String> = group.iter().map(|g| (*g).to_owned()).collect();
    for _ in 0..rng.below(4) + 1 { items.push(agg(rng)); }
    rng.shuffle(&mut items);
    let mut q = format!("SELECT {} FROM t", items.join(", "));
    if rng.chance(1, 3) { q.push_str(&format!(" WHERE {}", rng.pick(&["v > 0", "w != 0", "k != 'c'", "r > 1.0"]))); }
    if !group.is_empty() { q.push_str(&format!(" GROUP BY {}", group.join(", "))); }
    if rng.chance(1, 3) {
        // boolean combinations, with the same aggregate used more than once (range conditions, alternatives)
        let aggs = ["COUNT(*)", "SUM(v)", "MAX(w)", "MIN(v)", "COUNT(v)", "COUNT(DISTINCT k)"];
        let a = *rng.pick(&aggs);
        let b = *rng.pick(&aggs);
        let cmp = |rng: &mut Rng, x: &str| format!("{} {} {}", x, rng.pick(&[">", ">=", "<", "<=", "="]), rng.pick(&["0", "1", "2", "3", "5"]));
        let h = match rng.below(6) {
            0 | 1 => cmp(rng, a),
            2 => { let lo = rng.below(3); format!("{} >= {} AND {} <= {}", a, lo, a, lo + 1 + rng.below(3)) }
            3 => format!("{} AND {}", cmp(rng, a), cmp(rng, b)),
            4 => format!("{} OR {}", cmp(rng, a), cmp(rng, a)),
            _ => format!("NOT ({}) AND {}", cmp(rng, a), cmp(rng, b)),
        };
        q.push_str(&format!(" HAVING {}", h));
    }
    q
}

pub fn run(p: &Params) -> Run {
    let mut run = Run::new("C15");
    let mut rng = Rng::new(p.seed ^ 0x15);
    let n = p.n(1500, 60_000);
    for _ in 0..n {
        let q = query(&mut rng);
        let prepared = match prepare(MAIN_DEF, &q) { Ok(p) => p, Err(_) => { run.count("rejected"); continue; } };
        let nl = rng.below(25);
        let lines: Vec<String> = (0..nl).map(|_| line(&mut rng)).collect();
        let base = run_files(&prepared, &[join_lines(&lines)]);
        let desc = format!("query={} input={:?}", q, lines);
        if let Some(case) = batch_case(&prepared, b"", &[join_lines(&lines)], None) {
            run.case_with_desc(case, base.wire(), format!("perm:{}:g{}:h{}:r{}", base.status, q.contains("GROUP BY") as u8, q.contains("HAVING") as u8, base.records().len().min(4)), desc.clone());
        }
        // permutations of the lines
        for _ in 0..3 {
            run.oracle_checks += 1;
            let mut perm = lines.clone();
            rng.shuffle(&mut perm);
            let other = run_files(&prepared, &[join_lines(&perm)]);
            if other.status != base.status || other.records() != base.records() {
                run.fail(format!("{} permuted={:?}", desc, perm), "permutation-changes-result", format!("{:?} vs {:?}", base.records(), other.records()));
                break;
            }
        }
    }
    // split: the result over a concatenation is the key-wise combination of the results over the parts
    let m = p.n(800, 30_000);
    for _ in 0..m {
        let with_key = rng.chance(3, 4);
        let wher = if rng.chance(1, 3) { " WHERE v > 0" } else { "" };
        let q = if with_key { format!("SELECT k, COUNT(*), COUNT(v), SUM(v), MIN(v), MAX(w), SUM(r), MIN(k), MAX(s) FROM t{} GROUP BY k", wher) } else { format!("SELECT COUNT(*), COUNT(v), SUM(v), MIN(v), MAX(w), SUM(r), MIN(k), MAX(s) FROM t{}", wher) };
        let nl = rng.below(20);
        let lines: Vec<String> = (0..nl).map(|_| line(&mut rng)).collect();
        let cut = rng.below(lines.len() + 1);
        let whole = run_engine_batch(MAIN_DEF, &q, &lines);
        let a = run_engine_batch(MAIN_DEF, &q, &lines[..cut].to_vec());
        let b = run_engine_batch(MAIN_DEF, &q, &lines[cut..].to_vec());
        run.oracle_checks += 1;
        let desc = format!("query={} input={:?} cut={}", q, lines, cut);
        match (whole, a, b) {
            (RowsOutcome::Rows { rows: w, .. }, RowsOutcome::Rows { rows: ra, .. }, RowsOutcome::Rows { rows: rb, .. }) => {
                let merged = merge(with_key, &ra, &rb);
                if merged != w {
                    run.fail(desc, "split-merge-differs", format!("whole={:?} merged={:?}", w, merged));
                }
                run.count("split-checked");
            }
            (RowsOutcome::Panic(m), _, _) | (_, RowsOutcome::Panic(m), _) | (_, _, RowsOutcome::Panic(m)) => run.fail(desc, "panic:split", m),
            _ => run.count("split-error"),
        }
    }
    run.notes.push("INT arguments in -20..40 and REAL arguments whose sums/squares are exact; -0.0 and NaN excluded (they are equal to 0.0 / incomparable but print differently)".to_owned());
    run
}

fn add(a: &Value, b: &Value) -> Value {
    match (a, b) {
        (Value::Null, x) | (x, Value::Null) => x.clone(),
        (Value::Int(x), Value::Int(y)) => Value::Int(x + y),
        (Value::Float(x), Value::Float(y)) => Value::Float(sqlgrep::model::Float(x.0 + y.0)),
        (x, _) => x.clone(),
    }
}
fn least(a: &Value, b: &Value) -> Value { match (a, b) { (Value::Null, x) | (x, Value::Null) => x.clone(), (x, y) => if y < x { y.clone() } else { x.clone() } } }
fn greatest(a: &Value, b: &Value) -> Value { match (a, b) { (Value::Null, x) | (x, Value::Null) => x.clone(), (x, y) => if y > x { y.clone() } else { x.clone() } } }

/// key-wise combination: counts and sums add, minima and maxima combine, the set of groups is the union (ascending key order)
fn merge(with_key: bool, a: &[Vec<Value>], b: &[Vec<Value>]) -> Vec<Vec<Value>> {
    let off = if with_key { 1 } else { 0 };
    let combine = |x: &Vec<Value>, y: &Vec<Value>| -> Vec<Value> {
        let mut r = Vec::new();
        if with_key { r.push(x[0].clone()); }
        r.push(add(&x[off], &y[off]));
        r.push(add(&x[off + 1], &y[off + 1]));
        r.push(add(&x[off + 2], &y[off + 2]));
        r.push(least(&x[off + 3], &y[off + 3]));
        r.push(greatest(&x[off + 4], &y[off + 4]));
        r.push(add(&x[off + 5], &y[off + 5]));
        r.push(least(&x[off + 6], &y[off + 6]));
        r.push(greatest(&x[off + 7], &y[off + 7]));
        r
    };
    if !with_key {
        return match (a.first(), b.first()) {
            (Some(x), Some(y)) => vec![combine(x, y)],
            (Some(x), None) => vec![x.clone()],
            (None, Some(y)) => vec![y.clone()],
            (None, None) => vec![],
        };
    }
    let mut keys: Vec<Value> = a.iter().chain(b.iter()).map(|r| r[0].clone()).collect();
    keys.sort();
    keys.dedup();
    keys.iter().map(|k| {
        let x = a.iter().find(|r| &r[0] == k);
        let y = b.iter().find(|r| &r[0] == k);
        match (x, y) { (Some(x), Some(y)) => combine(x, y), (Some(x), None) => x.clone(), (None, Some(y)) => y.clone(), (None, None) => unreachable!() }
    }).collect()
}
