import SqlgrepModel.Lemmas.AggFollowSim
/-
C15, input split at table level: the keyed result table over a concatenation of two inputs is the key-wise combination
(`mergeKeyed`) of the keyed tables over the parts, for statements of key columns, COUNT, SUM (INT), MIN and MAX.
-/
set_option linter.unusedSimpArgs false
namespace Sqlgrep
open Value Spec.Agg

/-! ### the key-wise combination of two result tables -/

/-- combination of two extremes: NULL (no value) is neutral, otherwise the better one, the first on a tie -/
def mergeExt (wantLess : Bool) (x y : Value) : Value :=
  if x.isNull then y else if y.isNull then x
  else if Value.cmp y x == (if wantLess then Ordering.lt else Ordering.gt) then y else x

/-- how the cells of one aggregate over two parts combine into the cell over the whole -/
def mergeCell : AggKind → Value → Value → Value
  | .groupKey _ _, x, _ => x
  | .count _ _, .int a, .int b => .int (a + b)
  | .sum _, x, y => mergeSum x y
  | .min _, x, y => mergeExt true x y
  | .max _, x, y => mergeExt false x y
  | _, x, _ => x

/-- the aggregates whose results over two parts determine the result over the whole -/
def mergeable : AggKind → Bool
  | .groupKey _ _ | .count _ false | .sum _ | .min _ | .max _ => true
  | _ => false

theorem extreme_mem_nonNull (b : Bool) (xs : List Value) (hx : ∀ x ∈ xs, x.isNull = false) (hne : xs ≠ []) :
    (extreme b xs).isNull = false := by
  cases b
  · exact hx _ (extreme_max_spec xs hne).1
  · exact hx _ (extreme_min_spec xs hne).1

theorem extreme_merge (b : Bool) (xs ys : List Value) (hx : ∀ x ∈ xs, x.isNull = false) (hy : ∀ y ∈ ys, y.isNull = false) :
    extreme b (xs ++ ys) = mergeExt b (extreme b xs) (extreme b ys) := by
  cases xs with
  | nil => simp [extreme, mergeExt, isNull]
  | cons x xs' =>
    cases ys with
    | nil =>
      have h1 := extreme_mem_nonNull b (x :: xs') hx (by simp)
      rw [List.append_nil]
      simp only [mergeExt, h1, Bool.false_eq_true, if_false]
      simp [extreme, isNull]
    | cons y ys' =>
      have h1 := extreme_mem_nonNull b (x :: xs') hx (by simp)
      have h2 := extreme_mem_nonNull b (y :: ys') hy (by simp)
      rw [extreme_append]
      simp only [mergeExt, h1, h2, Bool.false_eq_true, if_false]

/-- **per aggregate**: the value over the concatenation of two argument lists is the combination of the values over
the parts (INT sums; for REAL sums this is the property's exactness proviso) -/
theorem aggregate_merge (k : AggKind) (hk : mergeable k = true) (v1 v2 : List Value) {a b r : Value}
    (h1 : aggregate k v1 = some a) (h2 : aggregate k v2 = some b) (h : aggregate k (v1 ++ v2) = some r)
    (hint : ∀ e, k = .sum e → (ints (nonNull v1)).isSome ∧ (ints (nonNull v2)).isSome) :
    r = mergeCell k a b := by
  cases k with
  | groupKey e c => simp [aggregate] at h
  | count col d =>
    cases d with
    | true => simp [mergeable] at hk
    | false =>
      cases col with
      | none =>
        simp only [aggregate, Bool.false_eq_true, if_false, Option.some.injEq] at h1 h2 h
        rw [← h1, ← h2, ← h]
        simp [mergeCell, List.length_append]
      | some cn =>
        simp only [aggregate, Option.some.injEq] at h1 h2 h
        rw [← h1, ← h2, ← h]
        simp [mergeCell, nonNull_append, List.length_append]
  | sum e =>
    obtain ⟨hi1, hi2⟩ := hint e rfl
    cases hs1 : ints (nonNull v1) with
    | none => simp [hs1] at hi1
    | some is1 =>
      cases hs2 : ints (nonNull v2) with
      | none => simp [hs2] at hi2
      | some is2 =>
        have e1 := ints_eq hs1
        have e2 := ints_eq hs2
        simp only [aggregate, nonNull_append, e1, e2] at h1 h2 h
        rw [← List.map_append] at h
        -- each of the three sums is the INT sum value, as none of them overflowed
        have key : ∀ (is : List Int) (x : Value), sumOf (is.map Value.int) = some x → x = intSumValue is := by
          intro is x hx
          cases is with
          | nil => simp [sumOf] at hx; rw [← hx]; rfl
          | cons i is' =>
            have hi := ints_map_int (i :: is')
            simp only [List.map_cons] at hi
            simp only [sumOf, List.map_cons, hi] at hx
            split at hx
            · simp only [Option.some.injEq] at hx; rw [← hx]; simp [intSumValue]
            · simp at hx
        rw [key _ _ h1, key _ _ h2, key _ _ h, intSumValue_append]
        rfl
  | min e =>
    simp only [aggregate] at h1 h2 h
    split at h1
    · split at h2
      · split at h
        · simp only [Option.some.injEq] at h1 h2 h
          rw [← h1, ← h2, ← h, nonNull_append]
          exact extreme_merge true _ _ (nonNull_all v1) (nonNull_all v2)
        · simp at h
      · simp at h2
    · simp at h1
  | max e =>
    simp only [aggregate] at h1 h2 h
    split at h1
    · split at h2
      · split at h
        · simp only [Option.some.injEq] at h1 h2 h
          rw [← h1, ← h2, ← h, nonNull_append]
          exact extreme_merge false _ _ (nonNull_all v1) (nonNull_all v2)
        · simp at h
      · simp at h2
    · simp at h1
  | _ => simp [mergeable] at hk

/-- statements whose table over a concatenation is determined by the tables over the parts: key columns, COUNT,
SUM, MIN, MAX without arithmetic wrappers, no HAVING / DISTINCT / LIMIT -/
structure MergeableStmt (q : AggStmt) : Prop where
  kinds : ∀ item ∈ q.items, mergeable item.kind = true ∧ item.transform = none
  noHaving : q.having = none
  noDistinct : q.distinct = false
  noLimit : q.limit = none

def combineRow : List AggItem → List Value → List Value → List Value
  | item :: items, x :: xs, y :: ys => mergeCell item.kind x y :: combineRow items xs ys
  | _, _, _ => []

theorem cell_merge {O : Oracles} {q : AggStmt} {item : AggItem} (hm : mergeable item.kind = true) (ht : item.transform = none)
    (key : List Value) (g1 g2 : List Env) {a b r : Value}
    (h1 : cell O q key g1 item = some a) (h2 : cell O q key g2 item = some b) (h : cell O q key (g1 ++ g2) item = some r)
    (hint : ∀ e v1 v2, item.kind = .sum e → arguments O q item.kind g1 = some v1 → arguments O q item.kind g2 = some v2 →
      (ints (nonNull v1)).isSome ∧ (ints (nonNull v2)).isSome) :
    r = mergeCell item.kind a b := by
  by_cases hk : ∃ e c, item.kind = .groupKey e c
  · obtain ⟨e, c, hk⟩ := hk
    simp only [cell, hk] at h1 h
    rw [h1] at h
    simp only [Option.some.injEq] at h
    rw [hk, ← h]; rfl
  · have hk' : ∀ e c, item.kind ≠ .groupKey e c := fun e c he => hk ⟨e, c, he⟩
    rw [cell_nonkey O q key _ item hk'] at h1 h2 h
    simp only [ht, applyTransform, okOf] at h1 h2 h
    unfold groupValue at h1 h2 h
    cases ha1 : arguments O q item.kind g1 with
    | none => simp [ha1] at h1
    | some v1 =>
      cases ha2 : arguments O q item.kind g2 with
      | none => simp [ha2] at h2
      | some v2 =>
        rw [arguments_append ha1 ha2] at h
        simp only [ha1, ha2, Option.bind_some] at h1 h2 h
        cases hg1 : aggregate item.kind v1 with
        | none => simp [hg1] at h1
        | some a' =>
          cases hg2 : aggregate item.kind v2 with
          | none => simp [hg2] at h2
          | some b' =>
            cases hg : aggregate item.kind (v1 ++ v2) with
            | none => simp [hg] at h
            | some r' =>
              simp only [hg1, hg2, hg, Option.bind_some, Option.some.injEq] at h1 h2 h
              rw [← h1, ← h2, ← h]
              exact aggregate_merge item.kind hm v1 v2 hg1 hg2 hg (fun e he => hint e v1 v2 he ha1 ha2)

theorem row_merge {O : Oracles} {q : AggStmt} (key : List Value) (g1 g2 : List Env) (items : List AggItem)
    (hitems : ∀ item ∈ items, mergeable item.kind = true ∧ item.transform = none)
    (hint : ∀ item ∈ items, ∀ e v1 v2, item.kind = .sum e → arguments O q item.kind g1 = some v1 →
      arguments O q item.kind g2 = some v2 → (ints (nonNull v1)).isSome ∧ (ints (nonNull v2)).isSome)
    {a b r : List Value}
    (h1 : collect (items.map (cell O q key g1)) = some a) (h2 : collect (items.map (cell O q key g2)) = some b)
    (h : collect (items.map (cell O q key (g1 ++ g2))) = some r) :
    r = combineRow items a b := by
  induction items generalizing a b r with
  | nil => simp [collect] at h; subst h; rfl
  | cons item rest ih =>
    simp only [List.map_cons] at h1 h2 h
    cases hc1 : cell O q key g1 item with
    | none => simp [hc1, collect] at h1
    | some x =>
      cases hc2 : cell O q key g2 item with
      | none => simp [hc2, collect] at h2
      | some y =>
        cases hc : cell O q key (g1 ++ g2) item with
        | none => simp [hc, collect] at h
        | some z =>
          rw [hc1] at h1; rw [hc2] at h2; rw [hc] at h
          obtain ⟨a', ha', ha⟩ := collect_eq_some_cons h1
          obtain ⟨b', hb', hb⟩ := collect_eq_some_cons h2
          obtain ⟨r', hr', hr⟩ := collect_eq_some_cons h
          subst ha; subst hb; subst hr
          simp only [combineRow]
          rw [cell_merge (hitems item (by simp)).1 (hitems item (by simp)).2 key g1 g2 hc1 hc2 hc (hint item (by simp))]
          rw [ih (fun it hit => hitems it (by simp [hit])) (fun it hit => hint it (by simp [hit])) ha' hb' hr']

/-- the specification's table with the group key attached to every row (no HAVING / DISTINCT / LIMIT) -/
def keyedTable (O : Oracles) (q : AggStmt) (rows : List (List Value × Env)) : Option (List (List Value × List Value)) :=
  collect ((groups rows).map (fun kg => (row O q kg.1 kg.2).map (fun r => (kg.1, r))))

def lookupKey (T : List (List Value × List Value)) (k : List Value) : Option (List Value) :=
  (T.find? (fun p => sameKey p.1 k)).map (·.2)

/-- **the key-wise combination**: the groups are the union of the groups; a group present in both parts combines its
rows cell by cell (`combineRow`: counts and sums add, minima and maxima combine, key columns stay), a group present in
one part keeps its row -/
def mergeKeyed (q : AggStmt) (T1 T2 : List (List Value × List Value)) : List (List Value × List Value) :=
  (distinctKeys (T1.map (·.1) ++ T2.map (·.1))).map (fun k =>
    (k, match lookupKey T1 k, lookupKey T2 k with
      | some a, some b => combineRow q.items a b
      | some a, none => a
      | none, some b => b
      | none, none => []))

theorem collect_map_keys {α β : Type} {l : List α} {f : α → Option β} {g : α → List Value} {r : List (List Value × β)}
    (h : collect (l.map (fun x => (f x).map (fun y => (g x, y)))) = some r) :
    r.map (·.1) = l.map g ∧ ∀ x ∈ l, ∃ y, f x = some y ∧ (g x, y) ∈ r := by
  induction l generalizing r with
  | nil => simp [collect] at h; subst h; simp
  | cons x xs ih =>
    simp only [List.map_cons] at h
    cases hf : f x with
    | none => simp [hf, collect] at h
    | some y =>
      simp only [hf, Option.map_some] at h
      obtain ⟨r', hr', hr⟩ := collect_eq_some_cons h
      subst hr
      obtain ⟨hk, hm⟩ := ih hr'
      refine ⟨by simp [hk], ?_⟩
      intro z hz
      rcases List.mem_cons.mp hz with hz | hz
      · subst hz; exact ⟨y, hf, by simp⟩
      · obtain ⟨y', hy', hm'⟩ := hm z hz
        exact ⟨y', hy', by simp [hm']⟩

/-- what a keyed table says about a key -/
theorem keyedTable_lookup {O : Oracles} {q : AggStmt} {rows : List (List Value × Env)} {T : List (List Value × List Value)}
    (h : keyedTable O q rows = some T) (_hex : KeysExact (rows.map (·.1))) :
    T.map (·.1) = distinctKeys (rows.map (·.1)) ∧
    (∀ k ∈ distinctKeys (rows.map (·.1)), lookupKey T k = row O q k (rowsOfKey k rows) ∧ (lookupKey T k).isSome) ∧
    (∀ k, k ∉ distinctKeys (rows.map (·.1)) → (∀ k' ∈ rows.map (·.1), cmpList k' k ≠ .eq) → lookupKey T k = none) := by
  unfold keyedTable at h
  obtain ⟨hkeys, hmem⟩ := collect_map_keys (f := fun (kg : List Value × List Env) => row O q kg.1 kg.2)
    (g := fun (kg : List Value × List Env) => kg.1) h
  have hk : T.map (·.1) = distinctKeys (rows.map (·.1)) := by
    rw [hkeys]
    simp only [groups, List.map_map]
    exact List.map_id _
  have hsorted : (T.map (·.1)).Pairwise KeyLt := by rw [hk]; exact distinctKeys_sorted _
  -- in a table with strictly ascending keys, the entry of a key is found by lookup
  have hfind : ∀ (T : List (List Value × List Value)), (T.map (·.1)).Pairwise KeyLt → ∀ k r, (k, r) ∈ T → lookupKey T k = some r := by
    intro T
    induction T with
    | nil => intro _ k r hm; simp at hm
    | cons p T ih =>
      intro hs k r hm
      simp only [List.map_cons, List.pairwise_cons] at hs
      rcases List.mem_cons.mp hm with hm | hm
      · subst hm; simp [lookupKey, List.find?, sameKey, cmpList_refl]
      · have hlt : cmpList p.1 k = .lt := hs.1 k (List.mem_map.mpr ⟨(k, r), hm, rfl⟩)
        have := ih hs.2 k r hm
        simp only [lookupKey, List.find?, sameKey, hlt] at this ⊢
        simpa using this
  refine ⟨hk, ?_, ?_⟩
  · intro k hkm
    have hg : (k, rowsOfKey k rows) ∈ groups rows := List.mem_map.mpr ⟨k, hkm, rfl⟩
    obtain ⟨y, hy, hym⟩ := hmem _ hg
    simp only at hy hym
    rw [hfind T hsorted k y hym, hy]; simp
  · intro k _ hno
    unfold lookupKey
    have : T.find? (fun p => sameKey p.1 k) = none := by
      apply List.find?_eq_none.mpr
      intro p hp
      have hp1 : p.1 ∈ rows.map (·.1) := distinctKeys_sub _ _ (by rw [← hk]; exact List.mem_map.mpr ⟨p, hp, rfl⟩)
      simp [sameKey, hno p.1 hp1]
    rw [this]; rfl

theorem collect_map_eq {α β : Type} {l : List α} {f : α → Option (List β)} {g : α → List Value} {r : List (List Value × List β)}
    (h : collect (l.map (fun x => (f x).map (fun y => (g x, y)))) = some r) :
    r = l.map (fun x => (g x, (f x).getD [])) := by
  induction l generalizing r with
  | nil => simp [collect] at h; subst h; rfl
  | cons x xs ih =>
    simp only [List.map_cons] at h
    cases hf : f x with
    | none => simp [hf, collect] at h
    | some y =>
      simp only [hf, Option.map_some] at h
      obtain ⟨r', hr', hr⟩ := collect_eq_some_cons h
      subst hr
      simp [hf, ih hr']

theorem rowsOfKey_nil_of_absent {rows : List (List Value × Env)} {k : List Value}
    (h : ∀ k' ∈ rows.map (·.1), cmpList k' k ≠ .eq) : rowsOfKey k rows = [] := by
  unfold rowsOfKey
  have : rows.filter (fun r => sameKey r.1 k) = [] := by
    apply List.filter_eq_nil_iff.mpr
    intro r hr
    simp [sameKey, h r.1 (List.mem_map.mpr ⟨r, hr, rfl⟩)]
  rw [this]; rfl

/-- **`agg_concat_merge`, table level.** For a statement made of key columns, COUNT, SUM (over INT), MIN and MAX
(no arithmetic wrapper, HAVING, DISTINCT, LIMIT) and two lists of admitted rows with exact keys: the keyed result table
over the concatenation is the key-wise combination (`mergeKeyed`) of the keyed tables over the parts. -/
theorem keyedTable_concat {O : Oracles} {q : AggStmt} (hm : MergeableStmt q) (r1 r2 : List (List Value × Env))
    (hex : KeysExact ((r1 ++ r2).map (·.1))) {T T1 T2 : List (List Value × List Value)}
    (hT : keyedTable O q (r1 ++ r2) = some T) (hT1 : keyedTable O q r1 = some T1) (hT2 : keyedTable O q r2 = some T2)
    (hint : ∀ k, ∀ item ∈ q.items, ∀ e v1 v2, item.kind = .sum e → arguments O q item.kind (rowsOfKey k r1) = some v1 →
      arguments O q item.kind (rowsOfKey k r2) = some v2 → (ints (nonNull v1)).isSome ∧ (ints (nonNull v2)).isSome) :
    T = mergeKeyed q T1 T2 := by
  have hex1 : KeysExact (r1.map (·.1)) := fun a ha b hb => hex a (by simp [List.map_append]; exact Or.inl (by simpa using ha)) b
    (by simp [List.map_append]; exact Or.inl (by simpa using hb))
  have hex2 : KeysExact (r2.map (·.1)) := fun a ha b hb => hex a (by simp [List.map_append]; exact Or.inr (by simpa using ha)) b
    (by simp [List.map_append]; exact Or.inr (by simpa using hb))
  obtain ⟨hk1, hl1, hn1⟩ := keyedTable_lookup hT1 hex1
  obtain ⟨hk2, hl2, hn2⟩ := keyedTable_lookup hT2 hex2
  obtain ⟨_, hl, _⟩ := keyedTable_lookup hT hex
  have hTeq := collect_map_eq (f := fun (kg : List Value × List Env) => row O q kg.1 kg.2)
    (g := fun (kg : List Value × List Env) => kg.1) hT
  -- the key list of the combination
  have hkeys : distinctKeys (T1.map (·.1) ++ T2.map (·.1)) = distinctKeys ((r1 ++ r2).map (·.1)) := by
    rw [hk1, hk2]
    have hexu : KeysExact (distinctKeys (r1.map (·.1)) ++ distinctKeys (r2.map (·.1))) := by
      intro a ha b hb hab
      have ha' : a ∈ (r1 ++ r2).map (·.1) := by
        rw [List.map_append, List.mem_append]
        rcases List.mem_append.mp ha with h | h
        · exact Or.inl (distinctKeys_sub _ _ h)
        · exact Or.inr (distinctKeys_sub _ _ h)
      have hb' : b ∈ (r1 ++ r2).map (·.1) := by
        rw [List.map_append, List.mem_append]
        rcases List.mem_append.mp hb with h | h
        · exact Or.inl (distinctKeys_sub _ _ h)
        · exact Or.inr (distinctKeys_sub _ _ h)
      exact hex a ha' b hb' hab
    apply sorted_ext (distinctKeys_sorted _) (distinctKeys_sorted _)
    intro x
    rw [distinctKeys_mem_iff hexu, distinctKeys_mem_iff hex, List.mem_append, List.map_append, List.mem_append,
      distinctKeys_mem_iff hex1, distinctKeys_mem_iff hex2]
  rw [hTeq]
  unfold mergeKeyed
  rw [hkeys]
  simp only [groups, List.map_map]
  apply List.map_congr_left
  intro k hk
  simp only [Function.comp]
  congr 1
  -- the row of group k over the whole, against the parts
  obtain ⟨hrow, _⟩ := hl k hk
  have hkmem : k ∈ (r1 ++ r2).map (·.1) := distinctKeys_sub _ _ hk
  rw [rowsOfKey_append] at hrow ⊢
  by_cases h1 : k ∈ distinctKeys (r1.map (·.1))
  · obtain ⟨hr1, hs1⟩ := hl1 k h1
    by_cases h2 : k ∈ distinctKeys (r2.map (·.1))
    · obtain ⟨hr2, hs2⟩ := hl2 k h2
      cases ha : row O q k (rowsOfKey k r1) with
      | none => rw [hr1, ha] at hs1; simp at hs1
      | some a =>
        cases hb : row O q k (rowsOfKey k r2) with
        | none => rw [hr2, hb] at hs2; simp at hs2
        | some b =>
          cases hr : row O q k (rowsOfKey k r1 ++ rowsOfKey k r2) with
          | none =>
            rw [hr] at hrow
            have := (hl k hk).2
            rw [hrow] at this; simp at this
          | some r =>
            rw [hr1, hr2, ha, hb]
            simp only [Option.getD_some]
            exact row_merge k _ _ q.items hm.kinds (fun item hi e v1 v2 => hint k item hi e v1 v2) ha hb hr
    · -- only in the first part
      have habs : ∀ k' ∈ r2.map (·.1), cmpList k' k ≠ .eq := by
        intro k' hk' he
        have : k' = k := hex k' (by rw [List.map_append, List.mem_append]; exact Or.inr hk') k hkmem he
        subst this
        exact h2 ((distinctKeys_mem_iff hex2 k').mpr hk')
      rw [rowsOfKey_nil_of_absent habs, List.append_nil, hn2 k h2 habs, hr1]
      cases ha : row O q k (rowsOfKey k r1) with
      | none => rw [hr1, ha] at hs1; simp at hs1
      | some a => rfl
  · have habs1 : ∀ k' ∈ r1.map (·.1), cmpList k' k ≠ .eq := by
      intro k' hk' he
      have : k' = k := hex k' (by rw [List.map_append, List.mem_append]; exact Or.inl hk') k hkmem he
      subst this
      exact h1 ((distinctKeys_mem_iff hex1 k').mpr hk')
    have h2 : k ∈ distinctKeys (r2.map (·.1)) := by
      rw [List.map_append, List.mem_append] at hkmem
      rcases hkmem with h | h
      · exact absurd ((distinctKeys_mem_iff hex1 k).mpr h) h1
      · exact (distinctKeys_mem_iff hex2 k).mpr h
    obtain ⟨hr2, hs2⟩ := hl2 k h2
    rw [rowsOfKey_nil_of_absent habs1, List.nil_append, hn1 k h1 habs1, hr2]
    cases hb : row O q k (rowsOfKey k r2) with
    | none => rw [hr2, hb] at hs2; simp at hs2
    | some b => rfl

/-- for such a statement the result table is the keyed table without its keys (every group is kept: no HAVING,
DISTINCT or LIMIT) -/
theorem tableOfGroups_mergeable {O : Oracles} {q : AggStmt} (hm : MergeableStmt q) (gs : List (List Value × List Env)) :
    tableOfGroups O q gs =
      (collect (gs.map (fun kg => (row O q kg.1 kg.2).map (fun r => (kg.1, r))))).map (fun T => T.map (·.2)) := by
  rw [tableOfGroups_eq]
  have hper : ∀ kg : List Value × List Env, perGroup O q kg = (row O q kg.1 kg.2).map (fun r => (r, true)) := by
    intro kg
    simp only [perGroup, accept, hm.noHaving]
    cases row O q kg.1 kg.2 <;> rfl
  have : ∀ gs : List (List Value × List Env),
      (match collect (gs.map (perGroup O q)) with
        | none => none
        | some all => some (keptRows all)) =
      (collect (gs.map (fun kg => (row O q kg.1 kg.2).map (fun r => (kg.1, r))))).map (fun T => T.map (·.2)) := by
    intro gs
    induction gs with
    | nil => rfl
    | cons g rest ih =>
      simp only [List.map_cons, hper]
      cases hr : row O q g.1 g.2 with
      | none => simp [collect]
      | some r =>
        simp only [Option.map_some, collect_cons_some]
        cases h1 : collect (rest.map (perGroup O q)) with
        | none =>
          simp only [h1] at ih
          cases h2 : collect (rest.map (fun kg => (row O q kg.1 kg.2).map (fun r => (kg.1, r)))) with
          | none => simp
          | some T => rw [h2] at ih; simp at ih
        | some all =>
          simp only [h1] at ih
          cases h2 : collect (rest.map (fun kg => (row O q kg.1 kg.2).map (fun r => (kg.1, r)))) with
          | none => rw [h2] at ih; simp at ih
          | some T =>
            rw [h2] at ih
            simp only [Option.map_some, Option.some.injEq] at ih
            simp [keptRows, ← ih]
  have := this gs
  simp only [hm.noDistinct, hm.noLimit, Bool.false_eq_true, if_false]
  cases hc : collect (gs.map (perGroup O q)) with
  | none => rw [hc] at this; simpa using this
  | some all => rw [hc] at this; simpa using this

theorem keyed_of_table {O : Oracles} {q : AggStmt} (hm : MergeableStmt q) {envs : List Env} {t : List (List Value)}
    (h : table O q envs = some t) :
    ∃ rows T, keyedRows O q envs = some rows ∧ KeysExact (rows.map (·.1)) ∧ keyedTable O q rows = some T ∧ t = T.map (·.2) := by
  cases hr : keyedRows O q envs with
  | none => simp [table, hr] at h
  | some rows =>
    obtain ⟨htab, hex⟩ := table_of_keyed hr h
    rw [tableOfGroups_mergeable hm] at htab
    cases hc : collect ((groups rows).map (fun kg => (row O q kg.1 kg.2).map (fun r => (kg.1, r)))) with
    | none => rw [hc] at htab; simp at htab
    | some T =>
      rw [hc] at htab
      simp only [Option.map_some, Option.some.injEq] at htab
      exact ⟨rows, T, rfl, hex, hc, htab.symm⟩

/-- **`agg_concat_merge`.** For a statement of key columns, COUNT, SUM over INT, MIN and MAX (any GROUP BY and WHERE) and
two inputs: if the specification fixes the tables over `r₁`, over `r₂` and over `r₁ ++ r₂`, then the table over the
concatenation is the key-wise combination of the tables over the parts: the groups are the union, counts and sums
add, minima and maxima combine. (The tables are taken with their group keys attached, `T.map (·.2)` being the tables
themselves — without the key, rows of different groups need not be distinguishable.) -/
theorem table_concat_merge {O : Oracles} {q : AggStmt} (hm : MergeableStmt q) (r₁ r₂ : List Env) {t t₁ t₂ : List (List Value)}
    (h : table O q (r₁ ++ r₂) = some t) (h₁ : table O q r₁ = some t₁) (h₂ : table O q r₂ = some t₂)
    (hint : ∀ k₁ k₂, keyedRows O q r₁ = some k₁ → keyedRows O q r₂ = some k₂ →
      ∀ k, ∀ item ∈ q.items, ∀ e v1 v2, item.kind = .sum e → arguments O q item.kind (rowsOfKey k k₁) = some v1 →
        arguments O q item.kind (rowsOfKey k k₂) = some v2 → (ints (nonNull v1)).isSome ∧ (ints (nonNull v2)).isSome) :
    ∃ T T₁ T₂, t = T.map (·.2) ∧ t₁ = T₁.map (·.2) ∧ t₂ = T₂.map (·.2) ∧ T = mergeKeyed q T₁ T₂ := by
  obtain ⟨k, T, hk, hex, hT, ht⟩ := keyed_of_table hm h
  obtain ⟨k₁, T₁, hk₁, _, hT₁, ht₁⟩ := keyed_of_table hm h₁
  obtain ⟨k₂, T₂, hk₂, _, hT₂, ht₂⟩ := keyed_of_table hm h₂
  have := keyedRows_append O q r₁ r₂ hk₁ hk₂
  rw [hk] at this
  simp only [Option.some.injEq] at this
  subst this
  exact ⟨T, T₁, T₂, ht, ht₁, ht₂, keyedTable_concat hm k₁ k₂ hex hT hT₁ hT₂ (hint k₁ k₂ hk₁ hk₂)⟩

end Sqlgrep
