import SqlgrepModel.Codec
import SqlgrepModel.Model.CompareIntFloat
/- Driver handlers for C16 cases: `cmp3 a b c` → model answers for the pair/triple; `cmpir (int i) (real bits)` → the
   ALGORITHM of `compare_int_float` (`F64.compareIntFloatAlgo`) next to the specification (`F64.cmpIntReal`). -/
namespace Sqlgrep.Drivers.C16
open Sqlgrep

def handle (args : List Sexp) : String :=
  match args.mapM Value.ofSexp with
  | some [a, b, c] =>
    let o (x y : Value) := showOrdering (Value.cmp x y)
    let e (x y : Value) := if Value.beq x y then "1" else "0"
    let h (x y : Value) := if Value.hashRepr x == Value.hashRepr y then "1" else "0"
    s!"cmp {o a b} {o b c} {o a c} {o b a} eq {e a b} {e b c} {e a c} {e a a} hash {h a b} {h b c} {h a c}"
  | _ => "bad-case"

/-- `cmpir i y`: what `compare_values(Int(i), Float(y))` answers, computed by the algorithm of the code
(`Model/CompareIntFloat.lean`) and, next to it, by the specification `compareValues` uses (`Props/C16.lean`
`int_real_comparison_algorithm_is_exact`: the two are equal); then the mirrored call `compare_values(Float(y), Int(i))` -/
def handleCmpir (args : List Sexp) : String :=
  match args.mapM Value.ofSexp with
  | some [.int i, .real n] =>
    s!"cmpir algo {showOrdering (F64.compareIntFloatAlgo i n)} spec {showOrdering (F64.cmpIntReal i n)} rev {showOrdering (F64.compareIntFloatAlgo i n).swap}"
  | _ => "bad-case"

end Sqlgrep.Drivers.C16
