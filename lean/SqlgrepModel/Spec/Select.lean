import SqlgrepModel.Model.Exec
/-
Executable SPECIFICATION of non-aggregate queries (properties C03 select level, C07, C08; joins enter only
through `lineEnvs`, whose meaning is C05's), written from the property sentences:

* C03: in input order, one row for every admitted input row (one per join partner) on which WHERE is true,
  containing the projected expressions evaluated on that row alone; `*` = all columns in definition order;
  names = alias, else column name, else p<i> (the lowering has already put them into `projections`).
* C08: DISTINCT outputs a row exactly when no earlier output row has the same tuple of values
  (`dedupFirst tupleSame`: first occurrences, order and content otherwise unchanged).
* C07: LIMIT n outputs exactly the first n rows of that (`take n`); no input is consumed beyond the line that
  produced the n-th row, none at all for n = 0.

The row stream is kept grouped by input line ("blocks"), because the text printer separates the rows of one
line's result table from what follows by an empty line when there are several; grouping never changes the rows
or their order (`dedupBlocks_flatten`, `takeBlocks_flatten` in Lemmas/SelectList.lean).
`batch` returns the spec's answer for a whole batch run, or `none` where the sentences do not fix the outcome
(an evaluation error on some line, an unreadable line, a join that cannot be set up).
-/
namespace Sqlgrep.Spec.Select
open Sqlgrep

/-! ### list vocabulary -/

/-- first occurrences relative to a memory `seen` (most recent first): `x` survives iff nothing in `seen`
and no earlier survivor is the same -/
def dedupFrom {α : Type} (same : α → α → Bool) (seen : List α) : List α → List α
  | [] => []
  | x :: xs => if seen.any (same x) then dedupFrom same seen xs else x :: dedupFrom same (x :: seen) xs

/-- each distinct element once, at its first occurrence -/
def dedupFirst {α : Type} (same : α → α → Bool) (xs : List α) : List α := dedupFrom same [] xs

/-- `dedupFrom` over a stream grouped into blocks, the grouping kept -/
def dedupBlocks {α : Type} (same : α → α → Bool) (seen : List α) : List (List α) → List (List α)
  | [] => []
  | b :: bs =>
    let kept := dedupFrom same seen b
    kept :: dedupBlocks same (kept.reverse ++ seen) bs

/-- `take n` over a stream grouped into blocks, the grouping kept (exhausted blocks stay as empty blocks) -/
def takeBlocks {α : Type} : Nat → List (List α) → List (List α)
  | _, [] => []
  | n, b :: bs => b.take n :: takeBlocks (n - b.length) bs

/-- number of leading blocks needed to obtain `n` elements: the length of the shortest prefix holding at least
`n` elements (all blocks when there are fewer; 0 for `n = 0`) -/
def consumed {α : Type} : Nat → List (List α) → Nat
  | 0, _ => 0
  | _, [] => 0
  | n + 1, b :: bs => 1 + (if b.length ≥ n + 1 then 0 else consumed (n + 1 - b.length) bs)

/-! ### rows of one line (C03) -/

def outNames (q : SelectStmt) (keys : List String) : List String :=
  if q.wildcard then keys else q.projections.map (·.1)

def outExprs (q : SelectStmt) (keys : List String) : List Expr :=
  if q.wildcard then keys.map Expr.column else q.projections.map (·.2)

/-- the row of one environment: WHERE, then the projections, both evaluated on that environment alone. WHERE is a
condition: it holds (BOOLEAN true), does not hold (BOOLEAN false, NULL), or — a value of another type — has no truth
value, and then the answer is an error, not "no row" (C03: a type mismatch is reported) -/
def envRow (O : Oracles) (q : SelectStmt) (env : Env) (keys : List String) : Outcome (Option (List Value)) := do
  let valid ← (match q.filter with
    | some f => do
      let v ← eval O env f
      condHolds v
    | none => pure true : Outcome Bool)
  if valid then do
    let vals ← evalList O env (outExprs q keys)
    pure (some vals)
  else pure none

def envsRows (O : Oracles) (q : SelectStmt) : List (Env × List String) → Outcome (List (List Value))
  | [] => .ok []
  | (env, keys) :: rest => do
    let r ← envRow O q env keys
    let rs ← envsRows O q rest
    pure (r.toList ++ rs)

/-- candidate rows of one input line, before DISTINCT and LIMIT: none for a line that is not admitted, else one
per environment of the line (the line itself, or one per join partner) on which WHERE is true -/
def lineRows (O : Oracles) (qy : Query) (q : SelectStmt) (idx : JoinIndex) (l : Line) : Outcome (List (List Value)) :=
  if !anyResult l.row then .ok []
  else do
    let envs ← lineEnvs qy idx true l
    envsRows O q envs

def linesRows (O : Oracles) (qy : Query) (q : SelectStmt) (idx : JoinIndex) : List Line → Outcome (List (List (List Value)))
  | [] => .ok []
  | l :: ls => do
    let b ← lineRows O qy q idx l
    let bs ← linesRows O qy q idx ls
    pure (b :: bs)

/-- the keys `*` expands to: the table's columns in definition order, then the joined table's (qualified when
the name is taken) -/
def queryKeys (qy : Query) : List String :=
  match qy.join with
  | none => qy.table.columns
  | some j => qy.table.columns ++ j.joined.columns.map (fun n => if qy.table.columns.contains n then j.joined.name ++ "." ++ n else n)

def columnsOf (qy : Query) (q : SelectStmt) : List String := outNames q (queryKeys qy)

/-! ### the whole run -/

/-- DISTINCT: first occurrences over the whole stream -/
def applyDistinct (distinct : Bool) (blocks : List (List (List Value))) : List (List (List Value)) :=
  if distinct then dedupBlocks tupleSame [] blocks else blocks

/-- LIMIT: the first n rows of the stream -/
def applyLimit (limit : Option Nat) (blocks : List (List (List Value))) : List (List (List Value)) :=
  match limit with
  | some n => takeBlocks n blocks
  | none => blocks

/-- lines consumed: all of them, or — with LIMIT n — those up to the one that produced the n-th row -/
def linesConsumed (limit : Option Nat) (blocks : List (List (List Value))) : Nat :=
  match limit with
  | some n => consumed n blocks
  | none => blocks.length

/-- the row blocks the run outputs, given the candidate rows of every line -/
def outBlocks (q : SelectStmt) (blocks : List (List (List Value))) : List (List (List Value)) :=
  applyLimit q.limit (applyDistinct q.distinct blocks)

/-- text records of one line's rows (an empty block prints nothing) -/
def printBlock (columns : List String) (rows : List (List Value)) : List String :=
  printResult { columns := columns, rows := rows } false

def render (columns : List String) (blocks : List (List (List Value))) : List String :=
  blocks.flatMap (printBlock columns)

/-- the outcome of a run over `lines` whose candidate rows are `blocks` -/
def runOf (qy : Query) (q : SelectStmt) (blocks : List (List (List Value))) : RunOut :=
  { printed := render (columnsOf qy q) (outBlocks q blocks),
    totalLines := linesConsumed q.limit (applyDistinct q.distinct blocks) }

def joinIndexOf (qy : Query) (joined : List FileLine) : Outcome JoinIndex :=
  match qy.join with
  | some j => setupJoin qy.table j (loadJoinFile j joined)
  | none => .ok []

/-- candidate rows of every line of every file, when the join can be set up, every line is readable and every
expression has a value on every admitted line -/
def batchBlocks (O : Oracles) (qy : Query) (q : SelectStmt) (joined : List FileLine) (files : List (List FileLine)) :
    Option (List (List (List Value))) :=
  match joinIndexOf qy joined with
  | .ok idx =>
    if files.flatten.all (·.readable) then
      match linesRows O qy q idx (files.flatten.map (·.line)) with
      | .ok blocks => some blocks
      | _ => none
    else none
  | _ => none

def classOf (qy : Query) (q : SelectStmt) : String :=
  "select-spec" ++ (if q.distinct then ":distinct" else "") ++ (if q.limit.isSome then ":limit" else "") ++
    (if qy.join.isSome then ":join" else "")

def batch (O : Oracles) (qy : Query) (q : SelectStmt) (joined : List FileLine) (files : List (List FileLine)) :
    Option (RunOut × String) :=
  (batchBlocks O qy q joined files).map (fun blocks => (runOf qy q blocks, classOf qy q))

end Sqlgrep.Spec.Select
