import SqlgrepModel.Lemmas.ReaderLines
import SqlgrepModel.Model.ExecI
import SqlgrepModel.Model.Pipeline
/-
Link between the two models of the double loop of `FileExecutor::execute`:
`Reader.execFiles` (Model/Reader.lean, over bytes, generic in the engine; the subject of C12) and `runFiles`
(Model/Exec.lean, over `FileLine`s with the real engine, LIMIT and the final state; what `runBatch`, `runBatchI` and
`Pipeline.runText` execute). `runFiles` over the files' `Reader.lines` IS `execFiles` with the engine step
`lineStep` (a LIMIT stop and an engine failure both end the loop and are carried as the `engineError` payload).
-/
namespace Sqlgrep
open Reader

/-- an item of `BufRead::lines` as the batch loop sees it (`mk` = text ↦ line with its extracted row) -/
def toFileLine (mk : List Nat → Line) : Except Unit (List Nat) → FileLine
  | .ok l => { readable := true, line := mk l }
  | .error _ => { readable := false, line := { text := [], row := [] } }

/-- a file's bytes as the batch loop sees them -/
def fileOf (mk : List Nat → Line) (bytes : List Nat) : List FileLine := (lines bytes).map (toFileLine mk)

/-- one readable line through the engine, as `runFile` does it: `.error` carries the state in which the loop is left
(LIMIT reached, or the engine failed) -/
def lineStep (O : Oracles) (qy : Query) (idx : JoinIndex) (w : Bool) (mk : List Nat → Line)
    (ls : LoopState) (l : List Nat) : Except LoopState LoopState :=
  let ls := { ls with consumed := ls.consumed + 1, out := { ls.out with totalLines := ls.out.totalLines + 1 } }
  match executeLine O qy idx w ls.es (mk l) with
  | .ok (es, lo) =>
    let printed := match lo.result with
      | some r => printResult r false
      | none => []
    let ls := { ls with es := es, out := { ls.out with printed := ls.out.printed ++ printed } }
    if lo.reachedLimit then .error { ls with stop := true } else .ok ls
  | o => .error { ls with out := failWith ls.out o, stop := true }

/-- how `runFile`/`runFiles` leave the loop for each way `feed`/`execFiles` end -/
def finish : LoopState × Status LoopState → LoopState
  | (s, .ok) => s
  | (s, .readError) => { s with out := { s.out with error := some .failReadFile }, stop := true }
  | (_, .engineError e) => e

theorem runFile_eq_feed (O : Oracles) (qy : Query) (idx : JoinIndex) (w : Bool) (mk : List Nat → Line)
    (items : List (Except Unit (List Nat))) (ls : LoopState) :
    runFile O qy idx w none (items.map (toFileLine mk)) ls = finish (feed (lineStep O qy idx w mk) ls items) := by
  induction items generalizing ls with
  | nil => simp [runFile, feed, finish]
  | cons x rest ih =>
    have h2 : ((none : Option Nat) == some ls.consumed) = false := by simp
    cases x with
    | error u => simp [runFile, feed, finish, toFileLine]
    | ok l =>
      simp only [List.map_cons, toFileLine, runFile, h2, Bool.false_eq_true, if_false, Bool.not_true, feed, lineStep]
      cases hx : executeLine O qy idx w ls.es (mk l) with
      | ok p =>
        obtain ⟨es1, lo1⟩ := p
        simp only
        by_cases hl : lo1.reachedLimit = true
        · simp only [hl, if_true, finish]
          rfl
        · simp only [hl, Bool.false_eq_true, if_false]
          exact ih _
      | error e => simp [finish]
      | panic s => simp [finish]
      | oracleMissing s => simp [finish]

theorem lineStep_ok_stop {O : Oracles} {qy : Query} {idx : JoinIndex} {w : Bool} {mk : List Nat → Line}
    {ls ls' : LoopState} {l : List Nat} (h : lineStep O qy idx w mk ls l = .ok ls') : ls'.stop = ls.stop := by
  unfold lineStep at h
  simp only at h
  split at h
  · split at h
    · cases h
    · cases h; rfl
  · cases h

theorem lineStep_error_stop {O : Oracles} {qy : Query} {idx : JoinIndex} {w : Bool} {mk : List Nat → Line}
    {ls e : LoopState} {l : List Nat} (h : lineStep O qy idx w mk ls l = .error e) : e.stop = true := by
  unfold lineStep at h
  simp only at h
  split at h
  · split at h
    · cases h; rfl
    · cases h
  · cases h; rfl

/-- the engine reports "limit reached" with every line from which on the limit is reached -/
theorem executeLine_limit_flag (O : Oracles) (qy : Query) (idx : JoinIndex) (w : Bool) (es es' : EngineState) (l : Line)
    (lo : LineOut) (h : executeLine O qy idx w es l = .ok (es', lo)) (hl : lo.reachedLimit = false) :
    reachedLimit qy es' = false := by
  cases hq : qy.stmt with
  | aggregate q => simp [reachedLimit, hq]
  | select q =>
    have key : ∀ (e : EngineState) (r : Option RowOut), updateLimit true q.limit e r = (es', lo) → reachedLimit qy es' = false := by
      intro e r hu
      unfold updateLimit at hu
      simp only [Prod.mk.injEq] at hu
      obtain ⟨h1, h2⟩ := hu
      rw [← h2] at hl
      rw [← h1]
      simp only [reachedLimit, hq]
      cases hlim : q.limit with
      | none => rfl
      | some n => simp only [hlim] at hl ⊢; exact hl
    unfold executeLine at h
    simp only [hq] at h
    split at h
    · exact key _ _ (by simpa using h)
    · cases he : lineEnvs qy idx true l with
      | ok envs =>
        simp only [he, bind, Outcome.bind] at h
        cases hs : selectEnvs O q envs es.seen none with
        | ok p =>
          simp only [hs, pure, Outcome.ok.injEq] at h
          exact key _ _ h
        | error e => simp [hs] at h
        | panic s => simp [hs] at h
        | oracleMissing s => simp [hs] at h
      | error e => simp [he, bind, Outcome.bind] at h
      | panic s => simp [he, bind, Outcome.bind] at h
      | oracleMissing s => simp [he, bind, Outcome.bind] at h

theorem lineStep_ok_limit {O : Oracles} {qy : Query} {idx : JoinIndex} {w : Bool} {mk : List Nat → Line}
    {ls ls' : LoopState} {l : List Nat} (h : lineStep O qy idx w mk ls l = .ok ls') : reachedLimit qy ls'.es = false := by
  unfold lineStep at h
  simp only at h
  cases hx : executeLine O qy idx w ls.es (mk l) with
  | ok p =>
    obtain ⟨es1, lo1⟩ := p
    simp only [hx] at h
    by_cases hl : lo1.reachedLimit = true
    · simp [hl] at h
    · simp only [hl, Bool.false_eq_true, if_false, Except.ok.injEq] at h
      rw [← h]
      exact executeLine_limit_flag O qy idx w ls.es es1 (mk l) lo1 hx (by simpa using hl)
  | error e => simp [hx] at h
  | panic s => simp [hx] at h
  | oracleMissing s => simp [hx] at h

theorem feed_lineStep_ok (O : Oracles) (qy : Query) (idx : JoinIndex) (w : Bool) (mk : List Nat → Line)
    (items : List (Except Unit (List Nat))) (ls s' : LoopState)
    (h : feed (lineStep O qy idx w mk) ls items = (s', .ok)) (hrl : reachedLimit qy ls.es = false) :
    s'.stop = ls.stop ∧ reachedLimit qy s'.es = false := by
  induction items generalizing ls with
  | nil => simp only [feed, Prod.mk.injEq] at h; rw [← h.1]; exact ⟨rfl, hrl⟩
  | cons x rest ih =>
    cases x with
    | error u => simp [feed] at h
    | ok l =>
      simp only [feed] at h
      cases hs : lineStep O qy idx w mk ls l with
      | ok ls1 =>
        simp only [hs] at h
        obtain ⟨i1, i2⟩ := ih ls1 h (lineStep_ok_limit hs)
        exact ⟨i1.trans (lineStep_ok_stop hs), i2⟩
      | error e => simp [hs] at h

theorem feed_lineStep_engineError (O : Oracles) (qy : Query) (idx : JoinIndex) (w : Bool) (mk : List Nat → Line)
    (items : List (Except Unit (List Nat))) (ls s' e : LoopState)
    (h : feed (lineStep O qy idx w mk) ls items = (s', .engineError e)) : e.stop = true := by
  induction items generalizing ls with
  | nil => simp [feed] at h
  | cons x rest ih =>
    cases x with
    | error u => simp [feed] at h
    | ok l =>
      simp only [feed] at h
      cases hs : lineStep O qy idx w mk ls l with
      | ok ls1 => simp only [hs] at h; exact ih ls1 h
      | error e' =>
        simp only [hs, Prod.mk.injEq, Status.engineError.injEq] at h
        rw [← h.2]; exact lineStep_error_stop hs

/-- **the link**: the executed double loop over the files' lines is `Reader.execFiles` with the engine step -/
theorem runFiles_eq_execFiles (O : Oracles) (qy : Query) (idx : JoinIndex) (w : Bool) (mk : List Nat → Line)
    (files : List (List Nat)) (ls : LoopState) (hst : ls.stop = false) (hrl : reachedLimit qy ls.es = false) :
    runFiles O qy idx w none (files.map (fileOf mk)) ls = finish (execFiles (lineStep O qy idx w mk) ls files) := by
  induction files generalizing ls with
  | nil => simp [runFiles, execFiles, finish]
  | cons f rest ih =>
    simp only [List.map_cons, runFiles, hst, hrl, Bool.or_self, Bool.false_eq_true, if_false, execFiles]
    unfold fileOf
    rw [runFile_eq_feed]
    cases hf : feed (lineStep O qy idx w mk) ls (lines f) with
    | mk s' st =>
      cases st with
      | ok =>
        obtain ⟨i1, i2⟩ := feed_lineStep_ok O qy idx w mk (lines f) ls s' hf hrl
        have hs' : s'.stop = false := i1.trans hst
        simp only [finish, hs', Bool.false_eq_true, if_false]
        exact ih s' hs' i2
      | readError => simp [finish]
      | engineError e =>
        have := feed_lineStep_engineError O qy idx w mk (lines f) ls s' e hf
        simp [finish, this]

theorem runWithIndex_congr_files (O : Oracles) (qy : Query) (o : Outcome JoinIndex) (A B : List (List FileLine))
    (h : ∀ idx w, runFiles O qy idx w none A {} = runFiles O qy idx w none B {}) :
    runWithIndex O qy o A none = runWithIndex O qy o B none := by
  cases o <;> simp only [runWithIndex, h]

/-- `runBatchI` without interrupt is `runWithIndex` over an index outcome that does not depend on the input files -/
theorem runBatchI_plain (O : Oracles) (qy : Query) (joined : Option (List FileLine)) :
    ∃ o : Outcome JoinIndex, ∀ files, (runBatchI O qy joined files none none).1 = runWithIndex O qy o files none := by
  cases hj : qy.join with
  | none => exact ⟨.ok [], fun files => by simp [runBatchI, hj]⟩
  | some j =>
    refine ⟨setupJoin qy.table j ((loadJoinFileI j joined none).bind (fun p => .ok p.1)), fun files => ?_⟩
    cases joined <;> simp [runBatchI, hj]

theorem finish_stop_false {r : LoopState × Status LoopState}
    (hr : ∀ e, r.2 = .engineError e → e.stop = true) (h : (finish r).stop = false) : r.2 = .ok := by
  obtain ⟨s, st⟩ := r
  cases st with
  | ok => rfl
  | readError => simp [finish] at h
  | engineError e => simp only [finish] at h; rw [hr e rfl] at h; cases h

theorem execFiles_lineStep_engineError (O : Oracles) (qy : Query) (idx : JoinIndex) (w : Bool) (mk : List Nat → Line)
    (files : List (List Nat)) (ls : LoopState) (e : LoopState)
    (h : (execFiles (lineStep O qy idx w mk) ls files).2 = .engineError e) : e.stop = true := by
  rw [execFiles_eq_feed] at h
  cases hf : feed (lineStep O qy idx w mk) ls (files.flatMap lines) with
  | mk s' st =>
    rw [hf] at h
    simp only at h
    rw [h] at hf
    exact feed_lineStep_engineError O qy idx w mk _ ls s' e hf

open Pipeline Extract in
/-- a file of the end-to-end pipeline is `fileOf` (whenever all facts were shipped) -/
theorem fileLines_eq_fileOf (F : Facts) (d : TableDef) (bytes : List Nat) (fl : List FileLine)
    (h : fileLines F d bytes = some fl) :
    fl = fileOf (fun l => { text := l, row := extractRow (extractOracles F) d (lineOracle l ((F.lines.lookup l).getD {})) }) bytes := by
  unfold fileLines at h
  unfold fileOf
  generalize lines bytes = items at h
  induction items generalizing fl with
  | nil => simp at h; rw [h]; rfl
  | cons x rest ih =>
    simp only [List.mapM_cons, bind, Option.bind] at h
    cases hx : mkLine F d x with
    | none => simp [hx] at h
    | some a =>
      simp only [hx] at h
      cases hr : List.mapM (mkLine F d) rest with
      | none => simp [hr] at h
      | some as =>
        simp only [hr, pure, Option.some.injEq] at h
        rw [← h, List.map_cons, ← ih as hr]
        congr 1
        cases x with
        | error u => simp [mkLine] at hx; rw [← hx]; rfl
        | ok l =>
          simp only [mkLine] at hx
          split at hx
          · simp only [Option.some.injEq] at hx; rw [← hx]; rfl
          · cases hx

end Sqlgrep
