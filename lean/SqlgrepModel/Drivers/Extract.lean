import SqlgrepModel.Codec
import SqlgrepModel.Model.ExtractSpec
import SqlgrepModel.Model.JsonDoc
/-
Driver handler for kind `extract` (C01, C02, C06):

  extract (pats (xNAME cap|split xREGEX)…) (cols COL…) (line xHEX) (res R…) (json J)|notjson|compute|nojson (f64 (xTEXT BITS|none)…)
    COL     = (col PARSING TYPE nullable trim convert micro DEFAULT)      flags 0|1, DEFAULT = none | VALUE
    PARSING = (re xNAME IDX) | (multi (xNAME IDX)…) | (json STEP…)        STEP = (f xNAME) | (i N)
    R       = none | (cap G…) with G = none | xHEX | (split xHEX…)         one per pattern, in order
    J       = null | (b 0|1) | (pi N BITS) | (ni N BITS) | (fl BITS) | (s xHEX) | (a J…) | (o (xKEY J)…)

answer: `row (v…) admitted 0|1 spec (v…)`.
-/
namespace Sqlgrep.Drivers.Extract
open Sqlgrep Sqlgrep.Extract

mutual
def jsonOfSexp : Sexp → Option Json
  | .atom "null" => some .null
  | .list [.atom "b", b] => b.nat?.map (fun n => .bool (n != 0))
  | .list [.atom "pi", n, f] => do pure (.num (.posInt (← n.nat?) (← f.nat?)))
  | .list [.atom "ni", n, f] => do pure (.num (.negInt (← n.int?) (← f.nat?)))
  | .list [.atom "fl", f] => do pure (.num (.float (← f.nat?)))
  | .list [.atom "s", s] => s.bytes?.map .str
  | .list (.atom "a" :: xs) => (jsonsOfSexp xs).map .arr
  | .list (.atom "o" :: kvs) => (membersOfSexp kvs).map .obj
  | _ => none
def jsonsOfSexp : List Sexp → Option (List Json)
  | [] => some []
  | x :: xs => do
    let v ← jsonOfSexp x
    let vs ← jsonsOfSexp xs
    pure (v :: vs)
def membersOfSexp : List Sexp → Option (List (List Nat × Json))
  | [] => some []
  | .list [k, v] :: xs => do
    let k ← k.bytes?
    let v ← jsonOfSexp v
    let r ← membersOfSexp xs
    pure ((k, v) :: r)
  | _ => none
end

def refOfSexp : Sexp → Option Ref
  | .list [n, i] => do pure { pattern := (← n.bytes?), group := (← i.nat?) }
  | _ => none

def stepOfSexp : Sexp → Option JsonStep
  | .list [.atom "f", n] => n.bytes?.map .field
  | .list [.atom "i", n] => n.nat?.map .index
  | _ => none

def parsingOfSexp : Sexp → Option Parsing
  | .list [.atom "re", n, i] => do pure (.regex { pattern := (← n.bytes?), group := (← i.nat?) })
  | .list (.atom "multi" :: rs) => (rs.mapM refOfSexp).map .multi
  | .list (.atom "json" :: ss) => do
    let steps ← ss.mapM stepOfSexp
    let a ← JsonAccess.fromLinear steps
    pure (.json a)
  | _ => none

def flag (s : Sexp) : Option Bool := s.nat?.map (· != 0)

def columnOfSexp : Sexp → Option Column
  | .list [.atom "col", p, t, nullable, trim, convert, micro, dflt] => do
    let p ← parsingOfSexp p
    let t ← VType.ofSexp t
    let d ← match dflt with
      | .atom "none" => some none
      | v => (Value.ofSexp v).map some
    pure { parsing := p, type := t,
           options := { nullable := (← flag nullable), trim := (← flag trim), convert := (← flag convert),
                        microseconds := (← flag micro), default := d } }
  | _ => none

def patternOfSexp : Sexp → Option Pattern
  | .list [n, .atom "cap", re] => do pure { name := (← n.bytes?), regex := (← re.bytes?), mode := .captures }
  | .list [n, .atom "split", re] => do pure { name := (← n.bytes?), regex := (← re.bytes?), mode := .split }
  | _ => none

inductive PatRes where
  | none
  | cap (gs : List (Option Text))
  | split (fs : List Text)

def groupOfSexp : Sexp → Option (Option Text)
  | .atom "none" => some none
  | s => s.bytes?.map some

def patResOfSexp : Sexp → Option PatRes
  | .atom "none" => some .none
  | .list (.atom "cap" :: gs) => (gs.mapM groupOfSexp).map .cap
  | .list (.atom "split" :: fs) => (fs.mapM Sexp.bytes?).map .split
  | _ => Option.none

def f64EntryOfSexp : Sexp → Option (Text × Option Nat)
  | .list [t, .atom "none"] => t.bytes?.map (fun t => (t, none))
  | .list [t, b] => do pure ((← t.bytes?), some (← b.nat?))
  | _ => none

/-- the JSON document of a line: `(json J)` = shipped, serde_json parsed it; `notjson` = shipped, serde_json refused it;
`compute` = not shipped, `JsonDoc.docOfLine` computes it; `nojson` = not needed (no JSON column) -/
def jsonFact? (line : Text) : Sexp → Option (Option Json)
  | .atom "nojson" => some none
  | .atom "notjson" => some none
  | .atom "compute" => some (JsonDoc.docOfLine line)
  | .list [.atom "json", j] => (jsonOfSexp j).map some
  | _ => none

def section? (name : String) : Sexp → Option (List Sexp)
  | .list (.atom n :: rest) => if n == name then some rest else none
  | _ => none

def run (args : List Sexp) : Option String := do
  match args with
  | [pats, cols, line, res, json, f64] =>
    let pats ← (← section? "pats" pats).mapM patternOfSexp
    let cols ← (← section? "cols" cols).mapM columnOfSexp
    let line ← match line with
      | .list [.atom "line", l] => l.bytes?
      | _ => none
    let res ← (← section? "res" res).mapM patResOfSexp
    let json ← jsonFact? line json
    let tbl ← (← section? "f64" f64).mapM f64EntryOfSexp
    -- the regex crate's answers, keyed by (source text, mode)
    let answers : List ((Text × RegexMode) × PatRes) := (pats.zip res).map (fun pr => ((pr.1.regex, pr.1.mode), pr.2))
    let o : Oracles := Oracles.withFacts tbl
    let lo : LineOracle :=
      { line := line,
        captures := fun re => match answers.lookup (re, RegexMode.captures) with | some (PatRes.cap gs) => some gs | _ => none,
        split := fun re => match answers.lookup (re, RegexMode.split) with | some (PatRes.split fs) => fs | _ => [],
        json := json }
    let d : TableDef := { patterns := pats, columns := cols }
    let spec := Value.rowToWire (specRow o d (ParsingInput.new d lo))
    let row := extractRow o d lo
    pure s!"row {Value.rowToWire row} admitted {if admitted o d lo then "1" else "0"} spec {spec}"
  | _ => none

def handle (args : List Sexp) : String := (run args).getD "bad-case"

end Sqlgrep.Drivers.Extract
