import SqlgrepModel.Lemmas.AggJoin
/-
C04 — GROUP BY: one row per group, every aggregate computed from that group's rows.

The engine (`Model/Engine.lean`: `cellStep`, `updateAggregate(s)`, `aggUpdateRow`, `publishPercentiles`, `aggResult`,
`finalResult` — the definitions the driver executes) keeps running state per (group key, aggregate index) and never
remembers rows. The specification (`Spec/Agg.lean`) computes every cell from the complete list of its group's rows.
The theorems below relate the two for ALL statements, inputs and histories:

  1. locality          an update addresses exactly one cell; a row touches only its own group;
  2. coupling          after any sequence of rows, the cell (key, idx) is the fold of aggregate idx over exactly the
                       rows of group `key` (those that passed WHERE, in arrival order): `R init []`, `R` preserved;
  3. per aggregate     that fold shows the specification's value (COUNT(*), COUNT(c), COUNT(DISTINCT c), SUM, AVG,
                       STDDEV/VARIANCE, MIN, MAX, PERCENTILE, BOOL_AND, BOOL_OR, STRING_AGG, ARRAY_AGG);
  4. result            the table built from a coupled state is the specification's table: one row per distinct key,
                       ascending with NULL first, HAVING per group, DISTINCT per table, LIMIT = first n rows;
  5. refinement        2 + 4 for a whole input, including "no update fails", at engine level (`agg_refines_spec`) and for
                       the very function the driver executes against the answer `./check` compares (`batch_model_eq_spec`).

Known deviations of the code are carved out visibly, not hidden: D10 (a group in which no aggregate created a
`group_values` entry is not listed) and D15 (ARRAY_AGG whose first value is NULL is refused) appear as the
hypotheses `groupVisible` / `arrayAggFirstNull` (resp. `deviationClass … = ""`).
-/
namespace Sqlgrep.Props.C04
open Sqlgrep Sqlgrep.Value Sqlgrep.Spec.Agg

/-! ### 1. locality -/

/-- `update_aggregate` for aggregate `idx` of group `key` performs one `cellStep` on the cell (key, idx) and leaves
every other cell — other aggregates of the group, every cell of every other group — exactly as it was:
"no value is ever shown in another group's row" starts here. -/
theorem cell_locality {O : Oracles} {q : AggStmt} {env : Env} {key : List Value} {idx : Nat} {k : AggKind}
    {st st' : AggState} (hs : AggSorted st) (h : updateAggregate O q env key idx k st = .ok st') :
    ∃ c', cellStep O q env k (readCell st key idx) = .ok c' ∧
      ∀ k' i', readCell st' k' i' = if Value.cmpList key k' = .eq ∧ idx = i' then c' else readCell st k' i' :=
  (updateAggregate_cells hs h).2

/-- a cell never loses an entry: `cellStep` only creates or overwrites the aggregator / the value of its cell -/
theorem cell_entries_never_removed {O : Oracles} {q : AggStmt} {env : Env} {k : AggKind} {c c' : Cell}
    (h : cellStep O q env k c = .ok c') : (c.agg.isSome → c'.agg.isSome) ∧ (c.val.isSome → c'.val.isSome) :=
  cellStep_extends h

/-- one input row: rejected by WHERE ⇒ the state is unchanged; admitted ⇒ every aggregate slot of the row's own
group (select list, then HAVING's hidden aggregates) takes exactly one step with this row, and the cells of all
other groups are untouched. -/
theorem row_updates_only_its_group {O : Oracles} {q : AggStmt} {env : Env} {st st' : AggState} {u : Bool}
    (hs : AggSorted st) (h : aggUpdateRow O q st env = .ok (st', u)) :
    passes O q env = some u ∧ (u = false → st' = st) ∧
    (u = true → ∃ key, keyOf O q env = some key ∧
      (∀ i kind, (i, kind) ∈ rowSlots q → cellStep O q env kind (readCell st key i) = .ok (readCell st' key i)) ∧
      (∀ k' i', (Value.cmpList key k' ≠ .eq ∨ i' ∉ (rowSlots q).map (·.1)) → readCell st' k' i' = readCell st k' i')) := by
  obtain ⟨_, hp, hf, ht⟩ := aggUpdateRow_cells hs h
  refine ⟨hp, hf, fun hu => ?_⟩
  obtain ⟨key, hk, hin, hout, _⟩ := ht hu
  exact ⟨key, hk, hin, hout⟩

/-! ### 2. the coupling relation -/

/-- `R init []` -/
theorem coupling_init (O : Oracles) (q : AggStmt) : Coupled O q {} [] := coupled_init O q

/-- `R s g → update s r = ok s' → R s' (g with r appended to its group)` -/
theorem coupling_step {O : Oracles} {q : AggStmt} {st st' : AggState} {rows : List (List Value × Env)} {env : Env} {u : Bool}
    (hc : Coupled O q st rows) (h : aggUpdateRow O q st env = .ok (st', u)) :
    (u = false → Coupled O q st' rows) ∧
    (u = true → ∃ key, keyOf O q env = some key ∧ Coupled O q st' (rows ++ [(key, env)])) :=
  (coupled_step hc h).2

/-- **every cell is computed from exactly the rows of its group.** After feeding any list of rows to
`execute_update` (row after row, `aggRun`), for every group key and every aggregate slot of the statement the stored
cell equals the fold of that aggregate's step over `rowsOfKey key rows` — the rows that passed WHERE and whose
GROUP BY key equals `key`, in arrival order — and nothing else is stored. -/
theorem cells_are_folds_over_group_rows {O : Oracles} {q : AggStmt} (envs : List Env) {st : AggState}
    (h : aggRun O q envs {} = .ok st) :
    ∃ rows, keyedRows O q envs = some rows ∧
      (∀ key i kind, (i, kind) ∈ rowSlots q → cellFold O q kind (rowsOfKey key rows) {} = .ok (readCell st key i)) ∧
      (∀ key i, i ∉ (rowSlots q).map (·.1) → readCell st key i = {}) := by
  obtain ⟨rows, hr, hc⟩ := aggRun_coupled envs (coupled_init O q) h
  simp only [List.nil_append] at hc
  exact ⟨rows, hr, hc.cells, hc.others⟩

/-! ### 3. per aggregate -/

/-- **each aggregate against the property sentence**, on the executed step: for a group with rows `g`, folding
`update_aggregate`'s cell step of aggregate `kind` over `g` succeeds and shows `Spec.Agg.aggregate kind` of the
argument values of `g` — COUNT(*) their number, COUNT(c) the non-NULL ones, COUNT(DISTINCT c) the distinct non-NULL
values, SUM/AVG/STDDEV/VARIANCE/MIN/MAX/PERCENTILE/BOOL_AND/BOOL_OR/STRING_AGG over the non-NULL values (NULL if
none), ARRAY_AGG all values in arrival order — whenever the specification fixes the value. -/
theorem aggregate_from_group_rows {O : Oracles} {q : AggStmt} {kind : AggKind} {g : List Env} {r : Value} (hg : g ≠ [])
    (hv : groupValue O q kind g = some r)
    (hd15 : ∀ vs, arguments O q kind g = some vs → firstNull kind vs = false) :
    ∃ c, cellFold O q kind g {} = .ok c ∧ shownValue kind c = r :=
  group_aggregate_refines hg hv hd15

/-- the same on argument values, with the entry bookkeeping: the cell has a `group_values` entry exactly when
`createsEntry` says so (this is what decides whether the group is listed at all — finding D10) -/
theorem aggregate_fold_refines (k : AggKind) (vs : List Value) (r : Value) (hne : vs ≠ [])
    (h : aggregate k vs = some r) (hd15 : firstNull k vs = false) :
    ∃ c, foldV k vs {} = .ok c ∧ shownValue k c = r ∧ (published c).isSome = createsEntry k vs :=
  aggregate_refines k vs r hne h hd15

/-- COUNT(*) = the number of rows of the group -/
theorem count_star (vs : List Value) : aggregate (.count none false) vs = some (.int vs.length) := rfl
/-- COUNT(c) = the number of rows with c non-NULL (0 if none) -/
theorem count_column (c : String) (vs : List Value) : aggregate (.count (some c) false) vs = some (.int (nonNull vs).length) := rfl
/-- COUNT(DISTINCT c) = the number of distinct non-NULL values -/
theorem count_distinct (c : String) (vs : List Value) :
    aggregate (.count (some c) true) vs = some (.int (firstOccs (nonNull vs)).length) := rfl
/-- SUM of INTs = their sum, provided no partial sum leaves the 64-bit range (then the code reports an error) -/
theorem sum_ints (e : Expr) (vs : List Value) (i : Int) (is : List Int) (h : nonNull vs = (i :: is).map Value.int)
    (hok : partialSumsOk inI64 0 (i :: is) = true) : aggregate (.sum e) vs = some (.int (intSum (i :: is))) := by
  have hall : ∀ l : List Int, ints (l.map Value.int) = some l := by
    intro l; induction l with
    | nil => rfl
    | cons x xs ih => simp only [ints, List.map_cons, asInt, collect_cons_some] at ih ⊢; rw [ih]; rfl
  have hi : ints (Value.int i :: is.map Value.int) = some (i :: is) := hall (i :: is)
  simp only [aggregate, h, sumOf, List.map_cons, hi, hok, if_true]
/-- SUM, the overflow case: INT values (each an i64) with a partial sum outside the 64-bit range make the engine's SUM
fold report `UndefinedOperation` (an error message — C09 — not a wrapped value and not a panic) -/
theorem sum_overflow_is_error (e : Expr) (v : Value) (vs : List Value) (is : List Int)
    (h : nonNull (v :: vs) = is.map Value.int) (hrange : ∀ i ∈ is, inI64 i = true)
    (hov : partialSumsOk inI64 0 is = false) :
    foldV (.sum e) (v :: vs) {} = .error .undefinedOperation :=
  sum_int_overflow_is_error e v vs is h hrange hov
/-- MIN = a value of the group that no value of the group is below, by the value order of `Value.cmp` -/
theorem min_is_least (xs : List Value) (h : xs ≠ []) :
    extreme true xs ∈ xs ∧ ∀ y ∈ xs, Value.cmp (extreme true xs) y ≠ .gt := extreme_min_spec xs h
/-- MAX = a value of the group that no value of the group is above -/
theorem max_is_greatest (xs : List Value) (h : xs ≠ []) :
    extreme false xs ∈ xs ∧ ∀ y ∈ xs, Value.cmp (extreme false xs) y ≠ .lt := extreme_max_spec xs h
/-- PERCENTILE(p): the element at index min(⌊p·n⌋, n−1) of the ascending rearrangement of the non-NULL values -/
theorem percentile_index (e : Expr) (p : Nat) (vs : List Value) (hp : unitInterval p = true) (ht : sameType (nonNull vs) = true) :
    aggregate (.percentile e p) vs =
      some (((sortValues (nonNull vs))[min (f64ToNat (F64.mul p (F64.ofInt (sortValues (nonNull vs)).length)))
        ((sortValues (nonNull vs)).length - 1)]?).getD .null) ∧
    (sortValues (nonNull vs)).Perm (nonNull vs) ∧
    (sortValues (nonNull vs)).Pairwise (fun a b => Value.cmp a b ≠ .gt) := by
  refine ⟨?_, sortValues_perm _, sortValues_sorted _⟩
  simp [aggregate, percentileOf, hp, ht]

/-! ### 4. the result table -/

/-- **one row per distinct key, ascending, NULL first, none dropped or duplicated** (specification side): the key
list of the table is strictly ascending in the value order (hence duplicate-free), contains only keys that occur,
and represents every key that occurs; a NULL key is below every other key. -/
theorem keys_ascending_each_once (ks : List (List Value)) :
    (distinctKeys ks).Pairwise (fun a b => Value.cmpList a b = .lt) ∧
    (∀ k ∈ distinctKeys ks, k ∈ ks) ∧
    (∀ k ∈ ks, ∃ k' ∈ distinctKeys ks, Value.cmpList k' k = .eq) ∧
    (∀ v : Value, v.isNull = false → Value.cmp .null v = .lt) :=
  ⟨distinctKeys_sorted ks, distinctKeys_sub ks, distinctKeys_cover ks, null_lowest⟩

/-- **the result half**: for any state coupled to the admitted rows, `execute_result` followed by LIMIT returns
exactly the specification's table over the groups of those rows: its rows are the groups in ascending key order
(one per distinct key, none dropped, none duplicated), each cell the specification's value for that group, HAVING
evaluated on the group's own key and aggregates, DISTINCT per table, LIMIT the first n rows. Hypotheses: the group
keys are exact (equal in the value order ⇒ identical — always so without REAL/array keys), every group is visible
(outside D10) and no ARRAY_AGG starts with NULL (outside D15). -/
theorem result_is_spec_table {O : Oracles} {q : AggStmt} (hwf : StmtWF q) {st : AggState} {rows : List (List Value × Env)}
    (hc : Coupled O q st rows) (hex : KeysExact (rows.map (·.1))) {t : List (List Value)}
    (hspec : tableOfGroups O q (groups rows) = some t)
    (hvis : ∀ kg ∈ groups rows, groupVisible O q kg.2 = true)
    (hd15 : ∀ kg ∈ groups rows, arrayAggFirstNull O q kg.2 = false) :
    finalResult O q { agg := st } = .ok { columns := q.items.map (·.name), rows := t } :=
  finalResult_refines hwf hc hex hspec hvis hd15

/-- **columns stay aligned**: every row of the table has exactly one cell per select-list item (so no value is shifted
into another column or another group's row); with `agg_refines_spec` this holds for the engine's table -/
theorem columns_aligned {O : Oracles} {q : AggStmt} {envs : List Env} {t : List (List Value)}
    (h : table O q envs = some t) : ∀ r ∈ t, r.length = q.items.length := table_rows_aligned h

/-- `publishPercentiles` (the first loop of `execute_result`) cell by cell: aggregators untouched, the stored
value of a cell becomes what the cell publishes — so a second `execute_result` sees the same cells -/
theorem publish_cellwise {st : AggState} (hs : AggSorted st) (hinner : ∀ g ∈ st.aggs, (g.2.map (·.1)).Nodup)
    (k : List Value) (i : Nat) :
    readCell (publishPercentiles st) k i = { agg := (readCell st k i).agg, val := published (readCell st k i) } :=
  readCell_publish hs hinner k i

/-! ### 5. refinement for a whole input -/

/-- **`agg_refines_spec`.** For every aggregate statement (any mix and order of aggregates and key expressions, with or
without GROUP BY, WHERE, HAVING incl. hidden aggregates, transforms, DISTINCT, LIMIT) and every list of rows: if the
specification fixes the table `t` and the input is outside the two known deviation classes (D10, D15), then feeding
the rows to `execute_update` one after the other succeeds, and `execute_result` + LIMIT shows exactly `t`:
one row per distinct key in ascending order with NULL first, every cell computed from exactly the rows of its group,
HAVING on the group's own key and aggregates, no group dropped or duplicated.

**What "the specification fixes the table" leaves out** (`table O q envs = none`, so the theorem says nothing there —
each of these is an ordinary input, not an exotic one):
* a GROUP BY key that is an ARRAY, the REAL key `-0.0`, a REAL key that is a NaN other than the canonical one (all other
  REAL keys, `0.0`, ±∞ and the canonical NaN included, are covered): two such keys are equal in the value order but print
  differently, and which one a group's row shows depends on the engine's history (finding D60, `Props/C11`);
* SUM / AVG / STDDEV over REALs whose first non-NULL addend is `-0.0` (`0.0 + -0.0 ≠ -0.0`: the sign of a zero sum);
* the non-NULL arguments of one aggregate in one group having more than one type (MIN/MAX/PERCENTILE/ARRAY_AGG; SUM/AVG
  /STDDEV need all INT, all REAL or all INTERVAL — STDDEV not INTERVAL; BOOL_AND/OR all BOOLEAN; STRING_AGG all TEXT);
* an INT / INTERVAL partial sum (for STDDEV also a square or a partial sum of squares) outside the 64-bit range;
* any evaluation error in WHERE, a key, an argument, a transform or HAVING; `COUNT(DISTINCT *)`; PERCENTILE with p outside
  [0, 1]; a select-list or HAVING key reference that names no GROUP BY part (`keyRefsValid`).
The evidence of a run records how many of the evaluated cases the specification decided
(`spec_comparisons_impl_vs_lean_spec` against `evaluations`). -/
theorem agg_refines_spec {O : Oracles} {q : AggStmt} (hwf : StmtWF q) (envs : List Env) {t : List (List Value)}
    (hspec : table O q envs = some t) (hclass : deviationClass O q envs = "") :
    (aggRun O q envs {}).bind (fun st => finalResult O q { agg := st }) = .ok { columns := q.items.map (·.name), rows := t } :=
  engine_refines_spec_total hwf envs hspec hclass

/-- the same in partial-correctness form: any state reached by a run that did not fail shows the specification's table -/
theorem agg_refines_spec_of_run {O : Oracles} {q : AggStmt} (hwf : StmtWF q) (envs : List Env) {st : AggState}
    (hrun : aggRun O q envs {} = .ok st) {t : List (List Value)} (hspec : table O q envs = some t)
    (hclass : deviationClass O q envs = "") :
    finalResult O q { agg := st } = .ok { columns := q.items.map (·.name), rows := t } :=
  engine_refines_spec hwf envs hrun hspec hclass

/-- totality of the update half on its own: when every complete per-group fold succeeds (which the specification's
answer implies), no `execute_update` fails — in particular no aggregate reports an overflow or a type error halfway -/
theorem updates_do_not_fail {O : Oracles} {q : AggStmt} (hwf : StmtWF q) (envs : List Env) {t : List (List Value)}
    (hspec : table O q envs = some t) (hclass : deviationClass O q envs = "") : ∃ st, aggRun O q envs {} = .ok st := by
  cases hr : keyedRows O q envs with
  | none => simp [table, hr] at hspec
  | some rows =>
    obtain ⟨hfolds, hkeys⟩ := foldsOk_of_spec hwf hr hspec hclass
    exact aggRun_progress envs (coupled_init O q) hr (by simpa using hfolds) hkeys

/-- **`agg_refines_spec` at the level of the check itself.** `runBatch` is the function the compiled driver executes
for a `batch` case (the `FileExecutor` loop over all files and lines, admission of lines, the hash index of a JOIN, the
engine, the final table printed once, the line count); `Spec.Agg.batch` is the specification's answer that `./check` compares with the
implementation's. Whenever the specification answers and names no known deviation class, the two are EQUAL — so a
case on which implementation and model agree (correspondence) and the class is empty is a case on which the
implementation meets the specification, and vice versa.

`Spec.Agg.batch` answers `none` — and this theorem is then silent — on everything `agg_refines_spec` lists (ARRAY keys, the
REAL keys `-0.0` and non-canonical NaN, a REAL sum starting at `-0.0`, mixed-type arguments in a group, overflow, evaluation
errors, p outside [0, 1], invalid key references), and in addition when some input line is unreadable (C12), when a line of
the joined file is unreadable or a join column is missing (C05), and it is stated for `stopAt = none` (no interrupt, C19). -/
theorem batch_model_eq_spec {O : Oracles} {qy : Query} {q : AggStmt} (hq : qy.stmt = .aggregate q) (hwf : StmtWF q)
    (joined : List FileLine) (files : List (List FileLine)) {ro : RunOut}
    (h : Spec.Agg.batch O qy q joined files = some (ro, "")) : runBatch O qy joined files none = ro :=
  batch_refines_spec hq hwf joined files h

/-- **aggregates over a JOIN**: the rows the statement sees are the nested loop of C05 (`Spec.Join.specJoin`: for every
admitted input row, in input order, one row per admitted joined row with an equal non-NULL key, in file order; never the
NULL-padded row), and the table is the specification's table over those rows -/
theorem batch_over_join_model_eq_spec {O : Oracles} {qy : Query} {q : AggStmt} (hq : qy.stmt = .aggregate q) (hwf : StmtWF q)
    {j : JoinInfo} (hj : qy.join = some j) (joined : List FileLine) (files : List (List FileLine)) {ro : RunOut}
    (h : Spec.Agg.batch O qy q joined files = some (ro, "")) : runBatch O qy joined files none = ro :=
  batch_refines_spec_join hq hwf hj joined files h

/-! ### negation witnesses of the two open findings (kernel-evaluated; the harness replays them on the implementation) -/

/-- `SELECT k, COUNT(v) FROM t GROUP BY k` -/
def d10Stmt : AggStmt :=
  { items := [{ name := "k", kind := .groupKey (.column "k") "k", transform := none },
              { name := "count1", kind := .count (some "v") false, transform := none }],
    filter := none, groupBy := some [(.column "k", "k")], having := none, havingAggs := [], havingKeys := [],
    havingVisit := [], limit := none, distinct := false }

def rowKV (k : Nat) (v : Value) : Env := { table := [("k", .text [k]), ("v", v)] }

/-- **D10**: on the rows (a, 1), (b, NULL) the property demands the rows `a, 1` and `b, 0`; the engine, which lists the
groups of `group_values`, shows only `a, 1` — the group `b` (no aggregate created an entry) is dropped -/
theorem d10_group_without_entry_dropped :
    table {} d10Stmt [rowKV 97 (.int 1), rowKV 98 .null] = some [[.text [97], .int 1], [.text [98], .int 0]] ∧
    (aggRun {} d10Stmt [rowKV 97 (.int 1), rowKV 98 .null] {}).bind (fun st => finalResult {} d10Stmt { agg := st }) =
      .ok { columns := ["k", "count1"], rows := [[.text [97], .int 1]] } ∧
    deviationClass {} d10Stmt [rowKV 97 (.int 1), rowKV 98 .null] = "D10:group-without-value-entry" :=
  ⟨rfl, rfl, rfl⟩

/-- `SELECT ARRAY_AGG(v) FROM t` -/
def d15Stmt : AggStmt :=
  { items := [{ name := "array_agg0", kind := .arrayAgg (.column "v"), transform := none }],
    filter := none, groupBy := none, having := none, havingAggs := [], havingKeys := [],
    havingVisit := [], limit := none, distinct := false }

/-- **D15**: on the values NULL, 5 the property demands the array `{NULL, 5}`; the engine refuses the statement
("cannot create array of null type") because the first value is NULL -/
theorem d15_array_agg_first_null_refused :
    table {} d15Stmt [rowKV 97 .null, rowKV 98 (.int 5)] = some [[.array .int [.null, .int 5]]] ∧
    aggRun {} d15Stmt [rowKV 97 .null, rowKV 98 (.int 5)] {} = .error .cannotCreateArrayOfNullType ∧
    deviationClass {} d15Stmt [rowKV 97 .null, rowKV 98 (.int 5)] = "D15:array_agg-first-value-null" :=
  ⟨rfl, rfl, rfl⟩

/-! ### the answers the two open findings PREDICT (`Spec.Agg.predicted`)

`./check` attributes a deviation from the specification to D10 / D15 only when the implementation's answer is exactly the
predicted one (DESIGN §10). On the two witness inputs the prediction is what the executed batch run of the model prints —
and not what the specification demands. -/

def kvQuery (q : AggStmt) : Query := { stmt := .aggregate q, table := { name := "t", columns := ["k", "v"] }, join := none }
def kvLine (k : Nat) (v : Value) : FileLine := { readable := true, line := { text := [k], row := [.text [k], v] } }

/-- D10: rows (a, 1), (b, NULL): the specification demands `a, 1` and `b, 0`; the finding predicts exactly `a, 1` (the
group `b` is missing, nothing else differs, both lines counted, no error) — and that is what the batch run prints -/
example :
    (Spec.Agg.batch {} (kvQuery d10Stmt) d10Stmt [] [[kvLine 97 (.int 1), kvLine 98 .null]]).map (·.1.printed) =
      some ["k: 'a', count1: 1", "k: 'b', count1: 0"] ∧
    Spec.Agg.predicted {} (kvQuery d10Stmt) d10Stmt [] [[kvLine 97 (.int 1), kvLine 98 .null]] =
      some { printed := ["k: 'a', count1: 1"], totalLines := 2 } ∧
    runBatch {} (kvQuery d10Stmt) [] [[kvLine 97 (.int 1), kvLine 98 .null]] none =
      { printed := ["k: 'a', count1: 1"], totalLines := 2 } := ⟨rfl, rfl, rfl⟩

/-- D15: values NULL, 5: the finding predicts the error `CannotCreateArrayOfNullType` while the FIRST line is fed (one
line counted, nothing printed); with the NULL in the second row of the group nothing is predicted (no finding applies) -/
example :
    Spec.Agg.predicted {} (kvQuery d15Stmt) d15Stmt [] [[kvLine 97 .null, kvLine 98 (.int 5)]] =
      some { error := some .cannotCreateArrayOfNullType, totalLines := 1 } ∧
    runBatch {} (kvQuery d15Stmt) [] [[kvLine 97 .null, kvLine 98 (.int 5)]] none =
      { error := some .cannotCreateArrayOfNullType, totalLines := 1 } ∧
    Spec.Agg.predicted {} (kvQuery d15Stmt) d15Stmt [] [[kvLine 98 (.int 5), kvLine 97 .null]] = none := ⟨rfl, rfl, rfl⟩

/-! ### non-vacuity -/

/-- `SELECT COUNT(*) FROM t` -/
def exCount : AggStmt :=
  { items := [{ name := "count0", kind := .count none false, transform := none }], filter := none, groupBy := none,
    having := none, havingAggs := [], havingKeys := [], havingVisit := [], limit := none, distinct := false }

example : StmtWF exCount := ⟨rfl, fun _ => rfl⟩
/-- the hypotheses of `agg_refines_spec` hold on a two-row input, and the conclusion is the one-row table `2` -/
example : ∃ st, aggRun {} exCount [{}, {}] {} = .ok st ∧ table {} exCount [{}, {}] = some [[.int 2]] ∧
    deviationClass {} exCount [{}, {}] = "" ∧
    finalResult {} exCount { agg := st } = .ok { columns := ["count0"], rows := [[.int 2]] } := by
  refine ⟨_, rfl, rfl, rfl, ?_⟩
  exact agg_refines_spec_of_run ⟨rfl, fun _ => rfl⟩ [{}, {}] rfl rfl rfl
/-- a non-trivial MIN: the least of 3, 1, 2 -/
example : aggregate (.min (.column "v")) [.int 3, .null, .int 1, .int 2] = some (.int 1) := rfl
/-- a sum that overflows: i64::MAX + 1 -/
example : foldV (.sum (.column "v")) [.int 9223372036854775807, .int 1] {} = .error .undefinedOperation :=
  sum_overflow_is_error _ _ _ [9223372036854775807, 1] rfl (by decide) rfl
/-- a sum whose partial sums stay in range -/
example : aggregate (.sum (.column "v")) [.int 3, .null, .int (-1)] = some (.int 2) := by
  exact sum_ints (.column "v") [.int 3, .null, .int (-1)] 3 [-1] rfl rfl

end Sqlgrep.Props.C04
