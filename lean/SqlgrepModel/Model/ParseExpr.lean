import SqlgrepModel.Model.Token
import SqlgrepModel.Model.Text
/-
The expression parser of `src/parsing/parser.rs` (`Parser::parse_expression_internal`,
`parse_binary_operator_rhs`, `parse_unary_operator`, `parse_primary_expression`, `parse_identifier_expression`,
`parse_extract_expression`, `parse_case_expression`, `parse_arguments`, `parse_list`, `get_token_precedence`)
mirroring /repo HEAD (with the precedence repair: OR < AND < NOT < comparisons/IS/IN < + - < * / < unary minus
< cast/subscript < `.`).

Representation. The Rust parser owns `tokens : Vec<ParserToken>` and `index`; `current()` is `tokens[index]`
and `next()` fails with `ReachedEndOfTokens` on the last token. The model keeps the *non-empty suffix*
`cur :: rest` of the token vector that starts at `index`, so `current()` is total by construction; the
correspondence check is what ties this to the indexing code. The Rust parser mutates its state in place, so a
failing sub-parse leaves the state where it failed; one site (`( expr` in `parse_primary_expression`) looks at
the state *after* a failed sub-parse, therefore every result carries the state.

Loops (`parse_binary_operator_rhs`, `parse_list`, the CASE loop) and the recursion through `Box`ed trees take
fuel; `PRes.fuel` is the out-of-fuel answer (a theorem shows that `3·|tokens|+3` is always enough).
-/
namespace Sqlgrep

/-- `ParserErrorType` -/
inductive PErrKind where
  | unknown | reachedEndOfTokens | tooManyTokens | intConvertError | floatConvertError | alreadyHasDot
  | expectedKeyword (k : Keyword) | expectedAnyKeyword (ks : List Keyword)
  | expectedLeftParentheses | expectedRightParentheses | expectedLeftSquareParentheses | expectedRightSquareParentheses
  | expectedExpression | expectedArgumentListContinuation | expectedProjectionContinuation
  | expectedColumnDefinitionStart | expectedColumnDefinitionContinuation | expectedJsonColumnPartStart
  | expectedIdentifier | expectedString | expectedInt | expectedOperator | expectedSpecificOperator (o : Operator)
  | expectedTuple | expectedColon | expectedDoubleColon | expectedRightArrow | expectedSemiColon | expectedNull
  | expectedColumnAccess
  | notDefinedBinaryOperator (o : Operator) | notDefinedUnaryOperator (o : Operator) | notDefinedType (name : List Char)
  | trimOnlyForString | expectedValueForDefaultValue | expectedDefaultValueOfType (t : VType)
  | alreadyHaveWhere | alreadyHaveJoin | alreadyHaveGroupBy | alreadyHaveHaving | alreadyHaveLimit
  deriving DecidableEq, Repr, Inhabited

structure PErr where
  loc : Loc
  kind : PErrKind
  deriving DecidableEq, Repr, Inhabited

/-- `ParserExpressionTree` (every node with the location the code records for it) -/
inductive PExpr where
  | value (loc : Loc) (v : Value)
  | column (loc : Loc) (name : List Char)
  | wildcard (loc : Loc)
  | tuple (loc : Loc) (vs : List PExpr)
  | binop (loc : Loc) (op : Operator) (l r : PExpr)
  | boolop (loc : Loc) (isAnd : Bool) (l r : PExpr)
  | unop (loc : Loc) (op : Operator) (e : PExpr)
  | invert (loc : Loc) (e : PExpr)
  | nullcmp (loc : Loc) (isNot : Bool) (l r : PExpr)
  | inList (loc : Loc) (isNot : Bool) (e : PExpr) (vs : List PExpr)
  | call (loc : Loc) (name : List Char) (args : List PExpr) (distinct : Option Bool)
  | index (loc : Loc) (a i : PExpr)
  | cast (loc : Loc) (e : PExpr) (t : VType)
  | case (loc : Loc) (clauses : List (PExpr × PExpr)) (els : PExpr)
  deriving Repr, Inhabited

/-- parser state: the non-empty suffix of the token vector starting at `index` -/
structure PSt where
  cur : PTok
  rest : List PTok
  deriving Repr, Inhabited

/-- number of tokens from `index` to the end of the vector -/
def PSt.remaining (s : PSt) : Nat := s.rest.length + 1

inductive PRes (α : Type) where
  | ok (a : α) (s : PSt)
  | err (e : PErr) (s : PSt)
  | fuel
  deriving Repr, Inhabited

namespace PRes
@[inline] def bind {α β : Type} (x : PRes α) (f : α → PSt → PRes β) : PRes β :=
  match x with
  | ok a s => f a s
  | err e s => err e s
  | fuel => fuel
end PRes

/-- the tables of `operator.rs` and `get_token_precedence`, regenerated from the running code -/
structure PrecTables where
  binary : List (Operator × Int)
  other : List (Tok × Int)        -- `::`, `[` and the keyword operators
  unary : List Operator
  deriving Repr, Inhabited, DecidableEq

/-- the tables as they stand in /repo HEAD -/
def PrecTables.code : PrecTables where
  -- listed in the order `harness tables` emits them, so that `PrecTables.code = Generated.precTables` is one `decide`
  binary := [(.single '*', 6), (.single '+', 5), (.single '-', 5), (.single '.', 9), (.single '/', 6), (.single '<', 4),
             (.single '=', 4), (.single '>', 4), (.single '^', 6), (.dual '!' '=', 4), (.dual '<' '=', 4), (.dual '>' '=', 4)]
  other := [(.kw .and, 2), (.kw .or, 1), (.kw .is, 4), (.kw .isNot, 4), (.kw .in, 4), (.kw .notIn, 4), (.lsq, 8), (.dcolon, 8)]
  unary := [.single '-']

def lookupOp (l : List (Operator × Int)) (o : Operator) : Option Int := (l.find? (·.1 == o)).map (·.2)
def lookupTok (l : List (Tok × Int)) (t : Tok) : Option Int := (l.find? (·.1 == t)).map (·.2)

/-- ASCII lower-casing; the only non-ASCII characters whose `to_lowercase` contains an ASCII letter are U+212A
(KELVIN SIGN → `k`) and U+0130 (→ `i` + U+0307): both are mapped as Rust does, so comparisons with ASCII words agree.
`EXTRACT(part FROM …)` puts the lower-cased `part` into a call name: for a part with non-ASCII letters the name differs
from Rust's `to_lowercase` (an external Unicode table); the drivers answer `skip` on such inputs. -/
def lowerChars (s : List Char) : List Char :=
  s.flatMap (fun c =>
    if 'A' ≤ c ∧ c ≤ 'Z' then [Char.ofNat (c.toNat + 32)]
    else if c.toNat = 0x212A then ['k']
    else if c.toNat = 0x130 then ['i', Char.ofNat 0x307]
    else [c])

/-- `ValueType::from_str` on a lower-cased identifier (no `[]` suffix can occur in an identifier) -/
def VType.ofIdent (s : List Char) : Option VType :=
  if s = "int".toList then some .int
  else if s = "real".toList then some .real
  else if s = "text".toList then some .text
  else if s = "boolean".toList then some .bool
  else if s = "timestamp".toList then some .timestamp
  else if s = "interval".toList then some .interval
  else none

namespace Parse

def mkErr {α : Type} (s : PSt) (k : PErrKind) : PRes α := .err ⟨s.cur.loc, k⟩ s

/-- `Parser::next` -/
def next (s : PSt) : PRes Unit :=
  match s.rest with
  | [] => mkErr s .reachedEndOfTokens
  | t :: r => .ok () { cur := t, rest := r }

/-- `expect_and_consume_token` -/
def expectConsume (t : Tok) (k : PErrKind) (s : PSt) : PRes Unit :=
  if s.cur.tok = t then next s else mkErr s k

def expectConsumeOp (o : Operator) (s : PSt) : PRes Unit :=
  expectConsume (.op o) (.expectedSpecificOperator o) s

def consumeIdentifier (s : PSt) : PRes (List Char) :=
  match s.cur.tok with
  | .ident n => (next s).bind (fun _ s => .ok n s)
  | _ => mkErr s .expectedIdentifier

def consumeString (s : PSt) : PRes (List Char) :=
  match s.cur.tok with
  | .str n => (next s).bind (fun _ s => .ok n s)
  | _ => mkErr s .expectedString

def consumeInt (s : PSt) : PRes Int :=
  match s.cur.tok with
  | .int n => (next s).bind (fun _ s => .ok n s)
  | _ => mkErr s .expectedInt

/-- `get_token_precedence` -/
def tokenPrecedence (T : PrecTables) (s : PSt) : PRes Int :=
  match s.cur.tok with
  | .op o =>
    match lookupOp T.binary o with
    | some p => .ok p s
    | none => mkErr s (.notDefinedBinaryOperator o)
  | t => .ok ((lookupTok T.other t).getD (-1)) s

/-- what `parse_binary_operator_rhs` builds from `lhs op rhs` for an infix token -/
def combine (opLoc : Loc) (op : Tok) (lhs rhs : PExpr) : Except PErr PExpr :=
  match op with
  | .op (.single '.') =>
    match lhs, rhs with
    | .column _ l, .column _ r => .ok (.column opLoc (l ++ ['.'] ++ r))
    | _, _ => .error ⟨opLoc, .expectedColumnAccess⟩
  | .dcolon =>
    match rhs with
    | .column _ typename =>
      match VType.ofIdent (lowerChars typename) with
      | some t => .ok (.cast opLoc lhs t)
      | none => .error ⟨opLoc, .notDefinedType typename⟩
    | _ => .error ⟨opLoc, .expectedIdentifier⟩
  | .op o => .ok (.binop opLoc o lhs rhs)
  | .kw .is => .ok (.nullcmp opLoc false lhs rhs)
  | .kw .isNot => .ok (.nullcmp opLoc true lhs rhs)
  | .kw .and => .ok (.boolop opLoc true lhs rhs)
  | .kw .or => .ok (.boolop opLoc false lhs rhs)
  | _ => .error ⟨opLoc, .expectedOperator⟩

mutual

/-- `parse_expression_internal` -/
def parseExpr (T : PrecTables) (fuel : Nat) (s : PSt) : PRes PExpr :=
  match fuel with
  | 0 => .fuel
  | fuel + 1 =>
    match parseUnary T fuel s with
    | .ok lhs s => parseRhs T fuel 0 lhs s
    | .err e s => .err e s
    | .fuel => .fuel

/-- `parse_binary_operator_rhs(precedence, lhs)`: one turn of the loop per call -/
def parseRhs (T : PrecTables) (fuel : Nat) (prec : Int) (lhs : PExpr) (s : PSt) : PRes PExpr :=
  match fuel with
  | 0 => .fuel
  | fuel + 1 =>
    match tokenPrecedence T s with
    | .err e s => .err e s
    | .fuel => .fuel
    | .ok tp s =>
      if tp < prec then .ok lhs s
      else
        let opLoc := s.cur.loc
        let op := s.cur.tok
        match next s with
        | .err e s => .err e s
        | .fuel => .fuel
        | .ok _ s =>
          match op with
          | .lsq =>
            match parseExpr T fuel s with
            | .err e s => .err e s
            | .fuel => .fuel
            | .ok index s =>
              match expectConsume .rsq .expectedRightSquareParentheses s with
              | .err e s => .err e s
              | .fuel => .fuel
              | .ok _ s => parseRhs T fuel prec (.index opLoc lhs index) s
          | .kw .in | .kw .notIn =>
            if s.cur.tok ≠ .lp then .err ⟨opLoc, .expectedTuple⟩ s
            else
              match next s with
              | .err e s => .err e s
              | .fuel => .fuel
              | .ok _ s =>
                match parseList T fuel .rp [] s with
                | .err e s => .err e s
                | .fuel => .fuel
                | .ok values s => parseRhs T fuel prec (.inList opLoc (op == .kw .notIn) lhs values) s
          | _ =>
            match parseUnary T fuel s with
            | .err e s => .err e s
            | .fuel => .fuel
            | .ok rhs s =>
              match tokenPrecedence T s with
              | .err e s => .err e s
              | .fuel => .fuel
              | .ok tp2 s =>
                let r := if tp < tp2 then parseRhs T fuel (tp + 1) rhs s else .ok rhs s
                match r with
                | .err e s => .err e s
                | .fuel => .fuel
                | .ok rhs s =>
                  match combine opLoc op lhs rhs with
                  | .ok lhs' => parseRhs T fuel prec lhs' s
                  | .error e => .err e s

/-- `parse_unary_operator` -/
def parseUnary (T : PrecTables) (fuel : Nat) (s : PSt) : PRes PExpr :=
  match fuel with
  | 0 => .fuel
  | fuel + 1 =>
    let isPrefix := match s.cur.tok with
      | .op _ => true
      | .kw .not => true
      | _ => false
    if !isPrefix then parsePrimary T fuel s
    else
      let opLoc := s.cur.loc
      let opTok := s.cur.tok
      match next s with
      | .err e s => .err e s
      | .fuel => .fuel
      | .ok _ s =>
        if opTok = .op (.single '*') then .ok (.wildcard opLoc) s
        else
          match parseUnary T fuel s with
          | .err e s => .err e s
          | .fuel => .fuel
          | .ok operand s =>
            match parseRhs T fuel (if opTok = .kw .not then 4 else 8) operand s with
            | .err e s => .err e s
            | .fuel => .fuel
            | .ok operand s =>
              match opTok with
              | .op o =>
                if !T.unary.contains o then .err ⟨opLoc, .notDefinedUnaryOperator o⟩ s
                else .ok (.unop opLoc o operand) s
              | .kw .not => .ok (.invert opLoc operand) s
              | _ => .err ⟨opLoc, .unknown⟩ s

/-- `parse_primary_expression` -/
def parsePrimary (T : PrecTables) (fuel : Nat) (s : PSt) : PRes PExpr :=
  match fuel with
  | 0 => .fuel
  | fuel + 1 =>
    let loc := s.cur.loc
    match s.cur.tok with
    | .int v => (next s).bind (fun _ s => .ok (.value loc (.int v)) s)
    | .float b => (next s).bind (fun _ s => .ok (.value loc (.real b)) s)
    | .str v => (next s).bind (fun _ s => .ok (.value loc (.text (Utf8.encode v))) s)
    | .null => (next s).bind (fun _ s => .ok (.value loc .null) s)
    | .tru => (next s).bind (fun _ s => .ok (.value loc (.bool true)) s)
    | .fls => (next s).bind (fun _ s => .ok (.value loc (.bool false)) s)
    | .ident name =>
      -- `parse_identifier_expression`
      match next s with
      | .err e s => .err e s
      | .fuel => .fuel
      | .ok _ s =>
        let tokenLoc := s.cur.loc         -- the location *after* the identifier, as in the code
        let isCall := s.cur.tok = .lp
        let isCreateArray := s.cur.tok = .lsq ∧ lowerChars name = "array".toList
        if !(isCall || isCreateArray) then .ok (.column tokenLoc name) s
        else
          match next s with
          | .err e s => .err e s
          | .fuel => .fuel
          | .ok _ s =>
            let isCount := lowerChars name = "count".toList
            let hasDistinct := isCount ∧ s.cur.tok = .kw .distinct
            let distinct : Option Bool := if isCount then some hasDistinct else none
            let afterDistinct : PRes Unit := if hasDistinct then next s else .ok () s
            match afterDistinct with
            | .err e s => .err e s
            | .fuel => .fuel
            | .ok _ s =>
              let callName := if isCreateArray then "create_array".toList else name
              let close : Tok := if isCreateArray then .rsq else .rp
              -- `parse_arguments`
              if s.cur.tok = close then
                (next s).bind (fun _ s => .ok (.call tokenLoc callName [] distinct) s)
              else
                match parseList T fuel close [] s with
                | .err e s => .err e s
                | .fuel => .fuel
                | .ok args s => .ok (.call tokenLoc callName args distinct) s
    | .lp =>
      match next s with
      | .err e s => .err e s
      | .fuel => .fuel
      | .ok _ s =>
        -- `let expression = self.parse_expression_internal();` — the result is inspected only after the
        -- look at the current token, so a failed sub-parse may be overtaken by an error raised here
        match parseExpr T fuel s with
        | .fuel => .fuel
        | .err e s =>
          if s.cur.tok = .comma then
            match next s with
            | .err e' s => .err e' s
            | .fuel => .fuel
            | .ok _ s => .err e s
          else
            match expectConsume .rp .expectedRightParentheses s with
            | .err e' s => .err e' s
            | .fuel => .fuel
            | .ok _ s => .err e s
        | .ok expression s =>
          if s.cur.tok = .comma then
            match next s with
            | .err e s => .err e s
            | .fuel => .fuel
            | .ok _ s =>
              match parseList T fuel .rp [expression] s with
              | .err e s => .err e s
              | .fuel => .fuel
              | .ok values s => .ok (.tuple loc values) s
          else
            match expectConsume .rp .expectedRightParentheses s with
            | .err e s => .err e s
            | .fuel => .fuel
            | .ok _ s => .ok expression s
    | .kw .extract =>
      -- `parse_extract_expression`
      match next s with
      | .err e s => .err e s
      | .fuel => .fuel
      | .ok _ s =>
        match expectConsume .lp .expectedLeftParentheses s with
        | .err e s => .err e s
        | .fuel => .fuel
        | .ok _ s =>
          let tokenLoc := s.cur.loc
          match consumeIdentifier s with
          | .err e s => .err e s
          | .fuel => .fuel
          | .ok part s =>
            match expectConsume (.kw .from) (.expectedKeyword .from) s with
            | .err e s => .err e s
            | .fuel => .fuel
            | .ok _ s =>
              match parseExpr T fuel s with
              | .err e s => .err e s
              | .fuel => .fuel
              | .ok fromExpr s =>
                match expectConsume .rp .expectedRightParentheses s with
                | .err e s => .err e s
                | .fuel => .fuel
                | .ok _ s => .ok (.call tokenLoc ("timestamp_extract_".toList ++ lowerChars part) [fromExpr] none) s
    | .kw .case =>
      -- `parse_case_expression`
      match next s with
      | .err e s => .err e s
      | .fuel => .fuel
      | .ok _ s => parseCase T fuel loc [] s
    | _ => mkErr s .expectedExpression

/-- the loop of `parse_case_expression`: one `WHEN … THEN …` per call -/
def parseCase (T : PrecTables) (fuel : Nat) (loc : Loc) (clauses : List (PExpr × PExpr)) (s : PSt) : PRes PExpr :=
  match fuel with
  | 0 => .fuel
  | fuel + 1 =>
    match expectConsume (.kw .when) (.expectedKeyword .when) s with
    | .err e s => .err e s
    | .fuel => .fuel
    | .ok _ s =>
      match parseExpr T fuel s with
      | .err e s => .err e s
      | .fuel => .fuel
      | .ok cond s =>
        match expectConsume (.kw .then) (.expectedKeyword .then) s with
        | .err e s => .err e s
        | .fuel => .fuel
        | .ok _ s =>
          match parseExpr T fuel s with
          | .err e s => .err e s
          | .fuel => .fuel
          | .ok result s =>
            let clauses := clauses ++ [(cond, result)]
            if s.cur.tok = .kw .else then
              match next s with
              | .err e s => .err e s
              | .fuel => .fuel
              | .ok _ s =>
                match parseExpr T fuel s with
                | .err e s => .err e s
                | .fuel => .fuel
                | .ok els s =>
                  match expectConsume (.kw .end) (.expectedKeyword .end) s with
                  | .err e s => .err e s
                  | .fuel => .fuel
                  | .ok _ s => .ok (.case loc clauses els) s
            else parseCase T fuel loc clauses s

/-- `parse_list(right_parentheses_token, list)`: one element per call -/
def parseList (T : PrecTables) (fuel : Nat) (close : Tok) (acc : List PExpr) (s : PSt) : PRes (List PExpr) :=
  match fuel with
  | 0 => .fuel
  | fuel + 1 =>
    match parseExpr T fuel s with
    | .err e s => .err e s
    | .fuel => .fuel
    | .ok e s =>
      let acc := acc ++ [e]
      if s.cur.tok = close then (next s).bind (fun _ s => .ok acc s)
      else if s.cur.tok = .comma then
        match next s with
        | .err e s => .err e s
        | .fuel => .fuel
        | .ok _ s => parseList T fuel close acc s
      else mkErr s .expectedArgumentListContinuation

end

end Parse

end Sqlgrep
