import SqlgrepModel.Spec.FloatGrammar
import SqlgrepModel.Model.DecFloat
import SqlgrepModel.Lemmas.JsonNumber
import SqlgrepModel.Model.Text
/-
`DecFloat.parseF64N` / `parseF64` (the model's `f64::from_str`, executed by the driver for every number text) against
the grammar of `Spec/FloatGrammar.lean`:

* `parseF64N_complete` : a text the grammar (`FloatR`) derives with denotation `v` is accepted, with the bits `bitsOf v`;
* `parseF64N_sound`    : an accepted text is derived by the grammar, and the answer is `bitsOf` of a denotation;
* `parseF64_iff_rust`  : both, for a text given as characters; `FloatR.unique_bits`: the answer is a function of the text;
  `parseF64_iff` the same for the documented grammar `FloatD` under `ExpSmall`;
* `parseF64N_iff(_rust)`, `parseF64N_utf8_iff(_rust)`: the same for a text given as bytes / code points below U+D800
  (REAL column texts are UTF-8 bytes; every character the grammar accepts is ASCII: `FloatDV.ascii`).

`bitsOf` says which REAL a denotation is: the decimal `(-1)^neg · mant · 10^exp` becomes `DecFloat.decToF64 neg mant exp`,
the correctly rounded REAL (`Lemmas/DecFloat.lean`: `decToF64_nearest`, `_tie_even`, `_overflow_iff` — a decimal at or
above `(2^54 − 1) · 2^970` is `inf`, as in Rust, not an error); `inf` / `nan` are the infinity and Rust's `f64::NAN`, with
the sign bit of the text.

The exponent (observation N3 of DESIGN.md). `dec2flt::parse::parse_scientific` stops accumulating exponent digits once
the accumulated magnitude has reached `0x10000` (`if exponent < 0x10000 { exponent = 10 * exponent + digit }`); the
model's `parseExp` does the same (`capDigitsVal`), and the grammar comes in two readings of the exponent digits
(`Spec/FloatGrammar.lean`): `FloatR` (Rust's capped accumulation, `rustExpVal`) and `FloatD` (the documented grammar,
the mathematical value). The theorems of this file are about `FloatR` without any hypothesis; `floatR_iff_floatD` turns
them into statements about `FloatD` for every text whose exponent digits' value is below 65 536 (`ExpSmall`, decidable
on the text) — `parseF64_iff`, `parseF64N_iff`, `parseF64N_utf8_iff`; which texts are accepted never depends on the
reading (`parseF64_none_iff`). The two readings differ observably only when a mantissa of ≈ 65 000 digits or more meets
an exponent of at least 65 536: `0.` + 65 299 zeros + `1e655360` denotes 1e590060 (nearest REAL: inf), Rust reads the
exponent 65 536 and answers 1e236 (harness case `capped-exponent` of the `f64parse` stream); for texts shorter than
≈ 65 000 characters the capped exponent and the exact one both give `±0` or `±inf`.
-/
namespace Sqlgrep.DecFloat
open Sqlgrep.FloatGrammar
open Sqlgrep.JsonGrammar (Digit Digits Digits1)

/-- the REAL (bit pattern) a denotation of the `f64::from_str` grammar stands for -/
def bitsOf : FVal → Nat
  | .dec neg m e => decToF64 neg m e
  | .inf neg => (if neg then signMask else 0) + infBits
  | .nan neg => (if neg then signMask else 0) + nanBits

/-! ### characters and code points -/

theorem isDigit_toNat (c : Char) : isDigit c.toNat = true ↔ Digit c := by
  unfold isDigit Digit; simp

theorem toNat_eq (c d : Char) : c.toNat = d.toNat ↔ c = d := Char.toNat_inj

theorem spanDigits_map (s : List Char) :
    spanDigits (s.map Char.toNat) =
      ((JsonGrammar.spanDigits s).1.map Char.toNat, (JsonGrammar.spanDigits s).2.map Char.toNat) := by
  induction s with
  | nil => rfl
  | cons c s ih =>
    simp only [List.map_cons, spanDigits, JsonGrammar.spanDigits]
    by_cases h : Digit c
    · rw [if_pos ((isDigit_toNat c).2 h), if_pos h, ih]; rfl
    · have h' : ¬ isDigit c.toNat = true := fun x => h ((isDigit_toNat c).1 x)
      rw [if_neg h', if_neg h]; rfl

theorem digitsVal_map_aux (s : List Char) (acc : Nat) :
    (s.map Char.toNat).foldl (fun acc c => acc * 10 + (c - 48)) acc =
      s.foldl (fun n c => 10 * n + (c.toNat - 0x30)) acc := by
  induction s generalizing acc with
  | nil => rfl
  | cons c s ih => simp only [List.map_cons, List.foldl_cons]; rw [ih, Nat.mul_comm]

theorem digitsVal_map (s : List Char) : digitsVal (s.map Char.toNat) = JsonGrammar.digitsVal s :=
  digitsVal_map_aux s 0

theorem capDigitsVal_map_aux (s : List Char) (acc : Nat) :
    (s.map Char.toNat).foldl (fun acc c => if acc < expCap then acc * 10 + (c - 48) else acc) acc =
      s.foldl (fun n c => if n < 65536 then 10 * n + (c.toNat - 0x30) else n) acc := by
  induction s generalizing acc with
  | nil => rfl
  | cons c s ih =>
    simp only [List.map_cons, List.foldl_cons]
    rw [ih, Nat.mul_comm]; rfl

/-- the model's capped accumulation over code points is the grammar's `rustExpVal` over characters -/
theorem capDigitsVal_map (s : List Char) : capDigitsVal (s.map Char.toNat) = rustExpVal s :=
  capDigitsVal_map_aux s 0

theorem digitsFold_ge (s : List Char) (acc : Nat) :
    acc ≤ s.foldl (fun n c => 10 * n + (c.toNat - 0x30)) acc := by
  induction s generalizing acc with
  | nil => exact Nat.le_refl _
  | cons c s ih =>
    simp only [List.foldl_cons]
    exact Nat.le_trans (by omega) (ih _)

theorem rustExpVal_eq_aux (s : List Char) (acc : Nat)
    (h : s.foldl (fun n c => 10 * n + (c.toNat - 0x30)) acc < 65536) :
    s.foldl (fun n c => if n < 65536 then 10 * n + (c.toNat - 0x30) else n) acc =
      s.foldl (fun n c => 10 * n + (c.toNat - 0x30)) acc := by
  induction s generalizing acc with
  | nil => rfl
  | cons c s ih =>
    simp only [List.foldl_cons] at h ⊢
    have h1 := digitsFold_ge s (10 * acc + (c.toNat - 0x30))
    have hacc : acc < 65536 := by omega
    rw [if_pos hacc]
    exact ih _ h

/-- **below the cap Rust's reading of the exponent digits is their value** -/
theorem rustExpVal_eq {ds : List Char} (h : JsonGrammar.digitsVal ds < 65536) : rustExpVal ds = JsonGrammar.digitsVal ds :=
  rustExpVal_eq_aux ds 0 h

/-- a run of digits followed by nothing is spanned whole -/
theorem spanDigits_all {ds : List Char} (h : Digits ds) : JsonGrammar.spanDigits ds = (ds, []) := by
  have := JsonGrammar.spanDigits_append ds [] h (by intro c t e; cases e)
  rwa [List.append_nil] at this

/-! ### the model's anonymous matches, named -/

/-- the optional sign in front of the exponent digits, as `parseExp` splits it off -/
def signOf (t : List Nat) : Bool × List Nat :=
  match t with
  | 45 :: ds => (true, ds)
  | 43 :: ds => (false, ds)
  | ds => (false, ds)

theorem signOf_cons (a : Nat) (t : List Nat) :
    signOf (a :: t) = if a = 45 then (true, t) else if a = 43 then (false, t) else (false, a :: t) := by
  unfold signOf
  split
  · rename_i h; cases h; rfl
  · rename_i h; cases h; rfl
  · rename_i h1 h2
    have n1 : a ≠ 45 := fun e => h1 t (by rw [e])
    have n2 : a ≠ 43 := fun e => h2 t (by rw [e])
    simp [n1, n2]

theorem parseExp_cons (c : Nat) (rest : List Nat) :
    parseExp (c :: rest) =
      if c = 101 ∨ c = 69 then
        (if (spanDigits (signOf rest).2).1.isEmpty || !(spanDigits (signOf rest).2).2.isEmpty then none
         else some (if (signOf rest).1 then -(capDigitsVal (spanDigits (signOf rest).2).1 : Int)
                    else (capDigitsVal (spanDigits (signOf rest).2).1 : Int)))
      else none := by
  unfold parseExp
  by_cases h : c = 101 ∨ c = 69
  · simp only [h, if_true]
    split
    · rw [signOf_cons]; rfl
    · rw [signOf_cons]; rfl
    · rename_i h1 h2
      have : signOf rest = (false, rest) := by
        cases rest with
        | nil => rfl
        | cons a t =>
          have n1 : a ≠ 45 := fun e => h1 t (by rw [e])
          have n2 : a ≠ 43 := fun e => h2 t (by rw [e])
          rw [signOf_cons]; simp [n1, n2]
      rw [this]
  · simp only [h, if_false]

/-- the optional `'.' Digit*` after the integer digits, as `parseBody` splits it off -/
def fracOf (r : List Nat) : List Nat × List Nat :=
  match r with
  | 46 :: t => spanDigits t
  | t => ([], t)

theorem fracOf_cons (a : Nat) (t : List Nat) : fracOf (a :: t) = if a = 46 then spanDigits t else ([], a :: t) := by
  unfold fracOf
  split
  · rename_i h; cases h; rfl
  · rename_i h1
    have n1 : a ≠ 46 := fun e => h1 t (by rw [e])
    simp [n1]

/-- the `Number` branch of `parseBody` -/
def numBody (neg : Bool) (s : List Nat) : Option Nat :=
  if (spanDigits s).1.isEmpty && (fracOf (spanDigits s).2).1.isEmpty then none
  else (parseExp (fracOf (spanDigits s).2).2).map fun e =>
    decToF64 neg (digitsVal ((spanDigits s).1 ++ (fracOf (spanDigits s).2).1)) (e - ((fracOf (spanDigits s).2).1.length : Int))

theorem parseBody_eq (neg : Bool) (s : List Nat) :
    parseBody neg s =
      if s.map lowerC = wNan then some ((if neg then signMask else 0) + nanBits)
      else if s.map lowerC = wInf ∨ s.map lowerC = wInfinity then some ((if neg then signMask else 0) + infBits)
      else numBody neg s := by
  unfold parseBody numBody
  simp only []
  by_cases h1 : s.map lowerC = wNan
  · simp only [h1, if_true]
  · simp only [h1, if_false]
    by_cases h2 : s.map lowerC = wInf ∨ s.map lowerC = wInfinity
    · simp only [h2, if_true]
    · simp only [h2, if_false]
      generalize (spanDigits s).2 = r1
      generalize (spanDigits s).1 = ip
      cases r1 with
      | nil =>
        show (if (ip.isEmpty && ([] : List Nat).isEmpty) = true then none else _) = _
        unfold fracOf
        split
        · rfl
        · cases parseExp [] <;> rfl
      | cons a t =>
        rw [fracOf_cons]
        by_cases ha : a = 46
        · subst ha
          rw [if_pos rfl]
          show (if (ip.isEmpty && (spanDigits t).1.isEmpty) = true then none else _) = _
          split
          · rfl
          · cases parseExp (spanDigits t).2 <;> rfl
        · rw [if_neg ha]
          split
          · rename_i h; cases h; exact absurd rfl ha
          · split
            · rfl
            · cases parseExp (a :: t) <;> rfl

theorem parseF64N_cons (a : Nat) (t : List Nat) :
    parseF64N (a :: t) = if a = 45 then parseBody true t else if a = 43 then parseBody false t else parseBody false (a :: t) := by
  unfold parseF64N
  split
  · rename_i h; cases h; rfl
  · rename_i h; cases h; rfl
  · rename_i h1 h2
    have n1 : a ≠ 45 := fun e => h1 t (by rw [e])
    have n2 : a ≠ 43 := fun e => h2 t (by rw [e])
    simp [n1, n2]

/-! ### the exponent -/

theorem digits1_head_not_sign {ds : List Char} (h : Digits1 ds) :
    ∃ d t, ds = d :: t ∧ d.toNat ≠ 45 ∧ d.toNat ≠ 43 ∧ d.toNat ≠ 46 := by
  obtain ⟨hne, hd⟩ := h
  cases ds with
  | nil => exact absurd rfl hne
  | cons d t =>
    have := hd d (List.mem_cons_self ..)
    unfold Digit at this
    exact ⟨d, t, rfl, by omega, by omega, by omega⟩

theorem signOf_map {sg ds : List Char} {neg : Bool} (hs : SignD sg neg) (hd : Digits1 ds) :
    signOf ((sg ++ ds).map Char.toNat) = (neg, ds.map Char.toNat) := by
  cases hs with
  | none =>
    obtain ⟨d, t, rfl, h1, h2, _⟩ := digits1_head_not_sign hd
    simp only [List.nil_append, List.map_cons, signOf_cons, h1, h2, if_false]
  | plus => rfl
  | minus => rfl

theorem parseExp_complete {r : List Char} {ev : Int} (h : ExpR r ev) : parseExp (r.map Char.toNat) = some ev := by
  cases h with
  | none => rfl
  | @some e sg ds neg he hs hd =>
    have hc : e.toNat = 101 ∨ e.toNat = 69 := by
      rcases he with rfl | rfl
      · exact Or.inl rfl
      · exact Or.inr rfl
    show parseExp (List.map Char.toNat (e :: (sg ++ ds))) = _
    rw [List.map_cons, parseExp_cons, if_pos hc, signOf_map hs hd]
    simp only [spanDigits_map, spanDigits_all hd.2]
    have : (ds.map Char.toNat).isEmpty = false := by
      cases ds with
      | nil => exact absurd rfl hd.1
      | cons _ _ => rfl
    simp only [this, List.map_nil, List.isEmpty_nil, Bool.not_true, Bool.or_self, Bool.false_eq_true, if_false,
      capDigitsVal_map]

theorem parseExp_sound {r : List Char} {ev : Int} (h : parseExp (r.map Char.toNat) = some ev) : ExpR r ev := by
  cases r with
  | nil =>
    simp only [List.map_nil, parseExp, Option.some.injEq] at h
    subst h; exact .none
  | cons c rest =>
    rw [List.map_cons, parseExp_cons] at h
    by_cases hc : c.toNat = 101 ∨ c.toNat = 69
    · rw [if_pos hc] at h
      have he : c = 'e' ∨ c = 'E' := by
        rcases hc with hc | hc
        · exact Or.inl ((toNat_eq c 'e').1 hc)
        · exact Or.inr ((toNat_eq c 'E').1 hc)
      -- the digits after the optional sign
      have key : ∀ (neg : Bool) (sg ds : List Char), SignD sg neg → rest = sg ++ ds →
          signOf (rest.map Char.toNat) = (neg, ds.map Char.toNat) → ExpR (c :: rest) ev := by
        intro neg sg ds hs hrest hso
        rw [hso] at h
        simp only [spanDigits_map] at h
        have hsp := JsonGrammar.spanDigits_spec ds
        split at h
        · cases h
        · rename_i hcond
          simp only [List.isEmpty_iff, List.map_eq_nil_iff, Bool.or_eq_true, Bool.not_eq_true', not_or] at hcond
          have hB : (JsonGrammar.spanDigits ds).2 = [] := by
            cases hx : (JsonGrammar.spanDigits ds).2 with
            | nil => rfl
            | cons _ _ => rw [hx] at hcond; simp at hcond
          have hds : ds = (JsonGrammar.spanDigits ds).1 := by
            have := hsp.1; rw [hB, List.append_nil] at this; exact this
          have hd1 : Digits1 ds := ⟨by rw [hds]; exact hcond.1, by rw [hds]; exact hsp.2.1⟩
          simp only [Option.some.injEq] at h
          rw [← hds, capDigitsVal_map] at h
          subst h; subst hrest
          exact .some he hs hd1
      cases rest with
      | nil => exact key false [] [] .none rfl rfl
      | cons a t =>
        by_cases h1 : a = '-'
        · subst h1; exact key true ['-'] t .minus rfl rfl
        · by_cases h2 : a = '+'
          · subst h2; exact key false ['+'] t .plus rfl rfl
          · refine key false [] (a :: t) .none rfl ?_
            have n1 : a.toNat ≠ 45 := fun e => h1 ((toNat_eq a '-').1 e)
            have n2 : a.toNat ≠ 43 := fun e => h2 ((toNat_eq a '+').1 e)
            simp only [List.map_cons, signOf_cons, n1, n2, if_false]
    · rw [if_neg hc] at h; cases h

theorem parseExp_iff (r : List Char) (ev : Int) : parseExp (r.map Char.toNat) = some ev ↔ ExpR r ev :=
  ⟨parseExp_sound, parseExp_complete⟩

/-- an exponent part does not start with a digit or a point -/
theorem expD_head {val : List Char → Nat} {e : List Char} {ev : Int} (h : ExpDV val e ev) :
    JsonGrammar.NoDigitAhead e ∧ ∀ c t, e = c :: t → c.toNat ≠ 46 := by
  cases h with
  | none => exact ⟨fun c t h => (by cases h), fun c t h => (by cases h)⟩
  | some he _ _ =>
    constructor
    · intro c t hc hd
      cases hc
      have := JsonGrammar.digit_ne_sign hd
      rcases he with rfl | rfl
      · exact this.2.2.2.1 rfl
      · exact this.2.2.2.2 rfl
    · intro c t hc
      cases hc
      rcases he with rfl | rfl <;> decide

/-! ### the `Number` branch -/

theorem fracOf_map_other {r : List Char} (h : ∀ c t, r = c :: t → c.toNat ≠ 46) :
    fracOf (r.map Char.toNat) = ([], r.map Char.toNat) := by
  cases r with
  | nil => rfl
  | cons c t => rw [List.map_cons, fracOf_cons, if_neg (h c t rfl)]

theorem map_isEmpty_false {ds : List Char} (h : ds ≠ []) : (ds.map Char.toNat).isEmpty = false := by
  cases ds with
  | nil => exact absurd rfl h
  | cons _ _ => rfl

theorem numBody_complete (neg : Bool) {body : List Char} {m : Nat} {e : Int} (h : NumberR body m e) :
    numBody neg (body.map Char.toNat) = some (decToF64 neg m e) := by
  cases h with
  | @int ip ex ev hip hex =>
    have hh := expD_head hex
    unfold numBody
    simp only [spanDigits_map, JsonGrammar.spanDigits_append ip ex hip.2 hh.1, fracOf_map_other hh.2,
      map_isEmpty_false hip.1, Bool.false_and, Bool.false_eq_true, if_false, parseExp_complete hex, Option.map_some,
      List.append_nil, digitsVal_map, List.length_nil]
    simp
  | @point ip fp ex ev hip hfp hne hex =>
    have hh := expD_head hex
    have hbody : ip ++ '.' :: fp ++ ex = ip ++ ('.' :: (fp ++ ex)) := by simp
    have hnd : JsonGrammar.NoDigitAhead ('.' :: (fp ++ ex)) := by
      intro c t hc hd; cases hc; revert hd; decide
    have hfr : fracOf (('.' :: (fp ++ ex)).map Char.toNat) = (fp.map Char.toNat, ex.map Char.toNat) := by
      rw [List.map_cons, fracOf_cons, if_pos (show '.'.toNat = 46 from rfl), spanDigits_map,
        JsonGrammar.spanDigits_append fp ex hfp hh.1]
    have hcond : ((ip.map Char.toNat).isEmpty && (fp.map Char.toNat).isEmpty) = false := by
      rcases hne with h | h
      · rw [map_isEmpty_false h]; rfl
      · rw [map_isEmpty_false h]; simp
    unfold numBody
    rw [hbody]
    simp only [spanDigits_map, JsonGrammar.spanDigits_append ip _ hip hnd, hfr, hcond, Bool.false_eq_true, if_false,
      parseExp_complete hex, Option.map_some, ← List.map_append, digitsVal_map, List.length_map]

theorem numBody_sound (neg : Bool) {s : List Char} {b : Nat} (h : numBody neg (s.map Char.toNat) = some b) :
    ∃ m e, NumberR s m e ∧ b = decToF64 neg m e := by
  have hsp := JsonGrammar.spanDigits_spec s
  unfold numBody at h
  simp only [spanDigits_map] at h
  generalize hip : (JsonGrammar.spanDigits s).1 = ip at h hsp
  generalize hr1 : (JsonGrammar.spanDigits s).2 = r1 at h hsp
  obtain ⟨hs, hdip, _⟩ := hsp
  -- the two shapes of what follows the integer digits
  by_cases hpoint : ∃ t, r1 = '.' :: t
  · obtain ⟨t, rfl⟩ := hpoint
    have hst := JsonGrammar.spanDigits_spec t
    rw [List.map_cons, fracOf_cons, if_pos (show '.'.toNat = 46 from rfl), spanDigits_map] at h
    generalize hfp : (JsonGrammar.spanDigits t).1 = fp at h hst
    generalize hr2 : (JsonGrammar.spanDigits t).2 = r2 at h hst
    obtain ⟨ht, hdfp, _⟩ := hst
    split at h
    · cases h
    · rename_i hcond
      cases hx : parseExp (r2.map Char.toNat) with
      | none => rw [hx] at h; cases h
      | some ev =>
        rw [hx] at h
        simp only [Option.map_some, Option.some.injEq, ← List.map_append, digitsVal_map, List.length_map] at h
        have hne : ip ≠ [] ∨ fp ≠ [] := by
          cases ip with
          | cons _ _ => exact Or.inl (by simp)
          | nil =>
            cases fp with
            | cons _ _ => exact Or.inr (by simp)
            | nil => simp at hcond
        refine ⟨_, _, ?_, h.symm⟩
        have := NumberDV.point hdip hdfp hne (parseExp_sound hx)
        rw [hs, ht]
        simpa using this
  · have hnp : ∀ c t, r1 = c :: t → c.toNat ≠ 46 := by
      intro c t hc hcn
      exact hpoint ⟨t, by rw [hc, (toNat_eq c '.').1 hcn]⟩
    rw [fracOf_map_other hnp] at h
    split at h
    · cases h
    · rename_i hcond
      cases hx : parseExp (r1.map Char.toNat) with
      | none => rw [hx] at h; cases h
      | some ev =>
        rw [hx] at h
        simp only [Option.map_some, Option.some.injEq, List.append_nil, digitsVal_map, List.length_nil] at h
        have hne : ip ≠ [] := by
          cases ip with
          | cons _ _ => simp
          | nil => simp at hcond
        refine ⟨_, _, ?_, h.symm⟩
        have := NumberDV.int ⟨hne, hdip⟩ (parseExp_sound hx)
        rw [hs]
        simpa using this

/-! ### `inf`, `infinity`, `nan` in any letter case -/

/-- a lower-case ASCII letter -/
def Lower (l : Char) : Prop := 97 ≤ l.toNat ∧ l.toNat ≤ 122

instance (l : Char) : Decidable (Lower l) := inferInstanceAs (Decidable (97 ≤ l.toNat ∧ l.toNat ≤ 122))

theorem lowerC_letter {l c : Char} (hl : Lower l) : lowerC c.toNat = l.toNat ↔ LetterCI l c := by
  unfold lowerC LetterCI Lower at *
  by_cases h : (decide (65 ≤ c.toNat) && decide (c.toNat ≤ 90)) = true
  · rw [if_pos h]
    simp only [Bool.and_eq_true, decide_eq_true_eq] at h
    omega
  · rw [if_neg h]
    simp only [Bool.and_eq_true, decide_eq_true_eq] at h
    omega

theorem word_iff (w : List Char) (hw : ∀ l ∈ w, Lower l) (s : List Char) :
    (s.map Char.toNat).map lowerC = w.map Char.toNat ↔ WordCI w s := by
  induction w generalizing s with
  | nil =>
    cases s with
    | nil => exact ⟨fun _ => .nil, fun _ => rfl⟩
    | cons c s => exact ⟨fun h => by simp at h, fun h => by cases h⟩
  | cons l w ih =>
    cases s with
    | nil => exact ⟨fun h => by simp at h, fun h => by cases h⟩
    | cons c s =>
      simp only [List.map_cons, List.cons.injEq]
      rw [lowerC_letter (hw l (List.mem_cons_self ..)), ih (fun x hx => hw x (List.mem_cons_of_mem _ hx))]
      exact ⟨fun ⟨h1, h2⟩ => .cons h1 h2, fun h => by cases h with | cons h1 h2 => exact ⟨h1, h2⟩⟩

theorem lower_inf : ∀ l ∈ ['i', 'n', 'f'], Lower l := by decide
theorem lower_infinity : ∀ l ∈ ['i', 'n', 'f', 'i', 'n', 'i', 't', 'y'], Lower l := by decide
theorem lower_nan : ∀ l ∈ ['n', 'a', 'n'], Lower l := by decide

theorem wNan_eq : wNan = ['n', 'a', 'n'].map Char.toNat := rfl
theorem wInf_eq : wInf = ['i', 'n', 'f'].map Char.toNat := rfl
theorem wInfinity_eq : wInfinity = ['i', 'n', 'f', 'i', 'n', 'i', 't', 'y'].map Char.toNat := rfl

/-- a word starts with a letter: neither a sign, nor a digit, nor a point -/
theorem word_head {l : Char} {w s : List Char} (hl : Lower l) (h : WordCI (l :: w) s) :
    ∃ c t, s = c :: t ∧ 65 ≤ c.toNat := by
  cases h with
  | cons h1 _ => exact ⟨_, _, rfl, by unfold LetterCI Lower at *; omega⟩

/-- a `Number` starts with a digit or a point -/
theorem numberD_head {val : List Char → Nat} {body : List Char} {m : Nat} {e : Int} (h : NumberDV val body m e) :
    ∃ c t, body = c :: t ∧ c.toNat ≤ 57 ∧ c.toNat ≠ 45 ∧ c.toNat ≠ 43 := by
  have dig : ∀ {c : Char}, Digit c → c.toNat ≤ 57 ∧ c.toNat ≠ 45 ∧ c.toNat ≠ 43 := by
    intro c hc; unfold Digit at hc; omega
  cases h with
  | @int ip ex ev hip hex =>
    obtain ⟨hne, hd⟩ := hip
    cases ip with
    | nil => exact absurd rfl hne
    | cons d t => exact ⟨d, t ++ ex, rfl, dig (hd d (List.mem_cons_self ..))⟩
  | @point ip fp ex ev hip hfp hne hex =>
    cases ip with
    | nil => exact ⟨'.', fp ++ ex, rfl, by decide⟩
    | cons d t => exact ⟨d, t ++ '.' :: fp ++ ex, by simp, dig (hip d (List.mem_cons_self ..))⟩

/-- a text that starts with a digit or a point is none of the three words -/
theorem not_word_of_head {c : Char} {t : List Char} (hc : c.toNat ≤ 57) :
    ((c :: t).map Char.toNat).map lowerC ≠ wNan ∧ ((c :: t).map Char.toNat).map lowerC ≠ wInf ∧
    ((c :: t).map Char.toNat).map lowerC ≠ wInfinity := by
  have : lowerC c.toNat = c.toNat := by
    unfold lowerC
    rw [if_neg]; simp only [Bool.and_eq_true, decide_eq_true_eq]; omega
  simp only [List.map_cons, this, wNan, wInf, wInfinity, ne_eq, List.cons.injEq, not_and]
  refine ⟨?_, ?_, ?_⟩ <;> (intro h; omega)

/-! ### the unsigned part, and the whole text -/

/-- what `parseBody` accepts -/
theorem parseBody_sound (neg : Bool) {s : List Char} {b : Nat} (h : parseBody neg (s.map Char.toNat) = some b) :
    (∃ m e, NumberR s m e ∧ b = bitsOf (.dec neg m e)) ∨
    ((WordCI ['i', 'n', 'f'] s ∨ WordCI ['i', 'n', 'f', 'i', 'n', 'i', 't', 'y'] s) ∧ b = bitsOf (.inf neg)) ∨
    (WordCI ['n', 'a', 'n'] s ∧ b = bitsOf (.nan neg)) := by
  rw [parseBody_eq] at h
  by_cases h1 : (s.map Char.toNat).map lowerC = wNan
  · rw [if_pos h1] at h
    rw [wNan_eq, word_iff _ lower_nan] at h1
    exact Or.inr (Or.inr ⟨h1, by cases h; rfl⟩)
  · rw [if_neg h1] at h
    by_cases h2 : (s.map Char.toNat).map lowerC = wInf ∨ (s.map Char.toNat).map lowerC = wInfinity
    · rw [if_pos h2] at h
      rw [wInf_eq, word_iff _ lower_inf, wInfinity_eq, word_iff _ lower_infinity] at h2
      exact Or.inr (Or.inl ⟨h2, by cases h; rfl⟩)
    · rw [if_neg h2] at h
      obtain ⟨m, e, hn, hb⟩ := numBody_sound neg h
      exact Or.inl ⟨m, e, hn, hb⟩

theorem parseBody_number (neg : Bool) {body : List Char} {m : Nat} {e : Int} (h : NumberR body m e) :
    parseBody neg (body.map Char.toNat) = some (decToF64 neg m e) := by
  obtain ⟨c, t, rfl, hc, _, _⟩ := numberD_head h
  have hw := not_word_of_head (t := t) hc
  rw [parseBody_eq, if_neg hw.1, if_neg (by rintro (h' | h'); exact hw.2.1 h'; exact hw.2.2 h')]
  exact numBody_complete neg h

theorem parseBody_inf (neg : Bool) {w : List Char}
    (h : WordCI ['i', 'n', 'f'] w ∨ WordCI ['i', 'n', 'f', 'i', 'n', 'i', 't', 'y'] w) :
    parseBody neg (w.map Char.toNat) = some ((if neg then signMask else 0) + infBits) := by
  have h2 : (w.map Char.toNat).map lowerC = wInf ∨ (w.map Char.toNat).map lowerC = wInfinity := by
    rw [wInf_eq, word_iff _ lower_inf, wInfinity_eq, word_iff _ lower_infinity]; exact h
  have h1 : ¬ (w.map Char.toNat).map lowerC = wNan := by
    intro h1
    rcases h2 with h2 | h2
    · rw [h1] at h2; revert h2; decide
    · rw [h1] at h2; revert h2; decide
  rw [parseBody_eq, if_neg h1, if_pos h2]

theorem parseBody_nan (neg : Bool) {w : List Char} (h : WordCI ['n', 'a', 'n'] w) :
    parseBody neg (w.map Char.toNat) = some ((if neg then signMask else 0) + nanBits) := by
  have h1 : (w.map Char.toNat).map lowerC = wNan := by rw [wNan_eq, word_iff _ lower_nan]; exact h
  rw [parseBody_eq, if_pos h1]

/-- the unsigned part after the optional sign is found by `parseF64N` -/
theorem parseF64N_sign {sg body : List Char} {neg : Bool} (hs : SignD sg neg)
    (hb : ∃ c t, body = c :: t ∧ c.toNat ≠ 45 ∧ c.toNat ≠ 43) :
    parseF64N ((sg ++ body).map Char.toNat) = parseBody neg (body.map Char.toNat) := by
  cases hs with
  | none =>
    obtain ⟨c, t, rfl, h1, h2⟩ := hb
    rw [List.nil_append, List.map_cons, parseF64N_cons, if_neg h1, if_neg h2]
  | plus => rfl
  | minus => rfl

/-- **completeness**: every text of the grammar is accepted, with the REAL of its denotation -/
theorem parseF64N_complete {s : List Char} {v : FVal} (h : FloatR s v) : parseF64N (s.map Char.toNat) = some (bitsOf v) := by
  cases h with
  | number hs hn =>
    obtain ⟨c, t, hb, _, h1, h2⟩ := numberD_head hn
    rw [parseF64N_sign hs ⟨c, t, hb, h1, h2⟩, parseBody_number _ hn]; rfl
  | inf hs hw =>
    obtain ⟨c, t, hb, hc⟩ := word_head (by decide) hw
    rw [parseF64N_sign hs ⟨c, t, hb, by omega, by omega⟩, parseBody_inf _ (Or.inl hw)]; rfl
  | infinity hs hw =>
    obtain ⟨c, t, hb, hc⟩ := word_head (by decide) hw
    rw [parseF64N_sign hs ⟨c, t, hb, by omega, by omega⟩, parseBody_inf _ (Or.inr hw)]; rfl
  | nan hs hw =>
    obtain ⟨c, t, hb, hc⟩ := word_head (by decide) hw
    rw [parseF64N_sign hs ⟨c, t, hb, by omega, by omega⟩, parseBody_nan _ hw]; rfl

/-- **soundness**: an accepted text is a text of the grammar, and the answer is the REAL of a denotation -/
theorem parseF64N_sound {s : List Char} {b : Nat} (h : parseF64N (s.map Char.toNat) = some b) :
    ∃ v, FloatR s v ∧ bitsOf v = b := by
  have key : ∀ (neg : Bool) (sg body : List Char), SignD sg neg → s = sg ++ body →
      parseBody neg (body.map Char.toNat) = some b → ∃ v, FloatR s v ∧ bitsOf v = b := by
    intro neg sg body hs hsb hp
    subst hsb
    rcases parseBody_sound neg hp with ⟨m, e, hn, hb⟩ | ⟨hw, hb⟩ | ⟨hw, hb⟩
    · exact ⟨_, .number hs hn, hb.symm⟩
    · rcases hw with hw | hw
      · exact ⟨_, .inf hs hw, hb.symm⟩
      · exact ⟨_, .infinity hs hw, hb.symm⟩
    · exact ⟨_, .nan hs hw, hb.symm⟩
  cases s with
  | nil => exact key false [] [] .none rfl h
  | cons a t =>
    rw [List.map_cons, parseF64N_cons] at h
    by_cases h1 : a = '-'
    · subst h1; exact key true ['-'] t .minus rfl h
    · by_cases h2 : a = '+'
      · subst h2; exact key false ['+'] t .plus rfl h
      · have n1 : a.toNat ≠ 45 := fun e => h1 ((toNat_eq a '-').1 e)
        have n2 : a.toNat ≠ 43 := fun e => h2 ((toNat_eq a '+').1 e)
        rw [if_neg n1, if_neg n2] at h
        exact key false [] (a :: t) .none rfl h

/-- **`parseF64` decides the grammar of `f64::from_str` as Rust reads it** (`FloatR`: exponent digits accumulated with the
cap): `Ok(b)` exactly when the text is a `Float` of the grammar with a denotation whose REAL is `b` -/
theorem parseF64_iff_rust (s : List Char) (b : Nat) : parseF64 s = some b ↔ ∃ v, FloatR s v ∧ bitsOf v = b := by
  unfold parseF64
  constructor
  · exact parseF64N_sound
  · rintro ⟨v, hv, rfl⟩; exact parseF64N_complete hv

/-- the REAL is a function of the text: two denotations of one text have the same bits -/
theorem FloatR.unique_bits {s : List Char} {v v' : FVal} (h : FloatR s v) (h' : FloatR s v') : bitsOf v = bitsOf v' := by
  have a := (parseF64_iff_rust s _).2 ⟨v, h, rfl⟩
  have b := (parseF64_iff_rust s _).2 ⟨v', h', rfl⟩
  rw [a] at b; exact Option.some.inj b

/-! ### the two readings of the exponent: `FloatR` (Rust) and `FloatD` (documented) -/

theorem expDigits_skip (pre rest : List Char) (h : ∀ c ∈ pre, c ≠ 'e' ∧ c ≠ 'E') :
    expDigits (pre ++ rest) = expDigits rest := by
  induction pre with
  | nil => rfl
  | cons c pre ih =>
    have hc := h c (List.mem_cons_self ..)
    rw [List.cons_append, expDigits, if_neg (by rintro (h1 | h1); exact hc.1 h1; exact hc.2 h1)]
    exact ih (fun x hx => h x (List.mem_cons_of_mem _ hx))

theorem digit_not_e {c : Char} (h : Digit c) : c ≠ 'e' ∧ c ≠ 'E' := by
  have := JsonGrammar.digit_ne_sign h
  exact ⟨this.2.2.2.1, this.2.2.2.2⟩

/-- after the exponent marker and the optional sign come the exponent digits -/
theorem expDigits_exp {e : Char} {sg ds : List Char} {neg : Bool} (he : e = 'e' ∨ e = 'E') (hs : SignD sg neg)
    (hd : Digits1 ds) : expDigits (e :: sg ++ ds) = ds := by
  rw [List.cons_append, expDigits, if_pos he]
  cases hs with
  | plus => rfl
  | minus => rfl
  | none =>
    obtain ⟨hne, hdig⟩ := hd
    cases ds with
    | nil => exact absurd rfl hne
    | cons d t =>
      have := JsonGrammar.digit_ne_sign (hdig d (List.mem_cons_self ..))
      simp only [List.nil_append]
      unfold dropSign
      split
      · rename_i h; cases h; exact absurd rfl this.2.1
      · rename_i h; cases h; exact absurd rfl this.1
      · rfl

/-- an exponent part under another reading of its digits that agrees on them -/
theorem expDV_change {val val' : List Char → Nat} {ex : List Char} {ev : Int} (h : ExpDV val ex ev)
    (hv : val (expDigits ex) = val' (expDigits ex)) : ExpDV val' ex ev := by
  cases h with
  | none => exact .none
  | @some e sg ds neg he hs hd =>
    rw [expDigits_exp he hs hd] at hv
    rw [hv]
    exact .some he hs hd

theorem numberDV_change {val val' : List Char → Nat} {body : List Char} {m : Nat} {e : Int} (h : NumberDV val body m e)
    (hv : val (expDigits body) = val' (expDigits body)) : NumberDV val' body m e := by
  cases h with
  | @int ip ex ev hip hex =>
    rw [expDigits_skip ip ex (fun c hc => digit_not_e (hip.2 c hc))] at hv
    exact .int hip (expDV_change hex hv)
  | @point ip fp ex ev hip hfp hne hex =>
    have hpre : ∀ c ∈ ip ++ '.' :: fp, c ≠ 'e' ∧ c ≠ 'E' := by
      intro c hc
      simp only [List.mem_append, List.mem_cons] at hc
      rcases hc with hc | rfl | hc
      · exact digit_not_e (hip c hc)
      · decide
      · exact digit_not_e (hfp c hc)
    have hb : ip ++ '.' :: fp ++ ex = (ip ++ '.' :: fp) ++ ex := by simp
    rw [hb, expDigits_skip _ ex hpre] at hv
    exact .point hip hfp hne (expDV_change hex hv)

theorem signD_not_e {sg : List Char} {neg : Bool} (h : SignD sg neg) : ∀ c ∈ sg, c ≠ 'e' ∧ c ≠ 'E' := by
  cases h <;> decide

/-- **a derivation under another reading of the exponent digits that agrees on this text's exponent digits** -/
theorem floatDV_change {val val' : List Char → Nat} {s : List Char} {v : FVal} (h : FloatDV val s v)
    (hv : val (expDigits s) = val' (expDigits s)) : FloatDV val' s v := by
  cases h with
  | number hs hn =>
    rw [expDigits_skip _ _ (signD_not_e hs)] at hv
    exact .number hs (numberDV_change hn hv)
  | inf hs hw => exact .inf hs hw
  | infinity hs hw => exact .infinity hs hw
  | nan hs hw => exact .nan hs hw

theorem expDV_retext {val val' : List Char → Nat} {ex : List Char} {ev : Int} (h : ExpDV val ex ev) :
    ∃ ev', ExpDV val' ex ev' := by
  cases h with
  | none => exact ⟨_, .none⟩
  | some he hs hd => exact ⟨_, .some he hs hd⟩

/-- which texts the grammar derives does not depend on the reading of the exponent digits -/
theorem floatDV_retext {val val' : List Char → Nat} {s : List Char} {v : FVal} (h : FloatDV val s v) :
    ∃ v', FloatDV val' s v' := by
  cases h with
  | number hs hn =>
    cases hn with
    | int hip hex => obtain ⟨ev', hex'⟩ := expDV_retext (val' := val') hex; exact ⟨_, .number hs (.int hip hex')⟩
    | point hip hfp hne hex =>
      obtain ⟨ev', hex'⟩ := expDV_retext (val' := val') hex; exact ⟨_, .number hs (.point hip hfp hne hex')⟩
  | inf hs hw => exact ⟨_, .inf hs hw⟩
  | infinity hs hw => exact ⟨_, .infinity hs hw⟩
  | nan hs hw => exact ⟨_, .nan hs hw⟩

/-- **the same texts**: Rust's grammar and the documented one derive the same texts -/
theorem floatR_iff_floatD_text (s : List Char) : (∃ v, FloatR s v) ↔ ∃ v, FloatD s v :=
  ⟨fun ⟨_, h⟩ => floatDV_retext h, fun ⟨_, h⟩ => floatDV_retext h⟩

/-- **the same denotations when the exponent digits' value is below 65 536** (`ExpSmall`, decidable on the text) -/
theorem floatR_iff_floatD {s : List Char} (h : ExpSmall s) (v : FVal) : FloatR s v ↔ FloatD s v :=
  ⟨fun hr => floatDV_change hr (rustExpVal_eq h), fun hd => floatDV_change hd (rustExpVal_eq h).symm⟩

/-- a text without `e` / `E` (every SQL number token, `inf`, `nan`, `12.5`) has no exponent digits -/
theorem expSmall_of_no_e {s : List Char} (h : ∀ c ∈ s, c ≠ 'e' ∧ c ≠ 'E') : ExpSmall s := by
  have := expDigits_skip s [] h
  rw [List.append_nil] at this
  unfold ExpSmall
  rw [this]
  decide

/-- **`parseF64` decides the documented grammar of `f64::from_str`** on every text whose exponent digits' value is below
65 536: `Ok(b)` exactly when the text is a `Float` of the grammar with a denotation whose REAL is `b` -/
theorem parseF64_iff {s : List Char} (hs : ExpSmall s) (b : Nat) :
    parseF64 s = some b ↔ ∃ v, FloatD s v ∧ bitsOf v = b := by
  rw [parseF64_iff_rust]
  exact ⟨fun ⟨v, hv, hb⟩ => ⟨v, (floatR_iff_floatD hs v).1 hv, hb⟩, fun ⟨v, hv, hb⟩ => ⟨v, (floatR_iff_floatD hs v).2 hv, hb⟩⟩

/-- `Err` exactly when the grammar does not derive the text (for every text: acceptance does not look at the size of
the exponent) -/
theorem parseF64_none_iff (s : List Char) : parseF64 s = none ↔ ¬ ∃ v, FloatD s v := by
  rw [← floatR_iff_floatD_text]
  constructor
  · rintro h ⟨v, hv⟩
    have := (parseF64_iff_rust s _).2 ⟨v, hv, rfl⟩
    rw [h] at this; cases this
  · intro h
    cases hp : parseF64 s with
    | none => rfl
    | some b =>
      obtain ⟨v, hv, _⟩ := (parseF64_iff_rust s b).1 hp
      exact absurd ⟨v, hv⟩ h

/-- the REAL is a function of the text (documented grammar, exponent below the cap) -/
theorem FloatD.unique_bits {s : List Char} (hs : ExpSmall s) {v v' : FVal} (h : FloatD s v) (h' : FloatD s v') :
    bitsOf v = bitsOf v' :=
  FloatR.unique_bits ((floatR_iff_floatD hs v).2 h) ((floatR_iff_floatD hs v').2 h')

/-! ### texts given as code points or as UTF-8 bytes -/

theorem toNat_ofNat_of_lt {c : Nat} (h : c < 0xD800) : (Char.ofNat c).toNat = c := by
  simp [Char.ofNat, Nat.isValidChar, h, Char.toNat, Char.ofNatAux]

theorem map_toNat_ofNat (t : List Nat) (ht : ∀ c ∈ t, c < 0xD800) : (t.map Char.ofNat).map Char.toNat = t := by
  induction t with
  | nil => rfl
  | cons a t ih =>
    simp only [List.map_cons, toNat_ofNat_of_lt (ht a (List.mem_cons_self ..)),
      ih (fun c hc => ht c (List.mem_cons_of_mem _ hc))]

/-- **`parseF64N` decides the grammar** for a text given as code points (or bytes) below the surrogates -/
theorem parseF64N_iff_rust (t : List Nat) (ht : ∀ c ∈ t, c < 0xD800) (b : Nat) :
    parseF64N t = some b ↔ ∃ v, FloatR (t.map Char.ofNat) v ∧ bitsOf v = b := by
  rw [← parseF64_iff_rust]; unfold parseF64; rw [map_toNat_ofNat t ht]

/-- … and the documented grammar, exponent below the cap -/
theorem parseF64N_iff (t : List Nat) (ht : ∀ c ∈ t, c < 0xD800) (hs : ExpSmall (t.map Char.ofNat)) (b : Nat) :
    parseF64N t = some b ↔ ∃ v, FloatD (t.map Char.ofNat) v ∧ bitsOf v = b := by
  rw [← parseF64_iff hs]; unfold parseF64; rw [map_toNat_ofNat t ht]

theorem digits_ascii {ds : List Char} (h : Digits ds) : ∀ c ∈ ds, c.toNat < 128 := by
  intro c hc; have := h c hc; unfold Digit at this; omega

theorem signD_ascii {sg : List Char} {neg : Bool} (h : SignD sg neg) : ∀ c ∈ sg, c.toNat < 128 := by
  cases h <;> decide

theorem expD_ascii {val : List Char → Nat} {e : List Char} {ev : Int} (h : ExpDV val e ev) : ∀ c ∈ e, c.toNat < 128 := by
  cases h with
  | none => intro c hc; cases hc
  | some he hs hd =>
    intro c hc
    simp only [List.cons_append, List.mem_cons, List.mem_append] at hc
    rcases hc with rfl | hc | hc
    · rcases he with rfl | rfl <;> decide
    · exact signD_ascii hs c hc
    · exact digits_ascii hd.2 c hc

theorem numberD_ascii {val : List Char → Nat} {s : List Char} {m : Nat} {e : Int} (h : NumberDV val s m e) : ∀ c ∈ s, c.toNat < 128 := by
  cases h with
  | int hip hex =>
    intro c hc
    rcases List.mem_append.1 hc with hc | hc
    · exact digits_ascii hip.2 c hc
    · exact expD_ascii hex c hc
  | point hip hfp _ hex =>
    intro c hc
    simp only [List.mem_append, List.mem_cons] at hc
    rcases hc with (hc | rfl | hc) | hc
    · exact digits_ascii hip c hc
    · decide
    · exact digits_ascii hfp c hc
    · exact expD_ascii hex c hc

theorem wordCI_ascii {w s : List Char} (hw : ∀ l ∈ w, Lower l) (h : WordCI w s) : ∀ c ∈ s, c.toNat < 128 := by
  induction h with
  | nil => intro c hc; cases hc
  | @cons l c w s h1 _ ih =>
    intro x hx
    rcases List.mem_cons.1 hx with rfl | hx
    · have := hw l (List.mem_cons_self ..)
      unfold LetterCI at h1; unfold Lower at this; omega
    · exact ih (fun y hy => hw y (List.mem_cons_of_mem _ hy)) x hx

/-- every character of a text of the grammar is ASCII -/
theorem FloatDV.ascii {val : List Char → Nat} {s : List Char} {v : FVal} (h : FloatDV val s v) : ∀ c ∈ s, c.toNat < 128 := by
  intro c hc
  cases h with
  | number hs hn =>
    rcases List.mem_append.1 hc with hc | hc
    · exact signD_ascii hs c hc
    · exact numberD_ascii hn c hc
  | inf hs hw =>
    rcases List.mem_append.1 hc with hc | hc
    · exact signD_ascii hs c hc
    · exact wordCI_ascii lower_inf hw c hc
  | infinity hs hw =>
    rcases List.mem_append.1 hc with hc | hc
    · exact signD_ascii hs c hc
    · exact wordCI_ascii lower_infinity hw c hc
  | nan hs hw =>
    rcases List.mem_append.1 hc with hc | hc
    · exact signD_ascii hs c hc
    · exact wordCI_ascii lower_nan hw c hc

theorem encodeChar_head (c : Char) : ∃ b t, Utf8.encodeChar c = b :: t ∧ (b < 128 → c.toNat < 128) := by
  unfold Utf8.encodeChar
  simp only []
  split
  · exact ⟨_, _, rfl, fun _ => by assumption⟩
  · split
    · exact ⟨_, _, rfl, fun h => by omega⟩
    · split
      · exact ⟨_, _, rfl, fun h => by omega⟩
      · exact ⟨_, _, rfl, fun h => by omega⟩

theorem char_toNat_lt (c : Char) : c.toNat < 0x110000 := by
  have := c.valid
  simp only [UInt32.isValidChar, Nat.isValidChar, Char.toNat] at *
  omega

theorem encodeChar_byte_lt (c : Char) : ∀ b ∈ Utf8.encodeChar c, b < 256 := by
  have hc := char_toNat_lt c
  unfold Utf8.encodeChar
  simp only []
  split
  · intro b hb; simp only [List.mem_singleton] at hb; omega
  · split
    · intro b hb; simp only [List.mem_cons, List.not_mem_nil, or_false] at hb; omega
    · split
      · intro b hb; simp only [List.mem_cons, List.not_mem_nil, or_false] at hb; omega
      · intro b hb; simp only [List.mem_cons, List.not_mem_nil, or_false] at hb; omega

theorem encode_byte_lt (cs : List Char) : ∀ b ∈ Utf8.encode cs, b < 256 := by
  intro b hb
  unfold Utf8.encode at hb
  obtain ⟨c, _, hc⟩ := List.mem_flatMap.1 hb
  exact encodeChar_byte_lt c b hc

/-- a text whose UTF-8 bytes are all below 128 consists of ASCII characters -/
theorem ascii_of_encode (cs : List Char) (h : ∀ b ∈ Utf8.encode cs, b < 128) : ∀ c ∈ cs, c.toNat < 128 := by
  induction cs with
  | nil => intro c hc; cases hc
  | cons a cs ih =>
    have he : Utf8.encode (a :: cs) = Utf8.encodeChar a ++ Utf8.encode cs := by simp [Utf8.encode]
    rw [he] at h
    intro c hc
    rcases List.mem_cons.1 hc with rfl | hc
    · obtain ⟨b, t, hb, hlt⟩ := encodeChar_head c
      exact hlt (h b (by rw [hb]; simp))
    · exact ih (fun b hb => h b (List.mem_append_right _ hb)) c hc

/-- the UTF-8 encoding of an ASCII text is its code points (as `Lemmas/StrBytes.encode_ascii`, which lives above the
evaluator model; restated here to keep this file below it) -/
theorem encode_ascii' (cs : List Char) (h : ∀ c ∈ cs, c.toNat < 128) : Utf8.encode cs = cs.map Char.toNat := by
  unfold Utf8.encode
  induction cs with
  | nil => rfl
  | cons c cs ih =>
    have hc := h c List.mem_cons_self
    have : Utf8.encodeChar c = [c.toNat] := by
      unfold Utf8.encodeChar
      simp only [show c.toNat < 0x80 from hc, if_true]
    simp only [List.flatMap_cons, List.map_cons, this, List.singleton_append]
    rw [ih (fun c' hc' => h c' (List.mem_cons_of_mem _ hc'))]

theorem map_ofNat_toNat (cs : List Char) : cs.map (Char.ofNat ∘ Char.toNat) = cs := by
  induction cs with
  | nil => rfl
  | cons c cs ih => simp only [List.map_cons, Function.comp, Char.ofNat_toNat]; exact congrArg _ ih

/-- **a REAL text as UTF-8 bytes** (what a capture group, a split field or a CONVERTed JSON string hands to
`f64::from_str`): the bytes of the text `cs` are accepted with the answer `b` exactly when `cs` is a `Float` of the
grammar — as Rust reads the exponent — with a denotation whose REAL is `b` -/
theorem parseF64N_utf8_iff_rust (cs : List Char) (b : Nat) :
    parseF64N (Utf8.encode cs) = some b ↔ ∃ v, FloatR cs v ∧ bitsOf v = b := by
  constructor
  · intro h
    have hbytes : ∀ c ∈ Utf8.encode cs, c < 0xD800 := by
      intro c hc
      have := encode_byte_lt cs c hc
      omega
    obtain ⟨v, hv, hb⟩ := (parseF64N_iff_rust _ hbytes b).1 h
    have hasc : ∀ c ∈ Utf8.encode cs, c < 128 := by
      intro c hc
      have := FloatDV.ascii hv (Char.ofNat c) (List.mem_map.2 ⟨c, hc, rfl⟩)
      rwa [toNat_ofNat_of_lt (hbytes c hc)] at this
    have hcs := ascii_of_encode cs hasc
    rw [encode_ascii' cs hcs, List.map_map] at hv
    rw [map_ofNat_toNat] at hv
    exact ⟨v, hv, hb⟩
  · rintro ⟨v, hv, rfl⟩
    rw [encode_ascii' cs (FloatDV.ascii hv)]
    exact parseF64N_complete hv

/-- … and the documented grammar for a text whose exponent digits' value is below 65 536 -/
theorem parseF64N_utf8_iff (cs : List Char) (hs : ExpSmall cs) (b : Nat) :
    parseF64N (Utf8.encode cs) = some b ↔ ∃ v, FloatD cs v ∧ bitsOf v = b := by
  rw [parseF64N_utf8_iff_rust]
  exact ⟨fun ⟨v, hv, hb⟩ => ⟨v, (floatR_iff_floatD hs v).1 hv, hb⟩, fun ⟨v, hv, hb⟩ => ⟨v, (floatR_iff_floatD hs v).2 hv, hb⟩⟩

/-- bytes are rejected exactly when the text is not a `Float` of the grammar (any exponent) -/
theorem parseF64N_utf8_none_iff (cs : List Char) : parseF64N (Utf8.encode cs) = none ↔ ¬ ∃ v, FloatD cs v := by
  rw [← floatR_iff_floatD_text]
  constructor
  · rintro h ⟨v, hv⟩
    have := (parseF64N_utf8_iff_rust cs _).2 ⟨v, hv, rfl⟩
    rw [h] at this; cases this
  · intro h
    cases hp : parseF64N (Utf8.encode cs) with
    | none => rfl
    | some b =>
      obtain ⟨v, hv, _⟩ := (parseF64N_utf8_iff_rust cs b).1 hp
      exact absurd ⟨v, hv⟩ h

/-! ### the cap, evaluated -/

-- `655360` is read as 65 536 (accumulation stops at the first prefix at or above `0x10000`), `65535` and `065535` exactly
example : rustExpVal "655360".toList = 65536 ∧ rustExpVal "65535".toList = 65535 ∧ rustExpVal "00065535".toList = 65535
    ∧ rustExpVal "99999".toList = 99999 ∧ rustExpVal "999990".toList = 99999 ∧ rustExpVal "655359".toList = 655359 := by decide
example : ExpSmall "1e65535".toList ∧ ¬ ExpSmall "1e65536".toList ∧ ExpSmall "-12.5".toList ∧ ExpSmall "1E-00400".toList
    ∧ ExpSmall "infinity".toList := by decide
-- short texts: the capped exponent and the exact one give the same REAL (inf / 0)
example : parseF64 "1e655360".toList = some infBits ∧ parseF64 "1e-655360".toList = some 0
    ∧ parseF64 "0e655360".toList = some 0 := by decide +kernel

/-! ### the witness of the cap (audit 3, M2): `0.` + n zeros + `1e655360`

The text denotes `10^(655360 − (n+1))`; Rust reads the exponent 65 536 and answers the REAL nearest to
`10^(65536 − (n+1))`. For `n = 65 299`: 1e236 instead of inf. Proved for every `n` from the grammar theorems (no 65 KB
text is evaluated); the harness case `capped-exponent` (`f64cases.rs`) runs the same text through `str::parse::<f64>()`. -/

theorem digitsVal_zeros (n : Nat) (l : List Char) :
    JsonGrammar.digitsVal (List.replicate n '0' ++ l) = JsonGrammar.digitsVal l := by
  unfold JsonGrammar.digitsVal
  induction n with
  | zero => rfl
  | succ n ih => rw [List.replicate_succ, List.cons_append, List.foldl_cons]; exact ih

theorem digits_zeros_one (n : Nat) : Digits (List.replicate n '0' ++ ['1']) := by
  intro c hc
  rcases List.mem_append.1 hc with hc | hc
  · rw [(List.mem_replicate.1 hc).2]; decide
  · rw [List.mem_singleton.1 hc]; decide

/-- the witness text: `0.` + `n` zeros + `1e655360` -/
def capWitness (n : Nat) : List Char := ['0'] ++ '.' :: (List.replicate n '0' ++ ['1']) ++ "e655360".toList

theorem capWitness_numberDV (val : List Char → Nat) (n : Nat) :
    NumberDV val (capWitness n) 1 ((val "655360".toList : Int) - ((n + 1 : Nat) : Int)) := by
  have hex : ExpDV val "e655360".toList (val "655360".toList : Int) :=
    ExpDV.some (e := 'e') (sg := []) (ds := "655360".toList) (neg := false) (Or.inl rfl) .none (by decide)
  have := NumberDV.point (val := val) (ip := ['0']) (fp := List.replicate n '0' ++ ['1']) (by decide) (digits_zeros_one n)
    (Or.inl (by decide)) hex
  have hm : JsonGrammar.digitsVal (['0'] ++ (List.replicate n '0' ++ ['1'])) = 1 := by
    rw [show ['0'] ++ (List.replicate n '0' ++ ['1']) = List.replicate (n + 1) '0' ++ ['1'] from by
      rw [List.replicate_succ]; rfl]
    rw [digitsVal_zeros]; rfl
  rw [hm] at this
  simpa [capWitness] using this

/-- **capped_exponent_witness.** Rust's `f64::from_str` (the model's `parseF64`) on `0.` + n zeros + `1e655360` answers
the REAL of `10^(65536 − (n+1))`, whereas the text denotes `10^(655360 − (n+1))` in the documented grammar. -/
theorem capped_exponent_witness (n : Nat) :
    parseF64 (capWitness n) = some (decToF64 false 1 (65536 - ((n + 1 : Nat) : Int))) ∧
    FloatD (capWitness n) (.dec false 1 (655360 - ((n + 1 : Nat) : Int))) ∧ ¬ ExpSmall (capWitness n) := by
  refine ⟨?_, ?_, ?_⟩
  · have h := FloatDV.number (val := rustExpVal) .none (capWitness_numberDV rustExpVal n)
    have := (parseF64_iff_rust _ _).2 ⟨_, h, rfl⟩
    rw [List.nil_append] at this
    rw [this]; rfl
  · have h := FloatDV.number (val := JsonGrammar.digitsVal) .none (capWitness_numberDV JsonGrammar.digitsVal n)
    rw [List.nil_append] at h
    exact h
  · unfold ExpSmall
    have hpre : ∀ c ∈ ['0'] ++ '.' :: (List.replicate n '0' ++ ['1']), c ≠ 'e' ∧ c ≠ 'E' := by
      intro c hc
      simp only [List.cons_append, List.nil_append, List.mem_cons, List.mem_append, List.mem_replicate, List.not_mem_nil,
        or_false] at hc
      rcases hc with rfl | rfl | ⟨_, rfl⟩ | rfl <;> decide
    rw [capWitness, expDigits_skip _ _ hpre]
    decide

/-- the audit's text (`n = 65 299`, 65 310 characters): Rust answers 1e236 — the text denotes 1e590060, whose nearest
REAL is inf -/
example : decToF64 false 1 (65536 - ((65299 + 1 : Nat) : Int)) = 0x70ef736f9b3494e9
    ∧ decToF64 false 1 (655360 - ((65299 + 1 : Nat) : Int)) = infBits := by decide +kernel

end Sqlgrep.DecFloat
