// Running a (definitions, query, files) triple through the real FileExecutor / ExecutionEngine and
// emitting the corresponding `batch` / `incr` cases for the Lean engine model.
use std::collections::BTreeSet;
use std::fs::File;
use std::path::PathBuf;
use std::sync::atomic::AtomicBool;
use std::sync::Arc;

use sqlgrep::data_model::Tables;
use sqlgrep::execution::execution_engine::{ExecutionConfig, ExecutionEngine};
use sqlgrep::execution::ExecutionError;
use sqlgrep::executor::{DisplayOptions, FileExecutor, OutputFormat};
use sqlgrep::Statement;

use crate::exprs::{eval_err_kind, oracles_sexp};
use crate::queries::*;
use crate::runq::{parse_tables, tmp_file, CapturePrinter};
use crate::util::{catch, hex, hexs, value_sexp, Caught};
use crate::exprs::canon_value;

pub fn exec_err_kind(e: &ExecutionError) -> &'static str {
    match e {
        ExecutionError::Expression(e) => eval_err_kind(e),
        ExecutionError::InternalError => "InternalError",
        ExecutionError::TableNotFound(_) => "TableNotFound",
        ExecutionError::ColumnNotFound(_) => "ColumnNotFound",
        ExecutionError::GroupKeyNotAvailable(_) => "GroupKeyNotAvailable",
        ExecutionError::ExpectedNumericValue => "ExpectedNumericValue",
        ExecutionError::ExpectedBoolValue => "ExpectedBoolValue",
        ExecutionError::ExpectedStringValue => "ExpectedStringValue",
        ExecutionError::NotSupportedOperation => "NotSupportedOperation",
        ExecutionError::JoinNotSupported => "JoinNotSupported",
        ExecutionError::FailOpenFile(_) => "FailOpenFile",
        ExecutionError::FailReadFile(_) => "FailReadFile",
        ExecutionError::CannotCreateArrayOfNullType => "CannotCreateArrayOfNullType",
        ExecutionError::DistinctRequiresColumn => "DistinctRequiresColumn",
    }
}

#[derive(Clone, Debug, PartialEq)]
pub struct BatchResult {
    pub status: String, // ok | err:Kind | panic
    pub total_lines: u64,
    pub printed: Vec<String>,
}

impl BatchResult {
    pub fn wire(&self) -> String {
        format!("{} total={} out={}", self.status, self.total_lines, self.printed.iter().map(|l| hex(l.as_bytes())).collect::<Vec<_>>().join(","))
    }
    /// the printed records (blank separator lines removed)
    pub fn records(&self) -> Vec<String> {
        self.printed.iter().filter(|l| !l.is_empty()).cloned().collect()
    }
}

pub struct Prepared {
    pub tables: Tables,
    pub statement: Statement,
}

pub fn prepare(defs: &str, query: &str) -> Result<Prepared, String> {
    let tables = parse_tables(defs)?;
    let statement = sqlgrep::parsing::parse(query).map_err(|e| format!("parse: {}", e))?;
    match statement {
        Statement::Select(_) | Statement::Aggregate(_) => Ok(Prepared { tables, statement }),
        _ => Err("not a query".to_owned()),
    }
}

/// the real batch run (`sqlgrep -d defs -c query files…`), text format
pub fn run_files(p: &Prepared, files: &[Vec<u8>]) -> BatchResult {
    let paths: Vec<PathBuf> = files.iter().map(|c| tmp_file(c)).collect();
    let mut total_lines = 0u64;
    let mut printed: Vec<String> = Vec::new();
    let res = catch(|| -> Result<(), String> {
        let mut fs = Vec::new();
        for path in &paths {
            fs.push(File::open(path).map_err(|_| "err:FailOpenFile".to_owned())?);
        }
        let running = Arc::new(AtomicBool::new(true));
        let display = DisplayOptions { output_format: OutputFormat::Text, single_result: false, print_result: true };
        let engine = ExecutionEngine::new(&p.tables, &p.statement);
        let mut executor = FileExecutor::with_output_printer(running, fs, display, CapturePrinter::new(), engine).map_err(|_| "err:Io".to_owned())?;
        let r = executor.execute();
        total_lines = executor.statistics().total_lines;
        printed = executor.output_printer().printer().lines.clone();
        r.map_err(|e| format!("err:{}", exec_err_kind(&e)))
    });
    for path in paths {
        let _ = std::fs::remove_file(path);
    }
    let status = match res {
        Caught::Done(Ok(())) => "ok".to_owned(),
        Caught::Done(Err(e)) => e,
        Caught::Panic(_) => "panic".to_owned(),
    };
    BatchResult { status, total_lines, printed }
}

/// the `batch` case for the model: statement, table infos, every line with the row the real `extract` gives
pub fn batch_case(p: &Prepared, joined: &[u8], files: &[Vec<u8>], stop: Option<usize>) -> Option<String> {
    let q = query_sexp(&p.statement, &p.tables)?;
    let from = match &p.statement { Statement::Select(s) => &s.from, Statement::Aggregate(a) => &a.from, _ => return None };
    let main = p.tables.get(from)?;
    let mut strings = BTreeSet::new();
    stmt_strings(&p.statement, &mut strings);
    let joined_s = match p.statement.join_clause() {
        Some(j) => file_sexp(p.tables.get(&j.joined_table)?, joined, &mut strings),
        None => "(file)".to_owned(),
    };
    let mut fs = String::from("(files");
    for f in files {
        fs.push(' ');
        fs.push_str(&file_sexp(main, f, &mut strings));
    }
    fs.push(')');
    let stop_s = match stop { Some(n) => n.to_string(), None => "(none)".to_owned() };
    Some(format!("batch {} {} {} {} {}", oracles_sexp(&strings, &pattern_set()), q, joined_s, fs, stop_s))
}

pub fn incr_case(p: &Prepared, joined: &[u8], file: &[u8]) -> Option<String> {
    let q = query_sexp(&p.statement, &p.tables)?;
    let from = match &p.statement { Statement::Select(s) => &s.from, Statement::Aggregate(a) => &a.from, _ => return None };
    let main = p.tables.get(from)?;
    let mut strings = BTreeSet::new();
    stmt_strings(&p.statement, &mut strings);
    let joined_s = match p.statement.join_clause() {
        Some(j) => file_sexp(p.tables.get(&j.joined_table)?, joined, &mut strings),
        None => "(file)".to_owned(),
    };
    let f = file_sexp(main, file, &mut strings);
    Some(format!("incr {} {} {} {}", oracles_sexp(&strings, &pattern_set()), q, joined_s, f))
}

/// line-at-a-time with the default (update + result) configuration; same textual form as the model's `incr` answer
pub fn run_incremental(p: &Prepared, lines: &[String]) -> (String, Vec<Option<(Vec<String>, Vec<Vec<sqlgrep::model::Value>>)>>) {
    let mut items: Vec<String> = Vec::new();
    let mut steps = Vec::new();
    let res = catch(|| -> Result<(), String> {
        let mut engine = ExecutionEngine::new(&p.tables, &p.statement);
        engine.execute_joined_table(Arc::new(AtomicBool::new(true))).map_err(|e| format!("err:{}", exec_err_kind(&e)))?;
        for line in lines {
            match engine.execute(line.clone(), &ExecutionConfig::default()) {
                Ok(o) => {
                    let mut item = match &o.result_row {
                        Some(r) => {
                            let mut s = format!("({})", r.columns.iter().map(|c| hexs(c)).collect::<Vec<_>>().join(" "));
                            for row in &r.data {
                                s.push_str(&format!("({})", row.columns.iter().map(|v| value_sexp(&canon_value(v))).collect::<Vec<_>>().join(" ")));
                            }
                            s
                        }
                        None => "-".to_owned(),
                    };
                    if o.reached_limit { item.push('!'); }
                    items.push(item);
                    steps.push(o.result_row.map(|r| (r.columns, r.data.into_iter().map(|x| x.columns).collect())));
                }
                Err(e) => {
                    items.push(format!("err:{}", exec_err_kind(&e)));
                    return Ok(());
                }
            }
        }
        Ok(())
    });
    match res {
        Caught::Done(Ok(())) => {}
        Caught::Done(Err(e)) => return (e, steps),
        Caught::Panic(_) => { items.push("panic".to_owned()); }
    }
    (items.join("|"), steps)
}

/// `-0.0 ↦ 0.0`, every NaN ↦ the canonical NaN (also inside arrays): two values that are equal in the value order but
/// print differently become identical. Used to recognise finding D60 exactly (tables equal after this mapping, different raw).
pub fn canon_zero_nan(v: &sqlgrep::model::Value) -> sqlgrep::model::Value {
    use sqlgrep::model::{Float, Value};
    match v {
        Value::Float(Float(f)) if *f == 0.0 => Value::Float(Float(0.0)),
        Value::Float(Float(f)) if f.is_nan() => Value::Float(Float(f64::NAN)),
        Value::Array(t, xs) => Value::Array(t.clone(), xs.iter().map(canon_zero_nan).collect()),
        other => other.clone(),
    }
}

/// the batch table at value level: every line through `execute` with the update-only configuration, then one result
/// (`None`: an error or a panic)
pub fn run_batch_rows(p: &Prepared, lines: &[String]) -> Option<(Vec<String>, Vec<Vec<sqlgrep::model::Value>>)> {
    let res = catch(|| -> Result<(Vec<String>, Vec<Vec<sqlgrep::model::Value>>), String> {
        let mut engine = ExecutionEngine::new(&p.tables, &p.statement);
        engine.execute_joined_table(Arc::new(AtomicBool::new(true))).map_err(|e| format!("{}", e))?;
        let config = engine.execution_config();
        for line in lines {
            engine.execute(line.clone(), &config).map_err(|e| format!("{}", e))?;
        }
        let o = engine.execute(String::new(), &ExecutionConfig::aggregate_result()).map_err(|e| format!("{}", e))?;
        match o.result_row {
            Some(r) => Ok((r.columns, r.data.into_iter().map(|x| x.columns).collect())),
            None => Ok((Vec::new(), Vec::new())),
        }
    });
    match res { Caught::Done(Ok(t)) => Some(t), _ => None }
}

