/-
INDEPENDENT specification of VARIANCE / STDDEV (property C04), over EXACT rationals (core `Rat`), written from the textbook
definition and from nothing in the code or the model:

    mean      μ   = (1/n) · Σ xᵢ
    variance  σ²  = (1/n) · Σ (xᵢ − μ)²          (POPULATION variance: divisor n)
    std. dev. σ   = the non-negative number whose square is σ²

Nothing here is REAL (binary64) arithmetic, nothing is a running sum. `Lemmas/Variance.lean` relates it to what the
model — and the code — compute (`Spec/Agg.lean`: for INT arguments the REAL quotient of the exact numerator `n·Σx² − (Σx)²` by the
exact denominator `n²`, `intVariance`; for REAL arguments the one-pass formula `(Σx² − (Σx)²/n)/n` evaluated step by step in REAL
arithmetic and clamped at zero, `realVariance`), `Props/C04Variance.lean` states what is proved.

What the property sentence ("STDDEV / VARIANCE over the argument's non-NULL values") and the README (`stddev(x)`,
`variance(x)`) do NOT fix, and this file therefore has to choose — it chooses as the code does and says so:
  * POPULATION variance (divisor `n`), not the sample variance (divisor `n − 1`, `sampleVariance` below, for contrast);
the two other choices of the code that C04's specification mirrors are in `Spec/Agg.lean`: PERCENTILE(p) is the
nearest-rank element at index `min(⌊p·n⌋, n−1)` of the ascending values (so PERCENTILE(0.5) of 1, 2 is 2), and AVG over
INT (and INTERVAL) is the truncating integer division of the sum by the count (`Int.tdiv`).
-/
namespace Sqlgrep.Spec.Variance

/-- arithmetic mean `μ = (1/n)·Σx` (of the empty list: 0) -/
def mean (xs : List Rat) : Rat := xs.sum / xs.length

/-- **population variance** `σ² = (1/n)·Σ(x − μ)²`, the textbook definition (of the empty list: 0) -/
def popVariance (xs : List Rat) : Rat := (xs.map (fun x => (x - mean xs) ^ 2)).sum / xs.length

/-- sample variance `(1/(n−1))·Σ(x − μ)²` — NOT what sqlgrep computes; here only to state that it is not -/
def sampleVariance (xs : List Rat) : Rat := (xs.map (fun x => (x - mean xs) ^ 2)).sum / (xs.length - 1)

/-- `r` is the standard deviation of `xs`: non-negative, and its square is the population variance -/
def IsStdDev (xs : List Rat) (r : Rat) : Prop := 0 ≤ r ∧ r * r = popVariance xs

/-- for INT inputs, cross-multiplied by `n²` so that only integers occur: `n²·σ² = n·Σx² − (Σx)²` -/
def varNumer (is : List Int) : Int := is.length * (is.map (fun x => x * x)).sum - is.sum * is.sum

end Sqlgrep.Spec.Variance
