import SqlgrepModel.Lemmas.ReaderUtf8
import SqlgrepModel.Lemmas.ReaderExec
/-
C12 — every line of every input file reaches the query exactly once, in order.

Model (`Model/Reader.lean`): `lines` = `BufRead::lines` over the content of one file (`read_line` into a fresh
`String`: bytes through the next `\n` or to the end; `Ok(0)` ends; the chunk — newline included — must be
valid UTF-8, else the item is `Err`; one `\n` and then one `\r` are stripped); `execFiles` = the double loop of
`FileExecutor::execute` (files in command-line order, lines in file order; a line that cannot be read ends
the run with `ExecutionError::FailReadFile`; an engine error ends it too), generic in the engine `step`;
the joined-file loader (src/execution/join.rs) is the same loop over one file. `presented` = `execFiles` with
the engine that records what it is given. LIMIT and interruption are C07/C19 and not part of this model.
Spec vocabulary (`Lemmas/ReaderSpec.lean`, `Lemmas/ReaderLines.lean`): `splitNl` — the unique split of a byte
string at `\n` (`joinNl (splitNl bs) = bs`, no piece contains `\n`); `assemble`/`specLines` — every piece but
the last is a newline-terminated line, the last piece is a line only if non-empty; `NlTerminated`.
All theorems quantify over all byte contents (valid UTF-8 or not), all file lists and every engine.
Only this file states property theorems; helper lemmas live in `Lemmas/`.
-/
namespace Sqlgrep.Props.C12
open Sqlgrep Sqlgrep.Reader

/-- `lines` yields exactly the pieces of the split at `\n`, in order: all but the last as terminated lines
(`\r` before the `\n` removed), the last only if it is non-empty (final line without newline) -/
theorem lines_spec (bs : List Nat) : lines bs = specLines bs := lines_eq_spec bs

/-- the split that `lines_spec` refers to loses, duplicates and reorders nothing -/
theorem split_exact (bs : List Nat) : joinNl (splitNl bs) = bs ∧ (∀ l ∈ splitNl bs, nl ∉ l) :=
  ⟨joinNl_splitNl bs, splitNl_no_nl bs⟩

/-- the number of lines of a file: one per `\n`, plus one for a non-empty unterminated last line -/
theorem lines_count (bs : List Nat) :
    (lines bs).length = (completeLines bs).length + (if tailOf bs = [] then 0 else 1) := by
  rw [lines_eq_spec]
  unfold specLines completeLines tailOf
  have key : ∀ ps : List (List Nat), ps ≠ [] →
      (assemble ps).length = ps.dropLast.length + (if ps.getLast?.getD [] = [] then 0 else 1) := by
    intro ps
    induction ps with
    | nil => intro h; exact absurd rfl h
    | cons p ps ih =>
      intro _
      cases ps with
      | nil => simp only [assemble]; split <;> simp [*]
      | cons q qs =>
        have := ih (by simp)
        simp only [assemble, List.length_cons, this, List.dropLast_cons_cons, List.getLast?_cons_cons]
        omega
  exact key _ (splitNl_ne_nil bs)

/-- a file that is valid UTF-8 as a whole has no unreadable line -/
theorem lines_valid_no_error (bs : List Nat) (h : validUtf8 bs = true) : .error () ∉ lines bs := by
  intro hmem
  have := lines_allOk_of_valid bs h
  rw [(allOk_false_iff _).2 hmem] at this
  exact Bool.noConfusion this

/-- `validUtf8` is the validity notion of `Utf8.decode` (Model/Text.lean) -/
theorem valid_iff_decodes (bs : List Nat) : validUtf8 bs = (Utf8.decode bs).isSome := validUtf8_eq_decode bs

/-- a newline-terminated (or empty) file followed by more content reads as the lines of the one followed by
the lines of the other -/
theorem lines_concat (f₁ f₂ : List Nat) (h : NlTerminated f₁) : lines (f₁ ++ f₂) = lines f₁ ++ lines f₂ :=
  lines_append f₁ f₂ h

/-- the double loop is a single loop over the lines of all files, in command-line and file order -/
theorem files_in_order {σ ε : Type} (step : σ → List Nat → Except ε σ) (s : σ) (files : List (List Nat)) :
    execFiles step s files = feed step s (files.flatMap lines) := execFiles_eq_feed step s files

/-- **Multi-file = concatenation**, for every engine (SELECT, aggregate, …: any state, any step function,
failing or not): running over files of which all but the last are newline-terminated is the same as running
over their concatenation — same final engine state, same outcome. -/
theorem multi_file_eq_concat {σ ε : Type} (step : σ → List Nat → Except ε σ) (s : σ)
    (files : List (List Nat)) (last : List Nat) (h : ∀ f ∈ files, NlTerminated f) :
    execFiles step s (files ++ [last]) = execFiles step s [(files ++ [last]).flatten] := by
  rw [execFiles_eq_feed, execFiles_eq_feed, flatMap_lines_eq files last h]
  simp

/-- **Exactly once, in order.** What a successful run presented to the query is, item for item, the
sequence of the lines of all files (each line once, files in order, lines in order). -/
theorem every_line_once_in_order (files : List (List Nat)) (h : (presented files).2 = .ok) :
    (presented files).1.map .ok = files.flatMap lines := by
  unfold presented at h ⊢
  rw [execFiles_eq_feed, feed_record] at h ⊢
  simp only [List.nil_append] at h ⊢
  cases ha : allOk (files.flatMap lines) with
  | true => exact ((allOk_iff _).1 ha).symm
  | false => rw [ha] at h; simp at h

/-- up to the first unreadable line nothing is lost either: the run presents exactly the lines before it -/
theorem presented_until_error (files : List (List Nat)) :
    (presented files).1 = okPrefix (files.flatMap lines) := by
  unfold presented
  rw [execFiles_eq_feed, feed_record]
  simp

/-- **No silent drop.** If any line of any file is not valid UTF-8, the run ends in the reported error
`FailReadFile` — it never returns `Ok` having skipped that line or the lines after it. -/
theorem no_silent_drop (files : List (List Nat)) (h : .error () ∈ files.flatMap lines) :
    (presented files).2 = .readError := by
  unfold presented
  rw [execFiles_eq_feed, feed_record, (allOk_false_iff _).2 h]
  simp

/-- the same for every engine: a run that ends `Ok` has been given every line of every file -/
theorem no_silent_drop_any_engine {σ ε : Type} (step : σ → List Nat → Except ε σ) (s : σ) (files : List (List Nat))
    (h : (execFiles step s files).2 = .ok) :
    files.flatMap lines = (okPrefix (files.flatMap lines)).map .ok := by
  rw [execFiles_eq_feed] at h
  exact (allOk_iff _).1 (feed_ok_all step s _ h)

/-- valid UTF-8 files are always read to the end: every line presented, outcome `Ok` -/
theorem valid_files_all_presented (files : List (List Nat)) (h : ∀ f ∈ files, validUtf8 f = true) :
    (presented files).2 = .ok ∧ (presented files).1.map .ok = files.flatMap lines := by
  have hall : allOk (files.flatMap lines) = true := by
    cases ha : allOk (files.flatMap lines) with
    | true => rfl
    | false =>
      have hm := (allOk_false_iff _).1 ha
      obtain ⟨f, hf, hmem⟩ := List.mem_flatMap.1 hm
      exact absurd hmem (lines_valid_no_error f (h f hf))
  have hok : (presented files).2 = .ok := by
    unfold presented
    rw [execFiles_eq_feed, feed_record, hall]
    simp
  exact ⟨hok, every_line_once_in_order files hok⟩

/-! ## The executed run (added with C05/C19: link between `Reader.execFiles` and `Exec.runFiles`)

`execFiles` above is generic in the engine; what `runBatch`, `runBatchI` and `Pipeline.runText` execute is `runFiles`
(Model/Exec.lean) over `FileLine`s, with the real engine, LIMIT and the final loop state. `fileOf mk bytes` is a file's
`Reader.lines` as `FileLine`s (`Pipeline.fileLines` produces exactly this: `fileLines_eq_fileOf`), `lineStep` the engine
step of `runFile` (a LIMIT stop or an engine failure leaves the loop, carried as the `engineError` payload) and
`finish` the state in which each ending leaves the run (`readError` ↦ `error := FailReadFile`, stopped). -/

/-- **the executed double loop is the reader loop of this file**, instantiated with the real engine step -/
theorem exec_is_reader_loop (O : Oracles) (qy : Query) (idx : JoinIndex) (w : Bool) (mk : List Nat → Line)
    (files : List (List Nat)) (ls : LoopState) (hst : ls.stop = false) (hrl : reachedLimit qy ls.es = false) :
    runFiles O qy idx w none (files.map (fileOf mk)) ls = finish (execFiles (lineStep O qy idx w mk) ls files) :=
  runFiles_eq_execFiles O qy idx w mk files ls hst hrl

/-- … hence a single loop over the lines of all files, in command-line and file order -/
theorem exec_files_in_order (O : Oracles) (qy : Query) (idx : JoinIndex) (w : Bool) (mk : List Nat → Line)
    (files : List (List Nat)) (ls : LoopState) (hst : ls.stop = false) (hrl : reachedLimit qy ls.es = false) :
    runFiles O qy idx w none (files.map (fileOf mk)) ls =
      finish (feed (lineStep O qy idx w mk) ls (files.flatMap lines)) := by
  rw [runFiles_eq_execFiles O qy idx w mk files ls hst hrl, execFiles_eq_feed]

/-- **multi-file = concatenation for the executed run** (`runBatchI` = `FileExecutor::execute`, any statement, join,
LIMIT): over files of which all but the last are newline-terminated the run is the run over their concatenation —
same records, same line count, same outcome -/
theorem exec_multi_file_eq_concat (O : Oracles) (qy : Query) (joined : Option (List FileLine)) (mk : List Nat → Line)
    (files : List (List Nat)) (last : List Nat) (h : ∀ f ∈ files, NlTerminated f) :
    (runBatchI O qy joined ((files ++ [last]).map (fileOf mk)) none none).1 =
      (runBatchI O qy joined [fileOf mk (files ++ [last]).flatten] none none).1 := by
  obtain ⟨o, ho⟩ := runBatchI_plain O qy joined
  rw [ho, ho]
  apply runWithIndex_congr_files
  intro idx w
  by_cases hrl : reachedLimit qy ({} : LoopState).es = true
  · -- LIMIT 0: nothing is read on either side
    cases hfs : (files ++ [last]).map (fileOf mk) with
    | nil => simp at hfs
    | cons a as => simp [runFiles, hrl]
  · have hrl' : reachedLimit qy ({} : LoopState).es = false := by simpa using hrl
    have h1 := runFiles_eq_execFiles O qy idx w mk (files ++ [last]) {} rfl hrl'
    have h2 := runFiles_eq_execFiles O qy idx w mk [(files ++ [last]).flatten] {} rfl hrl'
    simp only [List.map_cons, List.map_nil] at h2
    rw [h1, h2, multi_file_eq_concat _ _ files last h]

/-- **no silent drop in the executed run**: a run that went through all files without stopping (no failure, no
LIMIT reached) has been given every line of every file, none of them unreadable -/
theorem exec_no_silent_drop (O : Oracles) (qy : Query) (idx : JoinIndex) (w : Bool) (mk : List Nat → Line)
    (files : List (List Nat)) (ls : LoopState) (hst : ls.stop = false) (hrl : reachedLimit qy ls.es = false)
    (hend : (runFiles O qy idx w none (files.map (fileOf mk)) ls).stop = false) :
    .error () ∉ files.flatMap lines ∧ files.flatMap lines = (okPrefix (files.flatMap lines)).map .ok := by
  rw [runFiles_eq_execFiles O qy idx w mk files ls hst hrl] at hend
  have hok := finish_stop_false (fun e he => execFiles_lineStep_engineError O qy idx w mk files ls e he) hend
  have hall := no_silent_drop_any_engine _ ls files hok
  refine ⟨?_, hall⟩
  intro hmem
  have := (allOk_false_iff _).2 hmem
  rw [(allOk_iff _).2 hall] at this
  cases this

/-- **an unreadable line is reported at the point where it stands**: when the reader loop ends in a read error, the
executed run ends with `FailReadFile`, stopped, in the state reached over the lines before it -/
theorem exec_read_error_reported (O : Oracles) (qy : Query) (idx : JoinIndex) (w : Bool) (mk : List Nat → Line)
    (files : List (List Nat)) (ls : LoopState) (hst : ls.stop = false) (hrl : reachedLimit qy ls.es = false)
    (s : LoopState) (h : execFiles (lineStep O qy idx w mk) ls files = (s, .readError)) :
    runFiles O qy idx w none (files.map (fileOf mk)) ls =
      { s with out := { s.out with error := some .failReadFile }, stop := true } := by
  rw [runFiles_eq_execFiles O qy idx w mk files ls hst hrl, h]
  rfl

-- hypotheses of the `exec_*` theorems on the initial loop state of a `SELECT * … LIMIT 3`
example : ({} : LoopState).stop = false ∧
    reachedLimit ⟨.select ⟨[], true, none, some 3, false⟩, ⟨"t", ["k"]⟩, none⟩ ({} : LoopState).es = false := by decide

/-! Non-vacuity and concrete behaviour (97 = 'a', 98 = 'b', 99 = 'c', 10 = LF, 13 = CR, 255 = invalid byte). -/

-- CRLF, an empty line, a final line without newline
example : lines [97, 13, 10, 10, 98] = [.ok [97], .ok [], .ok [98]] := by rfl
-- only one CR is removed, and only directly before the LF; a lone CR is content
example : lines [97, 13, 13, 10, 13, 98, 10] = [.ok [97, 13], .ok [13, 98]] := by rfl
-- an invalid line is an `Err` item; the iterator itself would continue
example : lines [97, 10, 255, 10, 98, 10] = [.ok [97], .error (), .ok [98]] := by rfl
-- ... and the run stops there with the error reported, having presented what came before
example : presented [[97, 10, 255, 10], [98, 10]] = ([[97]], .readError) := by rfl
-- two files, the first newline-terminated, equal their concatenation
example : NlTerminated [97, 10] ∧ presented [[97, 10], [98]] = presented [[97, 10, 98]] := by
  constructor
  · decide
  · rfl
-- without the hypothesis the relation is false (the implementation agrees: lines do not continue across files)
example : presented [[97], [98]] = ([[97], [98]], .ok) ∧ presented [[97, 98]] = ([[97, 98]], .ok) := by
  constructor <;> rfl
-- hypothesis of `no_silent_drop` is satisfiable; hypothesis of `valid_files_all_presented` too
example : .error () ∈ [[97, 10, 195, 10]].flatMap lines := by
  show Except.error () ∈ [Except.ok [97], Except.error ()]
  simp
example : validUtf8 [97, 195, 169, 10, 226, 130, 172] = true := by decide

end Sqlgrep.Props.C12
