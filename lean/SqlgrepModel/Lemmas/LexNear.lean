import SqlgrepModel.Model.Lex
import SqlgrepModel.Lemmas.LexPos
/-
`TokenLocation::extract_near`: every slice index it computes is in range — for every line, every location —
because each recorded word `(start, length)` satisfies `start + length ≤ line length`.
-/
set_option linter.unusedSimpArgs false
namespace Sqlgrep.Lex
open Sqlgrep

/-- after `n` characters of the line: the current word ends at the index, every recorded word lies before it -/
structure WInv (n : Nat) (w : WordSt) : Prop where
  idx : w.index = n
  cur : w.start + w.len = n
  words : ∀ x ∈ w.words, x.1 + x.2 ≤ n

theorem wordStep_inv (o : Oracles) {n : Nat} {w : WordSt} (c : Char) (h : WInv n w) : WInv (n + 1) (wordStep o w c) := by
  unfold wordStep
  split
  · refine ⟨by simp [h.idx], by simp [h.idx], ?_⟩
    intro x hx
    simp only [List.mem_cons] at hx
    rcases hx with rfl | hx
    · have := h.cur; simp only; omega
    · have := h.words x hx; omega
  · refine ⟨by simp [h.idx], by have := h.cur; simp only; omega, ?_⟩
    intro x hx
    have := h.words x hx; omega

theorem foldl_wordStep_inv (o : Oracles) (line : List Char) : ∀ {n : Nat} {w : WordSt}, WInv n w →
    WInv (n + line.length) (line.foldl (wordStep o) w) := by
  induction line with
  | nil => intro n w h; simpa using h
  | cons c line ih =>
    intro n w h
    have := ih (wordStep_inv o c h)
    simp only [List.foldl_cons, List.length_cons]
    rw [show n + (line.length + 1) = n + 1 + line.length by omega]
    exact this

/-- every word of a line lies inside the line -/
theorem wordsOf_bounds (o : Oracles) (line : List Char) : ∀ x ∈ wordsOf o line, x.1 + x.2 ≤ line.length := by
  have h := foldl_wordStep_inv o line (n := 0) (w := {}) ⟨rfl, rfl, fun _ hx => by cases hx⟩
  simp only [Nat.zero_add] at h
  intro x hx
  unfold wordsOf at hx
  simp only [List.mem_reverse] at hx
  split at hx
  · simp only [List.mem_cons] at hx
    rcases hx with rfl | hx
    · have := h.cur; simp only; omega
    · exact h.words x hx
  · exact h.words x hx

theorem getSubstr_some (line : List Char) (w : Nat × Nat) (h : w.1 + w.2 ≤ line.length) :
    getSubstr line w = some ((line.drop w.1).take w.2) := by
  unfold getSubstr
  rw [if_pos ⟨Nat.le_add_right _ _, h⟩]

theorem excerpt_text (line : List Char) (all : List (Nat × Nat)) (i : Nat) (w : Nat × Nat)
    (hall : ∀ x ∈ all, x.1 + x.2 ≤ line.length) (hw : w.1 + w.2 ≤ line.length) :
    ∃ s, excerpt line all i w = .text s := by
  have hget : ∀ j x, all[j]? = some x → getSubstr line x = some ((line.drop x.1).take x.2) :=
    fun j x hx => getSubstr_some line x (hall x (List.mem_of_getElem? hx))
  have hprev : ∃ a, prevPart line all i = some a := by
    unfold prevPart
    split
    · exact ⟨_, rfl⟩
    · rename_i p hp
      split at hp
      · cases hp
      · rw [hget _ p hp]; exact ⟨_, rfl⟩
  have hnext : ∃ c, nextPart line all i = some c := by
    unfold nextPart
    split
    · exact ⟨_, rfl⟩
    · rename_i n hn
      rw [hget _ n hn]; exact ⟨_, rfl⟩
  obtain ⟨a, ha⟩ := hprev
  obtain ⟨c, hc⟩ := hnext
  unfold excerpt
  rw [ha, getSubstr_some line w hw, hc]
  exact ⟨_, rfl⟩

theorem nearFrom_text (line : List Char) (col : Nat) (all : List (Nat × Nat))
    (hall : ∀ x ∈ all, x.1 + x.2 ≤ line.length) : ∀ (rest : List (Nat × Nat)) (i : Nat),
    (∀ x ∈ rest, x.1 + x.2 ≤ line.length) → ∃ s, nearFrom line col all i rest = .text s := by
  intro rest
  induction rest with
  | nil => intro i _; exact ⟨[], rfl⟩
  | cons w rest ih =>
    intro i hr
    unfold nearFrom
    split
    · exact excerpt_text line all i w hall (hr w (by simp))
    · exact ih (i + 1) (fun x hx => hr x (by simp [hx]))

/-- **`extract_near` never indexes out of range**: for every text and every location (inside the text or not) the
model reaches no `panic` outcome -/
theorem extractNear_text (o : Oracles) (loc : Loc) (text : List Char) : ∃ s, extractNear o loc text = .text s := by
  unfold extractNear
  split
  · rename_i line _
    exact nearFrom_text line loc.column _ (wordsOf_bounds o line) _ 0 (wordsOf_bounds o line)
  · exact ⟨[], rfl⟩


/-! ### `str::lines()` against the split at `\n` -/

/-- a line ended by `\n` loses one `\r` directly before it -/
def stripCr (l : List Char) : List Char :=
  match l.reverse with
  | '\r' :: r => r.reverse
  | _ => l

/-- what `str::lines()` makes of `(complete lines, rest)` -/
def assemble (s : List (List Char) × List Char) : List (List Char) :=
  s.1.map stripCr ++ (if s.2.isEmpty then [] else [s.2])

theorem foldl_splitStep_prefix (cs : List Char) : ∀ (d0 : List (List Char)) (c : List Char),
    cs.foldl splitStep (d0, c) = (d0 ++ (cs.foldl splitStep ([], c)).1, (cs.foldl splitStep ([], c)).2) := by
  induction cs with
  | nil => intro d0 c; simp
  | cons x cs ih =>
    intro d0 c
    simp only [List.foldl_cons, splitStep]
    split
    · rw [ih (d0 ++ [c]) [], ih ([] ++ [c]) []]
      simp
    · rw [ih d0 (c ++ [x])]

theorem linesGo_eq (cs : List Char) : ∀ cur : List Char,
    linesGo cs cur = assemble (cs.foldl splitStep ([], cur.reverse)) := by
  induction cs with
  | nil =>
    intro cur
    simp only [linesGo, List.foldl_nil, assemble, List.map_nil, List.nil_append, List.isEmpty_reverse]
  | cons x cs ih =>
    intro cur
    simp only [linesGo, List.foldl_cons, splitStep]
    split
    · rw [ih [], foldl_splitStep_prefix cs ([] ++ [cur.reverse]) []]
      simp only [assemble, List.nil_append, List.reverse_nil, List.map_append, List.map_cons, List.map_nil,
        List.append_assoc, List.cons_append]
      congr 1
      unfold stripCr
      rw [List.reverse_reverse]
      cases cur with
      | nil => rfl
      | cons c r =>
        by_cases hc : c = '\r'
        · subst hc; rfl
        · have e1 : (match c :: r with | '\r' :: r => r.reverse | _ => (c :: r).reverse) = (c :: r).reverse := by
            split
            · rename_i heq; cases heq; exact absurd rfl hc
            · rfl
          rw [e1]
          split
          · rename_i heq; cases heq; exact absurd rfl hc
          · rfl
    · rw [ih (x :: cur)]
      simp

/-- **`str::lines()` in terms of the split at `\n`**: the complete lines with a `\r` before the `\n` removed, then
the rest of the text if it is not empty -/
theorem lines_eq (text : List Char) : lines text = assemble (splitFold text) := by
  unfold lines splitFold
  rw [linesGo_eq]; rfl

end Sqlgrep.Lex
