import SqlgrepModel.Lemmas.ParseRuns
/-
The part of `parse_select` that runs before the clause loop (`selectHead`: DISTINCT, the projection loop with AS, the
FROM table, `::'file'`): barrier equation, location independence, fuel monotonicity, suffix keeping, appended
tokens — hence it consumes no boundary token and reads exactly its tokens whatever boundary tail follows.
-/
namespace Sqlgrep
namespace Parse

/-! ### the part of `parse_select` before the clause loop -/

/-- what `parse_select` has read when it reaches the clause loop: DISTINCT flag, location, projections, table, file -/
abbrev HeadV := Bool × Loc × List (Option (List Char) × PExpr) × List Char × Option (List Char)

def selectHead (T : PrecTables) (fuel : Nat) (s : PSt) : PRes HeadV :=
  try! (_, s) ← next s;
  try! (distinct, s) ← optDistinct s;
  let loc := s.cur.loc
  try! (projections, s) ← projLoop T fuel [] s;
  try! (fromTable, s) ← consumeIdentifier s;
  try! (fromFile, s) ← optFile s;
  .ok (distinct, loc, projections, fromTable, fromFile) s

def selectOf (h : HeadV) (c : Clauses) : PSelect :=
  { loc := h.2.1, projections := h.2.2.1, fromTable := h.2.2.2.1, fromFile := h.2.2.2.2, filter := c.filter,
    groupBy := c.groupBy, having := c.having, join := c.join, limit := c.limit, distinct := h.1 }

theorem parseSelect_eq (T : PrecTables) (fuel : Nat) (s : PSt) :
    parseSelect T fuel s =
      (try! (h, s) ← selectHead T fuel s;
       try! (c, s) ← clauses T fuel s;
       .ok (.select (selectOf h c)) s) := by
  unfold parseSelect selectHead
  cases next s with
  | err e s1 => rfl
  | fuel => rfl
  | ok _ s1 =>
    simp only []
    cases optDistinct s1 with
    | err e s2 => rfl
    | fuel => rfl
    | ok d s2 =>
      simp only []
      cases projLoop T fuel [] s2 with
      | err e s3 => rfl
      | fuel => rfl
      | ok ps s3 =>
        simp only []
        cases consumeIdentifier s3 with
        | err e s4 => rfl
        | fuel => rfl
        | ok t s4 =>
          simp only []
          cases optFile s4 with
          | err e s5 => rfl
          | fuel => rfl
          | ok fl s5 => rfl

def eraseProjH (ps : List (Option (List Char) × PExpr)) : List (Option (List Char) × PExpr) :=
  ps.map (fun p => (p.1, p.2.eraseLoc))

def HeadV.erase (h : HeadV) : HeadV := (h.1, default, eraseProjH h.2.2.1, h.2.2.2.1, h.2.2.2.2)

/-! ### barrier equations -/

section swap
variable (t2 : PSt) (h2 : Boundary t2.cur.tok)
include h2

theorem consumeString_swapB (s : PSt) : consumeString (swapB t2 s) = (consumeString s).mapSt (swapB t2) := by
  by_cases h : Boundary s.cur.tok
  · have h' := swapB_b t2 h2 h
    have a : ∀ (u : PSt), Boundary u.cur.tok → consumeString u = mkErr u .expectedString := by
      intro u hu
      unfold consumeString
      split
      · rename_i n hn; rw [hn] at hu; unfold Boundary ClauseKw at hu; simp at hu
      · rfl
    rw [a _ h, a _ h']; exact mkErr_swapB t2 s _
  · unfold consumeString
    rw [swapB_nb t2 h]
    split
    · rw [next_swapB t2 h]; cases next s <;> rfl
    · exact mkErr_swapB t2 s _

theorem optDistinct_swapB (s : PSt) : optDistinct (swapB t2 s) = (optDistinct s).mapSt (swapB t2) := by
  unfold optDistinct
  simp only [swapB_tok_eq t2 h2 (show ¬ Boundary (Tok.kw .distinct) by decide)]
  by_cases hc : s.cur.tok = .kw .distinct
  · simp only [hc, if_true]
    rw [next_swapB t2 (nb_of_eq hc (by decide))]
    cases next s <;> rfl
  · simp only [hc, if_false]; rfl

theorem optAlias_swapB (s : PSt) : optAlias (swapB t2 s) = (optAlias s).mapSt (swapB t2) := by
  unfold optAlias
  simp only [swapB_tok_eq t2 h2 (show ¬ Boundary (Tok.kw .as) by decide)]
  by_cases hc : s.cur.tok = .kw .as
  · simp only [hc, if_true]
    rw [next_swapB t2 (nb_of_eq hc (by decide))]
    cases next s with
    | err e s1 => rfl
    | fuel => rfl
    | ok a s1 =>
      simp only [mapSt_ok, consumeIdentifier_swapB t2 h2]
      cases consumeIdentifier s1 <;> rfl
  · simp only [hc, if_false]; rfl

theorem optFile_swapB (s : PSt) : optFile (swapB t2 s) = (optFile s).mapSt (swapB t2) := by
  unfold optFile
  simp only [swapB_tok_eq t2 h2 (show ¬ Boundary Tok.dcolon by decide)]
  by_cases hc : s.cur.tok = .dcolon
  · simp only [hc, if_true]
    rw [next_swapB t2 (nb_of_eq hc (by decide))]
    cases next s with
    | err e s1 => rfl
    | fuel => rfl
    | ok a s1 =>
      simp only [mapSt_ok, consumeString_swapB t2 h2]
      cases consumeString s1 <;> rfl
  · simp only [hc, if_false]; rfl

variable {T : PrecTables} (hT : InertBoundary T)
include hT

theorem projLoop_swapB : ∀ (n : Nat) (acc : List (Option (List Char) × PExpr)) (s : PSt),
    projLoop T n acc (swapB t2 s) = (projLoop T n acc s).mapSt (swapB t2) := by
  intro n
  induction n with
  | zero => intro acc s; rw [projLoop, projLoop]; rfl
  | succ n ih =>
    intro acc s
    rw [projLoop, projLoop]
    rw [parseExpr_swapB hT h2]
    cases parseExpr T n s with
    | err e s1 => rfl
    | fuel => rfl
    | ok e s1 =>
      simp only [mapSt_ok, optAlias_swapB t2 h2]
      cases optAlias s1 with
      | err e s2 => rfl
      | fuel => rfl
      | ok nm s2 =>
        simp only [mapSt_ok, swapB_tok_eq t2 h2 (show ¬ Boundary Tok.comma by decide),
          swapB_tok_eq t2 h2 (show ¬ Boundary (Tok.kw .from) by decide)]
        by_cases hc : s2.cur.tok = .comma
        · simp only [hc, if_true]
          rw [next_swapB t2 (nb_of_eq hc (by decide))]
          cases next s2 with
          | err e s3 => rfl
          | fuel => rfl
          | ok a s3 => simp only [mapSt_ok]; exact ih _ _
        · simp only [hc, if_false]
          by_cases hf : s2.cur.tok = .kw .from
          · simp only [hf, if_true]
            rw [next_swapB t2 (nb_of_eq hf (by decide))]
            cases next s2 <;> rfl
          · simp only [hf, if_false]; exact mkErr_swapB t2 s2 _

/-- the head of `parse_select`, started on SELECT, never looks past the first boundary token -/
theorem selectHead_swapB (n : Nat) (s : PSt) (hs : ¬ Boundary s.cur.tok) :
    selectHead T n (swapB t2 s) = (selectHead T n s).mapSt (swapB t2) := by
  unfold selectHead
  rw [next_swapB t2 hs]
  cases next s with
  | err e s1 => rfl
  | fuel => rfl
  | ok _ s1 =>
    simp only [mapSt_ok, optDistinct_swapB t2 h2]
    cases optDistinct s1 with
    | err e s2 => rfl
    | fuel => rfl
    | ok d s2 =>
      simp only [mapSt_ok, swapB_loc, projLoop_swapB t2 h2 hT]
      cases projLoop T n [] s2 with
      | err e s3 => rfl
      | fuel => rfl
      | ok ps s3 =>
        simp only [mapSt_ok, consumeIdentifier_swapB t2 h2]
        cases consumeIdentifier s3 with
        | err e s4 => rfl
        | fuel => rfl
        | ok t s4 =>
          simp only [mapSt_ok, optFile_swapB t2 h2]
          cases optFile s4 <;> rfl

end swap


/-! ### location independence -/

theorem consumeString_stripH (s : PSt) : consumeString s.strip = (consumeString s).strip id := by
  unfold consumeString
  simp only [strip_cur_tok]
  split
  · rw [next_strip]; cases next s <;> rfl
  · rfl

theorem optDistinct_stripH (s : PSt) : optDistinct s.strip = (optDistinct s).strip id := by
  unfold optDistinct
  simp only [strip_cur_tok]
  by_cases hc : s.cur.tok = .kw .distinct
  · simp only [hc, if_true, next_strip]; cases next s <;> rfl
  · simp only [hc, if_false]; rfl

theorem optAlias_stripH (s : PSt) : optAlias s.strip = (optAlias s).strip id := by
  unfold optAlias
  simp only [strip_cur_tok]
  by_cases hc : s.cur.tok = .kw .as
  · simp only [hc, if_true, next_strip]
    cases next s with
    | err e s1 => rfl
    | fuel => rfl
    | ok a s1 => simp only [strip_ok, consumeIdentifier_strip]; cases consumeIdentifier s1 <;> rfl
  · simp only [hc, if_false]; rfl

theorem optFile_stripH (s : PSt) : optFile s.strip = (optFile s).strip id := by
  unfold optFile
  simp only [strip_cur_tok]
  by_cases hc : s.cur.tok = .dcolon
  · simp only [hc, if_true, next_strip]
    cases next s with
    | err e s1 => rfl
    | fuel => rfl
    | ok a s1 => simp only [strip_ok, consumeString_stripH]; cases consumeString s1 <;> rfl
  · simp only [hc, if_false]; rfl

theorem eraseProj_appendH (a b : List (Option (List Char) × PExpr)) : eraseProjH (a ++ b) = eraseProjH a ++ eraseProjH b := by
  simp [eraseProjH]

theorem projLoop_stripH (T : PrecTables) : ∀ (n : Nat) (acc : List (Option (List Char) × PExpr)) (s : PSt),
    projLoop T n (eraseProjH acc) s.strip = (projLoop T n acc s).strip eraseProjH := by
  intro n
  induction n with
  | zero => intro acc s; rw [projLoop, projLoop]; rfl
  | succ n ih =>
    intro acc s
    rw [projLoop, projLoop, parseExpr_strip]
    cases parseExpr T n s with
    | err e s1 => rfl
    | fuel => rfl
    | ok e s1 =>
      simp only [strip_ok, optAlias_stripH]
      cases optAlias s1 with
      | err e s2 => rfl
      | fuel => rfl
      | ok nm s2 =>
        simp only [strip_ok, strip_cur_tok, id]
        by_cases hc : s2.cur.tok = .comma
        · simp only [hc, if_true, next_strip]
          cases next s2 with
          | err e s3 => rfl
          | fuel => rfl
          | ok a s3 =>
            simp only [strip_ok]
            rw [← ih]; simp [eraseProjH]
        · simp only [hc, if_false]
          by_cases hf : s2.cur.tok = .kw .from
          · simp only [hf, if_true, next_strip]
            cases next s2 with
            | err e s3 => rfl
            | fuel => rfl
            | ok a s3 => simp [PRes.strip, eraseProjH]
          · simp only [hf, if_false]; rfl

theorem selectHead_strip (T : PrecTables) (n : Nat) (s : PSt) :
    selectHead T n s.strip = (selectHead T n s).strip HeadV.erase := by
  unfold selectHead
  rw [next_strip]
  cases next s with
  | err e s1 => rfl
  | fuel => rfl
  | ok _ s1 =>
    simp only [strip_ok, optDistinct_stripH]
    cases optDistinct s1 with
    | err e s2 => rfl
    | fuel => rfl
    | ok d s2 =>
      simp only [strip_ok, strip_cur_loc]
      have := projLoop_stripH T n [] s2
      simp only [eraseProjH, List.map_nil] at this
      rw [this]
      cases projLoop T n [] s2 with
      | err e s3 => rfl
      | fuel => rfl
      | ok ps s3 =>
        simp only [strip_ok, consumeIdentifier_strip]
        cases consumeIdentifier s3 with
        | err e s4 => rfl
        | fuel => rfl
        | ok t s4 =>
          simp only [strip_ok, optFile_stripH]
          cases optFile s4 <;> rfl

/-! ### fuel, suffixes, appended tokens -/

theorem projLoop_mono (T : PrecTables) : ∀ (n : Nat) (acc : List (Option (List Char) × PExpr)) (s : PSt),
    PLe (projLoop T n acc s) (projLoop T (n + 1) acc s) := by
  intro n
  induction n with
  | zero => intro acc s; rw [projLoop]; exact PLe.fuel _
  | succ n ih =>
    intro acc s
    rw [projLoop, projLoop]
    rcases (mono_all T n).1 s with h | h
    · rw [h]; exact PLe.fuel _
    · rw [h]
      cases parseExpr T (n + 1) s with
      | err e s1 => exact PLe.refl _
      | fuel => exact PLe.refl _
      | ok e s1 =>
        simp only []
        cases optAlias s1 with
        | err e s2 => exact PLe.refl _
        | fuel => exact PLe.refl _
        | ok nm s2 =>
          simp only []
          by_cases hc : s2.cur.tok = .comma
          · simp only [hc, if_true]
            cases next s2 with
            | err e s3 => exact PLe.refl _
            | fuel => exact PLe.refl _
            | ok a s3 => exact ih _ _
          · simp only [hc, if_false]; exact PLe.refl _

theorem selectHead_mono (T : PrecTables) (n : Nat) (s : PSt) : PLe (selectHead T n s) (selectHead T (n + 1) s) := by
  unfold selectHead
  cases next s with
  | err e s1 => exact PLe.refl _
  | fuel => exact PLe.refl _
  | ok _ s1 =>
    simp only []
    cases optDistinct s1 with
    | err e s2 => exact PLe.refl _
    | fuel => exact PLe.refl _
    | ok d s2 =>
      simp only []
      rcases projLoop_mono T n [] s2 with h | h
      · rw [h]; exact PLe.fuel _
      · rw [h]; exact PLe.refl _

theorem selectHead_mono_le (T : PrecTables) {f f' : Nat} (h : f ≤ f') (s : PSt) :
    PLe (selectHead T f s) (selectHead T f' s) := by
  induction h with
  | refl => exact PLe.refl _
  | step _ ih => exact ih.trans (selectHead_mono T _ s)

theorem selectHead_within {T : PrecTables} (f : Nat) (s : PSt) (toks : List PTok) (h : s.Suffix toks) :
    (selectHead T f s).Within toks := by
  unfold selectHead
  have h1 := next_within h
  cases hn : next s with
  | err e s1 => rw [hn] at h1; exact within_err (h1.2 e s1 rfl).1 (h1.2 e s1 rfl).2
  | fuel => exact within_fuel
  | ok _ s1 =>
    rw [hn] at h1
    have hs1 := h1.1 _ s1 rfl
    have h2 := optDistinct_within hs1
    simp only []
    cases hd : optDistinct s1 with
    | err e s2 => rw [hd] at h2; exact within_err (h2.2 e s2 rfl).1 (h2.2 e s2 rfl).2
    | fuel => exact within_fuel
    | ok d s2 =>
      rw [hd] at h2
      have hs2 := h2.1 _ s2 rfl
      have h3 := projLoop_within (T := T) f [] s2 hs2
      simp only []
      cases hp : projLoop T f [] s2 with
      | err e s3 => rw [hp] at h3; exact within_err (h3.2 e s3 rfl).1 (h3.2 e s3 rfl).2
      | fuel => exact within_fuel
      | ok ps s3 =>
        rw [hp] at h3
        have hs3 := h3.1 _ s3 rfl
        have h4 := consumeIdentifier_within hs3
        simp only []
        cases hc : consumeIdentifier s3 with
        | err e s4 => rw [hc] at h4; exact within_err (h4.2 e s4 rfl).1 (h4.2 e s4 rfl).2
        | fuel => exact within_fuel
        | ok t s4 =>
          rw [hc] at h4
          have hs4 := h4.1 _ s4 rfl
          have h5 := optFile_within hs4
          simp only []
          cases hf : optFile s4 with
          | err e s5 => rw [hf] at h5; exact within_err (h5.2 e s5 rfl).1 (h5.2 e s5 rfl).2
          | fuel => exact within_fuel
          | ok fl s5 => rw [hf] at h5; exact within_ok (h5.1 _ s5 rfl)

theorem selectHead_app (T : PrecTables) (y : List PTok) (n : Nat) (s : PSt) :
    Sim y (selectHead T n s) (selectHead T n (appSt y s)) := by
  unfold selectHead
  intro v s' h
  try_inv h; rename_i _ s1 h1
  try_inv h; rename_i d s2 h2
  try_inv h; rename_i ps s3 h3
  try_inv h; rename_i t s4 h4
  try_inv h; rename_i fl s5 h5
  cases h
  rw [next_app y s _ s1 h1]; simp only []
  rw [optDistinct_app y s1 _ s2 h2]; simp only [appSt_cur]
  rw [projLoop_app T y n [] s2 _ s3 h3]; simp only []
  rw [consumeIdentifier_app y s3 _ s4 h4]; simp only []
  rw [optFile_app y s4 _ s' h5]


/-! ### the head as a total function (for the generic lemmas) -/

/-- `selectHead` guarded by the test `Parser::parse` makes before it calls `parse_select` -/
def selectHeadG (T : PrecTables) (fuel : Nat) (s : PSt) : PRes HeadV :=
  if s.cur.tok = .kw .select then selectHead T fuel s else mkErr s .unknown

theorem selectHeadG_of {T : PrecTables} {fuel : Nat} {s : PSt} (h : s.cur.tok = .kw .select) :
    selectHeadG T fuel s = selectHead T fuel s := by simp [selectHeadG, h]

section generic
variable {T : PrecTables} (hT : InertBoundary T)
include hT

theorem selectHeadG_swapB (t2 : PSt) (h2 : Boundary t2.cur.tok) (n : Nat) (s : PSt) :
    selectHeadG T n (swapB t2 s) = (selectHeadG T n s).mapSt (swapB t2) := by
  unfold selectHeadG
  simp only [swapB_tok_eq t2 h2 (show ¬ Boundary (Tok.kw .select) by decide)]
  by_cases hc : s.cur.tok = .kw .select
  · simp only [hc, if_true]; exact selectHead_swapB t2 h2 hT n s (nb_of_eq hc (by decide))
  · simp only [hc, if_false]; exact mkErr_swapB t2 s _

omit hT in
theorem selectHeadG_strip (n : Nat) (s : PSt) : selectHeadG T n s.strip = (selectHeadG T n s).strip HeadV.erase := by
  unfold selectHeadG
  simp only [strip_cur_tok]
  by_cases hc : s.cur.tok = .kw .select
  · simp only [hc, if_true]; exact selectHead_strip T n s
  · simp only [hc, if_false]; rfl

omit hT in
theorem selectHeadG_within (f : Nat) (s : PSt) (toks : List PTok) (h : s.Suffix toks) : (selectHeadG T f s).Within toks := by
  unfold selectHeadG
  split
  · exact selectHead_within f s toks h
  · exact within_mkErr h

omit hT in
theorem selectHeadG_mono (f f' : Nat) (s : PSt) (r : PRes HeadV) (h : f ≤ f') (hr : selectHeadG T f s = r) (hne : r ≠ .fuel) :
    selectHeadG T f' s = r := by
  unfold selectHeadG at hr ⊢
  split
  · rename_i hc; simp only [hc, if_true] at hr; subst hr; exact (selectHead_mono_le T h s).eq_of_ne hne
  · rename_i hc; simp only [hc, if_false] at hr; exact hr

omit hT in
theorem selectHeadG_app (y : List PTok) (n : Nat) (s : PSt) : Sim y (selectHeadG T n s) (selectHeadG T n (appSt y s)) := by
  unfold selectHeadG
  simp only [appSt_cur]
  by_cases hc : s.cur.tok = .kw .select
  · simp only [hc, if_true]; exact selectHead_app T y n s
  · simp only [hc, if_false]; exact Sim.mkErr y _ _ _

/-- a successful head consumed no boundary token -/
theorem selectHead_noadv {f : Nat} {s s' : PSt} {h : HeadV} (hs : s.cur.tok = .kw .select)
    (hrun : selectHead T f s = .ok h s') : ∃ body, s = PSt.prepend body s' ∧ ∀ t ∈ body, ¬ Boundary t.tok :=
  noadv_generic (selectHeadG T) (fun t2 f s h2 => selectHeadG_swapB hT t2 h2 f s) selectHeadG_within
    selectHeadG_app f s s' h (by rw [selectHeadG_of hs]; exact hrun)

/-- the head reads exactly `body'` in front of every boundary tail, if it reads `body` in front of one -/
theorem selectHead_prefix (body body' : List PTok) (hnb : ∀ t ∈ body, ¬ Boundary t.tok)
    (hbody : body'.map (·.tok) = body.map (·.tok)) (hsel : ∃ t ts, body = t :: ts ∧ t.tok = .kw .select)
    (tail0 tail : PSt) (hb0 : Boundary tail0.cur.tok) (hb : Boundary tail.cur.tok) (fuel0 fuel : Nat) (hf : fuel0 ≤ fuel)
    (h : HeadV) (hrun : selectHead T fuel0 (PSt.prepend body tail0) = .ok h tail0) :
    ∃ h', selectHead T fuel (PSt.prepend body' tail) = .ok h' tail ∧ h'.erase = h.erase := by
  obtain ⟨t, ts, rfl, ht⟩ := hsel
  match body', hbody with
  | t' :: ts', hbody =>
    simp only [List.map_cons, List.cons.injEq] at hbody
    have h1 : (PSt.prepend (t :: ts) tail0).cur.tok = .kw .select := ht
    have h2 : (PSt.prepend (t' :: ts') tail).cur.tok = .kw .select := by
      show t'.tok = _; rw [hbody.1]; exact ht
    have := prefix_generic (selectHeadG T) HeadV.erase (fun t2 f s h2 => selectHeadG_swapB hT t2 h2 f s)
      selectHeadG_strip selectHeadG_within selectHeadG_mono (t :: ts) (t' :: ts') hnb
      (by simp [hbody.1, hbody.2]) tail0 tail hb0 hb fuel0 fuel hf h (by rw [selectHeadG_of h1]; exact hrun)
    rw [selectHeadG_of h2] at this
    exact this

end generic

end Parse
end Sqlgrep
