import SqlgrepModel.Lemmas.ClimbFinal
import SqlgrepModel.Lemmas.ParseFuelStmt
/-
C13 — "Every expression means the same as its fully parenthesised form under the standard SQL precedence - cast and
subscript and qualified names bind tightest, then unary minus, then * and /, then + and -, then comparisons with IS
and IN, then NOT, then AND, then OR, binary operators associating to the left - so in particular a OR b AND c is
a OR (b AND c), NOT a = b is NOT (a = b) and x + a[1] adds the element. A negative literal or negated operand may
follow any operator (x = -1, x - -1), a parenthesised sub-expression is always accepted where an operand is, and IN
accepts a list of one element."

The theorems are about `Parse.parseExpr` (the model of `Parser::parse_expression_internal` that the driver executes,
`Model/ParseExpr.lean`) run on the precedence tables regenerated from the running code (`Generated/PrecTable.lean`).
`Spec/Grammar.lean` is the reference grammar of the sentence: `specTables`, `notLevel`, `negLevel`, the expression
type `RExpr`, the printers `minimal` / `full` and the denoted tree `embed`.
A state `pushAll toks rest` is the token vector `toks ++ rest` (printed tokens at the default location).
-/
namespace Sqlgrep.Props.C13
open Sqlgrep Sqlgrep.Spec Sqlgrep.Parse

/-- **fuel_mono**: more fuel never changes an answer of the expression parser other than "out of fuel" (an `ok` or
`err` answer is final). The same holds for the five other mutually recursive functions (`Lemmas/ClimbMono.lean`). -/
theorem fuel_mono (T : PrecTables) {f f' : Nat} (h : f ≤ f') {s : PSt} {r : PRes PExpr}
    (hr : parseExpr T f s = r) (hne : r ≠ .fuel) : parseExpr T f' s = r :=
  fuel_mono_expr T h hr hne

/-- The table obligations: the tables as written in the model, the tables regenerated from the running code and the
reference tables satisfy the well-formedness `PrecTables.WF` that `climb_correct` needs (precedences ≥ 0; the
qualified-name dot defined, above every other operator and at least 8; IS / IS NOT / AND / OR / IN / NOT IN / `[` /
`::` defined; `)` `,` `]` not operators; unary minus defined). -/
theorem code_tables_wf : PrecTables.code.WF := code_wf

/-- the table the statement parser, the `pstmt` / `stmt` drivers and the end-to-end `Pipeline.runText` run with
(`PrecTables.code`) IS the table regenerated from the running code — hence (by `grammar_eq_spec` below) the reference
grammar's. So every theorem of this file stated for `Generated.precTables` speaks about the executed parser, and a
change of any precedence in /repo breaks this obligation at build time. -/
theorem code_tables_are_the_generated_tables : PrecTables.code = Generated.precTables := by decide
theorem generated_tables_wf : Generated.precTables.WF := generated_wf
theorem spec_tables_wf : specTables.WF := spec_wf

/-- **grammar_eq_spec** (tables): the precedence assignment the running code implements *is* the reference assignment
of the sentence: OR 1, AND 2, comparisons / IS / IS NOT / IN / NOT IN 4, `+ -` 5, `* /` (and `^`) 6, `[` and `::` 8,
qualified-name dot 9, unary operators = {`-`}. A changed entry in `operator.rs` / `get_token_precedence` breaks this
theorem at build time. -/
theorem grammar_eq_spec : Generated.precTables = specTables := generated_eq_spec

/-- **grammar_eq_spec** (structural rule for NOT): prefix NOT takes as operand a unary expression followed by the
operand loop at level `notLevel + 1 = 4`, i.e. NOT binds weaker than the comparisons and tighter than AND. -/
theorem not_attaches (T : PrecTables) {s s1 : PSt} {x : PExpr} {s2 : PSt} (hcur : s.cur.tok = .kw .not)
    (hnext : next s = .ok () s1) (hx : PExprAt T (notLevel + 1) s1 x s2) : PU T s (.invert s.cur.loc x) s2 :=
  PU_not T hcur hnext hx

/-- **grammar_eq_spec** (structural rule for unary minus): a unary operator takes as operand a unary expression
followed by the operand loop at level `negLevel + 1 = 8`, i.e. unary minus binds weaker than cast / subscript /
qualified names and tighter than `*` `/`. -/
theorem neg_attaches (T : PrecTables) {s s1 : PSt} {o : Operator} {x : PExpr} {s2 : PSt} (hcur : s.cur.tok = .op o)
    (hstar : o ≠ .single '*') (hun : o ∈ T.unary) (hnext : next s = .ok () s1)
    (hx : PExprAt T (negLevel + 1) s1 x s2) : PU T s (.unop s.cur.loc o x) s2 :=
  PU_neg T hcur hstar hun hnext hx

/-- **climb_correct**: for *any* well-formed precedence table `T` and any well-formed expression `e` — binary
operators, IS / IS NOT, AND / OR, prefix NOT and unary minus (also nested and after any operator), subscripts, casts,
qualified names, IN / NOT IN lists (one element included), calls (also `count(DISTINCT …)`, `count(*)`, `array[…]`,
`EXTRACT(… FROM …)`), tuples, CASE, user-written parentheses, nested to any depth —
running `parse_unary_operator` and then the operand loop at any level `m` on the printing of `e` for context `m`
(parentheses only where the levels require them) followed by a state that stops level `m` returns exactly the tree of
`e` and stops in front of that state, for every sufficiently large fuel. -/
theorem climb_correct (T : PrecTables) (hT : T.WF) (e : RExpr) (hwf : RExpr.WF T e) (m : Int) (rest : PSt)
    (hm : m ≤ dotPrec T) (hloc : rest.cur.loc = default) (hS : Stops T m rest) :
    ∃ f0, ∀ f, f0 ≤ f → ∃ u s1, parseUnary T f (pushAll (e.pr T m) rest) = .ok u s1 ∧
      parseRhs T f m u s1 = .ok e.embed rest := by
  obtain ⟨u, s1, ⟨f, hf⟩, ⟨g, hg⟩⟩ := Spec.climb_correct hT e hwf m rest hm hloc hS
  refine ⟨max f g, fun k hk => ⟨u, s1, ?_, ?_⟩⟩
  · exact fuel_mono_unary T (by omega) hf ok_ne_fuel
  · exact fuel_mono_rhs T (by omega) hg ok_ne_fuel

/-- `climb_correct` at the top level (`parse_expression_internal`). -/
theorem climb_correct_top (T : PrecTables) (hT : T.WF) (e : RExpr) (hwf : RExpr.WF T e) (rest : PSt)
    (hloc : rest.cur.loc = default) (hS : Stops T 0 rest) :
    ∃ f0, ∀ f, f0 ≤ f → parseExpr T f (pushAll (e.pr T 0) rest) = .ok e.embed rest :=
  parse_printed hT e hwf rest hloc hS

/-- **parse_minimal_parens**: with the tables of the running code, an expression written with minimal parentheses
under the reference grammar and its fully parenthesised form are both read as the tree the reference grammar
assigns to it: `parse (minimal e) = parse (full e) = embed e`. -/
theorem parse_minimal_parens (e : RExpr) (hwf : RExpr.WF specTables e) (rest : PSt)
    (hloc : rest.cur.loc = default) (hS : Stops specTables 0 rest) :
    ∃ f0, ∀ f, f0 ≤ f →
      parseExpr Generated.precTables f (pushAll (RExpr.minimal e) rest) = .ok e.embed rest ∧
      parseExpr Generated.precTables f (pushAll (RExpr.full e) rest) = .ok e.embed rest := by
  rw [grammar_eq_spec]
  obtain ⟨f1, h1⟩ := parse_printed spec_wf e hwf rest hloc hS
  obtain ⟨f2, h2⟩ := parse_printed spec_wf e.parenAll (WF_parenAll e hwf) rest hloc hS
  rw [embed_parenAll] at h2
  exact ⟨max f1 f2, fun f hf => ⟨h1 f (by omega), h2 f (by omega)⟩⟩

/-- Parsing does not depend on where the tokens stand in the text: on the token vector with every location replaced by
the default one the expression parser gives the same answer with every location erased (tree / error / rest). -/
theorem parse_ignores_locations (T : PrecTables) (n : Nat) (s : PSt) :
    parseExpr T n s.strip = (parseExpr T n s).strip PExpr.eraseLoc :=
  parseExpr_strip T n s

/-- **parse_minimal_parens** for token vectors with arbitrary locations (`mkSt ts rest` is the vector `ts` followed by
the vector `rest`): if the tokens of `ts₁` are `minimal e` and the tokens of `ts₂` are `full e`, both are read as
`embed e` up to locations, and the parser stops in front of `rest`. -/
theorem parse_minimal_parens_located (e : RExpr) (hwf : RExpr.WF specTables e) (ts₁ ts₂ : List PTok) (rest : PSt)
    (h₁ : ts₁.map (·.tok) = RExpr.minimal e) (h₂ : ts₂.map (·.tok) = RExpr.full e) (hS : Stops specTables 0 rest) :
    ∃ f0, ∀ f, f0 ≤ f → ∃ t₁ s₁ t₂ s₂,
      parseExpr Generated.precTables f (mkSt ts₁ rest) = .ok t₁ s₁ ∧
      parseExpr Generated.precTables f (mkSt ts₂ rest) = .ok t₂ s₂ ∧
      t₁.eraseLoc = e.embed ∧ t₂.eraseLoc = e.embed ∧ s₁.strip = rest.strip ∧ s₂.strip = rest.strip := by
  rw [grammar_eq_spec]
  obtain ⟨f1, g1⟩ := parse_located spec_wf e hwf ts₁ rest h₁ hS
  obtain ⟨f2, g2⟩ := parse_located spec_wf e.parenAll (WF_parenAll e hwf) ts₂ rest h₂ hS
  refine ⟨max f1 f2, fun f hf => ?_⟩
  obtain ⟨t₁, s₁, a1, a2, a3⟩ := g1 f (by omega)
  obtain ⟨t₂, s₂, b1, b2, b3⟩ := g2 f (by omega)
  rw [embed_parenAll] at b2
  exact ⟨t₁, s₁, t₂, s₂, a1, b1, a2, b2, a3, b3⟩

/-- "a parenthesised sub-expression is always accepted where an operand is": `RExpr.paren` may wrap any
sub-expression at any operand position of `e` in `parse_minimal_parens`, and it does not change the tree. -/
theorem paren_operand_accepted (e : RExpr) : (RExpr.paren e).embed = e.embed := rfl

/-- "A negative literal or negated operand may follow any operator": after *every* binary operator of the reference
grammar (symbolic, IS, IS NOT, AND, OR) the minimal printing of `l o (- r)` puts the minus sign directly after the
operator, without parentheses — and by `parse_minimal_parens` that token sequence is read as `l o (- r)`. -/
theorem neg_after_operator (o : BOp) (l r : RExpr)
    (h : ∀ s, o = .sym s → s ≠ .single '.' ∧ (lookupOp specTables.binary s).isSome) :
    RExpr.minimal (.bin o l (.neg r)) =
      RExpr.pr specTables (tokPrec specTables o.tok) l ++ [o.tok, .op (.single '-')] ++
        RExpr.pr specTables (RExpr.prefixCtx negLevel r) r :=
  minimal_neg_operand o l r h

/-- what may follow an expression: any token that is not `(`, not an operator character and has no precedence
(`End`, `FROM`, `AS`, `,`, `)`, `]`, `THEN`, …) -/
theorem stops_of_plain_token {s : PSt} (h1 : s.cur.tok ≠ .lp) (h2 : ∀ o, s.cur.tok ≠ .op o)
    (h3 : lookupTok specTables.other s.cur.tok = none) : Stops specTables 0 s :=
  stops_plain h1 h2 h3

/-! ### the fuel the code is modelled with is enough

The theorems above hold "for every sufficiently large fuel". The executed model runs with a fuel that is linear in the
number of tokens (`Drivers/ParseExpr.lean`: `8 n + 16`; `Parse.parseTokens`: `fuelBound`), and `Lemmas/ParseFuelStmt.lean`
shows that `3 · (tokens remaining)` is always enough for the expression parser not to run out. Together with `fuel_mono`:
the answer at the executed fuel IS the answer of the theorems. -/

/-- at every fuel of at least three times the number of remaining tokens the answer is the one the theorems speak about -/
theorem answer_at_linear_fuel (T : PrecTables) (s : PSt) (t : PExpr) (rest : PSt)
    (h : ∃ f0, ∀ f, f0 ≤ f → parseExpr T f s = .ok t rest) (f : Nat) (hf : 3 * s.remaining ≤ f) :
    parseExpr T f s = .ok t rest := by
  obtain ⟨f0, h0⟩ := h
  have hne : parseExpr T f s ≠ .fuel := (parseExpr_adv T f s hf).1
  have := fuel_mono_expr T (Nat.le_max_left f f0) rfl hne
  rw [h0 (max f f0) (Nat.le_max_right f f0)] at this
  exact this.symm

/-- **parse_minimal_parens at the executed fuel** -/
theorem parse_minimal_parens_linear_fuel (e : RExpr) (hwf : RExpr.WF specTables e) (rest : PSt)
    (hloc : rest.cur.loc = default) (hS : Stops specTables 0 rest) (f : Nat)
    (h1 : 3 * (pushAll (RExpr.minimal e) rest).remaining ≤ f) (h2 : 3 * (pushAll (RExpr.full e) rest).remaining ≤ f) :
    parseExpr Generated.precTables f (pushAll (RExpr.minimal e) rest) = .ok e.embed rest ∧
    parseExpr Generated.precTables f (pushAll (RExpr.full e) rest) = .ok e.embed rest := by
  obtain ⟨f0, h0⟩ := parse_minimal_parens e hwf rest hloc hS
  exact ⟨answer_at_linear_fuel _ _ _ _ ⟨f0, fun g hg => (h0 g hg).1⟩ f h1,
         answer_at_linear_fuel _ _ _ _ ⟨f0, fun g hg => (h0 g hg).2⟩ f h2⟩

/-- the driver's fuel `8 n + 16` for a vector of `n` tokens is such a fuel -/
theorem driver_fuel_is_enough (s : PSt) : 3 * s.remaining ≤ 8 * s.remaining + 16 := by omega

/-! ### the instances named in the sentence -/

section instances
variable (rest : PSt) (a b c x : List Char)

/-- `a OR b AND c` is `a OR (b AND c)` -/
theorem or_and (hloc : rest.cur.loc = default) (hS : Stops specTables 0 rest) (ha : lowerChars a ≠ "array".toList) (hb : lowerChars b ≠ "array".toList) (hc : lowerChars c ≠ "array".toList) :
    ∃ f0, ∀ f, f0 ≤ f → parseExpr Generated.precTables f
      (pushAll [.ident a, .kw .or, .ident b, .kw .and, .ident c] rest) =
      .ok (.boolop default false (pcol a) (.boolop default true (pcol b) (pcol c))) rest :=
  inst (.bin .or (col a) (.bin .and (col b) (col c))) _ _ rest hloc hS
    (wf_kw (by simp) (wf_col ha) (wf_kw (by simp) (wf_col hb) (wf_col hc))) rfl rfl

/-- `NOT a = b` is `NOT (a = b)` -/
theorem not_eq (hloc : rest.cur.loc = default) (hS : Stops specTables 0 rest) (ha : lowerChars a ≠ "array".toList) (hb : lowerChars b ≠ "array".toList) :
    ∃ f0, ∀ f, f0 ≤ f → parseExpr Generated.precTables f
      (pushAll [.kw .not, .ident a, .op (.single '='), .ident b] rest) =
      .ok (.invert default (.binop default (.single '=') (pcol a) (pcol b))) rest :=
  inst (.not (.bin (.sym (.single '=')) (col a) (col b))) _ _ rest hloc hS
    (wf_sym (by decide) (wf_col ha) (wf_col hb)) rfl rfl

/-- `x + a[1]` adds the element -/
theorem plus_subscript (hloc : rest.cur.loc = default) (hS : Stops specTables 0 rest) (hx : lowerChars x ≠ "array".toList) (ha : lowerChars a ≠ "array".toList) :
    ∃ f0, ∀ f, f0 ≤ f → parseExpr Generated.precTables f
      (pushAll [.ident x, .op (.single '+'), .ident a, .lsq, .int 1, .rsq] rest) =
      .ok (.binop default (.single '+') (pcol x) (.index default (pcol a) (.value default (.int 1)))) rest :=
  inst (.bin (.sym (.single '+')) (col x) (.index (col a) (.lit (.int 1)))) _ _ rest hloc hS
    (wf_sym (by decide) (wf_col hx) ⟨wf_col ha, wf_lit _⟩) rfl rfl

/-- `x = -1`: a negative literal may follow a comparison -/
theorem eq_neg (hloc : rest.cur.loc = default) (hS : Stops specTables 0 rest) (hx : lowerChars x ≠ "array".toList) :
    ∃ f0, ∀ f, f0 ≤ f → parseExpr Generated.precTables f
      (pushAll [.ident x, .op (.single '='), .op (.single '-'), .int 1] rest) =
      .ok (.binop default (.single '=') (pcol x) (.unop default (.single '-') (.value default (.int 1)))) rest :=
  inst (.bin (.sym (.single '=')) (col x) (.neg (.lit (.int 1)))) _ _ rest hloc hS
    (wf_sym (by decide) (wf_col hx) (by simp [RExpr.WF])) rfl rfl

/-- `x - -1`: a negated operand may follow a minus -/
theorem minus_neg (hloc : rest.cur.loc = default) (hS : Stops specTables 0 rest) (hx : lowerChars x ≠ "array".toList) :
    ∃ f0, ∀ f, f0 ≤ f → parseExpr Generated.precTables f
      (pushAll [.ident x, .op (.single '-'), .op (.single '-'), .int 1] rest) =
      .ok (.binop default (.single '-') (pcol x) (.unop default (.single '-') (.value default (.int 1)))) rest :=
  inst (.bin (.sym (.single '-')) (col x) (.neg (.lit (.int 1)))) _ _ rest hloc hS
    (wf_sym (by decide) (wf_col hx) (by simp [RExpr.WF])) rfl rfl

/-- `x IN (1)`: IN accepts a list of one element -/
theorem in_singleton (hloc : rest.cur.loc = default) (hS : Stops specTables 0 rest) (hx : lowerChars x ≠ "array".toList) :
    ∃ f0, ∀ f, f0 ≤ f → parseExpr Generated.precTables f
      (pushAll [.ident x, .kw .in, .lp, .int 1, .rp] rest) =
      .ok (.inList default false (pcol x) [.value default (.int 1)]) rest :=
  inst (.inList false (col x) (.lit (.int 1)) []) _ _ rest hloc hS
    ⟨wf_col hx, wf_lit _, trivial⟩ rfl rfl

/-- `( a ) * ( b + c )`: parenthesised operands are accepted on both sides of an operator (and group) -/
theorem paren_operands (hloc : rest.cur.loc = default) (hS : Stops specTables 0 rest) (ha : lowerChars a ≠ "array".toList) (hb : lowerChars b ≠ "array".toList) (hc : lowerChars c ≠ "array".toList) :
    ∃ f0, ∀ f, f0 ≤ f → parseExpr Generated.precTables f
      (pushAll [.lp, .ident a, .rp, .op (.single '*'), .lp, .ident b, .op (.single '+'), .ident c, .rp] rest) =
      .ok (.binop default (.single '*') (pcol a) (.binop default (.single '+') (pcol b) (pcol c))) rest :=
  inst (.bin (.sym (.single '*')) (.paren (col a)) (.paren (.bin (.sym (.single '+')) (col b) (col c)))) _ _ rest hloc hS
    (wf_sym (by decide) (wf_col ha) (wf_sym (by decide) (wf_col hb) (wf_col hc))) rfl rfl

end instances

/-! ### non-vacuity -/

/-- the hypotheses of the theorems are satisfiable: the End token stops the top-level loop -/
example : Stops specTables 0 ⟨⟨default, .eof⟩, []⟩ := stops_of_plain_token (by simp) (by simp) (by decide)

/-- the printers on a non-trivial expression: `NOT a = b AND - c[1]::int IN (1)` / its fully parenthesised form -/
example : RExpr.minimal (.bin .and (.not (.bin (.sym (.single '=')) (.col ['a'] []) (.col ['b'] [])))
      (.inList false (.neg (.cast (.index (.col ['c'] []) (.lit (.int 1))) .int)) (.lit (.int 1)) [])) =
    [.kw .not, .ident ['a'], .op (.single '='), .ident ['b'], .kw .and, .op (.single '-'), .ident ['c'], .lsq, .int 1,
     .rsq, .dcolon, .ident "int".toList, .kw .in, .lp, .int 1, .rp] := by decide

/-- … and with the atoms of the operator grammar: `CASE WHEN a THEN count(DISTINCT b) ELSE array[1][1] END * EXTRACT(hour FROM c)` -/
example : RExpr.minimal (.bin (.sym (.single '*'))
      (.case (.col ['a'] []) (.countDistinct "count".toList (.col ['b'] []) []) []
        (.index (.array "array".toList [.lit (.int 1)]) (.lit (.int 1))))
      (.extract "hour".toList (.col ['c'] []))) =
    [.kw .case, .kw .when, .ident ['a'], .kw .then, .ident "count".toList, .lp, .kw .distinct, .ident ['b'], .rp, .kw .else,
     .ident "array".toList, .lsq, .int 1, .rsq, .lsq, .int 1, .rsq, .kw .end, .op (.single '*'), .kw .extract, .lp,
     .ident "hour".toList, .kw .from, .ident ['c'], .rp] := by decide

example : RExpr.WF specTables (.case (.col ['a'] []) (.countDistinct "count".toList (.col ['b'] []) []) []
    (.index (.array "array".toList [.lit (.int 1)]) (.lit (.int 1)))) := by
  simp [RExpr.WF, RExpr.WFs, RExpr.WFClauses]; decide

example : RExpr.full (.bin .or (.col ['a'] []) (.bin .and (.col ['b'] []) (.col ['c'] []))) =
    [.lp, .ident ['a'], .kw .or, .lp, .ident ['b'], .kw .and, .ident ['c'], .rp, .rp] := by decide

/-- the model run on concrete tokens (fuel 40): `a OR b AND c` followed by End -/
example : (match parseExpr Generated.precTables 40
      (pushAll [.ident ['a'], .kw .or, .ident ['b'], .kw .and, .ident ['c']] ⟨⟨default, .eof⟩, []⟩) with
    | .ok (.boolop _ false (.column _ ['a']) (.boolop _ true (.column _ ['b']) (.column _ ['c']))) _ => true
    | _ => false) = true := by decide

end Sqlgrep.Props.C13
