import SqlgrepModel.Spec.Agg
import SqlgrepModel.Spec.Variance
import SqlgrepModel.Lemmas.FloatArith
/-
The textbook population variance (`Spec/Variance.lean`, exact rationals) against the one-pass formula the model and the
code evaluate (`Spec.Agg.populationVariance` = `Model/Engine.lean` `stddevCalc`):

  (i)   over ℚ the two are EQUAL: `(Σx² − (Σx)²/n)/n = (1/n)·Σ(x − μ)²` (`popVariance_eq_onepass`), the variance is never
        negative (`popVariance_nonneg`) and that of a constant list is 0 (`popVariance_const`); for INT inputs
        `n²·σ² = n·Σx² − (Σx)²` (`popVariance_ints`);
  (ii)  the value of a finite REAL as a rational (`F64.toRat`), the decidable predicate "no step of the one-pass formula
        rounds" (`onePassExact`, `sqrtExact`) and: under it the model's REAL is EXACTLY the textbook variance
        (`onePass_exact_value`);
  (iii) each step on its own is correctly rounded (the nearest REAL to the exact result OF ITS OPERANDS:
        `onePass_steps_nearest`) — which does NOT make the final REAL the nearest to the exact variance: the subtraction
        `Σx² − (Σx)²/n` cancels, and what remains can be all rounding error (witnesses in `Props/C04Variance.lean`).
-/
namespace Sqlgrep
open Spec.Variance

namespace Variance

/-! ### (i) the algebra, over exact rationals -/

theorem rat_mul_self_nonneg (a : Rat) : 0 ≤ a * a := by
  rcases Rat.le_total (a := 0) (b := a) with h | h
  · exact Rat.mul_nonneg h h
  · have h1 : 0 ≤ -a := by grind
    have := Rat.mul_nonneg h1 h1
    grind

theorem rat_div_nonneg {a b : Rat} (h : 0 ≤ a) (hb : 0 < b) : 0 ≤ a / b := by
  rw [Rat.div_def]
  exact Rat.mul_nonneg h (Rat.le_of_lt (Rat.inv_pos.mpr hb))

theorem length_ne_zero {α : Type} {xs : List α} (h : xs ≠ []) : (xs.length : Rat) ≠ 0 := by
  have : xs.length ≠ 0 := by simpa using h
  exact_mod_cast this

theorem length_pos {α : Type} {xs : List α} (h : xs ≠ []) : (0 : Rat) < xs.length := by
  have : 0 < xs.length := List.length_pos_iff.mpr h
  exact Rat.natCast_pos.mpr this

/-- `Σ(x − c)² = Σx² − 2c·Σx + n·c²` for every constant `c` -/
theorem sum_sq_sub (c : Rat) (xs : List Rat) :
    (xs.map (fun x => (x - c) ^ 2)).sum = (xs.map (fun x => x ^ 2)).sum - 2 * c * xs.sum + xs.length * c ^ 2 := by
  induction xs with
  | nil => simp; grind
  | cons x xs ih =>
    simp only [List.map_cons, List.sum_cons, List.length_cons]
    rw [ih]
    push_cast
    grind

/-- **(i) the one-pass formula is the textbook variance, over exact rationals**: for a non-empty list
`(1/n)·Σ(x − μ)² = (Σx² − (Σx)²/n) / n` -/
theorem popVariance_eq_onepass (xs : List Rat) (h : xs ≠ []) :
    popVariance xs = ((xs.map (fun x => x ^ 2)).sum - xs.sum ^ 2 / xs.length) / xs.length := by
  have hn := length_ne_zero h
  unfold popVariance
  rw [sum_sq_sub]
  unfold mean
  grind

theorem sum_sq_nonneg (c : Rat) (xs : List Rat) : (0 : Rat) ≤ (xs.map (fun x => (x - c) ^ 2)).sum := by
  induction xs with
  | nil => simp
  | cons x xs ih =>
    simp only [List.map_cons, List.sum_cons]
    have : ((x - c) ^ 2 : Rat) = (x - c) * (x - c) := by grind
    rw [this]
    exact Rat.add_nonneg (rat_mul_self_nonneg _) ih

/-- a variance is never negative -/
theorem popVariance_nonneg (xs : List Rat) : 0 ≤ popVariance xs := by
  by_cases h : xs = []
  · subst h; simp [popVariance, Rat.div_def]
  · exact rat_div_nonneg (sum_sq_nonneg _ _) (length_pos h)

theorem sum_replicate (n : Nat) (c : Rat) : (List.replicate n c).sum = n * c := by
  induction n with
  | zero => simp
  | succ n ih => simp only [List.replicate_succ, List.sum_cons, ih]; push_cast; grind

/-- the variance of `n` equal values is 0 -/
theorem popVariance_const (n : Nat) (c : Rat) : popVariance (List.replicate n c) = 0 := by
  cases n with
  | zero => simp [popVariance, Rat.div_def]
  | succ n =>
    have hne : List.replicate (n + 1) c ≠ [] := by simp
    have hn := length_ne_zero hne
    rw [popVariance_eq_onepass _ hne]
    have h2 : ((List.replicate (n + 1) c).map (fun x => x ^ 2)) = List.replicate (n + 1) (c ^ 2) := by simp
    rw [h2, sum_replicate, sum_replicate]
    simp only [List.length_replicate] at hn ⊢
    grind

theorem sum_map_intCast (is : List Int) : (is.map (fun (i : Int) => (i : Rat))).sum = ((is.sum : Int) : Rat) := by
  induction is with
  | nil => simp
  | cons i is ih => simp only [List.map_cons, List.sum_cons, ih, Rat.intCast_add]

theorem sum_map_sq_intCast (is : List Int) :
    ((is.map (fun (i : Int) => (i : Rat))).map (fun x => x ^ 2)).sum = (((is.map (fun x => x * x)).sum : Int) : Rat) := by
  induction is with
  | nil => simp
  | cons i is ih =>
    simp only [List.map_cons, List.sum_cons, ih, Rat.intCast_add, Rat.intCast_mul]
    grind

/-- **for INT inputs only integers are needed**: `n²·σ² = n·Σx² − (Σx)²` -/
theorem popVariance_ints (is : List Int) (h : is ≠ []) :
    popVariance (is.map (fun (i : Int) => (i : Rat))) = (varNumer is : Rat) / ((is.length : Rat) * is.length) := by
  have hne : is.map (fun (i : Int) => (i : Rat)) ≠ [] := by simpa using h
  have hn := length_ne_zero h
  rw [popVariance_eq_onepass _ hne, sum_map_sq_intCast, sum_map_intCast]
  simp only [List.length_map, varNumer]
  push_cast
  grind

theorem foldl_add_eq_sum (is : List Int) (acc : Int) : is.foldl (· + ·) acc = acc + is.sum := by
  induction is generalizing acc with
  | nil => simp
  | cons i is ih => simp only [List.foldl_cons, ih, List.sum_cons]; omega

/-- the specification's `intSum` (a left fold) is the sum -/
theorem intSum_eq_sum (is : List Int) : Spec.Agg.intSum is = is.sum := by
  unfold Spec.Agg.intSum; rw [foldl_add_eq_sum]; omega

end Variance

/-! ### (ii) the exact value of a REAL, and "no step rounds" -/

namespace F64

/-- the exact value of a finite REAL (bit pattern) as a rational: `units` whole units of `2^-1074` -/
def toRat (x : Nat) : Rat := (units x : Rat) / (unitScale : Rat)

/-- `r` is a finite REAL and its exact value is `v` -/
def IsExactly (r : Nat) (v : Rat) : Prop := isFinite r = true ∧ toRat r = v

instance (r : Nat) (v : Rat) : Decidable (IsExactly r v) := by unfold IsExactly; infer_instance

end F64

namespace Variance
open F64 Spec.Agg
open DecFloat (adist)

/-- the intermediate REALs of the one-pass formula `(q − (s·s)/n)/n` in the order the code computes them -/
structure Steps where
  n : Nat        -- `count as f64`
  p : Nat        -- `sum * sum`
  d : Nat        -- `(sum * sum) / n`
  e : Nat        -- `sum_square - (sum * sum) / n`
  v : Nat        -- `(…) / n`: the variance

def steps (count : Int) (s q : Nat) : Steps :=
  let n := F64.ofInt count
  let p := F64.mul s s
  let d := F64.div p n
  let e := F64.sub q d
  { n := n, p := p, d := d, e := e, v := F64.div e n }

/-- the model's variance is the last step -/
theorem populationVariance_eq_steps (count : Int) (s q : Nat) : populationVariance count s q = (steps count s q).v := rfl

/-- **no step of the one-pass formula rounds** (decidable): `count`, `s`, `q` and the results of the four operations are
finite REALs and the exact value of each result is the exact result of the operation on the exact values of its operands -/
def onePassExact (count : Int) (s q : Nat) : Bool :=
  let t := steps count s q
  decide (IsExactly t.n count) && isFinite s && isFinite q &&
  decide (IsExactly t.p (toRat s * toRat s)) &&
  decide (IsExactly t.d (toRat t.p / toRat t.n)) &&
  decide (IsExactly t.e (toRat q - toRat t.d)) &&
  decide (IsExactly t.v (toRat t.e / toRat t.n))

/-- the square root does not round either: the result is a finite non-negative REAL whose square is exactly `v` -/
def sqrtExact (v : Nat) : Bool :=
  isFinite (F64.sqrt v) && decide (0 ≤ toRat (F64.sqrt v)) && decide (toRat (F64.sqrt v) * toRat (F64.sqrt v) = toRat v)

/-- under `onePassExact` the model's REAL is exactly the one-pass formula over the exact values of `s`, `q`, `count` -/
theorem onePass_exact_formula {count : Int} {s q : Nat} (h : onePassExact count s q = true) :
    isFinite (populationVariance count s q) = true ∧
    toRat (populationVariance count s q) = (toRat q - toRat s * toRat s / count) / count := by
  unfold onePassExact at h
  simp only [Bool.and_eq_true, decide_eq_true_eq] at h
  obtain ⟨⟨⟨⟨⟨⟨hn, _⟩, _⟩, hp⟩, hd⟩, he⟩, hv⟩ := h
  rw [populationVariance_eq_steps]
  refine ⟨hv.1, ?_⟩
  rw [hv.2, he.2, hd.2, hp.2, hn.2]

/-- INT inputs: `Σx`, `Σx²` converted to REAL without rounding, and no step of the formula rounds -/
def onePassExactInts (is : List Int) : Bool :=
  decide (IsExactly (F64.ofInt (intSum is)) (intSum is)) &&
  decide (IsExactly (F64.ofInt (intSum (is.map (fun x => x * x)))) (intSum (is.map (fun x => x * x)))) &&
  onePassExact is.length (F64.ofInt (intSum is)) (F64.ofInt (intSum (is.map (fun x => x * x))))

/-- **(ii) where nothing rounds, the model's VARIANCE is the textbook variance, exactly** (INT inputs) -/
theorem onePass_exact_value (is : List Int) (hne : is ≠ []) (h : onePassExactInts is = true) :
    IsExactly (populationVariance is.length (F64.ofInt (intSum is)) (F64.ofInt (intSum (is.map (fun x => x * x)))))
      (popVariance (is.map (fun (i : Int) => (i : Rat)))) := by
  unfold onePassExactInts at h
  simp only [Bool.and_eq_true, decide_eq_true_eq] at h
  obtain ⟨⟨hs, hq⟩, hx⟩ := h
  obtain ⟨hf, hval⟩ := onePass_exact_formula hx
  refine ⟨hf, ?_⟩
  have hne' : is.map (fun (i : Int) => (i : Rat)) ≠ [] := by simpa using hne
  rw [hval, hs.2, hq.2, popVariance_eq_onepass _ hne', sum_map_sq_intCast, sum_map_intCast, intSum_eq_sum, intSum_eq_sum]
  simp only [List.length_map]
  have : ((is.length : Int) : Rat) = (is.length : Rat) := by push_cast; rfl
  rw [this]
  grind

/-- … and where the square root does not round either, the model's STDDEV is the standard deviation, exactly -/
theorem onePass_exact_stddev (is : List Int) (hne : is ≠ []) (h : onePassExactInts is = true)
    (hr : sqrtExact (populationVariance is.length (F64.ofInt (intSum is)) (F64.ofInt (intSum (is.map (fun x => x * x))))) = true) :
    isFinite (spread is.length false (F64.ofInt (intSum is)) (F64.ofInt (intSum (is.map (fun x => x * x))))) = true ∧
    IsStdDev (is.map (fun (i : Int) => (i : Rat)))
      (toRat (spread is.length false (F64.ofInt (intSum is)) (F64.ofInt (intSum (is.map (fun x => x * x)))))) := by
  have hv := (onePass_exact_value is hne h).2
  unfold sqrtExact at hr
  simp only [Bool.and_eq_true, decide_eq_true_eq] at hr
  obtain ⟨⟨hf, h0⟩, hsq⟩ := hr
  simp only [spread, Bool.false_eq_true, if_false]
  exact ⟨hf, h0, by rw [hsq, hv]⟩

/-- REAL inputs: the running sums `Σx`, `Σ(x·x)` (each square and each addition a REAL operation) are exact, and no step of
the formula rounds -/
def onePassExactReals (rs : List Nat) : Bool :=
  rs.all isFinite &&
  decide (IsExactly (realSum rs) (rs.map toRat).sum) &&
  decide (IsExactly (realSum (rs.map (fun x => F64.mul x x))) ((rs.map toRat).map (fun x => x ^ 2)).sum) &&
  onePassExact rs.length (realSum rs) (realSum (rs.map (fun x => F64.mul x x)))

/-- **(ii) for REAL inputs**: where neither the running sums nor the formula round, the model's VARIANCE is exactly the
textbook variance of the exact values of the inputs -/
theorem onePass_exact_value_reals (rs : List Nat) (hne : rs ≠ []) (h : onePassExactReals rs = true) :
    IsExactly (populationVariance rs.length (realSum rs) (realSum (rs.map (fun x => F64.mul x x))))
      (popVariance (rs.map toRat)) := by
  unfold onePassExactReals at h
  simp only [Bool.and_eq_true, decide_eq_true_eq] at h
  obtain ⟨⟨⟨_, hs⟩, hq⟩, hx⟩ := h
  obtain ⟨hf, hval⟩ := onePass_exact_formula hx
  refine ⟨hf, ?_⟩
  have hne' : rs.map toRat ≠ [] := by simpa using hne
  rw [hval, hs.2, hq.2, popVariance_eq_onepass _ hne']
  simp only [List.length_map]
  have : ((rs.length : Int) : Rat) = (rs.length : Rat) := by push_cast; rfl
  rw [this]
  grind

/-! ### (iii) each step on its own is correctly rounded -/

/-- **every step of the one-pass formula is the nearest REAL to the exact result of the operation ON ITS (already rounded)
OPERANDS** — this is all IEEE-754 arithmetic promises, and all that holds in general: for finite `s`, `q`, a finite
non-zero `n` and finite intermediate results, no REAL `y` is nearer to `s·s` than `p`, to `p/n` than `d`, to `q − d` than
`e`, to `e/n` than `v` (distances in units of 2^-1074, cross-multiplied where a quotient occurs). It says nothing about the
distance of `v` from the exact variance. -/
theorem onePass_steps_nearest (count : Int) (s q : Nat) (hs : isFinite s = true) (hq : isFinite q = true)
    (hn : isFinite (steps count s q).n = true) (hz : mag (steps count s q).n ≠ 0)
    (hp : isFinite (steps count s q).p = true) (hd : isFinite (steps count s q).d = true)
    (he : isFinite (steps count s q).e = true) (hv : isFinite (steps count s q).v = true) (y : Nat) :
    let t := steps count s q
    adist (umag s * umag s) (umag t.p * unitScale) ≤ adist (umag s * umag s) (umag y * unitScale) ∧
    adist (umag t.p * unitScale) (umag t.d * umag t.n) ≤ adist (umag t.p * unitScale) (umag y * umag t.n) ∧
    adist (units q + units (F64.neg t.d)).natAbs (umag t.e) ≤ adist (units q + units (F64.neg t.d)).natAbs (umag y) ∧
    adist (umag t.e * unitScale) (umag t.v * umag t.n) ≤ adist (umag t.e * unitScale) (umag y * umag t.n) := by
  intro t
  have hnd : isFinite (F64.neg t.d) = true := by
    have : isFinite t.d = true := hd
    unfold F64.neg negX
    unfold isFinite mag at this ⊢
    split <;> simp only [decide_eq_true_eq] at this ⊢ <;> omega
  exact ⟨mulX_nearest s s hs hs hp y, divX_nearest t.p t.n hp hn hz hd y,
    addX_nearest q (F64.neg t.d) hq hnd he y, divX_nearest t.e t.n he hn hz hv y⟩

end Variance
end Sqlgrep
