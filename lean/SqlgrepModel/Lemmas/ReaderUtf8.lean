import SqlgrepModel.Lemmas.ReaderLines
import SqlgrepModel.Lemmas.ReaderFollow
/-
UTF-8 validity and line splitting: `\n` is ASCII, so a content is valid UTF-8 iff each of its
newline-terminated chunks is; hence `lines` yields no `Err` on a valid file.
-/
namespace Sqlgrep
namespace Reader
open Sqlgrep.Utf8

theorem validUtf8_cons (b0 : Nat) (rest : List Nat) : validUtf8 (b0 :: rest) =
    (if b0 < 0x80 then validUtf8 rest
    else if b0 < 0xC2 then false
    else if b0 < 0xE0 then
      match rest with
      | b1 :: rest' => if isCont b1 then validUtf8 rest' else false
      | _ => false
    else if b0 < 0xF0 then
      match rest with
      | b1 :: b2 :: rest' =>
        let n := (b0 - 0xE0) * 4096 + (b1 - 0x80) * 64 + (b2 - 0x80)
        if isCont b1 && isCont b2 && 0x800 ≤ n && !(0xD800 ≤ n && n < 0xE000) then validUtf8 rest' else false
      | _ => false
    else if b0 < 0xF5 then
      match rest with
      | b1 :: b2 :: b3 :: rest' =>
        let n := (b0 - 0xF0) * 262144 + (b1 - 0x80) * 4096 + (b2 - 0x80) * 64 + (b3 - 0x80)
        if isCont b1 && isCont b2 && isCont b3 && 0x10000 ≤ n && n < 0x110000 then validUtf8 rest' else false
      | _ => false
    else false) := by
  conv => lhs; rw [validUtf8.eq_def]
  rfl

theorem isCont_nl : isCont nl = false := by decide

theorem validUtf8_append_nl (l rest : List Nat) :
    validUtf8 (l ++ nl :: rest) = (validUtf8 (l ++ [nl]) && validUtf8 rest) := by
  induction l using validUtf8.induct with
  | case1 => simp [validUtf8_cons, nl, validUtf8]
  | case2 b0 r h ih => simp [validUtf8_cons, h, ih]
  | case3 b0 r h1 h2 => simp [validUtf8_cons, h1, h2]
  | case4 b0 h1 h2 h3 b1 r hc ih => simp [validUtf8_cons, h1, h2, h3, hc, ih]
  | case5 b0 h1 h2 h3 b1 r hc => simp [validUtf8_cons, h1, h2, h3, hc]
  | case6 b0 r h1 h2 h3 hn =>
    cases r with
    | nil => simp [validUtf8_cons, h1, h2, h3, isCont_nl]
    | cons b1 r' => exact absurd rfl (hn b1 r')
  | case7 b0 h1 h2 h3 h4 b1 b2 r n hc ih =>
    simp only [List.cons_append, validUtf8_cons, h1, h2, h3, h4, if_true, if_false]
    split <;> first | exact ih | rfl | (rename_i hC; exact absurd hc hC)
  | case8 b0 h1 h2 h3 h4 b1 b2 r n hc =>
    simp only [List.cons_append, validUtf8_cons, h1, h2, h3, h4, if_true, if_false]
    split
    · rename_i hC; exact absurd hC hc
    · simp
  | case9 b0 r h1 h2 h3 h4 hn =>
    match r, hn with
    | [], _ => cases rest <;> simp [validUtf8_cons, h1, h2, h3, h4, isCont_nl]
    | [b1], _ => simp [validUtf8_cons, h1, h2, h3, h4, isCont_nl]
    | b1 :: b2 :: r', hn => exact absurd rfl (hn b1 b2 r')
  | case10 b0 h1 h2 h3 h4 h5 b1 b2 b3 r n hc ih =>
    simp only [List.cons_append, validUtf8_cons, h1, h2, h3, h4, h5, if_true, if_false]
    split <;> first | exact ih | rfl | (rename_i hC; exact absurd hc hC)
  | case11 b0 h1 h2 h3 h4 h5 b1 b2 b3 r n hc =>
    simp only [List.cons_append, validUtf8_cons, h1, h2, h3, h4, h5, if_true, if_false]
    split
    · rename_i hC; exact absurd hC hc
    · simp
  | case12 b0 r h1 h2 h3 h4 h5 hn =>
    match r, hn with
    | [], _ => match rest with
      | [] => simp [validUtf8_cons, h1, h2, h3, h4, h5]
      | [_] => simp [validUtf8_cons, h1, h2, h3, h4, h5]
      | _ :: _ :: _ => simp [validUtf8_cons, h1, h2, h3, h4, h5, isCont_nl]
    | [b1], _ => cases rest <;> simp [validUtf8_cons, h1, h2, h3, h4, h5, isCont_nl]
    | [b1, b2], _ => simp [validUtf8_cons, h1, h2, h3, h4, h5, isCont_nl]
    | b1 :: b2 :: b3 :: r', hn => exact absurd rfl (hn b1 b2 b3 r')
  | case13 b0 r h1 h2 h3 h4 h5 => simp [validUtf8_cons, h1, h2, h3, h4, h5]

/-- `\n` never lies inside a multi-byte sequence: validity splits at it -/
theorem validUtf8_split_nl (l rest : List Nat) :
    validUtf8 (l ++ nl :: rest) = (validUtf8 l && validUtf8 rest) := by
  induction l using validUtf8.induct with
  | case1 => simp [validUtf8_cons, nl, validUtf8]
  | case2 b0 r h ih => simp [validUtf8_cons, h, ih]
  | case3 b0 r h1 h2 => simp [validUtf8_cons, h1, h2]
  | case4 b0 h1 h2 h3 b1 r hc ih => simp [validUtf8_cons, h1, h2, h3, hc, ih]
  | case5 b0 h1 h2 h3 b1 r hc => simp [validUtf8_cons, h1, h2, h3, hc]
  | case6 b0 r h1 h2 h3 hn =>
    cases r with
    | nil => simp [validUtf8_cons, h1, h2, h3, isCont_nl]
    | cons b1 r' => exact absurd rfl (hn b1 r')
  | case7 b0 h1 h2 h3 h4 b1 b2 r n hc ih =>
    simp only [List.cons_append, validUtf8_cons, h1, h2, h3, h4, if_true, if_false]
    split <;> first | exact ih | rfl | (rename_i hC; exact absurd hc hC)
  | case8 b0 h1 h2 h3 h4 b1 b2 r n hc =>
    simp only [List.cons_append, validUtf8_cons, h1, h2, h3, h4, if_true, if_false]
    split
    · rename_i hC; exact absurd hC hc
    · simp
  | case9 b0 r h1 h2 h3 h4 hn =>
    match r, hn with
    | [], _ => cases rest <;> simp [validUtf8_cons, h1, h2, h3, h4, isCont_nl]
    | [b1], _ => simp [validUtf8_cons, h1, h2, h3, h4, isCont_nl]
    | b1 :: b2 :: r', hn => exact absurd rfl (hn b1 b2 r')
  | case10 b0 h1 h2 h3 h4 h5 b1 b2 b3 r n hc ih =>
    simp only [List.cons_append, validUtf8_cons, h1, h2, h3, h4, h5, if_true, if_false]
    split <;> first | exact ih | rfl | (rename_i hC; exact absurd hc hC)
  | case11 b0 h1 h2 h3 h4 h5 b1 b2 b3 r n hc =>
    simp only [List.cons_append, validUtf8_cons, h1, h2, h3, h4, h5, if_true, if_false]
    split
    · rename_i hC; exact absurd hC hc
    · simp
  | case12 b0 r h1 h2 h3 h4 h5 hn =>
    match r, hn with
    | [], _ => match rest with
      | [] => simp [validUtf8_cons, h1, h2, h3, h4, h5]
      | [_] => simp [validUtf8_cons, h1, h2, h3, h4, h5]
      | _ :: _ :: _ => simp [validUtf8_cons, h1, h2, h3, h4, h5, isCont_nl]
    | [b1], _ => cases rest <;> simp [validUtf8_cons, h1, h2, h3, h4, h5, isCont_nl]
    | [b1, b2], _ => simp [validUtf8_cons, h1, h2, h3, h4, h5, isCont_nl]
    | b1 :: b2 :: b3 :: r', hn => exact absurd rfl (hn b1 b2 b3 r')
  | case13 b0 r h1 h2 h3 h4 h5 => simp [validUtf8_cons, h1, h2, h3, h4, h5]

/-- if lines written out (followed by anything) are valid UTF-8, each line is -/
theorem wire_valid (ls : List (List Nat)) (rest : List Nat) (h : validUtf8 (wire ls ++ rest) = true) :
    ∀ l ∈ ls, validUtf8 l = true := by
  induction ls with
  | nil => intro l hl; cases hl
  | cons x xs ih =>
    have e : wire (x :: xs) ++ rest = x ++ nl :: (wire xs ++ rest) := by simp [wire, List.append_assoc]
    rw [e, validUtf8_split_nl, Bool.and_eq_true] at h
    intro l hl
    simp only [List.mem_cons] at hl
    rcases hl with hl | hl
    · subst hl; exact h.1
    · exact ih h.2 l hl

/-- under the follow invariant: valid UTF-8 content from the start offset ⇒ every delivered line is valid
UTF-8 (so `String::from_utf8_lossy` changes nothing) -/
theorem inv_delivered_valid (s : Follow) (h : Inv s) (hv : validUtf8 (s.file.drop s.start) = true) :
    ∀ l ∈ s.delivered, validUtf8 l = true := by
  rw [← h.1] at hv
  simp only [List.append_assoc] at hv
  exact wire_valid _ _ hv

theorem linesAux_allOk_of_valid (cur bs : List Nat) (h : validUtf8 (cur.reverse ++ bs) = true) :
    allOk (linesAux cur bs) = true := by
  induction bs generalizing cur with
  | nil =>
    simp only [List.append_nil] at h
    simp only [linesAux]
    split
    · rfl
    · simp [finishLine, h, allOk]
  | cons b bs ih =>
    rw [linesAux_cons]
    split
    · rename_i hb
      subst hb
      rw [validUtf8_append_nl, Bool.and_eq_true] at h
      simp only [finishLine, h.1, if_true, allOk]
      exact ih [] (by simpa using h.2)
    · exact ih (b :: cur) (by simpa using h)

/-- a file that is valid UTF-8 as a whole has only readable lines -/
theorem lines_allOk_of_valid (bs : List Nat) (h : validUtf8 bs = true) : allOk (lines bs) = true :=
  linesAux_allOk_of_valid [] bs (by simpa using h)

theorem decode_cons (b0 : Nat) (rest : List Nat) : decode (b0 :: rest) =
    (if b0 < 0x80 then (decode rest).map (Char.ofNat b0 :: ·)
    else if b0 < 0xC2 then none
    else if b0 < 0xE0 then
      match rest with
      | b1 :: rest' =>
        if isCont b1 then (decode rest').map (Char.ofNat ((b0 - 0xC0) * 64 + (b1 - 0x80)) :: ·) else none
      | _ => none
    else if b0 < 0xF0 then
      match rest with
      | b1 :: b2 :: rest' =>
        let n := (b0 - 0xE0) * 4096 + (b1 - 0x80) * 64 + (b2 - 0x80)
        if isCont b1 && isCont b2 && 0x800 ≤ n && !(0xD800 ≤ n && n < 0xE000) then
          (decode rest').map (Char.ofNat n :: ·) else none
      | _ => none
    else if b0 < 0xF5 then
      match rest with
      | b1 :: b2 :: b3 :: rest' =>
        let n := (b0 - 0xF0) * 262144 + (b1 - 0x80) * 4096 + (b2 - 0x80) * 64 + (b3 - 0x80)
        if isCont b1 && isCont b2 && isCont b3 && 0x10000 ≤ n && n < 0x110000 then
          (decode rest').map (Char.ofNat n :: ·) else none
      | _ => none
    else none) := by
  conv => lhs; rw [decode.eq_def]
  rfl

/-- `validUtf8` accepts exactly the byte strings that `Utf8.decode` (Model/Text.lean) decodes -/
theorem validUtf8_eq_decode (bs : List Nat) : validUtf8 bs = (decode bs).isSome := by
  induction bs using validUtf8.induct with
  | case1 => simp [validUtf8, decode]
  | case2 b0 r h ih => simp [validUtf8_cons, decode_cons, h, ih]
  | case3 b0 r h1 h2 => simp [validUtf8_cons, decode_cons, h1, h2]
  | case4 b0 h1 h2 h3 b1 r hc ih => simp [validUtf8_cons, decode_cons, h1, h2, h3, hc, ih]
  | case5 b0 h1 h2 h3 b1 r hc => simp [validUtf8_cons, decode_cons, h1, h2, h3, hc]
  | case6 b0 r h1 h2 h3 hn =>
    cases r with
    | nil => simp [validUtf8_cons, decode_cons, h1, h2, h3]
    | cons b1 r' => exact absurd rfl (hn b1 r')
  | case7 b0 h1 h2 h3 h4 b1 b2 r n hc ih =>
    simp only [validUtf8_cons, decode_cons, h1, h2, h3, h4, if_true, if_false]
    split <;> simp [ih]
  | case8 b0 h1 h2 h3 h4 b1 b2 r n hc =>
    simp only [validUtf8_cons, decode_cons, h1, h2, h3, h4, if_true, if_false]
    split
    · rename_i hC; exact absurd hC hc
    · simp
  | case9 b0 r h1 h2 h3 h4 hn =>
    match r, hn with
    | [], _ => simp [validUtf8_cons, decode_cons, h1, h2, h3, h4]
    | [b1], _ => simp [validUtf8_cons, decode_cons, h1, h2, h3, h4]
    | b1 :: b2 :: r', hn => exact absurd rfl (hn b1 b2 r')
  | case10 b0 h1 h2 h3 h4 h5 b1 b2 b3 r n hc ih =>
    simp only [validUtf8_cons, decode_cons, h1, h2, h3, h4, h5, if_true, if_false]
    split <;> simp [ih]
  | case11 b0 h1 h2 h3 h4 h5 b1 b2 b3 r n hc =>
    simp only [validUtf8_cons, decode_cons, h1, h2, h3, h4, h5, if_true, if_false]
    split
    · rename_i hC; exact absurd hC hc
    · simp
  | case12 b0 r h1 h2 h3 h4 h5 hn =>
    match r, hn with
    | [], _ => simp [validUtf8_cons, decode_cons, h1, h2, h3, h4, h5]
    | [b1], _ => simp [validUtf8_cons, decode_cons, h1, h2, h3, h4, h5]
    | [b1, b2], _ => simp [validUtf8_cons, decode_cons, h1, h2, h3, h4, h5]
    | b1 :: b2 :: b3 :: r', hn => exact absurd rfl (hn b1 b2 b3 r')
  | case13 b0 r h1 h2 h3 h4 h5 => simp [validUtf8_cons, decode_cons, h1, h2, h3, h4, h5]


end Reader
end Sqlgrep
