#!/usr/bin/env python3
"""Copy the outcome of tools/run_seeded.py runs (build/seeded/<name>/results-<tier>.json) into
seeded/<name>/meta.json ("detected_by") and print the table used in DESIGN.md."""
import glob, json, os
root = os.path.dirname(os.path.dirname(os.path.abspath(__file__)))
rows = []
for d in sorted(glob.glob(os.path.join(root, "seeded", "*"))):
    name = os.path.basename(d)
    mp = os.path.join(d, "meta.json")
    if not os.path.exists(mp):
        continue
    meta = json.load(open(mp))
    det = meta.get("detected_by", {}) or {}
    for tier in ("quick", "thorough"):
        rp = os.path.join(root, "build", "seeded", name, f"results-{tier}.json")
        if os.path.exists(rp):
            res = json.load(open(rp))
            for prop, v in res.items():
                kind = "missed"
                if v["exit"] == 1:
                    kind = "violation (no-failing-input-found)" if (v.get("violation") or "").endswith("no-failing-input-found") else "violation with failing input"
                elif v["exit"] != 0:
                    kind = f"check error (exit {v['exit']})"
                det[f"{prop}:{tier}"] = kind
    meta["detected_by"] = det
    json.dump(meta, open(mp, "w"), indent=1)
    rows.append((name, meta.get("property"), det))
for name, prop, det in rows:
    print(f"| {name} | {prop} | " + "; ".join(f"{k}: {v}" for k, v in sorted(det.items())) + " |")
