import SqlgrepModel.Lemmas.ParseFuelStmt
import SqlgrepModel.Lemmas.ParseWithinStmt
import SqlgrepModel.Lemmas.ParseJson
import SqlgrepModel.Lemmas.Lower
import SqlgrepModel.Lemmas.ParseTreeLoc
import SqlgrepModel.Lemmas.LowerTables
/-
C14 — parsing is total: any text yields a statement or a located error (parser part).

The theorems are about `Parse.parseTokens` / `Parse.parseTokensFuel` (`Model/ParseStmt.lean` on top of
`Model/ParseExpr.lean`), the definitions the driver executes for the `pstmt` cases, for *every* token vector, every
precedence table and every nesting depth. The tokenizer half (every text yields a non-empty token vector ending in
`End` whose locations lie inside the text; number conversion errors) is `Props/C14Lex.lean`; here the token vector is
arbitrary, and "non-empty" is the only hypothesis needed.

Trusted base specific to this file: the parser state is modelled as the non-empty suffix `cur :: rest` of the token
vector (so `tokens[index]` is total by construction); that the Rust parser maintains `0 ≤ index < tokens.len()` is
tied to the code by the `pstmt` correspondence (token vectors incl. every prefix, vectors without `End`, depth 200).
-/
namespace Sqlgrep.Props.C14
open Sqlgrep Sqlgrep.Parse

/-- **Termination.** With fuel `3·|tokens|+1` (a fortiori with the `3·|tokens|+3` the parser is run with) no parse
function gives the out-of-fuel answer: every loop turn and every recursive descent consumes a token or returns
(`Lemmas/ParseFuel.lean`: `FuelIH`, `fuelIH_all` for the six expression functions — `parseExpr` needs `3r`,
`parseUnary` `3r−1`, `parsePrimary` `3r−2`, `parseRhs` `3r+2`, `parseList` `3r+1`, `parseCase` `3r−1` units for `r`
remaining tokens; `Lemmas/ParseFuelStmt.lean` for the statement level: loops `3r+1`, the rest `3r`). -/
theorem parse_fuel_suffices (T : PrecTables) (toks : List PTok) (fuel : Nat) (h : 3 * toks.length + 1 ≤ fuel) :
    parseTokensFuel T fuel toks ≠ .fuel := by
  unfold parseTokensFuel
  split
  · simp
  · rename_i t ts
    have := parseOp_nofuel T fuel { cur := t, rest := ts } (by simpa [PSt.remaining] using h)
    split <;> simp_all

/-- the fuel `Parser::parse` is modelled with is enough -/
theorem parse_never_out_of_fuel (T : PrecTables) (toks : List PTok) : parseTokens T toks ≠ .fuel :=
  parse_fuel_suffices T toks _ (by unfold fuelBound; omega)

/-- **No panic.** The only panic site of `Parser::parse` — `create_error` indexing `tokens[-1]` when the very first
`next()` fails — needs an empty token vector; every other `tokens[index]` is in range by the suffix representation. -/
theorem parse_never_panics (T : PrecTables) (toks : List PTok) (h : toks ≠ []) : parseTokens T toks ≠ .panic := by
  unfold parseTokens parseTokensFuel
  split
  · exact absurd rfl h
  · split <;> simp

/-- **Totality.** For every non-empty token vector — in particular for every vector the tokenizer produces, which
always ends in `End` (`Props/C14Lex.lean`) — parsing a query or a table definition ends with a tree or with an
error: never a panic, never out of fuel. -/
theorem parse_total (T : PrecTables) (toks : List PTok) (h : toks ≠ []) :
    (∃ t, parseTokens T toks = .tree t) ∨ (∃ e, parseTokens T toks = .error e) := by
  have h1 := parse_never_out_of_fuel T toks
  have h2 := parse_never_panics T toks h
  cases hp : parseTokens T toks with
  | tree t => exact .inl ⟨t, rfl⟩
  | error e => exact .inr ⟨e, rfl⟩
  | fuel => exact absurd hp h1
  | panic => exact absurd hp h2

/-- the hypothesis in the form the tokenizer delivers it: non-empty because the last token is `End` -/
theorem parse_total_of_eof (T : PrecTables) (toks : List PTok) (l : PTok) (h : toks.getLast? = some l) :
    (∃ t, parseTokens T toks = .tree t) ∨ (∃ e, parseTokens T toks = .error e) :=
  parse_total T toks (by intro h0; simp [h0] at h)

/-- **Located errors.** The location of every parser error is the location of one of the input tokens (the current
token, or a token whose location was saved earlier: operator locations, the type name of `parse_type`); with the
tokenizer's `token_locations_inside` it lies inside the text. -/
theorem error_location_is_a_token_location (T : PrecTables) (toks : List PTok) (e : PErr)
    (h : parseTokens T toks = .error e) : e.loc ∈ toks.map (·.loc) := by
  unfold parseTokens parseTokensFuel at h
  split at h
  · simp at h
  · rename_i t ts
    have hs : PSt.Suffix { cur := t, rest := ts } (t :: ts) := List.suffix_refl _
    have hw := parseOp_within (T := T) (fuel := fuelBound (t :: ts).length) hs
    split at h
    · simp at h
    · rename_i e' s' heq
      cases h
      exact (hw.2 _ _ heq).2
    · simp at h

/-- the same for any fuel -/
theorem error_location_is_a_token_location_fuel (T : PrecTables) (fuel : Nat) (toks : List PTok) (e : PErr)
    (h : parseTokensFuel T fuel toks = .error e) : e.loc ∈ toks.map (·.loc) := by
  unfold parseTokensFuel at h
  split at h
  · simp at h
  · rename_i t ts
    have hs : PSt.Suffix { cur := t, rest := ts } (t :: ts) := List.suffix_refl _
    have hw := parseOp_within (T := T) (fuel := fuel) hs
    split at h
    · simp at h
    · rename_i e' s' heq
      cases h
      exact (hw.2 _ _ heq).2
    · simp at h

/-- **Empty JSON path is rejected (local form).** A column item that starts with `{ }` is answered with an error
whatever follows (`ExpectedJsonColumnPartStart` when `=>` follows, the error of the missing `=>` otherwise). -/
theorem create_table_rejects_empty_json_path (T : PrecTables) (fuel : Nat) (ps : Patterns) (cs : List PColDef)
    (l1 l2 : Loc) (t3 : PTok) (rest : List PTok) :
    ∃ e s', colItem T (fuel + 1) ps cs { cur := ⟨l1, .lcu⟩, rest := ⟨l2, .rcu⟩ :: t3 :: rest } = .err e s' := by
  simp only [colItem, next, jsonLoop, expectConsume, mkErr]
  by_cases h3 : t3.tok = .rarrow
  · simp [h3]
    cases rest <;> simp
  · simp [h3]

/-- the error kind when `=>` follows: `ExpectedJsonColumnPartStart`, located after the `=>` -/
theorem create_table_rejects_empty_json_path_kind (T : PrecTables) (fuel : Nat) (ps : Patterns) (cs : List PColDef)
    (l1 l2 l3 : Loc) (t4 : PTok) (rest : List PTok) :
    colItem T (fuel + 1) ps cs { cur := ⟨l1, .lcu⟩, rest := ⟨l2, .rcu⟩ :: ⟨l3, .rarrow⟩ :: t4 :: rest }
      = .err ⟨t4.loc, .expectedJsonColumnPartStart⟩ { cur := t4, rest := rest } := by
  simp [colItem, next, jsonLoop, expectConsume, mkErr]

/-- **Empty JSON path is rejected (global form).** No tree the parser returns contains a JSON column with an empty
path — for every token vector; this is what makes the `unwrap` in `JsonAccess::from_linear` unreachable. -/
theorem no_empty_json_path_in_a_tree (T : PrecTables) (toks : List PTok) (t : POp)
    (h : parseTokens T toks = .tree t) : t.PathsOk := by
  unfold parseTokens parseTokensFuel at h
  split at h
  · simp at h
  · rename_i t0 ts
    have hp := parseOp_paths T (fuelBound (t0 :: ts).length) { cur := t0, rest := ts }
    split at h
    · rename_i op s' heq
      cases h
      exact hp _ _ heq
    · simp at h
    · simp at h

/-! ### the lowering (`parser_tree_converter.rs`, `Model/Lower.lean`) -/

open Lower in
/-- **The lowering never panics**: for every tree without an empty JSON path (every tree the parser returns,
`no_empty_json_path_in_a_tree`) and every regex oracle, `transform_statement` ends with a statement or a
`ConvertParserTreeError`. Every `arguments.remove(0)` site is guarded by the length test before it; the
`from_linear` `unwrap` needs an empty path. (It is total by structural recursion.) -/
theorem lower_never_panics (regexValid : List Char → Bool) (t : POp) (h : t.PathsOk) :
    ∀ site, lowerStatement regexValid t ≠ .panic site :=
  lowerStatement_noPanic regexValid t h

open Lower in
/-- **Parsing + lowering is total**: on every non-empty token vector `parsing::parse` (after the tokenizer) ends with a
statement, a parser error or a conversion error — no panic, no fuel exhaustion. -/
theorem parse_and_lower_total (T : PrecTables) (regexValid : List Char → Bool) (toks : List PTok) (h : toks ≠ []) :
    (∃ e, parseTokens T toks = .error e) ∨
    (∃ t, parseTokens T toks = .tree t ∧
      ((∃ s, lowerStatement regexValid t = .ok s) ∨ (∃ e, lowerStatement regexValid t = .err e))) := by
  rcases parse_total T toks h with ⟨t, ht⟩ | ⟨e, he⟩
  · right
    refine ⟨t, ht, ?_⟩
    have hp := lower_never_panics regexValid t (no_empty_json_path_in_a_tree T toks t ht)
    cases hl : lowerStatement regexValid t with
    | ok s => exact .inl ⟨s, rfl⟩
    | err e => exact .inr ⟨e, rfl⟩
    | panic s => exact absurd hl (hp s)
  · exact .inl ⟨e, he⟩

open Lower in
/-- **Wrong number of aggregate arguments is an error**: for an aggregate name (any letter case) with a number of
arguments other than the accepted one (`count`: 0 or 1; `percentile`, `string_agg`: 2; the others: 1),
`transform_call_aggregate` answers with an error (`ExpectedArgument` / `TooManyArguments`, or the error of an
argument) — never a panic, never an aggregate. -/
theorem wrong_aggregate_arity_is_error (loc : Loc) (name : List Char) (args : List PExpr) (distinct : Option Bool)
    (index : Nat) (hname : isAggregateName name = true)
    (harity : validArity (str (lowerChars name)) args.length = false) :
    ∃ e, lowerCallAggregate loc name args distinct index = .err e :=
  lowerCallAggregate_arity loc name args distinct index hname harity

open Lower in
/-- … and so is the projection that consists of such a call: `SELECT string_agg(x) FROM t` is rejected -/
theorem wrong_aggregate_arity_projection_is_error (loc : Loc) (name : List Char) (args : List PExpr)
    (distinct : Option Bool) (index : Nat) (hname : isAggregateName name = true)
    (harity : validArity (str (lowerChars name)) args.length = false) :
    ∃ e, lowerAggregate (.call loc name args distinct) index = .err e := by
  unfold lowerAggregate
  split
  · exact ⟨_, rfl⟩
  · have hpos : countAggregates (.call loc name args distinct) > 0 := by
      rw [countAggregates]; simp [hname]
    simp only [hpos, if_true]
    have hx : extractAggregate (.call loc name args distinct) = (some (.call name args distinct), true, .plain (.call loc name args distinct)) := by
      rw [extractAggregate]; simp [hname]
    obtain ⟨e, he⟩ := lowerCallAggregate_arity (PExpr.loc (.call loc name args distinct)) name args distinct index hname harity
    simp only [hx, he]
    exact ⟨_, rfl⟩

open Lower in
/-- **Invalid pattern is an error**: when `Regex::new` rejects one of the patterns of a table definition (oracle
`regexValid`), `create_create_table_statement` answers `InvalidPattern` at the statement's location. -/
theorem lower_invalid_pattern_is_error (regexValid : List Char → Bool) (c : PCreate) (h : c.PathsOk)
    (hbad : ∃ p ∈ c.patterns, regexValid p.2.1 = false) :
    lowerCreate regexValid c = .err ⟨c.loc, .invalidPattern⟩ := by
  have hnp := lowerColumns_noPanic c.columns h
  have hall : (c.patterns.all (fun p => regexValid p.2.1)) = false := by
    rw [Bool.eq_false_iff]
    intro hall
    rw [List.all_eq_true] at hall
    obtain ⟨p, hp, hv⟩ := hbad
    have := hall p hp
    simp [hv] at this
  unfold lowerCreate
  cases hc : lowerColumns c.columns with
  | ok cols => simp [hall]
  | err e => exact absurd hc (lowerColumns_noErr _ _)
  | panic s => exact absurd hc (hnp s)

/-- **Tree locations are token locations**: every location stored in a tree the parser returns (the statement's
own location and the location of every expression node) is the location of one of the input tokens. -/
theorem tree_locations_are_token_locations (T : PrecTables) (toks : List PTok) (t : POp)
    (h : parseTokens T toks = .tree t) : t.AllLoc (TokLoc toks) := by
  unfold parseTokens parseTokensFuel at h
  split at h
  · simp at h
  · rename_i t0 ts
    have hs : PSt.Suffix { cur := t0, rest := ts } (t0 :: ts) := List.suffix_refl _
    have hp := parseOp_allLoc (T := T) (fuel := fuelBound (t0 :: ts).length) hs
    split at h
    · rename_i op s' heq
      cases h
      exact hp _ _ heq
    · simp at h
    · simp at h

open Lower in
/-- **Located conversion errors**: the location of every `ConvertParserTreeError` raised on a tree the parser
returned is the location of one of the input tokens (a node of the tree: an operator, a call, an argument, a
tuple; or the statement's location for join / HAVING / pattern errors). With `error_location_is_a_token_location`:
whatever error `parsing::parse` reports after tokenizing, it points at a token of the text. -/
theorem conversion_error_location_is_a_token_location (T : PrecTables) (regexValid : List Char → Bool)
    (toks : List PTok) (t : POp) (e : CErr) (h : parseTokens T toks = .tree t)
    (he : lowerStatement regexValid t = .err e) : e.loc ∈ toks.map (·.loc) :=
  lowerStatement_errAt regexValid t (tree_locations_are_token_locations T toks t h) e he

open Lower Lower.Tables in
/-- **The lowering's name tables are the running code's** (table obligation, re-checked on every run against
`Generated/LowerTables.lean`, which `harness tables` derives from `completion_words()`, one `parsing::parse` per name,
spelling and argument list, `ValueType::from_str` and one table definition per candidate word): the functions with
the function each name denotes, the aggregates, "every completion word is one or the other", the answer (function /
aggregate / which error) for every name in lower and upper case on seven argument lists — i.e. the accepted arities
behind `wrong_aggregate_arity_is_error` —, near-miss names, type words, pattern-mode words and modifier words. A new,
renamed or removed name, a changed arity or word in /repo breaks this theorem at build time. -/
theorem lowering_tables_match_the_code :
    sameSet Generated.lowerFunctions modelFunctions = true ∧
    sameSet Generated.lowerAggregates modelAggregates = true ∧
    sameSet Generated.lowerNames (modelFunctions.map (·.1) ++ modelAggregates) = true ∧
    Generated.lowerProbes = Generated.lowerProbes.map (fun p => (p.1, (List.range 7).map (modelProbe p.1))) ∧
    Generated.lowerUnknown = Generated.lowerUnknown.map (fun p => (p.1, modelProbe p.1 1)) ∧
    Generated.typeWords = Generated.typeWords.map (fun p => (p.1, p.2.1, (VType.ofIdent p.1).map (arrayOf p.2.1))) ∧
    Generated.regexModeWords = Generated.regexModeWords.map (fun p => (p.1, modelMode p.1)) ∧
    Generated.modifierWords = Generated.modifierWords.map (fun p => (p.1, modelModifier p.1)) :=
  ⟨functions_eq, aggregates_eq, names_eq, probes_eq, unknown_eq, type_words_eq, regex_mode_words_eq, modifier_words_eq⟩

open Lower in
/-- the README's `regex_matches` and the older `regexp_matches` are the same function -/
theorem regex_matches_both_spellings :
    functionOfName "regex_matches".toList = some .regexMatches ∧ functionOfName "regexp_matches".toList = some .regexMatches := by
  decide

/-! Number out of range is not a parser fact: `99999999999999999999` is rejected by the tokenizer (`IntConvertError`,
`Props/C14Lex.lean`; oracle: the `reject` texts of `harness/src/c14.rs`). An invalid regular expression is a
`Regex::new` fact, mapped to `InvalidPattern` by `lower_invalid_pattern_is_error`; the oracle is shipped with every
`stmt` case and the `reject` texts demand the error on the implementation. -/

/-! ### non-vacuity -/

private def tk (c : Nat) (t : Tok) : PTok := ⟨⟨0, c⟩, t⟩

/-- `SELECT x FROM t` parses to a tree -/
example : ∃ t, parseTokens .code [tk 0 (.kw .select), tk 6 (.ident ['x']), tk 8 (.kw .from), tk 13 (.ident ['t']), tk 15 .eof]
    = .tree t := ⟨_, rfl⟩

/-- `SELECT` alone is an error located at the `End` token (0:6), one of the token locations -/
example : parseTokens .code [tk 0 (.kw .select), tk 6 .eof] = .error ⟨⟨0, 6⟩, .expectedExpression⟩ := rfl

/-- `CREATE TABLE t({ } => x INT);` is rejected with `ExpectedJsonColumnPartStart` -/
example : parseTokens .code [tk 0 (.kw .create), tk 6 (.kw .table), tk 12 (.ident ['t']), tk 14 .lp, tk 15 .lcu, tk 17 .rcu,
    tk 18 .rarrow, tk 21 (.ident ['x']), tk 23 (.ident ['I', 'N', 'T']), tk 27 .rp, tk 28 .semi, tk 29 .eof]
    = .error ⟨⟨0, 21⟩, .expectedJsonColumnPartStart⟩ := rfl

/-- a table definition with a JSON column parses, and its path is not empty -/
example : ∃ t, parseTokens .code [tk 0 (.kw .create), tk 6 (.kw .table), tk 12 (.ident ['t']), tk 14 .lp, tk 15 .lcu,
    tk 16 (.op (.single '.')), tk 17 (.ident ['a']), tk 18 .rcu,
    tk 19 .rarrow, tk 22 (.ident ['x']), tk 24 (.ident ['I', 'N', 'T']), tk 28 .rp, tk 29 .semi, tk 30 .eof] = .tree t ∧ t.PathsOk :=
  ⟨_, rfl, by simp [POp.PathsOk, PCreate.PathsOk, PColDef.PathOk, opOfCreates]⟩

end Sqlgrep.Props.C14
