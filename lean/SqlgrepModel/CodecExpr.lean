import SqlgrepModel.Codec
import SqlgrepModel.Model.Eval
/- Wire codec for expressions, environments and oracle tables. -/
namespace Sqlgrep
open Sexp

def str? (s : Sexp) : Option String := s.bytes?.map bytesToString

def CmpOp.ofAtom : String → Option CmpOp
  | "eq" => some .eq | "ne" => some .ne | "gt" => some .gt | "ge" => some .ge | "lt" => some .lt | "le" => some .le
  | _ => none
def ArithOp.ofAtom : String → Option ArithOp
  | "add" => some .add | "sub" => some .sub | "mul" => some .mul | "div" => some .div
  | _ => none
def Scope.ofAtom : String → Option Scope
  | "table" => some .table | "agg" => some .aggValue | "gkey" => some .groupKey | "gval" => some .groupValue
  | _ => none
def Func.ofAtom : String → Option Func
  | "greatest" => some .greatest | "least" => some .least | "abs" => some .abs | "sqrt" => some .sqrt
  | "pow" => some .pow | "length" => some .length | "upper" => some .upper | "lower" => some .lower
  | "regex_matches" => some .regexMatches | "create_array" => some .createArray | "array_unique" => some .arrayUnique
  | "array_length" => some .arrayLength | "array_cat" => some .arrayCat | "array_append" => some .arrayAppend
  | "array_prepend" => some .arrayPrepend | "now" => some .now | "make_timestamp" => some .makeTimestamp
  | "epoch" => some .epoch | "year" => some .year | "month" => some .month | "day" => some .day
  | "hour" => some .hour | "minute" => some .minute | "second" => some .second | "date_trunc" => some .dateTrunc
  | _ => none

mutual
def Expr.ofSexp : Sexp → Option Expr
  | .list [.atom "val", v] => (Value.ofSexp v).map .value
  | .list [.atom "col", n] => (str? n).map .column
  | .list [.atom "scoped", .atom s, n] => do pure (.scoped (← Scope.ofAtom s) (← str? n))
  | .list [.atom "wild"] => some .wildcard
  | .list [.atom "cmp", .atom op, l, r] => do pure (.compare (← CmpOp.ofAtom op) (← Expr.ofSexp l) (← Expr.ofSexp r))
  | .list [.atom "nullcmp", .atom n, l, r] => do pure (.nullCmp (n == "1") (← Expr.ofSexp l) (← Expr.ofSexp r))
  | .list [.atom "arith", .atom op, l, r] => do pure (.arith (← ArithOp.ofAtom op) (← Expr.ofSexp l) (← Expr.ofSexp r))
  | .list [.atom "bool", .atom op, l, r] => do pure (.boolOp (op == "and") (← Expr.ofSexp l) (← Expr.ofSexp r))
  | .list [.atom "neg", e] => (Expr.ofSexp e).map .neg
  | .list [.atom "not", e] => (Expr.ofSexp e).map .not
  | .list (.atom "in" :: .atom n :: e :: vs) => do pure (.inList (n == "1") (← Expr.ofSexp e) (← Expr.ofSexps vs))
  | .list (.atom "call" :: .atom f :: args) => do pure (.call (← Func.ofAtom f) (← Expr.ofSexps args))
  | .list [.atom "idx", a, i] => do pure (.index (← Expr.ofSexp a) (← Expr.ofSexp i))
  | .list [.atom "cast", e, t] => do pure (.cast (← Expr.ofSexp e) (← VType.ofSexp t))
  | .list (.atom "case" :: els :: clauses) => do pure (.case (← Expr.ofClauses clauses) (← Expr.ofSexp els))
  | .list [.atom "gkeyref", c] => (str? c).map .groupKeyRef
  | .list [.atom "gvalref", i] => i.nat?.map .groupValueRef
  | _ => none
def Expr.ofSexps : List Sexp → Option (List Expr)
  | [] => some []
  | x :: xs => do
    let e ← Expr.ofSexp x
    let es ← Expr.ofSexps xs
    pure (e :: es)
def Expr.ofClauses : List Sexp → Option (List (Expr × Expr))
  | [] => some []
  | .list [c, r] :: xs => do
    let c ← Expr.ofSexp c
    let r ← Expr.ofSexp r
    let rest ← Expr.ofClauses xs
    pure ((c, r) :: rest)
  | _ => none
end

def namedValues (xs : List Sexp) : Option (List (String × Value)) :=
  xs.mapM (fun (x : Sexp) => match x with
    | .list [n, v] => do pure (← str? n, ← Value.ofSexp v)
    | _ => none)

/-- `(env (table (xNAME V)…) (agg …) (gkeys …) (gvals (ID V)…))` -/
def Env.ofSexp : Sexp → Option Env
  | .list (.atom "env" :: parts) =>
    parts.foldlM (fun (env : Env) (p : Sexp) => match p with
      | .list (.atom "table" :: xs) => (namedValues xs).map (fun t => { env with table := t })
      | .list (.atom "agg" :: xs) => (namedValues xs).map (fun t => { env with aggValue := t })
      | .list (.atom "gkeys" :: xs) => (namedValues xs).map (fun t => { env with groupKeys := t })
      | .list (.atom "gvals" :: xs) =>
        (xs.mapM (fun (x : Sexp) => match x with
          | .list [i, v] => do pure (← i.nat?, ← Value.ofSexp v)
          | _ => none)).map (fun t => { env with groupValues := t })
      | _ => none) {}
  | _ => none

/-- `(oracles (fparse (xS BITS|none)…) (tsparse (xS (d s f)|none)…) (regex (xV xP 1|0|bad)…) (upper (xS xR)…) (lower …))` -/
def Oracles.ofSexp : Sexp → Option Oracles
  | .list (.atom "oracles" :: parts) =>
    parts.foldlM (fun (o : Oracles) (p : Sexp) => match p with
      | .list (.atom "fparse" :: xs) =>
        (xs.mapM (fun (x : Sexp) => match x with
          | .list [s, .atom "none"] => s.bytes?.map (fun b => (b, (none : Option Nat)))
          | .list [s, b] => do pure (← s.bytes?, some (← b.nat?))
          | _ => none)).map (fun t => { o with fparse := t })
      | .list (.atom "tsparse" :: xs) =>
        (xs.mapM (fun (x : Sexp) => match x with
          | .list [s, .atom "none"] => s.bytes?.map (fun b => (b, (none : Option (Int × Int × Int))))
          | .list [s, .list [d, sec, f]] => do pure (← s.bytes?, some (← d.int?, ← sec.int?, ← f.int?))
          | _ => none)).map (fun t => { o with tsparse := t })
      | .list (.atom "regex" :: xs) =>
        (xs.mapM (fun (x : Sexp) => match x with
          | .list [v, pat, .atom r] => do
            pure ((← v.bytes?, ← pat.bytes?), if r == "bad" then none else some (r == "1"))
          | _ => none)).map (fun t => { o with regex := t })
      | .list (.atom "upper" :: xs) =>
        (xs.mapM (fun (x : Sexp) => match x with
          | .list [s, r] => do pure (← s.bytes?, ← r.bytes?)
          | _ => none)).map (fun t => { o with upper := t })
      | .list (.atom "lower" :: xs) =>
        (xs.mapM (fun (x : Sexp) => match x with
          | .list [s, r] => do pure (← s.bytes?, ← r.bytes?)
          | _ => none)).map (fun t => { o with lower := t })
      | _ => none) {}
  | _ => none

mutual
/-- values on the answer channel: NaN payloads normalised -/
def Value.toWireCanon : Value → String
  | .real b => "(real " ++ toString (F64.canon b) ++ ")"
  | .array t xs => "(array " ++ t.toWire ++ Value.toWiresCanon xs ++ ")"
  | v => v.toWire
def Value.toWiresCanon : List Value → String
  | [] => ""
  | x :: xs => " " ++ Value.toWireCanon x ++ Value.toWiresCanon xs
end

def Outcome.toWire (o : Outcome Value) : String :=
  match o with
  | .ok v => "ok " ++ v.toWireCanon
  | .error k => "err " ++ k.name
  | .panic _ => "panic"
  | .oracleMissing w => "skip " ++ w

end Sqlgrep
