import SqlgrepModel.Lemmas.ParseClauses
import SqlgrepModel.Lemmas.LowerNames
/-
C20 — parser-level section (owner: builder `pstmt`; the lexical half — letter case of keywords, whitespace,
comments, string literals — and the C20 manifest are `Props/C20.lean`).

Clauses of the property sentence treated here, over the model the `pstmt` / `stmt` cases execute
(`Model/ParseStmt.lean`, `Model/ParseExpr.lean`, `Model/Lower.lean`):
  * an optional trailing semicolon,
  * the relative order of the JOIN / WHERE / GROUP BY / HAVING / LIMIT clauses,
  * letter case of function, aggregate and type names (and of the modifier / mode words that are identifiers).

What is proved outright and what is `…_partial` is said at each theorem. The common missing piece is *prefix
determinism* of the expression parser (the result of `parseExpr` on `e ++ tail` does not depend on `tail` beyond its
first token being a token that ends every expression): it is the hypothesis `IsClause` below, proved here for LIMIT
and JOIN clauses and for one-identifier WHERE / HAVING / GROUP BY clauses; for arbitrary expressions it is exercised
by the clause-permutation cases of `harness/src/c14.rs` (model = implementation on every permutation) but not proved.
-/
namespace Sqlgrep.Props.C20Parse
open Sqlgrep Sqlgrep.Parse Sqlgrep.Lower

/-! ### clause order -/

/-- **The clause loop stores every clause in its own slot** (proved outright): for clauses of pairwise different
kinds, the slots filled are the same for every order in which they are stored. -/
theorem clause_slots_order_irrelevant {vs ws : List ClauseVal} (hp : vs.Perm ws)
    (hd : vs.Pairwise (fun a b => a.kind ≠ b.kind)) (c : Clauses) : putAll vs c = putAll ws c :=
  putAll_perm hp hd c

/-- **Clause order does not matter** — `clause_order_invariance_partial`: if every segment is a clause (`IsClause`:
one turn of the loop consumes exactly the segment and stores its value, whatever clause, `;` or `End` follows — the
property sentence's "each clause parser consumes exactly its clause"), then the runs of the clause loop over two
orders of the same clauses both succeed, consume everything up to `End`, and return the same slots up to token
locations (permuting clauses moves every token, so locations cannot agree).

Full statement (not proved): `IsClause` holds for every segment `kw ++ tokens(e)` where `e` is an expression — i.e.
prefix determinism of `parseExpr`. Proved instances: `limit_is_a_clause`, `join_is_a_clause`, `where_ident_is_a_clause` below. -/
theorem clause_order_invariance_partial (T : PrecTables) (fuel0 : Nat) (final1 final2 : PSt)
    (h1 : final1.cur.tok = .eof) (h2 : final2.cur.tok = .eof)
    (segs1 segs2 : List (List PTok × ClauseVal)) (hne : segs1 ≠ [])
    (hperm : (segs1.map (·.2)).Perm (segs2.map (·.2)))
    (hs1 : ∀ p ∈ segs1, IsClause T fuel0 p.1 p.2) (hs2 : ∀ p ∈ segs2, IsClause T fuel0 p.1 p.2)
    (hd : segs1.Pairwise (fun a b => a.2.kind ≠ b.2.kind))
    (fuel : Nat) (hfuel : fuel0 + segs1.length ≤ fuel) :
    ∃ c1 c2, clauseLoop T fuel {} (PSt.prependAll (segs1.map (·.1)) final1) = .ok c1 final1 ∧
      clauseLoop T fuel {} (PSt.prependAll (segs2.map (·.1)) final2) = .ok c2 final2 ∧ c1.Same c2 :=
  clauseLoop_perm T fuel0 final1 final2 h1 h2 segs1 segs2 hne hperm hs1 hs2 hd fuel hfuel

/-- `LIMIT n` is a clause whatever follows (no hypothesis) -/
theorem limit_is_a_clause (T : PrecTables) (l1 l2 : Loc) (n : Int) :
    IsClause T 0 [⟨l1, .kw .limit⟩, ⟨l2, .int n⟩] (.limit (asUsize n)) := isClause_limit T l1 l2 n

/-- `INNER|OUTER JOIN u::'f' ON a.b = c.d` is a clause whatever follows (no hypothesis) -/
theorem join_is_a_clause (T : PrecTables) (l : Fin 13 → Loc) (outer : Bool) (u f a b c d : List Char) :
    IsClause T 0
      [⟨l 0, .kw (if outer then .outer else .inner)⟩, ⟨l 1, .kw .join⟩, ⟨l 2, .ident u⟩, ⟨l 3, .dcolon⟩, ⟨l 4, .str f⟩,
       ⟨l 5, .kw .on⟩, ⟨l 6, .ident a⟩, ⟨l 7, .op (.single '.')⟩, ⟨l 8, .ident b⟩, ⟨l 9, .op (.single '=')⟩,
       ⟨l 10, .ident c⟩, ⟨l 11, .op (.single '.')⟩, ⟨l 12, .ident d⟩]
      (.join { joinerTable := u, joinerFilename := f, leftTable := a, leftColumn := b, rightTable := c,
               rightColumn := d, isOuter := outer }) := isClause_join T l outer u f a b c d

/-- `WHERE x` / one identifier is a clause whatever follows, for every table that gives the clause keywords, `;` and
`End` no precedence (`inertBoundary_code`: true of the code's tables): the simplest instance of the expression case,
showing why the value can only be the same *up to locations* — the column node carries the location of the token
that follows it -/
theorem where_ident_is_a_clause (T : PrecTables) (hT : InertBoundary T) (l1 l2 : Loc) (x : List Char) :
    IsClause T 4 [⟨l1, .kw .where⟩, ⟨l2, .ident x⟩] (.filter (.column ⟨0, 0⟩ x)) := isClause_where_ident T hT l1 l2 x

/-! ### trailing semicolon -/

/-- **Optional trailing semicolon, SELECT** — `trailing_semicolon_partial` (local form, proved outright): where a
clause run ends at `End`, the same run followed by `;` `End` ends with the same slots, the `;` being consumed by
the loop's own `;` arm. Together with `parseOp` looking for one more optional `;` this is the code's whole treatment of
the semicolon. Full statement (not proved): `parseTokens (pre ++ [⟨l, ;⟩, ⟨l', End⟩]) = parseTokens (pre ++ [⟨l, End⟩])`
for every `pre`; missing is, again, that the functions running over `pre` do not depend on the tokens after it. -/
theorem trailing_semicolon_partial (T : PrecTables) (fuel : Nat) (c : Clauses) (l l' : Loc) :
    clauseLoop T (fuel + 1) c { cur := ⟨l, .semi⟩, rest := [⟨l', .eof⟩] } = .ok c { cur := ⟨l', .eof⟩, rest := [] } := by
  simp [clauseLoop, clauseTurn, next]

/-- … and without clauses: `SELECT … FROM t;` and `SELECT … FROM t` give the same (empty) slots -/
theorem trailing_semicolon_no_clause (T : PrecTables) (fuel : Nat) (l l' : Loc) :
    (∃ s', clauses T (fuel + 1) { cur := ⟨l, .semi⟩, rest := [⟨l', .eof⟩] } = .ok {} s') ∧
    (∃ s', clauses T (fuel + 1) { cur := ⟨l, .eof⟩, rest := [] } = .ok {} s') := by
  constructor
  · exact ⟨{ cur := ⟨l', .eof⟩, rest := [] }, by simp [clauses, clauseLoop, clauseTurn, next]⟩
  · exact ⟨{ cur := ⟨l, .eof⟩, rest := [] }, by simp [clauses]⟩

/-- after a statement, `Parser::parse` accepts one optional `;` and returns the statement unchanged (proved outright,
for every statement parser result) -/
theorem trailing_semicolon_after_statement (T : PrecTables) (fuel : Nat) (s s' : PSt) (op : POp) (l l' : Loc)
    (hk : s.cur.tok = .kw .select ∨ s.cur.tok = .kw .create)
    (h : parseStatement T fuel s = .ok op s') :
    (s' = { cur := ⟨l', .eof⟩, rest := [] } → parseOp T fuel s = .ok op s') ∧
    (s' = { cur := ⟨l, .semi⟩, rest := [⟨l', .eof⟩] } → parseOp T fuel s = .ok op { cur := ⟨l', .eof⟩, rest := [] }) := by
  have hk' : ¬(s.cur.tok ≠ .kw .select ∧ s.cur.tok ≠ .kw .create) := by
    rcases hk with h | h <;> simp [h]
  constructor
  · intro hs
    unfold parseOp
    simp only [hk', if_false, h]
    subst hs
    simp [optSemi]
  · intro hs
    unfold parseOp
    simp only [hk', if_false, h]
    subst hs
    simp [optSemi, next]

/-! ### letter case of names -/

/-- **Function names** (proved outright, all expressions without aggregates — WHERE, GROUP BY parts, aggregate
arguments): respelling every call name by a change of letter case (`CaseOnly ρ`: the lower-cased word is the same)
does not change the lowering; only the payload of an `UndefinedFunction` error shows the spelling. -/
theorem names_case_insensitive (ρ : List Char → List Char) (hρ : CaseOnly ρ) (e : PExpr) :
    lowerPlain (e.renameCalls ρ) = (lowerPlain e).mapErr (CErr.rename ρ) :=
  (lowerPlain_case ρ hρ).1 e

/-- **Aggregate names** (proved outright): `transform_call_aggregate` and the aggregate detection see a name only
lower-cased, so `SUM(x)`, `sum(x)` and `Sum(x)` are the same aggregate with the same default name. -/
theorem aggregate_names_case_insensitive {n1 n2 : List Char} (h : lowerChars n1 = lowerChars n2)
    (loc : Loc) (args : List PExpr) (d : Option Bool) (i : Nat) :
    lowerCallAggregate loc n1 args d i = lowerCallAggregate loc n2 args d i ∧
    isAggregateName n1 = isAggregateName n2 :=
  ⟨lowerCallAggregate_case h loc args d i, isAggregateName_case h⟩

/-- **Type names in casts** (proved outright): `x::INT` and `x::int` build the same node -/
theorem cast_type_case_insensitive {n1 n2 : List Char} (h : lowerChars n1 = lowerChars n2) (loc l1 l2 : Loc)
    (lhs t : PExpr) :
    combine loc .dcolon lhs (.column l1 n1) = .ok t ↔ combine loc .dcolon lhs (.column l2 n2) = .ok t := by
  simp only [combine, h]
  cases VType.ofIdent (lowerChars n2) <;> simp

/-- **Type names in column definitions** (proved outright): `INT`, `int`, `Int[]` … — the type `parse_type` returns
depends on the identifier only through its lower-cased spelling -/
theorem column_type_case_insensitive {n1 n2 : List Char} (h : lowerChars n1 = lowerChars n2) (fuel : Nat) (l : Loc)
    (rest : List PTok) (t : VType) (s' : PSt) :
    parseType fuel { cur := ⟨l, .ident n1⟩, rest := rest } = .ok t s' ↔
    parseType fuel { cur := ⟨l, .ident n2⟩, rest := rest } = .ok t s' := by
  simp only [parseType, consumeIdentifier, PRes.bind, next]
  cases rest with
  | nil => simp [mkErr]
  | cons r rs =>
    simp only
    cases typeBrackets fuel 0 { cur := r, rest := rs } with
    | ok n s1 => simp only [h]; cases VType.ofIdent (lowerChars n2) <;> simp
    | err e s1 => simp
    | fuel => simp

/-- **Pattern modes** (proved outright): every spelling of `split` / `match` is recognised -/
theorem regex_mode_case_insensitive (n : List Char) (l : Loc) (t : PTok) (r : List PTok) :
    (lowerChars n = "split".toList →
      parseRegexMode { cur := ⟨l, .ident n⟩, rest := t :: r } = .ok .split { cur := t, rest := r }) ∧
    (lowerChars n = "match".toList →
      parseRegexMode { cur := ⟨l, .ident n⟩, rest := t :: r } = .ok .captures { cur := t, rest := r }) := by
  constructor
  · intro h; simp [parseRegexMode, h, next]
  · intro h
    simp [parseRegexMode, h, next]

/-! ### non-vacuity -/

/-- a respelling that upper-cases one name is a change of case only -/
example : CaseOnly (fun n => if n = ['a', 'b', 's'] then ['A', 'B', 'S'] else n) := by
  intro n
  by_cases h : n = ['a', 'b', 's']
  · subst h; decide
  · simp [h]

example : lowerChars ['S', 'u', 'M'] = lowerChars ['s', 'u', 'm'] := by decide

example : lowerPlain (.call ⟨0, 0⟩ ['A', 'B', 'S'] [.column ⟨0, 4⟩ ['x']] none)
    = lowerPlain (.call ⟨0, 0⟩ ['a', 'b', 's'] [.column ⟨0, 4⟩ ['x']] none) := rfl

/-- three clauses in two orders: LIMIT, JOIN and LIMIT/JOIN swapped satisfy the hypotheses of
`clause_order_invariance_partial` without any assumption -/
example (T : PrecTables) (l : Fin 13 → Loc) (l1 l2 e1 e2 : Loc) :
    ∃ c1 c2,
      clauseLoop T 2 {} (PSt.prependAll
        [[⟨l1, .kw .limit⟩, ⟨l2, .int 5⟩],
         [⟨l 0, .kw .inner⟩, ⟨l 1, .kw .join⟩, ⟨l 2, .ident ['u']⟩, ⟨l 3, .dcolon⟩, ⟨l 4, .str ['f']⟩, ⟨l 5, .kw .on⟩,
          ⟨l 6, .ident ['t']⟩, ⟨l 7, .op (.single '.')⟩, ⟨l 8, .ident ['k']⟩, ⟨l 9, .op (.single '=')⟩,
          ⟨l 10, .ident ['u']⟩, ⟨l 11, .op (.single '.')⟩, ⟨l 12, .ident ['k']⟩]]
        { cur := ⟨e1, .eof⟩, rest := [] }) = .ok c1 { cur := ⟨e1, .eof⟩, rest := [] } ∧
      clauseLoop T 2 {} (PSt.prependAll
        [[⟨l 0, .kw .inner⟩, ⟨l 1, .kw .join⟩, ⟨l 2, .ident ['u']⟩, ⟨l 3, .dcolon⟩, ⟨l 4, .str ['f']⟩, ⟨l 5, .kw .on⟩,
          ⟨l 6, .ident ['t']⟩, ⟨l 7, .op (.single '.')⟩, ⟨l 8, .ident ['k']⟩, ⟨l 9, .op (.single '=')⟩,
          ⟨l 10, .ident ['u']⟩, ⟨l 11, .op (.single '.')⟩, ⟨l 12, .ident ['k']⟩],
         [⟨l1, .kw .limit⟩, ⟨l2, .int 5⟩]]
        { cur := ⟨e2, .eof⟩, rest := [] }) = .ok c2 { cur := ⟨e2, .eof⟩, rest := [] } ∧ c1.Same c2 := by
  have hj := isClause_join T l false ['u'] ['f'] ['t'] ['k'] ['u'] ['k']
  have hl := isClause_limit T l1 l2 5
  exact clause_order_invariance_partial T 0 _ _ rfl rfl
    [(_, .limit (asUsize 5)), (_, .join _)] [(_, .join _), (_, .limit (asUsize 5))] (by simp)
    (by simp; exact List.Perm.swap _ _ _)
    (by intro p hp; simp at hp; rcases hp with rfl | rfl; exact hl; exact hj)
    (by intro p hp; simp at hp; rcases hp with rfl | rfl; exact hj; exact hl)
    (by simp [ClauseVal.kind]) 2 (by simp)

/-- `WHERE x LIMIT 5` and `LIMIT 5 WHERE x` give the same slots (up to locations), with the code's tables -/
example (l1 l2 l3 l4 e1 e2 : Loc) :
    ∃ c1 c2,
      clauseLoop PrecTables.code 6 {} (PSt.prependAll
        [[⟨l1, .kw .where⟩, ⟨l2, .ident ['x']⟩], [⟨l3, .kw .limit⟩, ⟨l4, .int 5⟩]]
        { cur := ⟨e1, .eof⟩, rest := [] }) = .ok c1 { cur := ⟨e1, .eof⟩, rest := [] } ∧
      clauseLoop PrecTables.code 6 {} (PSt.prependAll
        [[⟨l3, .kw .limit⟩, ⟨l4, .int 5⟩], [⟨l1, .kw .where⟩, ⟨l2, .ident ['x']⟩]]
        { cur := ⟨e2, .eof⟩, rest := [] }) = .ok c2 { cur := ⟨e2, .eof⟩, rest := [] } ∧ c1.Same c2 := by
  have hw := isClause_where_ident PrecTables.code inertBoundary_code l1 l2 ['x']
  have hl : IsClause PrecTables.code 4 [⟨l3, .kw .limit⟩, ⟨l4, .int 5⟩] (.limit (asUsize 5)) :=
    ⟨(isClause_limit PrecTables.code l3 l4 5).head,
     fun fuel c tail _ hb hf => (isClause_limit PrecTables.code l3 l4 5).turn fuel c tail (by omega) hb hf⟩
  exact clause_order_invariance_partial PrecTables.code 4 _ _ rfl rfl
    [(_, .filter (.column ⟨0, 0⟩ ['x'])), (_, .limit (asUsize 5))] [(_, .limit (asUsize 5)), (_, .filter (.column ⟨0, 0⟩ ['x']))]
    (by simp) (by simp; exact List.Perm.swap _ _ _)
    (by intro p hp; simp at hp; rcases hp with rfl | rfl; exact hw; exact hl)
    (by intro p hp; simp at hp; rcases hp with rfl | rfl; exact hl; exact hw)
    (by simp [ClauseVal.kind]) 6 (by simp)

end Sqlgrep.Props.C20Parse
