import SqlgrepModel.Lemmas.PrintLines
import SqlgrepModel.Lemmas.PrintString
import SqlgrepModel.Lemmas.PrintChars
import SqlgrepModel.Lemmas.PrintText
/-
C17 — printed records faithfully carry the result rows in every output format.

Model (`Model/Print.lean`): `printResult`/`printAll` = `OutputPrinter::print` over any sequence of
results on one printer (state `first_line`), `renderRecord` = the record line of one row in the three
formats, `displayValue` = `impl Display for Value`, `jsonValue` + `Json.render`/`renderObject` =
`Value::json_value` + serde_json's compact writer with `preserve_order`. Every printed line is
tagged with the `println` that emitted it (`Line.header` / `.record` / `.separator`); the bytes
handed to the printer are `Line.bytes`.

Oracle (not modelled): `{:.2}` and ryu renderings of REAL (`RealOracle`); REAL fidelity in JSON is
ryu's shortest-round-trip guarantee and is checked on the implementation by the harness only.
Only this file states property theorems; helper lemmas live in `Lemmas/Print*.lean`.
-/
namespace Sqlgrep.Props.C17
open Sqlgrep Sqlgrep.Print

/-! ## every row is printed exactly once, as one record, in result order -/

/-- One `print` call, any format, any state: the record lines (everything except the CSV header and
the blank separator) are exactly the rows, rendered, in order. -/
theorem one_record_per_row_in_order (o : RealOracle) (fmt : Format) (first : Bool) (r : ResultRow)
    (single : Bool) :
    records (printResult o fmt first r single).1 = r.rows.map (renderRecord o fmt r.columns) :=
  records_printResult o fmt first r single

/-- Any sequence of `print` calls on one printer: the record lines are the rows of all results in
order, each rendered with the column names of its own result. -/
theorem one_record_per_row_in_order_seq (o : RealOracle) (fmt : Format) (first : Bool)
    (seq : List (ResultRow × Bool)) :
    records (printAll o fmt first seq) = (allRows seq).map (fun cr => renderRecord o fmt cr.1 cr.2) :=
  records_printAll o fmt first seq

/-- The lines that are not records: at most the separator after the rows, and (CSV only) the header
before the first row; i.e. the whole output of one call has this shape. -/
theorem print_shape (o : RealOracle) (fmt : Format) (first : Bool) (cols : List Bytes)
    (row : List Value) (more : List (List Value)) (single : Bool) :
    (printResult o fmt first ⟨cols, row :: more⟩ single).1
      = headerLines fmt cols first ++ .record (renderRecord o fmt cols row)
          :: (more.map (fun r => Line.record (renderRecord o fmt cols r))
              ++ (if more ≠ [] ∧ single = false then [Line.separator] else [])) := by
  have hrows : ∀ rows : List (List Value),
      printRows o fmt cols false rows = rows.map (fun r => Line.record (renderRecord o fmt cols r)) := by
    intro rows
    induction rows with
    | nil => rfl
    | cons r rs ih => cases fmt <;> simp [printRows, printRow, headerLines, ih]
  simp only [printResult, printRows, printRow, hrows, separatorLines, List.append_assoc,
    List.cons_append, List.nil_append, List.length_cons]
  cases more <;> cases single <;> simp

/-! ## CSV header -/

/-- Over any sequence of results printed by a fresh CSV printer: nothing is printed before the first
row; the first row is printed as the header (column names joined by the delimiter) immediately
followed by its record; no other line of the whole output is a header. -/
theorem csv_header_once_before_first (o : RealOracle) (d : Bytes) (seq : List (ResultRow × Bool))
    (cols : List Bytes) (row : List Value) (more : List (List Bytes × List Value))
    (h : allRows seq = (cols, row) :: more) :
    ∃ rest, printAll o (.csv d) true seq
        = .header (joinWith d cols) :: .record (renderRecord o (.csv d) cols row) :: rest
      ∧ headers rest = [] ∧ (headers (printAll o (.csv d) true seq)).length = 1 := by
  obtain ⟨rest, h1, h2⟩ := (printAll_csv_first o d seq).2 cols row more h
  exact ⟨rest, h1, h2, by rw [h1]; simp [headers, h2]⟩

/-- a sequence without rows prints nothing at all (so no header either) -/
theorem csv_no_rows_no_header (o : RealOracle) (d : Bytes) (seq : List (ResultRow × Bool))
    (h : allRows seq = []) : printAll o (.csv d) true seq = [] :=
  (printAll_csv_first o d seq).1 h

/-- text and JSON output never contain a header line -/
theorem no_header_unless_csv (o : RealOracle) (first : Bool) (seq : List (ResultRow × Bool)) :
    headers (printAll o .text first seq) = [] ∧ headers (printAll o .json first seq) = [] :=
  ⟨headers_not_csv o .text (by intro d h; cases h) first seq,
   headers_not_csv o .json (by intro d h; cases h) first seq⟩

/-! ## JSON strings and integers survive -/

/-- `jsonUnescape` (a reader of JSON string bodies) inverts serde_json's escaping for every byte
string: quotes, backslashes, all control characters, and every UTF-8 byte ≥ 0x20 verbatim. -/
theorem json_string_roundtrip (s : Bytes) : jsonUnescape (jsonEscape s) = some s :=
  jsonUnescape_jsonEscape s

/-- inside a document: reading a rendered string token stops exactly after its closing quote -/
theorem json_string_token_roundtrip (s rest : Bytes) :
    ∃ body, renderString s ++ rest = 34 :: body ∧ readStr body = some (s, rest) :=
  ⟨jsonEscape s ++ 34 :: rest, by simp [renderString], readStr_jsonEscape s rest⟩

/-- the decimal rendering of any integer (all of i64 included) parses back to it -/
theorem json_int_roundtrip (i : Int) : parseInt (renderInt i) = some i := parseInt_renderInt i

/-! ## JSON records recover the row -/

/-- Under distinct column names, the JSON record of a row — read by `readObject`, a reader for compact
one-level JSON objects defined in `Lemmas/PrintJson.lean` — is a valid object whose keys are the
column names in column order. (`OracleOk`: ryu renders a finite REAL as a number token.) -/
theorem json_keys_in_order (o : RealOracle) (ho : OracleOk o) (cols : List Bytes) (row : List Value)
    (hd : cols.Nodup) (hl : cols.length = row.length) :
    (readObject (renderRecord o .json cols row)).map (fun kvs => kvs.map Prod.fst) = some cols := by
  rw [readObject_record o ho cols row hd (Nat.le_of_eq hl)]
  simp [jsonMembers_keys o cols row (Nat.le_of_eq hl)]

/-- ... and the member values are, in order, the cell documents `Value::json_value` builds: the
object read back is exactly `columns.zip (row.map jsonValue)`. -/
theorem json_record_members (o : RealOracle) (ho : OracleOk o) (cols : List Bytes) (row : List Value)
    (hd : cols.Nodup) (hl : cols.length = row.length) :
    readObject (renderRecord o .json cols row) = some (cols.zip (row.map (jsonValue o))) := by
  rw [readObject_record o ho cols row hd (Nat.le_of_eq hl)]
  simp [jsonMembers, List.zip_map_right]

/-- A cell document determines the cell: NULL → null, BOOLEAN, INT (the number token parses back to
the same integer, all of i64 included), TEXT (the same bytes), arrays element-wise at any depth,
TIMESTAMP / INTERVAL → the string of their text form (`jsonMeaning`). REAL is excluded here: its
number token is the ryu oracle's (`json_real_is_oracle_token`). -/
theorem json_cell_recovers_value (o : RealOracle) (v : Value) (h : noReal v = true) :
    decodeCell (jsonValue o v) = some (jsonMeaning v) := decodeCell_jsonValue o v h

/-- the record read back recovers the whole row (distinct column names, REAL-free row) -/
theorem json_record_recovers_row (o : RealOracle) (ho : OracleOk o) (cols : List Bytes)
    (row : List Value) (hd : cols.Nodup) (hl : cols.length = row.length)
    (hnr : ∀ v ∈ row, noReal v = true) :
    ∃ kvs, readObject (renderRecord o .json cols row) = some kvs
      ∧ kvs.map Prod.fst = cols
      ∧ kvs.map (fun kv => decodeCell kv.2) = row.map (fun v => some (jsonMeaning v)) := by
  refine ⟨jsonMembers o cols row, readObject_record o ho cols row hd (Nat.le_of_eq hl),
    jsonMembers_keys o cols row (Nat.le_of_eq hl), ?_⟩
  simp only [jsonMembers, List.map_map]
  have e : ((fun (kv : Bytes × Json) => decodeCell kv.2) ∘ fun (nv : Bytes × Value) => (nv.1, jsonValue o nv.2))
      = fun nv => decodeCell (jsonValue o nv.2) := by funext nv; rfl
  rw [e, zip_map_snd_take cols row (fun v => decodeCell (jsonValue o v)) (Nat.le_of_eq hl), hl,
    List.take_length]
  exact List.map_congr_left (fun v hv => decodeCell_jsonValue o v (hnr v hv))

/-- REAL cells: a finite REAL is printed as the oracle's (ryu) number token, a non-finite one as `null` -/
theorem json_real_is_oracle_token (o : RealOracle) (b : Nat) :
    jsonValue o (.real b) = if isFinite b then .num (o.json b) else .null := by
  simp only [jsonValue]

/-- timestamps and intervals are printed as JSON strings of their text form -/
theorem json_temporal_is_text_form (o : RealOracle) (d s f n : Int) :
    jsonValue o (.timestamp d s f) = .str (displayValue o (.timestamp d s f))
    ∧ jsonValue o (.interval n) = .str (displayValue o (.interval n)) := ⟨rfl, rfl⟩

/-! ## CSV fields and text pairs, under the property's guard -/

/-- CSV with a one-byte delimiter `d` that `Display` never writes by itself (`;` — the delimiter of
`--format csv` —, tab, `|`, …): if no TEXT payload of the row (cells or array elements) contains the
delimiter (and the `{:.2}` oracle does not produce it), splitting the record at the delimiter gives
exactly the rendered cells in order — one field per column. Quotes and line breaks in TEXT do not even
have to be excluded for this. -/
theorem csv_field_count (o : RealOracle) (d : Nat) (cols : List Bytes) (row : List Value)
    (hne : cols ≠ []) (hl : cols.length = row.length) (hd : ¬ Structural d)
    (htexts : ∀ v ∈ row, ∀ s ∈ allTexts v, d ∉ s) (hreal : ∀ b, d ∉ o.fixed2 b) :
    splitOn d (renderRecord o (.csv [d]) cols row) = row.map (displayValue o)
    ∧ (splitOn d (renderRecord o (.csv [d]) cols row)).length = cols.length := by
  have h := splitOn_csv_record o d cols row hne (Nat.le_of_eq hl)
    (fun v hv => not_mem_displayValue o d v hd (htexts v hv) hreal)
  rw [hl, List.take_length] at h
  exact ⟨h, by rw [h, List.length_map, hl]⟩

/-- the header has one field per column as well (column names free of the delimiter) -/
theorem csv_header_field_count (d : Nat) (cols : List Bytes) (hne : cols ≠ []) (hn : ∀ n ∈ cols, d ∉ n) :
    splitOn d (joinWith [d] cols) = cols := splitOn_joinWith d cols hne hn

/-- text format: unless the lone-`input` rule applies, the record is the list of `name: value` pairs in
column order, joined by `, ` (all rows, no guard) -/
theorem text_record_is_pairs (o : RealOracle) (cols : List Bytes) (row : List Value)
    (hlone : loneInput .text cols row = false) :
    renderRecord o .text cols row
      = joinWith [44, 32] ((cols.zip row).map fun nv => nv.1 ++ ([58, 32] ++ displayValue o nv.2)) := by
  simp only [renderRecord, hlone, Bool.false_eq_true, if_false]

/-- a lone `input` column prints just the value, without `input: ` -/
theorem text_lone_input (o : RealOracle) (v : Value) :
    renderRecord o .text [sInput] [v] = displayValue o v := by
  simp [renderRecord, loneInput]

/-- Text format under the property's guard. `splitTop 0 false` (Lemmas/PrintText.lean) reads a record
by splitting it at the commas outside `'…'` and `{…}`. If no TEXT payload of the row (cells and array
elements at any depth) contains the quote `'` — the property's guard also excludes `,`, `"` and line
breaks, which is not even needed —, and the column names and the `{:.2}` oracle are free of `' , { }`
(every name the engine generates is an identifier or `pN`), then the record read back is the list of
`name: value` pairs in column order (each pair after the first preceded by the space of `, `).
Arrays of any length and nesting are covered. -/
theorem text_pairs_in_order (o : RealOracle) (cols : List Bytes) (row : List Value)
    (hlone : loneInput .text cols row = false) (hne : cols ≠ []) (hl : cols.length = row.length)
    (hnames : ∀ n ∈ cols, ∀ c ∈ n, Inert c) (hreal : ∀ b, ∀ c ∈ o.fixed2 b, Inert c)
    (htexts : ∀ v ∈ row, ∀ s ∈ allTexts v, 39 ∉ s) :
    splitTop 0 false (renderRecord o .text cols row)
      = spaced ((cols.zip row).map fun nv => nv.1 ++ ([58, 32] ++ displayValue o nv.2)) :=
  splitTop_text_record o cols row hlone hne (Nat.le_of_eq hl) hnames hreal htexts

/-- the same with a plain split at every `,`, for rows whose rendered cells contain no `,` at all
(no arrays of two or more elements) -/
theorem text_pairs_comma_split (o : RealOracle) (cols : List Bytes) (row : List Value)
    (hlone : loneInput .text cols row = false) (hne : cols ≠ []) (hl : cols.length = row.length)
    (hnames : ∀ n ∈ cols, 44 ∉ n) (hfree : ∀ v ∈ row, 44 ∉ displayValue o v) :
    splitOn 44 (renderRecord o .text cols row)
      = spaced ((cols.zip row).map fun nv => nv.1 ++ ([58, 32] ++ displayValue o nv.2)) :=
  splitOn_text_record o cols row hlone hne (Nat.le_of_eq hl) hnames hfree

/-! ## non-vacuity -/

def o0 : RealOracle := { fixed2 := fun _ => [49, 46, 53, 48], json := fun _ => [49, 46, 53] }

example : (printAll o0 (.csv [59]) true
    [(⟨[[97], [98]], []⟩, false),
     (⟨[[97], [98]], [[.bool false, .text [104, 105]], [.null, .bool true]]⟩, false),
     (⟨[[97], [98]], [[.real 0, .null]]⟩, true)]).map Line.bytes
  = [[97, 59, 98], [102, 97, 108, 115, 101, 59, 39, 104, 105, 39], [78, 85, 76, 76, 59, 116, 114, 117, 101], [],
     [49, 46, 53, 48, 59, 78, 85, 76, 76]] := by decide

example : ∃ cols row more, allRows [((⟨[[97]], []⟩ : ResultRow), false), (⟨[[97]], [[.int 1]]⟩, true)]
    = (cols, row) :: more := ⟨_, _, _, rfl⟩

example : jsonEscape [34, 92, 10, 1, 31, 127, 195, 169] =
    [92, 34, 92, 92, 92, 110, 92, 117, 48, 48, 48, 49, 92, 117, 48, 48, 49, 102, 127, 195, 169] := by decide

example : renderInt (-9223372036854775808) = [45, 57, 50, 50, 51, 51, 55, 50, 48, 51, 54, 56, 53, 52, 55, 55, 53, 56, 48, 56] := by
  simp [renderInt, natDigits]

example : OracleOk o0 := by
  intro b _; show (Json.num [49, 46, 53]).ok = true; decide

-- the guards are satisfiable: `;`, tab and `|` are never written by `Display` itself
example : ¬ Structural 59 ∧ ¬ Structural 9 ∧ ¬ Structural 124 := by decide

-- a row satisfying every hypothesis of `json_record_recovers_row`, and what is read back
example : readObject (renderRecord o0 .json [[97], [34, 98]]
      [.text [104, 34, 10, 195, 169], .array .bool [.bool true, .null, .array .text []]])
    = some [([97], .str [104, 34, 10, 195, 169]), ([34, 98], .arr [.bool true, .null, .arr []])] :=
  json_record_members o0 (by intro b _; show (Json.num [49, 46, 53]).ok = true; decide) _ _ (by decide) rfl

example : [[97], [34, 98]].Nodup ∧ noReal (.array .bool [.bool true, .null, .array .text []]) = true := by
  decide

-- a row satisfying the hypotheses of `csv_field_count` for `;` with quotes and commas in its TEXT
example : splitOn 59 (renderRecord o0 (.csv [59]) [[97], [98], [99]]
      [.text [39, 44, 10], .array .text [.text [120], .null], .real 0])
    = [[39, 39, 44, 10, 39], [123, 39, 120, 39, 44, 32, 78, 85, 76, 76, 125], [49, 46, 53, 48]] := by decide

example : ∀ v ∈ [Value.text [39, 44, 10], .array .text [.text [120], .null], .real 0],
    ∀ s ∈ allTexts v, 59 ∉ s := by decide

-- `text_pairs_in_order` on a row with a nested array and TEXT containing `,` `{` `"` and a line break
example : splitTop 0 false (renderRecord o0 .text [[97], [98]]
      [.array (.array .text) [.array .text [.text [44, 123, 34, 10], .null], .array .text []], .text [120]])
    = [[97, 58, 32, 123, 123, 39, 44, 123, 34, 10, 39, 44, 32, 78, 85, 76, 76, 125, 44, 32, 123, 125, 125],
       [32, 98, 58, 32, 39, 120, 39]] := by decide

example : (∀ n ∈ [[97], [98]], ∀ c ∈ n, Inert c) ∧ (∀ b, ∀ c ∈ o0.fixed2 b, Inert c)
    ∧ (∀ v ∈ [Value.array (.array .text) [.array .text [.text [44, 123, 34, 10], .null], .array .text []], .text [120]],
        ∀ s ∈ allTexts v, 39 ∉ s) := by
  refine ⟨by decide, ?_, by decide⟩
  intro b; show ∀ c ∈ [49, 46, 53, 48], Inert c; decide

-- `text_pairs_comma_split` on a two-column row
example : splitOn 44 (renderRecord o0 .text [[97], [98]] [.bool true, .text [120]])
    = [[97, 58, 32, 116, 114, 117, 101], [32, 98, 58, 32, 39, 120, 39]] := by decide

example : loneInput .text [[97], [98]] [.bool true, .text [120]] = false := by decide

end Sqlgrep.Props.C17
