// Generated/PrecTable.lean: the precedence tables of the expression parser, read off the running code.
//  binary : BinaryOperators::new().get(op) for every Single/Dual operator over the operator alphabet
//  other  : Parser::verif_token_precedence() on every non-operator token kind (entries with precedence != -1)
//  unary  : UnaryOperators::exists(op) over the same operators
use sqlgrep::parsing::verif_hooks::{BinaryOperators, Keyword, Operator, Parser, ParserToken, Token, UnaryOperators};

/// every character the tokenizer can turn into an operator token and that is printable ASCII
pub fn operator_alphabet() -> Vec<char> {
    (33u8..127u8).map(|b| b as char).filter(|c| !c.is_ascii_alphanumeric()).collect()
}

pub fn all_operators() -> Vec<Operator> {
    let alphabet = operator_alphabet();
    let mut ops = Vec::new();
    for c in &alphabet {
        ops.push(Operator::Single(*c));
    }
    for c in &alphabet {
        for d in &alphabet {
            ops.push(Operator::Dual(*c, *d));
        }
    }
    ops
}

pub fn all_keywords() -> Vec<Keyword> {
    vec![
        Keyword::Select, Keyword::From, Keyword::Where, Keyword::Group, Keyword::By, Keyword::As, Keyword::And, Keyword::Or,
        Keyword::Create, Keyword::Table, Keyword::Not, Keyword::Is, Keyword::IsNot, Keyword::In, Keyword::NotIn,
        Keyword::Having, Keyword::Inner, Keyword::Outer, Keyword::Join, Keyword::On, Keyword::Extract, Keyword::Default,
        Keyword::Distinct, Keyword::Case, Keyword::When, Keyword::Then, Keyword::Else, Keyword::End, Keyword::Limit,
    ]
}

/// one representative of every non-operator token kind
pub fn non_operator_tokens() -> Vec<Token> {
    let mut ts = vec![
        Token::Int(0), Token::Float(0.0), Token::String(String::new()), Token::Null, Token::True, Token::False,
        Token::Identifier("x".to_owned()),
    ];
    for k in all_keywords() {
        ts.push(Token::Keyword(k));
    }
    ts.extend(vec![
        Token::LeftParentheses, Token::RightParentheses, Token::LeftSquareParentheses, Token::RightSquareParentheses,
        Token::LeftCurlyParentheses, Token::RightCurlyParentheses, Token::Comma, Token::SemiColon, Token::Colon,
        Token::DoubleColon, Token::RightArrow, Token::End,
    ]);
    ts
}

pub fn lean_char(c: char) -> String {
    match c {
        '\'' => "'\\''".to_owned(),
        '\\' => "'\\\\'".to_owned(),
        _ => format!("'{}'", c),
    }
}

pub fn lean_operator(op: &Operator) -> String {
    match op {
        Operator::Single(c) => format!(".single {}", lean_char(*c)),
        Operator::Dual(c, d) => format!(".dual {} {}", lean_char(*c), lean_char(*d)),
    }
}

pub fn lean_keyword(k: &Keyword) -> &'static str {
    match k {
        Keyword::Select => "select", Keyword::From => "from", Keyword::Where => "where", Keyword::Group => "group",
        Keyword::By => "by", Keyword::As => "as", Keyword::And => "and", Keyword::Or => "or", Keyword::Create => "create",
        Keyword::Table => "table", Keyword::Not => "not", Keyword::Is => "is", Keyword::IsNot => "isNot", Keyword::In => "in",
        Keyword::NotIn => "notIn", Keyword::Having => "having", Keyword::Inner => "inner", Keyword::Outer => "outer",
        Keyword::Join => "join", Keyword::On => "on", Keyword::Extract => "extract", Keyword::Default => "default",
        Keyword::Distinct => "distinct", Keyword::Case => "case", Keyword::When => "when", Keyword::Then => "then",
        Keyword::Else => "else", Keyword::End => "end", Keyword::Limit => "limit",
    }
}

/// Lean term for a payload-free token (the only kinds that can carry a precedence in the `other` table)
fn lean_plain_token(t: &Token) -> Option<String> {
    Some(match t {
        Token::Null => ".null".to_owned(),
        Token::True => ".tru".to_owned(),
        Token::False => ".fls".to_owned(),
        Token::Keyword(k) => format!(".kw .{}", lean_keyword(k)),
        Token::LeftParentheses => ".lp".to_owned(),
        Token::RightParentheses => ".rp".to_owned(),
        Token::LeftSquareParentheses => ".lsq".to_owned(),
        Token::RightSquareParentheses => ".rsq".to_owned(),
        Token::LeftCurlyParentheses => ".lcu".to_owned(),
        Token::RightCurlyParentheses => ".rcu".to_owned(),
        Token::Comma => ".comma".to_owned(),
        Token::SemiColon => ".semi".to_owned(),
        Token::Colon => ".colon".to_owned(),
        Token::DoubleColon => ".dcolon".to_owned(),
        Token::RightArrow => ".rarrow".to_owned(),
        Token::End => ".eof".to_owned(),
        _ => return None,
    })
}

/// the precedence the running parser assigns to `t` as the current token
pub fn token_precedence(t: &Token) -> Result<i32, String> {
    let bin = BinaryOperators::new();
    let un = UnaryOperators::new();
    let mut parser = Parser::new(&bin, &un, vec![ParserToken::new(0, 0, t.clone()), ParserToken::new(0, 1, Token::End)]);
    parser.next().map_err(|e| format!("{:?}", e.error))?;
    parser.verif_token_precedence().map_err(|e| format!("{:?}", e.error))
}

pub fn binary_table() -> Vec<(Operator, i32)> {
    let bin = BinaryOperators::new();
    all_operators().into_iter().filter_map(|op| bin.get(&op).map(|b| (op, b.precedence))).collect()
}

pub fn other_table() -> Vec<(Token, i32)> {
    non_operator_tokens().into_iter().filter_map(|t| {
        let p = token_precedence(&t).expect("precedence of a non-operator token");
        if p != -1 { Some((t, p)) } else { None }
    }).collect()
}

pub fn unary_table() -> Vec<Operator> {
    let un = UnaryOperators::new();
    all_operators().into_iter().filter(|op| un.exists(op)).collect()
}

pub fn render() -> String {
    let mut s = String::new();
    s.push_str("import SqlgrepModel.Model.ParseExpr\n");
    s.push_str("/- GENERATED by `harness tables` from the running code (operator.rs tables, get_token_precedence). Do not edit. -/\n");
    s.push_str("namespace Sqlgrep.Generated\n\n");
    s.push_str("def precTables : PrecTables where\n");
    let b: Vec<String> = binary_table().iter().map(|(op, p)| format!("({}, {})", lean_operator(op), p)).collect();
    s.push_str(&format!("  binary := [{}]\n", b.join(", ")));
    let o: Vec<String> = other_table().iter().map(|(t, p)| {
        let term = lean_plain_token(t).unwrap_or_else(|| panic!("token kind {:?} carries a payload and a precedence {}: not expressible in the table", t, p));
        format!("({}, {})", term, p)
    }).collect();
    s.push_str(&format!("  other := [{}]\n", o.join(", ")));
    let u: Vec<String> = unary_table().iter().map(|op| lean_operator(op)).collect();
    s.push_str(&format!("  unary := [{}]\n", u.join(", ")));
    s.push_str("\nend Sqlgrep.Generated\n");
    s
}

pub fn write(out_dir: &str) {
    std::fs::write(format!("{}/PrecTable.lean", out_dir), render()).expect("write PrecTable.lean");
}
