import SqlgrepModel.Lemmas.ParseSemicolon
/-
Clause order, starting from a run: a vector of clause-shaped segments that the clause loop reads completely is, in
only one way, a sequence of clauses (`segs_unique` + `clauseLoop_run`), so every rearrangement of the segments is read
completely too, with the same slots up to locations (`clauseLoop_perm_of_run`).
-/
namespace Sqlgrep
namespace Parse

/-- a clause keyword followed by tokens none of which is a clause keyword, `;` or `End` -/
def SegShape (seg : List PTok) : Prop := ∃ t body, seg = t :: body ∧ ClauseKw t.tok ∧ ∀ u ∈ body, ¬ Boundary u.tok

theorem clauseSeg_toks_shape {T : PrecTables} {f : Nat} {toks : List Tok} {v : ClauseVal} (h : ClauseSeg T f toks v) :
    ∃ k rest, toks = k :: rest ∧ ClauseKw k ∧ ∀ t ∈ rest, ¬ Boundary t := by
  have nb : ∀ (body : List PTok), (∀ t ∈ body, ¬ Boundary t.tok) → ∀ t ∈ body.map (·.tok), ¬ Boundary t := by
    intro body hnb t ht
    obtain ⟨p, hp, rfl⟩ := List.mem_map.mp ht
    exact hnb p hp
  cases h with
  | limit n => exact ⟨_, _, rfl, by simp [ClauseKw], by intro t ht; simp at ht; subst ht; simp [Boundary, ClauseKw]⟩
  | join outer u fl a b c d =>
    refine ⟨_, _, rfl, by cases outer <;> simp [ClauseKw], ?_⟩
    intro x hx
    simp only [List.mem_cons, List.mem_nil_iff, or_false] at hx
    rcases hx with rfl | rfl | rfl | rfl | rfl | rfl | rfl | rfl | rfl | rfl | rfl | rfl <;> simp [Boundary, ClauseKw]
  | filter body hnb tail0 hb0 e hrun => exact ⟨_, _, rfl, by simp [ClauseKw], nb body hnb⟩
  | having body hnb tail0 hb0 e hrun => exact ⟨_, _, rfl, by simp [ClauseKw], nb body hnb⟩
  | groupBy body hnb tail0 hb0 ks hrun =>
    refine ⟨_, _, rfl, by simp [ClauseKw], ?_⟩
    intro t ht
    simp only [List.mem_cons] at ht
    rcases ht with rfl | ht
    · simp [Boundary, ClauseKw]
    · exact nb body hnb t ht

theorem clauseSeg_shape {T : PrecTables} {f : Nat} {seg : List PTok} {v : ClauseVal}
    (h : ClauseSeg T f (seg.map (·.tok)) v) : SegShape seg := by
  obtain ⟨k, rest, hk, hkw, hnb⟩ := clauseSeg_toks_shape h
  obtain ⟨t, body, rfl, ht, hb⟩ := List.map_eq_cons_iff.mp hk
  refine ⟨t, body, rfl, ht ▸ hkw, ?_⟩
  intro u hu
  exact hnb u.tok (hb ▸ List.mem_map_of_mem hu)

/-- a token list splits in only one way in front of its first boundary token -/
theorem bsplit_unique : ∀ (A B : List PTok) (x y : PTok) (X Y : List PTok),
    (∀ t ∈ A, ¬ Boundary t.tok) → (∀ t ∈ B, ¬ Boundary t.tok) → Boundary x.tok → Boundary y.tok →
    A ++ x :: X = B ++ y :: Y → A = B ∧ x :: X = y :: Y
  | [], [], x, y, X, Y, _, _, _, _, h => ⟨rfl, h⟩
  | [], b :: B, x, y, X, Y, _, hB, hx, _, h => by
    simp only [List.nil_append, List.cons_append, List.cons.injEq] at h
    exact absurd (h.1 ▸ hx) (hB b (by simp))
  | a :: A, [], x, y, X, Y, hA, _, _, hy, h => by
    simp only [List.nil_append, List.cons_append, List.cons.injEq] at h
    exact absurd (h.1 ▸ hy) (hA a (by simp))
  | a :: A, b :: B, x, y, X, Y, hA, hB, hx, hy, h => by
    simp only [List.cons_append, List.cons.injEq] at h
    obtain ⟨h1, h2⟩ := bsplit_unique A B x y X Y (fun t ht => hA t (by simp [ht])) (fun t ht => hB t (by simp [ht])) hx hy h.2
    exact ⟨by rw [h.1, h1], h2⟩

theorem prependAll_cur_boundary (A : List (List PTok)) (hA : ∀ seg ∈ A, SegShape seg) (tA : PSt)
    (ht : Boundary tA.cur.tok) : Boundary (PSt.prependAll A tA).cur.tok := by
  cases A with
  | nil => exact ht
  | cons a A' =>
    obtain ⟨t, body, rfl, hk, _⟩ := hA a (by simp)
    exact .inl hk

theorem clauseKw_not_term {t : Tok} (h : ClauseKw t) : ¬ (t = .eof ∨ t = .semi) := by
  unfold ClauseKw at h
  rcases h with h | h | h | h | h | h <;> simp [h]

/-- a token vector consists of clause-shaped segments and a terminator in only one way -/
theorem segs_unique : ∀ (A B : List (List PTok)) (tA tB : PSt),
    (∀ seg ∈ A, SegShape seg) → (∀ seg ∈ B, SegShape seg) →
    (tA.cur.tok = .eof ∨ tA.cur.tok = .semi) → (tB.cur.tok = .eof ∨ tB.cur.tok = .semi) →
    PSt.prependAll A tA = PSt.prependAll B tB → A = B ∧ tA = tB
  | [], [], tA, tB, _, _, _, _, h => ⟨rfl, h⟩
  | [], b :: B, tA, tB, _, hB, hta, _, h => by
    obtain ⟨t, body, rfl, hk, _⟩ := hB b (by simp)
    have : tA.cur.tok = t.tok := by
      have := congrArg (fun x => x.cur.tok) h; simpa [PSt.prependAll, PSt.prepend] using this
    rw [this] at hta
    exact absurd hta (clauseKw_not_term hk)
  | a :: A, [], tA, tB, hA, _, _, htb, h => by
    obtain ⟨t, body, rfl, hk, _⟩ := hA a (by simp)
    have : tB.cur.tok = t.tok := by
      have := congrArg (fun x => x.cur.tok) h; simpa [PSt.prependAll, PSt.prepend] using this.symm
    rw [this] at htb
    exact absurd htb (clauseKw_not_term hk)
  | a :: A, b :: B, tA, tB, hA, hB, hta, htb, h => by
    obtain ⟨ta, ba, rfl, _, hnba⟩ := hA a (by simp)
    obtain ⟨tb, bb, rfl, _, hnbb⟩ := hB b (by simp)
    have hbA := prependAll_cur_boundary A (fun s hs => hA s (by simp [hs])) tA
      (by rcases hta with e | e <;> simp [e, Boundary])
    have hbB := prependAll_cur_boundary B (fun s hs => hB s (by simp [hs])) tB
      (by rcases htb with e | e <;> simp [e, Boundary])
    have ht := congrArg PSt.toks h
    simp only [PSt.prependAll, prepend_toks, List.cons_append, List.cons.injEq] at ht
    obtain ⟨hhead, htl⟩ := ht
    obtain ⟨hbody, hrest⟩ := bsplit_unique ba bb _ _ _ _ hnba hnbb hbA hbB htl
    obtain ⟨hAB, htt⟩ := segs_unique A B tA tB (fun s hs => hA s (by simp [hs])) (fun s hs => hB s (by simp [hs])) hta htb
      (pst_ext hrest)
    exact ⟨by rw [hhead, hbody, hAB], htt⟩


/-- give the segments of a rearranged vector the values of the segments they are rearrangements of -/
theorem assign_values : ∀ (B : List (List PTok)) (A : List (List PTok × ClauseVal)),
    (A.map (fun p => p.1.map (·.tok))).Perm (B.map (fun seg => seg.map (·.tok))) →
    ∃ B' : List (List PTok × ClauseVal), B'.map (·.1) = B ∧ (A.map clauseKey).Perm (B'.map clauseKey)
  | [], A, h => by
    have : A = [] := by simpa using h.length_eq
    subst this; exact ⟨[], rfl, List.Perm.nil⟩
  | b :: B, A, h => by
    have hb : b.map (·.tok) ∈ A.map (fun p => p.1.map (·.tok)) := h.mem_iff.mpr (by simp)
    obtain ⟨a, ha, hab⟩ := List.mem_map.mp hb
    obtain ⟨A1, A2, rfl⟩ := List.append_of_mem ha
    have h' : ((A1 ++ A2).map (fun p => p.1.map (·.tok))).Perm (B.map (fun seg => seg.map (·.tok))) := by
      have h1 : ((A1 ++ a :: A2).map (fun p => p.1.map (·.tok))).Perm ((a :: (A1 ++ A2)).map (fun p => p.1.map (·.tok))) :=
        (List.perm_middle).map _
      have h2 := h1.symm.trans h
      simp only [List.map_cons, hab] at h2
      exact h2.cons_inv
    obtain ⟨B', hB', hperm⟩ := assign_values B (A1 ++ A2) h'
    refine ⟨(b, a.2) :: B', by simp [hB'], ?_⟩
    have h3 : ((A1 ++ a :: A2).map clauseKey).Perm ((a :: (A1 ++ A2)).map clauseKey) := (List.perm_middle).map _
    refine h3.trans ?_
    simp only [List.map_cons]
    have : clauseKey a = clauseKey (b, a.2) := by simp [clauseKey, hab]
    rw [this]
    exact hperm.cons _

section order
variable {T : PrecTables} (hT : InertBoundary T)
include hT

/-- **clause order does not matter, from a run**: if the clause loop reads a vector of clause-shaped segments followed
by `End` completely, it reads every rearrangement of these segments (the same token sequences at any locations),
followed by `End`, completely as well and returns the same slots up to locations -/
theorem clauseLoop_perm_of_run (fuel : Nat) (segs1 segs2 : List (List PTok)) (final1 final2 : PSt)
    (h1 : final1.cur.tok = .eof) (h2 : final2.cur.tok = .eof)
    (hshape : ∀ seg ∈ segs1, SegShape seg)
    (hperm : (segs1.map (fun seg => seg.map (·.tok))).Perm (segs2.map (fun seg => seg.map (·.tok))))
    (c1 : Clauses) (sF : PSt) (hrun : clauseLoop T fuel {} (PSt.prependAll segs1 final1) = .ok c1 sF) :
    sF = final1 ∧ ∃ c2, clauseLoop T (fuel + segs1.length) {} (PSt.prependAll segs2 final2) = .ok c2 final2 ∧ c1.Same c2 := by
  obtain ⟨segs, term, hs, hcs, hpw, _, hc1, hend⟩ := clauseLoop_run hT fuel {} _ c1 sF hrun
  have hterm : term.cur.tok = .eof ∨ term.cur.tok = .semi := by
    rcases hend with ⟨a, _⟩ | ⟨a, _⟩
    · exact .inl a
    · exact .inr a
  obtain ⟨hsegs, hfin⟩ := segs_unique segs1 (segs.map (·.1)) final1 term hshape
    (by intro seg hseg; obtain ⟨p, hp, rfl⟩ := List.mem_map.mp hseg; exact clauseSeg_shape (hcs p hp))
    (.inl h1) hterm hs
  subst hfin
  have hsF : sF = final1 := by
    rcases hend with ⟨_, b, _⟩ | ⟨a, _⟩
    · exact b
    · rw [h1] at a; cases a
  refine ⟨hsF, ?_⟩
  have hne : segs ≠ [] := by
    rcases hend with ⟨_, _, c⟩ | ⟨a, _⟩
    · exact c
    · rw [h1] at a; cases a
  have hperm' : (segs.map (fun p => p.1.map (·.tok))).Perm (segs2.map (fun seg => seg.map (·.tok))) := by
    have : segs.map (fun p => p.1.map (·.tok)) = segs1.map (fun seg => seg.map (·.tok)) := by
      rw [hsegs]; simp [List.map_map, Function.comp_def]
    rw [this]; exact hperm
  obtain ⟨segs2', hB, hkeys⟩ := assign_values segs2 segs hperm'
  have hlen : segs1.length = segs.length := by rw [hsegs]; simp
  obtain ⟨c1', c2, hr1, hr2, hsame⟩ := clauseLoop_perm_tokens hT fuel final1 final2 h1 h2 segs segs2' hne hcs hkeys hpw
    (fuel + segs1.length) (by omega)
  rw [hB] at hr2
  refine ⟨c2, hr2, ?_⟩
  have : c1' = c1 := by
    have hle := clauseLoop_mono_le T (Nat.le_add_right fuel segs1.length) {} (PSt.prependAll segs1 final1)
    rw [hrun] at hle
    rw [← hsegs] at hr1
    rw [hr1] at hle
    have := hle.eq_of_ne (by simp)
    simp only [PRes.ok.injEq] at this
    exact this.1
  rw [← this]; exact hsame

end order

end Parse
end Sqlgrep
