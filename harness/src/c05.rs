// C05: JOIN pairs exactly the rows with equal join keys.
// Pairs of files for the tables t and u (clashing column names k, v, r), keys of TEXT / INT / REAL type with NULLs,
// duplicates on both sides and absent keys, `ON t.x = u.y` in both orders, INNER / OUTER, plain projections, `*`,
// WHERE, aggregates, DISTINCT and LIMIT over the join, non-admitted lines in the joined file, missing join column,
// missing joined file. Every case runs through the real `FileExecutor` (the joined file is a real temp file whose
// name is inside the SQL text) and is answered by the Lean model (`join` case kind) together with the Lean
// nested-loop specification. Oracle on the implementation: an independent nested loop in Rust over the admitted
// rows of both files (rows from the real `TableDefinition::extract`) for plain column projections and `*`.
use std::collections::BTreeSet;

use sqlgrep::data_model::TableDefinition;
use sqlgrep::model::Value;
use sqlgrep::Statement;

use crate::c04::join_lines;
use crate::engine_run::*;
use crate::exprs::oracles_sexp;
use crate::queries::*;
use crate::run::{Params, Run};
use crate::runq::{tmp_dir, tmp_file};
use crate::util::Rng;

pub const T_DEF: &str = MAIN_DEF;
pub const U_DEF: &str = "CREATE TABLE u(row = '^#([a-z]+)?;(-?[0-9]+)?;([^;]+)?;([^;]+)?$', row[1] => k TEXT, row[2] => v INT, row[3] => y TEXT, row[4] => r REAL);";

pub fn defs() -> String { format!("{}\n{}", T_DEF, U_DEF) }
/// the joined table with declared DEFAULTs: every line of the joined file is then a row, and the NULL padding of an
/// OUTER JOIN must still be NULL (not the column's DEFAULT)
pub const U_DEF_DFLT: &str = "CREATE TABLE u(row = '^#([a-z]+)?;(-?[0-9]+)?;([^;]+)?;([^;]+)?$', row[1] => k TEXT, row[2] => v INT DEFAULT 7, row[3] => y TEXT DEFAULT 'nobody', row[4] => r REAL);";
pub fn defs_dflt() -> String { format!("{}\n{}", T_DEF, U_DEF_DFLT) }
/// the joined table with a NOT NULL column: a line of the joined file on which it is NULL is no row (and must not crash the load)
pub const U_DEF_NN: &str = "CREATE TABLE u(row = '^#([a-z]+)?;(-?[0-9]+)?;([^;]+)?;([^;]+)?$', row[1] => k TEXT, row[2] => v INT, row[3] => y TEXT NOT NULL, row[4] => r REAL);";
/// the joined table with an array column: the NULL padding of an OUTER JOIN is NULL there too (not an empty array)
pub const U_DEF_ARR: &str = "CREATE TABLE u(row = '^#([a-z]+)?;(-?[0-9]+)?;([^;]+)?;([^;]+)?$', row[1] => k TEXT, row[2] => v INT, row[3] => y TEXT, row[4] => r REAL, row[2], row[2] => a INT[]);";

const KEYS: &[&str] = &["a", "b", "c", "ab"];
const REALS: &[&str] = &["0.5", "0", "-0.0", "1e3", "1000", "nan", "x", "3"];
const TEXTS: &[&str] = &["x", "é", "q q", "10", "a", "b"];

/// one line of the queried input drawn from the same small pools as the joined file, so that equal keys,
/// duplicates on both sides and absent keys are all frequent (sometimes a `queries::gen_line` line instead)
pub fn gen_t_line(rng: &mut Rng, null_pct: u64) -> String {
    if rng.chance(1, 6) { return gen_line(rng, null_pct, false); }
    let f = |rng: &mut Rng, s: String| if rng.chance(null_pct, 100) { String::new() } else { s };
    let k = (*rng.pick(KEYS)).to_owned();
    let v = rng.range(-1, 3).to_string();
    let w = rng.range(-1, 3).to_string();
    let r = (*rng.pick(REALS)).to_owned();
    let s_ = (*rng.pick(TEXTS)).to_owned();
    format!("{};{};{};{};{};{}", f(rng, k), f(rng, v), f(rng, w), f(rng, r), f(rng, s_), if rng.chance(1, 2) { "!" } else { "" })
}

/// one line of the joined file (sometimes a line that is not admitted)
pub fn gen_u_line(rng: &mut Rng, null_pct: u64) -> String {
    if rng.chance(1, 9) {
        return (*rng.pick(&["", "#", "nope", "#;;;", "a;1;2;3;4;", "#A;1;x;1"])).to_owned();
    }
    let f = |rng: &mut Rng, s: String| if rng.chance(null_pct, 100) { String::new() } else { s };
    let k = (*rng.pick(KEYS)).to_owned();
    let v = rng.range(-1, 3).to_string();
    let y = (*rng.pick(TEXTS)).to_owned();
    let r = (*rng.pick(REALS)).to_owned();
    format!("#{};{};{};{}", f(rng, k), f(rng, v), f(rng, y), f(rng, r))
}

/// (queried column, joined column, class)
pub const KEY_PAIRS: &[(&str, &str, &str)] = &[
    ("k", "k", "text"), ("k", "k", "text"), ("v", "v", "int"), ("v", "v", "int"), ("w", "v", "int"), ("s", "y", "text"),
    ("r", "r", "real"), ("k", "y", "text"), ("s", "k", "text"), ("k", "v", "mixed"), ("v", "r", "mixed"),
];

pub struct JoinSpec {
    pub tcol: String,
    pub ucol: String,
    pub class: &'static str,
    pub outer: bool,
    pub swapped: bool,
}

impl JoinSpec {
    pub fn clause(&self, path: &str, swapped: bool) -> String {
        let (l, r) = if swapped { (format!("u.{}", self.ucol), format!("t.{}", self.tcol)) } else { (format!("t.{}", self.tcol), format!("u.{}", self.ucol)) };
        format!("{} JOIN u::'{}' ON {} = {}", if self.outer { "OUTER" } else { "INNER" }, path, l, r)
    }
}

pub fn gen_join_spec(rng: &mut Rng) -> JoinSpec {
    let (t, u, class) = *rng.pick(KEY_PAIRS);
    JoinSpec { tcol: t.to_owned(), ucol: u.to_owned(), class, outer: rng.chance(2, 5), swapped: rng.chance(1, 2) }
}

/// column references usable over the joined rows
const COL_REFS: &[&str] = &["k", "v", "w", "r", "s", "y", "t.k", "t.v", "t.w", "t.r", "t.s", "u.k", "u.v", "u.y", "u.r", "input"];

#[derive(Clone, Copy, PartialEq)]
pub enum Kind { Cols, Star, Where, Agg, Distinct, Limit }

pub struct GenStmt {
    pub head: String,        // "SELECT …"
    pub tail: String,        // clauses after the join
    pub kind: Kind,
    pub refs: Option<Vec<String>>, // the column references of a plain projection (None: not a plain projection)
}

pub fn gen_stmt(rng: &mut Rng) -> GenStmt {
    let sch = Schema { defs: defs(), has_bool: false };
    let kind = match rng.below(12) { 0 | 1 | 2 | 3 => Kind::Cols, 4 => Kind::Star, 5 | 6 => Kind::Where, 7 | 8 => Kind::Agg, 9 => Kind::Distinct, _ => Kind::Limit };
    let cols = |rng: &mut Rng| -> Vec<String> { (0..rng.below(4) + 1).map(|_| (*rng.pick(COL_REFS)).to_owned()).collect() };
    let proj = |refs: &[String]| refs.iter().enumerate().map(|(i, r)| format!("{} AS c{}", r, i)).collect::<Vec<_>>().join(", ");
    match kind {
        Kind::Cols => { let r = cols(rng); GenStmt { head: format!("SELECT {}", proj(&r)), tail: String::new(), kind, refs: Some(r) } }
        Kind::Star => GenStmt { head: "SELECT *".to_owned(), tail: String::new(), kind, refs: None },
        Kind::Where => {
            let r = cols(rng);
            let head = if rng.chance(1, 4) { "SELECT *".to_owned() } else { format!("SELECT {}", proj(&r)) };
            GenStmt { head, tail: format!(" WHERE {}", gen_sql_expr(rng, 2, Ty::Bool, &sch, true)), kind, refs: None }
        }
        Kind::Agg => {
            // single keys and pairs of keys that carry the SAME column name on the two sides (`t.v, u.v`): each qualified name is its own key
            let group: Option<&str> = if rng.chance(2, 3) { Some(*rng.pick(&["k", "u.k", "y", "t.v", "u.v", "s", "t.v, u.v", "u.k, t.k", "t.v, u.v"])) } else { None };
            let mut items: Vec<String> = Vec::new();
            if let Some(g) = group { if rng.chance(3, 4) { items.push(g.to_owned()); } }
            for _ in 0..rng.below(3) + 1 {
                let a = match rng.below(7) {
                    0 | 1 => "COUNT(*)".to_owned(),
                    2 => format!("COUNT({})", rng.pick(&["y", "u.v", "t.v", "w", "u.k"])),
                    3 => format!("SUM({})", rng.pick(&["u.v", "t.v", "w", "v"])),
                    4 => format!("{}({})", rng.pick(&["MIN", "MAX"]), rng.pick(&["u.v", "y", "u.k", "w", "u.r"])),
                    5 => format!("ARRAY_AGG({})", rng.pick(&["u.v", "y", "w"])),
                    _ => gen_aggregate(rng, &sch, true),
                };
                items.push(a);
            }
            let mut tail = String::new();
            if rng.chance(1, 4) { tail.push_str(&format!(" WHERE {}", gen_sql_expr(rng, 1, Ty::Bool, &sch, true))); }
            if let Some(g) = group { tail.push_str(&format!(" GROUP BY {}", g)); }
            if rng.chance(1, 5) { tail.push_str(&format!(" HAVING COUNT(*) {} {}", rng.pick(&[">", ">=", "="]), rng.below(3))); }
            // one aggregate statement in four is SELECT DISTINCT (DISTINCT acts on the printed table, never on the pairs counted)
            GenStmt { head: format!("SELECT {}{}", if rng.chance(1, 4) { "DISTINCT " } else { "" }, items.join(", ")), tail, kind, refs: None }
        }
        // one DISTINCT statement in three is `SELECT DISTINCT *`: every column of both sides belongs to the tuple (a pair of partners
        // that differ only in a joined column with a clashing name are two rows)
        Kind::Distinct => { let r = cols(rng); GenStmt { head: if rng.chance(1, 3) { "SELECT DISTINCT *".to_owned() } else { format!("SELECT DISTINCT {}", proj(&r)) }, tail: String::new(), kind, refs: None } }
        Kind::Limit => {
            let r = cols(rng);
            let head = if rng.chance(1, 4) { "SELECT *".to_owned() } else { format!("SELECT {}", proj(&r)) };
            GenStmt { head, tail: format!(" LIMIT {}", rng.below(7)), kind, refs: None }
        }
    }
}

/// the `join` / `intr` case for the model: like `batch_case`, with an optional joined file
pub fn model_case(kind: &str, p: &Prepared, joined: Option<&[u8]>, files: &[Vec<u8>], extra: &str) -> Option<String> {
    let q = query_sexp(&p.statement, &p.tables)?;
    let from = match &p.statement { Statement::Select(s) => &s.from, Statement::Aggregate(a) => &a.from, _ => return None };
    let main = p.tables.get(from)?;
    let mut strings = BTreeSet::new();
    stmt_strings(&p.statement, &mut strings);
    let joined_s = match (p.statement.join_clause(), joined) {
        (Some(j), Some(content)) => file_sexp(p.tables.get(&j.joined_table)?, content, &mut strings),
        (Some(_), None) => "(nofile)".to_owned(),
        (None, _) => "(file)".to_owned(),
    };
    let mut fs = String::from("(files");
    for f in files {
        fs.push(' ');
        fs.push_str(&file_sexp(main, f, &mut strings));
    }
    fs.push(')');
    Some(format!("{} {} {} {} {}{}", kind, oracles_sexp(&strings, &pattern_set()), q, joined_s, fs, extra))
}

// ---------- the independent nested loop ----------

enum Ref { T(usize), U(usize), Input }

fn resolve(t: &TableDefinition, u: &TableDefinition, name: &str, self_join: bool) -> Option<Ref> {
    if name == "input" { return Some(Ref::Input); }
    // self-join: the table-qualified name is the only way to address the joined side, the plain name stays with the
    // queried side ("both sides' columns addressable, a joined column whose name clashes only by its qualified name")
    if self_join { if let Some(c) = name.strip_prefix("t.") { return u.index_for(c).map(Ref::U); } }
    if let Some(c) = name.strip_prefix("t.") { return t.index_for(c).map(Ref::T); }
    if let Some(c) = name.strip_prefix("u.") { return u.index_for(c).map(Ref::U); }
    // a plain name addresses the queried table's column when both tables have it
    if let Some(i) = t.index_for(name) { return Some(Ref::T(i)); }
    u.index_for(name).map(Ref::U)
}

pub struct Expected { pub records: Vec<String>, pub max_fanout: usize, pub null_keys: bool, pub padded: usize }

/// expected records of `SELECT refs… AS c0…` (or `*` when `refs` is None) over the join, by the property sentence
/// join keys are equal: the implementation's own `==`, or (numeric) an INT and a REAL of the same numeric value as well
fn keys_equal(a: &Value, b: &Value, numeric: bool) -> bool {
    if a == b { return true; }
    if !numeric { return false; }
    let exact = |i: i64, f: f64| -> bool { f.is_finite() && f.fract() == 0.0 && f >= -9223372036854775808.0 && f < 9223372036854775808.0 && (f as i128) == i as i128 };
    match (a, b) { (Value::Int(i), Value::Float(f)) | (Value::Float(f), Value::Int(i)) => exact(*i, f.0), _ => false }
}

pub fn nested_loop(t: &TableDefinition, u: &TableDefinition, js: &JoinSpec, refs: Option<&[String]>, main: &[String], joined: &[String], self_join: bool) -> Option<Expected> {
    nested_loop_eq(t, u, js, refs, main, joined, self_join, false)
}

/// `numeric`: an INT key and a REAL key of the same numeric value pair as well (C16: numbers compare by numeric value)
pub fn nested_loop_eq(t: &TableDefinition, u: &TableDefinition, js: &JoinSpec, refs: Option<&[String]>, main: &[String], joined: &[String], self_join: bool, numeric: bool) -> Option<Expected> {
    let ti = t.index_for(&js.tcol)?;
    let ui = u.index_for(&js.ucol)?;
    let urows: Vec<Vec<Value>> = joined.iter().map(|l| u.extract(l)).filter(|r| r.any_result()).map(|r| r.columns).collect();
    let mut out = Expected { records: Vec::new(), max_fanout: 0, null_keys: false, padded: 0 };
    // (name, reference) per output column
    let columns: Vec<(String, Ref)> = match refs {
        Some(rs) => { let mut v = Vec::new(); for (i, r) in rs.iter().enumerate() { v.push((format!("c{}", i), resolve(t, u, r, self_join)?)); } v }
        None => {
            let mut v: Vec<(String, Ref)> = t.columns.iter().enumerate().map(|(i, c)| (c.name.clone(), Ref::T(i))).collect();
            for (i, c) in u.columns.iter().enumerate() {
                let name = if t.index_for(&c.name).is_some() { format!("{}.{}", u.name, c.name) } else { c.name.clone() };
                v.push((name, Ref::U(i)));
            }
            v
        }
    };
    for line in main {
        let row = t.extract(line);
        if !row.any_result() { continue; }
        let key = &row.columns[ti];
        if *key == Value::Null { out.null_keys = true; }
        let mut partners: Vec<&Vec<Value>> = Vec::new();
        for s in &urows {
            if s[ui] == Value::Null { out.null_keys = true; continue; }
            if *key != Value::Null && keys_equal(key, &s[ui], numeric) { partners.push(s); }
        }
        out.max_fanout = out.max_fanout.max(partners.len());
        let nulls = vec![Value::Null; u.columns.len()];
        if partners.is_empty() && js.outer { partners.push(&nulls); out.padded += 1; }
        for s in partners {
            let rec = columns.iter().map(|(n, r)| {
                let v = match r { Ref::T(i) => row.columns[*i].clone(), Ref::U(i) => s[*i].clone(), Ref::Input => Value::String(line.clone()) };
                format!("{}: {}", n, v)
            }).collect::<Vec<_>>().join(", ");
            out.records.push(rec);
        }
    }
    Some(out)
}

fn split_files(rng: &mut Rng, lines: &[String]) -> Vec<Vec<u8>> {
    match rng.below(4) {
        0 => { let c = rng.below(lines.len() + 1); vec![join_lines(&lines[..c]), join_lines(&lines[c..])] }
        1 => {
            let a = rng.below(lines.len() + 1);
            let b = a + rng.below(lines.len() - a + 1);
            vec![join_lines(&lines[..a]), join_lines(&lines[a..b]), join_lines(&lines[b..])]
        }
        _ => vec![join_lines(lines)],
    }
}

fn broken_possible(i: usize) -> bool { i % 8 != 7 }

pub fn run(p: &Params) -> Run {
    let mut run = Run::new("C05");
    let mut rng = Rng::new(p.seed ^ 0x05);
    let n = p.n(3000, 80_000);
    let defs = defs();
    let jpath = tmp_file(b"");
    let jp = jpath.display().to_string();
    let missing_path = tmp_dir().join("no-such-file.txt").display().to_string();
    let tables = crate::runq::parse_tables(&defs).expect("C05 definitions");
    let t = tables.get("t").unwrap().clone();
    let u_plain = tables.get("u").unwrap().clone();
    let defs_plain = defs.clone();
    let defs_d = defs_dflt();
    let u_dflt = crate::runq::parse_tables(&defs_d).expect("C05 definitions with DEFAULT").get("u").unwrap().clone();
    let defs_nn = format!("{}\n{}", T_DEF, U_DEF_NN);
    let u_nn = crate::runq::parse_tables(&defs_nn).expect("C05 definitions with NOT NULL").get("u").unwrap().clone();
    let defs_arr = format!("{}\n{}", T_DEF, U_DEF_ARR);
    let u_arr = crate::runq::parse_tables(&defs_arr).expect("C05 definitions with an array column").get("u").unwrap().clone();
    for i in 0..n {
        // one case in five: the joined table declares DEFAULT values
        let dflt = i % 5 == 3;
        let variant = if dflt { 1 } else if i % 10 == 6 { 2 } else if i % 10 == 4 { 3 } else { 0 };
        let defs = match variant { 1 => defs_d.clone(), 2 => defs_nn.clone(), 3 => defs_arr.clone(), _ => defs_plain.clone() };
        let u = match variant { 1 => u_dflt.clone(), 2 => u_nn.clone(), 3 => u_arr.clone(), _ => u_plain.clone() };
        if dflt { run.count("joined-table-with-defaults"); }
        if variant == 2 { run.count("joined-table-with-not-null"); }
        if variant == 3 { run.count("joined-table-with-array"); }
        let js = gen_join_spec(&mut rng);
        let st = gen_stmt(&mut rng);
        // inputs: few keys so that duplicates, fan-out and absent keys are all frequent
        let nm = match rng.below(6) { 0 => rng.below(2), 1 => rng.below(5), _ => 2 + rng.below(12) };
        let nj = match rng.below(6) { 0 => rng.below(2), 1 => rng.below(5), _ => 2 + rng.below(12) };
        let null_main = *rng.pick(&[5u64, 15, 30, 60]);
        let null_joined = *rng.pick(&[5u64, 15, 30, 60]);
        let main: Vec<String> = (0..nm).map(|_| gen_t_line(&mut rng, null_main)).collect();
        let mut joined: Vec<String> = (0..nj).map(|_| gen_u_line(&mut rng, null_joined)).collect();
        // identical lines are separate partners (one in three joined files repeats some of its lines)
        if !joined.is_empty() && rng.chance(1, 3) {
            for _ in 0..1 + rng.below(2) { let l = joined[rng.below(joined.len())].clone(); let at = rng.below(joined.len() + 1); joined.insert(at, l); }
            run.count("joined-file-with-repeated-lines");
        }
        let files = split_files(&mut rng, &main);
        let mut joined_bytes = join_lines(&joined);
        // one joined file in twenty holds a line that is not valid UTF-8 (somewhere before the end): the later lines must not be
        // dropped silently — an error, or every well-formed line still a partner
        let bad_utf8 = broken_possible(i) && joined.len() >= 2 && rng.chance(1, 20);
        if bad_utf8 {
            let at = rng.below(joined.len());
            let mut b = join_lines(&joined[..at]);
            b.extend_from_slice(b"#caf\xe9;1;x;\n");
            b.extend_from_slice(&join_lines(&joined[at..]));
            joined_bytes = b;
            run.count("joined-file-with-invalid-utf8-line");
        }
        std::fs::write(&jpath, &joined_bytes).unwrap();
        // one case in eight breaks the join: unknown column on either side, or a joined file that does not exist
        let broken = if i % 8 == 7 { 1 + rng.below(3) } else { 0 };
        let mut jsq = JoinSpec { tcol: js.tcol.clone(), ucol: js.ucol.clone(), class: js.class, outer: js.outer, swapped: js.swapped };
        let mut path = jp.clone();
        match broken { 1 => jsq.tcol = "nope".to_owned(), 2 => jsq.ucol = "nope".to_owned(), 3 => path = missing_path.clone(), _ => {} }
        let query = format!("{} FROM t {}{}", st.head, jsq.clause(&path, js.swapped), st.tail);
        let prepared = match prepare(&defs, &query) {
            Ok(p) => p,
            Err(e) => { run.count(&format!("rejected:{}", e.split(':').next().unwrap_or(""))); continue; }
        };
        let result = run_files(&prepared, &files);
        let desc = format!("query={} main={:?} files={} joined={:?}", query.replace(&jp, "J").replace(&missing_path, "MISSING"), main, files.len(), joined);
        let kind_s = match st.kind { Kind::Cols => "cols", Kind::Star => "star", Kind::Where => "where", Kind::Agg => "agg", Kind::Distinct => "distinct", Kind::Limit => "limit" };
        run.count(&format!("status:{}", result.status));
        run.count(&format!("kind:{}", kind_s));
        run.count(&format!("on:{}", js.class));
        let status_class = if result.status == "ok" { if result.records().is_empty() { "ok-empty" } else { "ok-rows" } } else { result.status.as_str() };

        // ----- property oracle on the implementation -----
        run.oracle_checks += 1;
        if result.status == "panic" {
            run.fail(desc.clone(), "panic:join", "the joined run panicked".to_owned());
        }
        if broken != 0 {
            // a missing join column or joined file is reported as an error, never as an (empty) result
            if !result.status.starts_with("err:") {
                run.fail(desc.clone(), if broken == 3 { "missing-joined-file-not-reported" } else { "missing-join-column-not-reported" },
                         format!("the run answered {} with {} records", result.status, result.records().len()));
            }
        } else if bad_utf8 && result.status.starts_with("err:") {
            run.count("joined-file-invalid-utf8:reported");
        } else if matches!(st.kind, Kind::Cols | Kind::Star) {
            if let Some(exp) = nested_loop(&t, &u, &js, st.refs.as_deref(), &main, &joined, false) {
                run.count(&format!("fanout:{}", exp.max_fanout.min(3)));
                if exp.null_keys { run.count("null-keys-present"); }
                if exp.padded > 0 { run.count("outer-padded-rows"); }
                if result.status != "ok" {
                    run.fail(desc.clone(), "join-run-failed", format!("a plain projection over the join answered {}", result.status));
                } else if result.records() == exp.records && nested_loop_eq(&t, &u, &js, st.refs.as_deref(), &main, &joined, false, true).map(|n| n.records != exp.records).unwrap_or(false) {
                    // the keys are an INT and a REAL column and some pair holds the same number: the join looks keys up by the
                    // derived equality, which tells INT 3 from REAL 3.0 (finding D45, here seen through the join)
                    run.fail(desc.clone(), "D45:join-int-real", "an INT key and a REAL key of the same numeric value are not paired (WHERE t.v = u.r holds for them)".to_owned());
                } else if result.records() != exp.records {
                    let got = result.records();
                    let class = if got.len() > exp.records.len() { "join-extra-rows" } else if got.len() < exp.records.len() { "join-missing-rows" } else { "join-rows-differ" };
                    run.fail(desc.clone(), class, format!("printed {:?} but the nested loop over the admitted rows gives {:?}", got, exp.records));
                }
            }
        }
        // the side of `ON` on which the queried table stands is irrelevant
        if broken == 0 && i % 3 == 0 {
            run.oracle_checks += 1;
            let query2 = format!("{} FROM t {}{}", st.head, jsq.clause(&path, !js.swapped), st.tail);
            if let Ok(p2) = prepare(&defs, &query2) {
                let r2 = run_files(&p2, &files);
                if r2 != result {
                    run.fail(desc.clone(), "join-side-matters", format!("{} with the ON sides swapped gives {} instead of {}", query2.replace(&jp, "J"), r2.wire(), result.wire()));
                }
            }
        }

        // ----- correspondence (model) and specification (Lean nested loop), same case -----
        let joined_opt: Option<&[u8]> = if broken == 3 { None } else { Some(&joined_bytes) };
        if let Some(case) = model_case("join", &prepared, joined_opt, &files, "") {
            let tag = format!("{}|{}|{}|sw{}|{}|b{}|f{}|m{}|j{}", kind_s, js.class, if js.outer { "outer" } else { "inner" }, js.swapped as u8, status_class, broken, files.len(), nm.min(3), nj.min(3));
            run.case_with_desc(case, result.wire(), tag, desc);
        }
    }
    // ----- self-join: t joined with itself through a second file; `t.col` must address the joined row -----
    const SELF_KEYS: &[(&str, &str)] = &[("v", "w"), ("w", "v"), ("k", "s"), ("s", "k"), ("v", "v"), ("k", "k"), ("r", "r")];
    const SELF_REFS: &[&str] = &["k", "v", "w", "r", "s", "t.k", "t.v", "t.w", "t.r", "t.s", "t.k", "t.v", "input"];
    for i in 0..p.n(700, 15_000) {
        let (a, b) = *rng.pick(SELF_KEYS);
        let outer = rng.chance(2, 5);
        // `ON t.a = t.b`: the left side is the queried row's column, the right side the joined row's (mirrors transform_join;
        // the property sentence does not say which is which in a self-join)
        let js = JoinSpec { tcol: a.to_owned(), ucol: b.to_owned(), class: "self", outer, swapped: false };
        let clause = format!("{} JOIN t::'{}' ON t.{} = t.{}", if outer { "OUTER" } else { "INNER" }, jp, a, b);
        let refs: Vec<String> = (0..rng.below(4) + 1).map(|_| (*rng.pick(SELF_REFS)).to_owned()).collect();
        let proj = refs.iter().enumerate().map(|(i, r)| format!("{} AS c{}", r, i)).collect::<Vec<_>>().join(", ");
        let (head, tail, kind_s, plain): (String, String, &str, Option<Option<Vec<String>>>) = match i % 6 {
            0 | 1 => (format!("SELECT {}", proj), String::new(), "cols", Some(Some(refs.clone()))),
            2 => ("SELECT *".to_owned(), String::new(), "star", Some(None)),
            3 => (format!("SELECT {}", proj), format!(" WHERE {}", rng.pick(&["t.v > 0", "t.k = k", "t.w IS NOT NULL AND v < 2", "t.s != s", "t.v + v > 1"])), "where", None),
            4 => {
                let g = *rng.pick(&["", "t.k", "k", "t.v"]);
                let items = format!("{}COUNT(t.k), SUM(t.v), MAX(v), COUNT(*)", if g.is_empty() { String::new() } else { format!("{}, ", g) });
                (format!("SELECT {}", items), if g.is_empty() { String::new() } else { format!(" GROUP BY {}", g) }, "agg", None)
            }
            _ => (format!("SELECT DISTINCT {}", proj), String::new(), "distinct", None),
        };
        let nm = 1 + rng.below(10);
        let nj = rng.below(12);
        let main: Vec<String> = (0..nm).map(|_| gen_t_line(&mut rng, 15)).collect();
        let joined: Vec<String> = (0..nj).map(|_| gen_t_line(&mut rng, 15)).collect();
        let files = split_files(&mut rng, &main);
        let joined_bytes = join_lines(&joined);
        std::fs::write(&jpath, &joined_bytes).unwrap();
        let query = format!("{} FROM t {}{}", head, clause, tail);
        let prepared = match prepare(&defs, &query) {
            Ok(p) => p,
            Err(e) => { run.count(&format!("rejected:{}", e.split(':').next().unwrap_or(""))); continue; }
        };
        let result = run_files(&prepared, &files);
        let desc = format!("query={} main={:?} files={} joined={:?}", query.replace(&jp, "J"), main, files.len(), joined);
        run.count("kind:self-join");
        run.oracle_checks += 1;
        if result.status == "panic" { run.fail(desc.clone(), "panic:join", "the self-joined run panicked".to_owned()); }
        if let Some(refs_opt) = &plain {
            if let Some(exp) = nested_loop(&t, &t, &js, refs_opt.as_deref(), &main, &joined, true) {
                if result.status != "ok" {
                    run.fail(desc.clone(), "join-run-failed", format!("a plain projection over the self-join answered {}", result.status));
                } else if result.records() != exp.records {
                    let got = result.records();
                    let class = if got.len() > exp.records.len() { "join-extra-rows" } else if got.len() < exp.records.len() { "join-missing-rows" } else { "self-join-side-not-addressable" };
                    run.fail(desc.clone(), class, format!("printed {:?} but the nested loop (t.col = joined row, col = queried row) gives {:?}", got, exp.records));
                }
            }
        }
        if let Some(case) = model_case("join", &prepared, Some(&joined_bytes), &files, "") {
            let status_class = if result.status == "ok" { if result.records().is_empty() { "ok-empty" } else { "ok-rows" } } else { result.status.as_str() };
            let tag = format!("self|{}|{}{}|{}|{}|f{}", kind_s, a, b, if outer { "outer" } else { "inner" }, status_class, files.len());
            run.case_with_desc(case, result.wire(), tag, desc);
        }
    }
    // ----- which side of ON is the joiner: `transform_join` through the real parser (`onres`) -----
    let names = ["t", "u", "x"];
    let colnames = ["k", "v", "a"];
    for _ in 0..p.n(300, 3000) {
        let from = *rng.pick(&names);
        let joiner = *rng.pick(&names);
        let (lt, rt) = if rng.chance(2, 3) { if rng.chance(1, 2) { (from, joiner) } else { (joiner, from) } } else { (*rng.pick(&names), *rng.pick(&names)) };
        let (lc, rc) = (*rng.pick(&colnames), *rng.pick(&colnames));
        let sql = format!("SELECT * FROM {} {} JOIN {}::'f' ON {}.{} = {}.{}", from, if rng.chance(1, 2) { "INNER" } else { "OUTER" }, joiner, lt, lc, rt, rc);
        let answer = match sqlgrep::parsing::parse(&sql) {
            Ok(stmt) => match stmt.join_clause() {
                Some(j) => format!("ok joiner={} joined={} table={}", j.joiner_column, j.joined_column, j.joined_table),
                None => "nojoin".to_owned(),
            },
            Err(sqlgrep::parsing::CommonParserError::ConvertParserTreeError(e)) => match e.error {
                sqlgrep::parsing::verif_hooks::ConvertParserTreeErrorType::InvalidOnJoin => "err:InvalidOnJoin".to_owned(),
                sqlgrep::parsing::verif_hooks::ConvertParserTreeErrorType::InvalidJoinerTable(_) => "err:InvalidJoinerTable".to_owned(),
                _ => "err:other".to_owned(),
            },
            Err(_) => "err:parse".to_owned(),
        };
        // the relation on the implementation: the written order of the two sides does not matter
        run.oracle_checks += 1;
        if joiner != from {
            let sql2 = format!("SELECT * FROM {} INNER JOIN {}::'f' ON {}.{} = {}.{}", from, joiner, rt, rc, lt, lc);
            let a2 = match sqlgrep::parsing::parse(&sql2) {
                Ok(stmt) => stmt.join_clause().map(|j| format!("ok joiner={} joined={} table={}", j.joiner_column, j.joined_column, j.joined_table)).unwrap_or_default(),
                Err(_) => "err".to_owned(),
            };
            if answer.starts_with("ok") != a2.starts_with("ok") || (answer.starts_with("ok") && answer != a2) {
                run.fail(sql.clone(), "join-side-matters", format!("{} gives {} but with the sides swapped {}", sql, answer, a2));
            }
        }
        let hx = crate::util::hexs;
        let tag = format!("onres|{}|self{}|l{}r{}", answer.split(' ').next().unwrap_or(""), (joiner == from) as u8, (lt == from) as u8, (rt == from) as u8);
        run.case_with_desc(format!("onres {} {} {} {} {} {}", hx(from), hx(joiner), hx(lt), hx(lc), hx(rt), hx(rc)), answer, tag, sql);
    }
    let _ = std::fs::remove_file(jpath);
    run.notes.push("tables t(k TEXT, v INT, w INT, r REAL, s TEXT) and u(k TEXT, v INT, y TEXT, r REAL): k, v, r clash; join keys TEXT/INT/REAL/mismatched types, 5-60% NULL fields, 0-13 lines per side over 5 key values, 1-3 input files; ON in both orders; INNER/OUTER; plain projections (aliased), *, WHERE, aggregates, DISTINCT, LIMIT; one case in eight with an unknown join column or a missing joined file".to_owned());
    run.notes.push("self-join block: t joined with itself through a second file on two different (or the same) columns, INNER/OUTER; projections of t.col (joined row) and col (queried row), *, WHERE / aggregates / DISTINCT on qualified names; nested-loop oracle for projections and *, Lean spec + model for all".to_owned());
    run.notes.push("oracle: independent nested loop (Rust) for plain projections and *; the Lean nested-loop specification answers every case without LIMIT (three-way comparison); ON-side swap compared on every third case".to_owned());
    // the end-to-end stream: the same property seen from raw texts and raw file bytes (`e2e.rs`, Lean `Pipeline.runText`)
    crate::e2e::stream(&mut run, &mut Rng::new(p.seed ^ 0xe2e05), p.n(250, 3000), "join");
    run
}
