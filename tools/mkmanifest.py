#!/usr/bin/env python3
"""Assemble MANIFEST.json from manifest/_base.json and manifest/Cxx.json fragments (one per claimed property)."""
import glob, json, os
root = os.path.dirname(os.path.dirname(os.path.abspath(__file__)))
base = json.load(open(os.path.join(root, "manifest", "_base.json")))
checks = []
for path in sorted(glob.glob(os.path.join(root, "manifest", "C*.json"))):
    checks.append(json.load(open(path)))
claimed = [c["property_id"] for c in checks]
na_path = os.path.join(root, "manifest", "_not_applicable.json")
na_reasons = json.load(open(na_path)) if os.path.exists(na_path) else {}
na = []
for i in range(1, 21):
    pid = f"C{i:02d}"
    if pid not in claimed:
        na.append({"property_id": pid, "reason": na_reasons.get(pid, "check under construction; claimed once its theorems and correspondence run exist")})
base["checks"] = checks
base["not_applicable"] = na
for e in base.get("engines", []):
    e["serves_properties"] = claimed
json.dump(base, open(os.path.join(root, "MANIFEST.json"), "w"), indent=1)
print("claimed:", claimed)
