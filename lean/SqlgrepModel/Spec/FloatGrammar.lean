import SqlgrepModel.Spec.JsonGrammar
/-
The grammar of Rust's `f64::from_str` (`core::num::dec2flt`), as inductive predicates over lists of characters,
each rule carrying what the text denotes.  Written from the documentation of `impl FromStr for f64`:

```
Float  ::= Sign? ( 'inf' | 'infinity' | 'nan' | Number )
Number ::= ( Digit+ | Digit+ '.' Digit* | Digit* '.' Digit+ ) Exp?
Exp    ::= 'e' Sign? Digit+
Sign   ::= [+-]
Digit  ::= [0-9]
```
"All strings that adhere to this grammar result in an `Ok`", every other string — the empty string, a lone sign,
a lone `.`, surrounding whitespace, `_`, `0x…`, `infinit` — in an `Err`; `e`, `inf`, `infinity`, `nan` are
recognised in any letter case (`parse::parse_inf_nan` clears bit 0x20 of each byte and compares with `INF`,
`INFINITY`, `NAN`; `parse_partial_number` tests `c == b'e' || c == b'E'`).

This file imports nothing of the model (only `DIGIT` and `digitsVal` of `Spec/JsonGrammar.lean`).  The denotation of
a `Number` is the decimal `mant · 10^exp` (all digits before and after the point as one integer, the exponent less
the number of digits after the point); which REAL the decimal becomes (the nearest one, `DecFloat.decToF64`) is said in
`Lemmas/FloatGrammar.lean`, where `DecFloat.parseF64N` — the function the model executes for every number text —
is proved sound and complete for this grammar.

THE EXPONENT (observation N3 of DESIGN.md). The documentation says nothing about the size of the exponent; the
implementation (`dec2flt::parse::parse_scientific`, and `decimal_seq::parse_decimal_seq` on the slow path) accumulates
the exponent digits with `if exponent < 0x10000 { exponent = 10 * exponent + digit }`: once the accumulated magnitude
has reached 65 536 the remaining exponent digits are read and ignored (`1e655360` has the exponent 65 536). The grammar
is therefore stated over a parameter `val`, the reading of the exponent digits:
* `FloatD  = FloatDV digitsVal`  — the documented grammar with the mathematical value of the exponent digits;
* `FloatR  = FloatDV rustExpVal` — what Rust computes (`rustExpVal` = the capped accumulation).
Both derive the same texts (`Lemmas/FloatGrammar.lean` `floatR_iff_floatD_text`); they give a text the same denotation
when the exponent digits' value is below 65 536 (`ExpSmall`, decidable on the text; `floatR_iff_floatD`). The model's
function is proved sound and complete for `FloatR` unconditionally and for `FloatD` under `ExpSmall`. The difference is
observable only when the mantissa has ≈ 65 000 digits or more: `0.` + 65 299 zeros + `1e655360` is 1e590060 (REAL: inf),
Rust answers 1e236.
-/
namespace Sqlgrep.FloatGrammar
open Sqlgrep.JsonGrammar (Digit Digits Digits1 digitsVal)

/-- `Sign?` and whether it is a minus -/
inductive SignD : List Char → Bool → Prop
  | none : SignD [] false
  | plus : SignD ['+'] false
  | minus : SignD ['-'] true

/-- the exponent digits as Rust accumulates them (`if exponent < 0x10000 { exponent = 10 * exponent + digit }`, most
significant digit first): their value when it is below 65 536, else the first prefix value at or above 65 536 -/
def rustExpVal (ds : List Char) : Nat := ds.foldl (fun n c => if n < 65536 then 10 * n + (c.toNat - 0x30) else n) 0

/-- `Exp?` = `( 'e' Sign? Digit+ )?` with the exponent it denotes (absent: 0); `e` in either case; `val` reads the
exponent digits -/
inductive ExpDV (val : List Char → Nat) : List Char → Int → Prop
  | none : ExpDV val [] 0
  | some {e : Char} {sg ds : List Char} {neg : Bool} : (e = 'e' ∨ e = 'E') → SignD sg neg → Digits1 ds →
      ExpDV val (e :: sg ++ ds) (if neg then -(val ds : Int) else (val ds : Int))

/-- `Number ::= ( Digit+ | Digit+ '.' Digit* | Digit* '.' Digit+ ) Exp?` denoting `mant · 10^exp` -/
inductive NumberDV (val : List Char → Nat) : List Char → Nat → Int → Prop
  /-- `Digit+ Exp?` -/
  | int {ip e : List Char} {ev : Int} : Digits1 ip → ExpDV val e ev → NumberDV val (ip ++ e) (digitsVal ip) ev
  /-- `Digit+ '.' Digit* Exp?` and `Digit* '.' Digit+ Exp?`: a digit on at least one side of the point -/
  | point {ip fp e : List Char} {ev : Int} : Digits ip → Digits fp → (ip ≠ [] ∨ fp ≠ []) → ExpDV val e ev →
      NumberDV val (ip ++ '.' :: fp ++ e) (digitsVal (ip ++ fp)) (ev - fp.length)

/-- the documented grammar: the exponent digits by their mathematical value -/
abbrev ExpD := ExpDV digitsVal
abbrev NumberD := NumberDV digitsVal
/-- Rust's reading: the exponent digits accumulated with the cap -/
abbrev ExpR := ExpDV rustExpVal
abbrev NumberR := NumberDV rustExpVal

/-- one ASCII letter in either case: `c` is the lower-case letter `l` or the upper-case letter 32 code points below -/
def LetterCI (l c : Char) : Prop := c.toNat = l.toNat ∨ c.toNat + 32 = l.toNat

/-- a lower-case word `w` spelled in any mixture of letter cases -/
inductive WordCI : List Char → List Char → Prop
  | nil : WordCI [] []
  | cons {l c : Char} {w s : List Char} : LetterCI l c → WordCI w s → WordCI (l :: w) (c :: s)

/-- what a text denotes -/
inductive FVal where
  /-- the decimal number `(-1)^neg · mant · 10^exp` -/
  | dec (neg : Bool) (mant : Nat) (exp : Int)
  | inf (neg : Bool)
  | nan (neg : Bool)
  deriving DecidableEq, Repr

/-- `Float ::= Sign? ( 'inf' | 'infinity' | 'nan' | Number )` -/
inductive FloatDV (val : List Char → Nat) : List Char → FVal → Prop
  | number {sg body : List Char} {neg : Bool} {m : Nat} {e : Int} : SignD sg neg → NumberDV val body m e →
      FloatDV val (sg ++ body) (.dec neg m e)
  | inf {sg w : List Char} {neg : Bool} : SignD sg neg → WordCI ['i', 'n', 'f'] w → FloatDV val (sg ++ w) (.inf neg)
  | infinity {sg w : List Char} {neg : Bool} : SignD sg neg → WordCI ['i', 'n', 'f', 'i', 'n', 'i', 't', 'y'] w →
      FloatDV val (sg ++ w) (.inf neg)
  | nan {sg w : List Char} {neg : Bool} : SignD sg neg → WordCI ['n', 'a', 'n'] w → FloatDV val (sg ++ w) (.nan neg)

/-- the documented grammar of `f64::from_str`: every digit string by its mathematical value -/
abbrev FloatD := FloatDV digitsVal
/-- what Rust's `f64::from_str` computes: the exponent digits accumulated with the cap at `0x10000` -/
abbrev FloatR := FloatDV rustExpVal

/-- a text without its leading sign character, if it has one -/
def dropSign : List Char → List Char
  | '+' :: r => r
  | '-' :: r => r
  | r => r

/-- the characters after the first `e` / `E` of a text and an optional sign: in a `Number` of the grammar, its exponent
digits (`Lemmas/FloatGrammar.lean` `expDigits_number`); in `inf` / `infinity` / `nan` (no `e`) nothing -/
def expDigits : List Char → List Char
  | [] => []
  | c :: t => if c = 'e' ∨ c = 'E' then dropSign t else expDigits t

/-- **the exponent digits' value is below 65 536** — the texts on which Rust's reading of the exponent is the
mathematical one (every text without an exponent; `1e308`, `1e-400`, `1e65535`; not `1e65536`). Decidable on the text. -/
def ExpSmall (s : List Char) : Prop := digitsVal (expDigits s) < 65536

instance (s : List Char) : Decidable (ExpSmall s) := inferInstanceAs (Decidable (_ < _))

end Sqlgrep.FloatGrammar
