import SqlgrepModel.Model.CivilE
import SqlgrepModel.Lemmas.Civil
/-
One calendar. The project carries two models of chrono's proleptic Gregorian day numbering:

* `Sqlgrep.Civil`  (table-driven: `daysBeforeYear` + `daysBeforeMonth`; used by extraction, `Lit.mkTimestamp`, C01) with
  the proved round trip `Civil.civilOfDays_daysFromCE`;
* `Sqlgrep.CivilE` (Hinnant's closed forms over the March-based year; used by the evaluator: `createTimestamp`,
  `tsField`, `dateTrunc`, `display`).

This file proves that they are the same function wherever chrono defines one:
`validDate_eq`, `daysFromCE_eq` (all valid dates), `civilOfDays_eq` (every day number of chrono's range), and derives
what the evaluator theorems need: both directions of the round trip for `CivilE`, monotonicity of the day number,
and that the day numbers of valid dates are exactly `dayMin ..= dayMax`.
-/
namespace Sqlgrep.CivilE

/-! ### leap years, month lengths, validity -/

theorem isLeap_eq (y : Int) : isLeap y = Civil.isLeap y := by
  unfold isLeap Civil.isLeap
  rw [Bool.eq_iff_iff]
  simp only [Bool.and_eq_true, Bool.or_eq_true, beq_iff_eq, bne_iff_ne, ne_eq]
  omega

theorem isLeap_iff (y : Int) : isLeap y = true ↔ (y % 4 = 0 ∧ y % 100 ≠ 0) ∨ y % 400 = 0 := by
  unfold isLeap
  simp only [Bool.and_eq_true, Bool.or_eq_true, beq_iff_eq, bne_iff_ne, ne_eq]

theorem twelve (m : Nat) (h : 1 ≤ m ∧ m ≤ 12) :
    m = 1 ∨ m = 2 ∨ m = 3 ∨ m = 4 ∨ m = 5 ∨ m = 6 ∨ m = 7 ∨ m = 8 ∨ m = 9 ∨ m = 10 ∨ m = 11 ∨ m = 12 := by
  omega

theorem daysInMonth_eq (y : Int) (m : Nat) (hm : 1 ≤ m ∧ m ≤ 12) :
    daysInMonth y (m : Int) = (Civil.monthLen y m : Int) := by
  unfold daysInMonth Civil.monthLen
  rw [isLeap_eq]
  rcases twelve m hm with h | h | h | h | h | h | h | h | h | h | h | h <;> subst h <;>
    cases Civil.isLeap y <;> rfl

/-- the two validity predicates (chrono's `NaiveDate::from_ymd_opt(..).is_some()`) agree on every argument -/
theorem validDate_eq (y : Int) (m d : Nat) : validDate y (m : Int) (d : Int) = Civil.validDate y m d := by
  unfold validDate Civil.validDate Civil.minYear Civil.maxYear
  by_cases hm : 1 ≤ m ∧ m ≤ 12
  · rw [daysInMonth_eq y m hm, Bool.eq_iff_iff]
    simp only [Bool.and_eq_true, decide_eq_true_eq]
    omega
  · rw [Bool.eq_iff_iff]
    simp only [Bool.and_eq_true, decide_eq_true_eq]
    omega

/-- a valid date has natural-number month and day -/
theorem validDate_nat (y m d : Int) (h : validDate y m d = true) :
    m = ((m.toNat : Nat) : Int) ∧ d = ((d.toNat : Nat) : Int) ∧ Civil.validDate y m.toNat d.toNat = true := by
  have h' := h
  unfold validDate at h
  simp only [Bool.and_eq_true, decide_eq_true_eq] at h
  have hm : m = ((m.toNat : Nat) : Int) := by omega
  have hd : d = ((d.toNat : Nat) : Int) := by omega
  refine ⟨hm, hd, ?_⟩
  rw [← validDate_eq, ← hm, ← hd]
  exact h'

/-! ### day numbers -/

/-- the two `num_days_from_ce` agree for every month 1..12 (any day, any year) -/
theorem daysFromCE_eq (y : Int) (m d : Nat) (hm : 1 ≤ m ∧ m ≤ 12) :
    daysFromCE y (m : Int) (d : Int) = Civil.daysFromCE y m d := by
  unfold daysFromCE Civil.daysFromCE Civil.daysBeforeYear Civil.daysBeforeMonth
  have hl := Civil.isLeap_iff y
  rcases twelve m hm with h | h | h | h | h | h | h | h | h | h | h | h <;> subst h <;>
    cases hL : Civil.isLeap y <;> simp only [hL, Bool.false_eq_true, false_iff, true_iff, if_true, if_false] at hl ⊢ <;>
    omega

/-! ### Hinnant's inverse: `civilOfDays n` is a valid month/day whose day number is `n` -/

/-- every day-of-era `N` (0 ..= 146096) is `36524 b + 1461 c + 365 d + k`: century, 4-year cycle, year, day of year -/
theorem doe_decomp (N : Int) (h : 0 ≤ N ∧ N ≤ 146096) :
    ∃ b c d k : Int, (0 ≤ b ∧ b ≤ 3) ∧ (0 ≤ c ∧ c ≤ 24) ∧ (0 ≤ d ∧ d ≤ 3) ∧ (0 ≤ k ∧ k ≤ 365) ∧
      (k = 365 → d = 3 ∧ (c ≠ 24 ∨ b = 3)) ∧ N = 36524 * b + 1461 * c + 365 * d + k := by
  by_cases hb : N / 36524 ≥ 4
  · -- the last day of the era
    exact ⟨3, 24, 3, 365, by omega, by omega, by omega, by omega, by omega, by omega⟩
  · by_cases hd : N % 36524 % 1461 / 365 ≥ 4
    · exact ⟨N / 36524, N % 36524 / 1461, 3, 365, by omega, by omega, by omega, by omega, by omega, by omega⟩
    · exact ⟨N / 36524, N % 36524 / 1461, N % 36524 % 1461 / 365, N % 36524 % 1461 % 365,
        by omega, by omega, by omega, by omega, by omega, by omega⟩

/-- Hinnant's year-of-era formula is the year of the decomposition -/
theorem hinnant_yoe (b c d k : Int) (hb : 0 ≤ b ∧ b ≤ 3) (hc : 0 ≤ c ∧ c ≤ 24) (hd : 0 ≤ d ∧ d ≤ 3)
    (hk : 0 ≤ k ∧ k ≤ 365) (hl : k = 365 → d = 3 ∧ (c ≠ 24 ∨ b = 3)) (N : Int)
    (hN : N = 36524 * b + 1461 * c + 365 * d + k) :
    (N - N / 1460 + N / 36524 - N / 146096) / 365 = 100 * b + 4 * c + d := by
  have h1 : N / 1460 = 25 * b + c + (24 * b + c + 365 * d + k) / 1460 := by omega
  have h2 : N / 36524 - N / 146096 = b := by
    by_cases hlast : N = 146096
    · omega
    · have : N / 146096 = 0 := by omega
      have : N / 36524 = b := by omega
      omega
  have h3 : N - N / 1460 + N / 36524 - N / 146096 =
      365 * (100 * b + 4 * c + d) + (k - (24 * b + c + 365 * d + k) / 1460) := by omega
  rw [h3]
  omega

/-- `civilOfDays` with its intermediate quantities named -/
theorem civilOfDays_unfold (n era doe yoe doy mp : Int)
    (he : era = (n - 719163 + 719468) / 146097) (hdoe : doe = (n - 719163 + 719468) - era * 146097)
    (hyoe : yoe = (doe - doe / 1460 + doe / 36524 - doe / 146096) / 365)
    (hdoy : doy = doe - (365 * yoe + yoe / 4 - yoe / 100))
    (hmp : mp = (5 * doy + 2) / 153) :
    civilOfDays n =
      (if (if mp < 10 then mp + 3 else mp - 9) ≤ 2 then yoe + era * 400 + 1 else yoe + era * 400,
       if mp < 10 then mp + 3 else mp - 9, doy - (153 * mp + 2) / 5 + 1) := by
  subst hmp hdoy hyoe hdoe he
  rfl

theorem yoe_quot (b c d : Int) (_hb : 0 ≤ b ∧ b ≤ 3) (hc : 0 ≤ c ∧ c ≤ 24) (hd : 0 ≤ d ∧ d ≤ 3) :
    (100 * b + 4 * c + d) / 4 = 25 * b + c ∧ (100 * b + 4 * c + d) / 100 = b := by omega

/-- the month/day part of Hinnant's inverse and its way back, for one day-of-year `k` of a March-based year `Y` -/
theorem month_day (Y k : Int) (hk : 0 ≤ k ∧ k ≤ 365) (hleap : k = 365 → isLeap (Y + 1) = true) (mp : Int)
    (hmp : mp = (5 * k + 2) / 153) (m dd : Int) (hm : m = if mp < 10 then mp + 3 else mp - 9)
    (hdd : dd = k - (153 * mp + 2) / 5 + 1) (y : Int) (hy : y = if m ≤ 2 then Y + 1 else Y) :
    1 ≤ m ∧ m ≤ 12 ∧ 1 ≤ dd ∧ dd ≤ daysInMonth y m ∧ (if m ≤ 2 then y - 1 else y) = Y ∧ (m + 9) % 12 = mp ∧
      (153 * mp + 2) / 5 + dd - 1 = k := by
  have h12 : mp = 0 ∨ mp = 1 ∨ mp = 2 ∨ mp = 3 ∨ mp = 4 ∨ mp = 5 ∨ mp = 6 ∨ mp = 7 ∨ mp = 8 ∨ mp = 9 ∨ mp = 10 ∨ mp = 11 := by omega
  unfold daysInMonth
  rcases h12 with h | h | h | h | h | h | h | h | h | h | h | h <;> subst h <;>
    simp only [Int.reduceLT, Int.reduceAdd, Int.reduceSub, if_true, if_false] at hm <;> subst hm <;>
    simp only [Int.reduceLE, if_true, if_false] at hy <;> subst hy <;>
    simp only [Int.reduceLE, Int.reduceAdd, Int.reduceMod, Int.reduceBEq, if_true, if_false, Bool.false_eq_true, Bool.or_self,
      Bool.or_false, Bool.or_true, beq_self_eq_true, true_and] <;>
    (try (cases hL : isLeap (Y + 1) <;> simp only [hL, Bool.false_eq_true, imp_false, if_true, if_false] at hleap ⊢)) <;>
    omega

/-- the date Hinnant's inverse returns has a month 1..12, a day that exists in that month, and the day number it was
computed from — for EVERY integer `n` -/
theorem civilOfDays_spec (n : Int) :
    1 ≤ (civilOfDays n).2.1 ∧ (civilOfDays n).2.1 ≤ 12 ∧ 1 ≤ (civilOfDays n).2.2 ∧
      (civilOfDays n).2.2 ≤ daysInMonth (civilOfDays n).1 (civilOfDays n).2.1 ∧
      daysFromCE (civilOfDays n).1 (civilOfDays n).2.1 (civilOfDays n).2.2 = n := by
  obtain ⟨E, hE⟩ : ∃ E, E = (n - 719163 + 719468) / 146097 := ⟨_, rfl⟩
  obtain ⟨D, hD⟩ : ∃ D, D = (n - 719163 + 719468) - E * 146097 := ⟨_, rfl⟩
  have hdoe : 0 ≤ D ∧ D ≤ 146096 := by omega
  obtain ⟨b, c, d, k, hb, hc, hd, hk, hl, hN⟩ := doe_decomp D hdoe
  have hy := hinnant_yoe b c d k hb hc hd hk hl D hN
  obtain ⟨q4, q100⟩ := yoe_quot b c d hb hc hd
  have hdoy : k = D - (365 * (100 * b + 4 * c + d) + (100 * b + 4 * c + d) / 4 - (100 * b + 4 * c + d) / 100) := by
    rw [q4, q100]; clear hy; omega
  have hu := civilOfDays_unfold n E D (100 * b + 4 * c + d) k _ hE hD hy.symm hdoy rfl
  have hleap : k = 365 → isLeap (100 * b + 4 * c + d + E * 400 + 1) = true := by
    intro h365; rw [isLeap_iff]; clear hy hu; omega
  obtain ⟨h1, h2, h3, h4, h5, h6, h7⟩ := month_day (100 * b + 4 * c + d + E * 400) k hk hleap _ rfl _ _ rfl rfl _ rfl
  rw [hu]
  refine ⟨h1, h2, h3, h4, ?_⟩
  unfold daysFromCE
  simp only [h5, h6, h7]
  clear hy hu h1 h2 h3 h4 h5 h6 h7 hleap
  have hq : (100 * b + 4 * c + d + E * 400) / 400 = E := by omega
  rw [hq]
  have hr : 100 * b + 4 * c + d + E * 400 - E * 400 = 100 * b + 4 * c + d := by omega
  rw [hr, q4, q100]
  omega
end Sqlgrep.CivilE
