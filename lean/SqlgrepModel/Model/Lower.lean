import SqlgrepModel.Model.ParseStmt
import SqlgrepModel.Model.Engine
import SqlgrepModel.Model.Extract
import SqlgrepModel.Sexp
import SqlgrepModel.Codec
/-
The lowering of parse trees to statements: `src/parsing/parser_tree_converter.rs` (`transform_statement`,
`create_select_statement`, `create_aggregate_statement`, `transform_join`, `create_create_table_statement`,
`transform_expression`, `transform_aggregate`, `extract_aggregate`, `transform_call_aggregate`,
`count_aggregates_in_expression`), mirroring /repo HEAD.

Target: the statements of `Model/Engine.lean` (`SelectStmt`, `AggStmt` with the HAVING aggregates listed in visit
order, exactly what `queries::stmt_sexp` ships to the engine model) plus what the engine model does not need (`FROM`
name / file, join clause), and `Extract.TableDef` for CREATE TABLE.

Panics are values: every `remove(0)` / `unwrap` site of the Rust code is an explicit `LRes.panic`, so that "the
lowering never panics" is a theorem (`Lemmas/Lower.lean`), not an accident of totality.

External fact: whether a pattern text is a valid regular expression (`Regex::new`) — the oracle `regexValid`.
Function / aggregate / type names are looked up after lower-casing (`lowerChars`, see `Model/ParseExpr.lean`).
-/
namespace Sqlgrep

/-- `ConvertParserTreeErrorType` -/
inductive CErrKind where
  | undefinedOperator (o : Operator) | expectedArgument | tooManyArguments | expectedColumnAccess | unexpectedTuple
  | undefinedAggregate | tooManyAggregates | undefinedStatement | undefinedExpression
  | undefinedFunction (name : List Char) | invalidPattern | havingClauseNotPossible | invalidOnJoin
  | invalidJoinerTable (table : List Char) | expectedFloat | expectedString
  deriving DecidableEq, Repr, Inhabited

structure CErr where
  loc : Loc
  kind : CErrKind
  deriving DecidableEq, Repr, Inhabited

/-- result of a lowering step: a value, a reported `ConvertParserTreeError`, or a Rust panic -/
inductive LRes (α : Type) where
  | ok (a : α)
  | err (e : CErr)
  | panic (site : String)
  deriving Repr, Inhabited

namespace LRes
@[inline] def bind {α β : Type} (x : LRes α) (f : α → LRes β) : LRes β :=
  match x with
  | ok a => f a
  | err e => err e
  | panic s => panic s
instance : Monad LRes where
  pure := LRes.ok
  bind := LRes.bind
def isPanic {α : Type} : LRes α → Bool
  | panic _ => true
  | _ => false
end LRes

/-- `JoinClause` -/
structure LJoin where
  joinedTable : String
  joinedFilename : String
  joinedColumn : String
  joinerColumn : String
  isOuter : Bool
  deriving DecidableEq, Repr, Inhabited

/-- `Statement` -/
inductive LStmt where
  | select (s : SelectStmt) (fromTable : String) (fromFile : Option String) (join : Option LJoin)
  | aggregate (a : AggStmt) (fromTable : String) (fromFile : Option String) (join : Option LJoin)
  | createTable (name : String) (d : Extract.TableDef) (columnNames : List String)
  | multiple (ss : List LStmt)
  deriving Repr, Inhabited

namespace Lower

def str (cs : List Char) : String := String.ofList cs

/-- `tree.location` -/
def PExpr.loc : PExpr → Loc
  | .value l _ | .column l _ | .wildcard l | .tuple l _ | .binop l _ _ _ | .boolop l _ _ _ | .unop l _ _
  | .invert l _ | .nullcmp l _ _ _ | .inList l _ _ _ | .call l _ _ _ | .index l _ _ | .cast l _ _ | .case l _ _ => l

/-! ### canonical structural text of an expression (`exprs::expr_sexp`: the identity of GROUP BY parts) -/

def hexName (s : String) : String := Sexp.showBytes (strBytes s)

def cmpName : CmpOp → String
  | .eq => "eq" | .ne => "ne" | .gt => "gt" | .ge => "ge" | .lt => "lt" | .le => "le"
def arithName : ArithOp → String
  | .add => "add" | .sub => "sub" | .mul => "mul" | .div => "div"
def scopeName : Scope → String
  | .table => "table" | .aggValue => "agg" | .groupKey => "gkey" | .groupValue => "gval"
def funcName : Func → String
  | .greatest => "greatest" | .least => "least" | .abs => "abs" | .sqrt => "sqrt" | .pow => "pow" | .length => "length"
  | .upper => "upper" | .lower => "lower" | .regexMatches => "regex_matches" | .createArray => "create_array"
  | .arrayUnique => "array_unique" | .arrayLength => "array_length" | .arrayCat => "array_cat"
  | .arrayAppend => "array_append" | .arrayPrepend => "array_prepend" | .now => "now"
  | .makeTimestamp => "make_timestamp" | .epoch => "epoch" | .year => "year" | .month => "month" | .day => "day"
  | .hour => "hour" | .minute => "minute" | .second => "second" | .dateTrunc => "date_trunc"

mutual
def canon : Expr → String
  | .value v => "(val " ++ v.toWire ++ ")"
  | .column n => "(col " ++ hexName n ++ ")"
  | .scoped s n => "(scoped " ++ scopeName s ++ " " ++ hexName n ++ ")"
  | .wildcard => "(wild)"
  | .compare op l r => "(cmp " ++ cmpName op ++ " " ++ canon l ++ " " ++ canon r ++ ")"
  | .nullCmp isNot l r => "(nullcmp " ++ (if isNot then "1" else "0") ++ " " ++ canon l ++ " " ++ canon r ++ ")"
  | .arith op l r => "(arith " ++ arithName op ++ " " ++ canon l ++ " " ++ canon r ++ ")"
  | .boolOp isAnd l r => "(bool " ++ (if isAnd then "and" else "or") ++ " " ++ canon l ++ " " ++ canon r ++ ")"
  | .neg e => "(neg " ++ canon e ++ ")"
  | .not e => "(not " ++ canon e ++ ")"
  | .inList isNot e vs => "(in " ++ (if isNot then "1" else "0") ++ " " ++ canon e ++ canonList vs ++ ")"
  | .call f args => "(call " ++ funcName f ++ canonList args ++ ")"
  | .index a i => "(idx " ++ canon a ++ " " ++ canon i ++ ")"
  | .cast e t => "(cast " ++ canon e ++ " " ++ t.toWire ++ ")"
  | .case cs els => "(case " ++ canon els ++ canonClauses cs ++ ")"
  | .groupKeyRef c => "(gkeyref " ++ hexName c ++ ")"
  | .groupValueRef id => "(gvalref " ++ toString id ++ ")"
def canonList : List Expr → String
  | [] => ""
  | x :: xs => " " ++ canon x ++ canonList xs
def canonClauses : List (Expr × Expr) → String
  | [] => ""
  | (c, r) :: xs => " (" ++ canon c ++ " " ++ canon r ++ ")" ++ canonClauses xs
end

/-! ### name tables (`AGGREGATE_FUNCTIONS`, `FUNCTIONS`) -/

def aggregateNames : List String :=
  ["count", "min", "max", "sum", "avg", "stddev", "variance", "percentile", "bool_and", "bool_or", "array_agg", "string_agg"]

/-- `AGGREGATE_FUNCTIONS.contains(&name.to_lowercase())` -/
def isAggregateName (name : List Char) : Bool := aggregateNames.contains (str (lowerChars name))

def functionTable : List (String × Func) :=
  [("least", .least), ("greatest", .greatest), ("abs", .abs), ("sqrt", .sqrt), ("pow", .pow), ("length", .length),
   ("upper", .upper), ("lower", .lower), ("regexp_matches", .regexMatches), ("regex_matches", .regexMatches),
   ("create_array", .createArray), ("array_unique", .arrayUnique), ("array_length", .arrayLength),
   ("array_cat", .arrayCat), ("array_append", .arrayAppend), ("array_prepend", .arrayPrepend), ("now", .now),
   ("make_timestamp", .makeTimestamp), ("timestamp_extract_epoch", .epoch), ("timestamp_extract_year", .year),
   ("timestamp_extract_month", .month), ("timestamp_extract_day", .day), ("timestamp_extract_hour", .hour),
   ("timestamp_extract_minute", .minute), ("timestamp_extract_second", .second), ("date_trunc", .dateTrunc)]

/-- `FUNCTIONS.get(&name.to_lowercase())` -/
def functionOfName (name : List Char) : Option Func :=
  (functionTable.find? (·.1 == str (lowerChars name))).map (·.2)

/-! ### `transform_expression` without aggregates (`TransformExpressionState::default()`) -/

def lowerBinop (loc : Loc) (o : Operator) (l r : Expr) : LRes Expr :=
  if o = .single '+' then .ok (.arith .add l r)
  else if o = .single '-' then .ok (.arith .sub l r)
  else if o = .single '*' then .ok (.arith .mul l r)
  else if o = .single '/' then .ok (.arith .div l r)
  else if o = .single '<' then .ok (.compare .lt l r)
  else if o = .single '>' then .ok (.compare .gt l r)
  else if o = .single '=' then .ok (.compare .eq l r)
  else if o = .dual '!' '=' then .ok (.compare .ne l r)
  else if o = .dual '>' '=' then .ok (.compare .ge l r)
  else if o = .dual '<' '=' then .ok (.compare .le l r)
  else .err ⟨loc, .undefinedOperator o⟩

def lowerUnop (loc : Loc) (o : Operator) (e : Expr) : LRes Expr :=
  if o = .single '-' then .ok (.neg e) else .err ⟨loc, .undefinedOperator o⟩

def lowerCall (loc : Loc) (name : List Char) (args : List Expr) : LRes Expr :=
  match functionOfName name with
  | some f => .ok (.call f args)
  | none => .err ⟨loc, .undefinedFunction name⟩

mutual
/-- `transform_expression(tree, &mut TransformExpressionState::default())` -/
def lowerPlain : PExpr → LRes Expr
  | .value _ v => .ok (.value v)
  | .column _ n => .ok (.column (str n))
  | .wildcard _ => .ok .wildcard
  | .tuple loc _ => .err ⟨loc, .unexpectedTuple⟩
  | .binop loc o l r =>
    match lowerPlain l with
    | .ok l' =>
      match lowerPlain r with
      | .ok r' => lowerBinop loc o l' r'
      | .err e => .err e
      | .panic s => .panic s
    | .err e => .err e
    | .panic s => .panic s
  | .boolop _ isAnd l r =>
    match lowerPlain l with
    | .ok l' =>
      match lowerPlain r with
      | .ok r' => .ok (.boolOp isAnd l' r')
      | .err e => .err e
      | .panic s => .panic s
    | .err e => .err e
    | .panic s => .panic s
  | .unop loc o e =>
    match lowerPlain e with
    | .ok e' => lowerUnop loc o e'
    | .err e => .err e
    | .panic s => .panic s
  | .invert _ e =>
    match lowerPlain e with
    | .ok e' => .ok (.not e')
    | .err e => .err e
    | .panic s => .panic s
  | .nullcmp _ isNot l r =>
    match lowerPlain l with
    | .ok l' =>
      match lowerPlain r with
      | .ok r' => .ok (.nullCmp isNot l' r')
      | .err e => .err e
      | .panic s => .panic s
    | .err e => .err e
    | .panic s => .panic s
  | .inList _ isNot e vs =>
    match lowerPlain e with
    | .ok e' =>
      match lowerPlainList vs with
      | .ok vs' => .ok (.inList isNot e' vs')
      | .err e => .err e
      | .panic s => .panic s
    | .err e => .err e
    | .panic s => .panic s
  | .call loc name args _ =>
    match lowerPlainList args with
    | .ok args' => lowerCall loc name args'
    | .err e => .err e
    | .panic s => .panic s
  | .index _ a i =>
    match lowerPlain a with
    | .ok a' =>
      match lowerPlain i with
      | .ok i' => .ok (.index a' i')
      | .err e => .err e
      | .panic s => .panic s
    | .err e => .err e
    | .panic s => .panic s
  | .cast _ e t =>
    match lowerPlain e with
    | .ok e' => .ok (.cast e' t)
    | .err e => .err e
    | .panic s => .panic s
  | .case _ cs els =>
    match lowerPlainClauses cs with
    | .ok cs' =>
      match lowerPlain els with
      | .ok els' => .ok (.case cs' els')
      | .err e => .err e
      | .panic s => .panic s
    | .err e => .err e
    | .panic s => .panic s
/-- `consume_result_vec(|x| transform_expression(x, state))` -/
def lowerPlainList : List PExpr → LRes (List Expr)
  | [] => .ok []
  | x :: xs =>
    match lowerPlain x with
    | .ok x' =>
      match lowerPlainList xs with
      | .ok xs' => .ok (x' :: xs')
      | .err e => .err e
      | .panic s => .panic s
    | .err e => .err e
    | .panic s => .panic s
/-- `consume_result_vec(|clause| tuple_result(transform(clause.0), transform(clause.1)))`: both members are
transformed before either result is inspected; as no transformation panics (`Lemmas/Lower.lean`) and the first error
wins, this is the sequential reading -/
def lowerPlainClauses : List (PExpr × PExpr) → LRes (List (Expr × Expr))
  | [] => .ok []
  | (c, r) :: xs =>
    match lowerPlain c with
    | .ok c' =>
      match lowerPlain r with
      | .ok r' =>
        match lowerPlainClauses xs with
        | .ok xs' => .ok ((c', r') :: xs')
        | .err e => .err e
        | .panic s => .panic s
      | .err e => .err e
      | .panic s => .panic s
    | .err e => .err e
    | .panic s => .panic s
end

/-! ### `transform_call_aggregate` -/

def bitsZero : Nat := 0
def bitsOne : Nat := 0x3FF0000000000000

/-- `f64::clamp(0.0, 1.0)` on bits (`NaN` stays) -/
def clamp01 (b : Nat) : Nat :=
  if F64.isNaN b then b
  else if F64.cmp b bitsZero = .lt then bitsZero
  else if F64.cmp b bitsOne = .gt then bitsOne
  else b

/-- the one-argument aggregates -/
def aggOfName1 (lname : String) (e : Expr) : Option AggKind :=
  if lname = "max" then some (.max e)
  else if lname = "min" then some (.min e)
  else if lname = "sum" then some (.sum e)
  else if lname = "avg" then some (.avg e)
  else if lname = "stddev" then some (.stddev e false)
  else if lname = "variance" then some (.stddev e true)
  else if lname = "bool_and" then some (.boolAnd e)
  else if lname = "bool_or" then some (.boolOr e)
  else if lname = "array_agg" then some (.arrayAgg e)
  else none          -- "percentile", "string_agg": `ExpectedArgument`

/-- `transform_call_aggregate(location, name, arguments, distinct, index)`: (default name, aggregate). The arguments
are removed from the front of the vector one by one (`arguments.remove(0)`, a panic site on an empty vector). -/
def lowerCallAggregate (loc : Loc) (name : List Char) (args : List PExpr) (distinct : Option Bool) (index : Nat) :
    LRes (String × AggKind) :=
  let lname := str (lowerChars name)
  if lname = "count" then
    let distinct := distinct.getD false
    let defaultName := "count" ++ toString index
    if args.isEmpty then .ok (defaultName, .count none distinct)
    else if args.length = 1 then
      match args with
      | [] => .panic "arguments.remove(0)"
      | argument :: _ =>
        match lowerPlain argument with
        | .ok .wildcard => .ok (defaultName, .count none distinct)
        | .ok (.column c) => .ok (defaultName, .count (some c) distinct)
        | .ok _ => .err ⟨PExpr.loc argument, .expectedColumnAccess⟩
        | .err e => .err e
        | .panic s => .panic s
    else .err ⟨loc, .tooManyArguments⟩
  else if aggregateNames.contains lname then
    if args.length = 1 then
      match args with
      | [] => .panic "arguments.remove(0)"
      | a0 :: _ =>
        match lowerPlain a0 with
        | .ok e =>
          match aggOfName1 lname e with
          | some k => .ok (lname ++ toString index, k)
          | none => .err ⟨loc, .expectedArgument⟩
        | .err e => .err e
        | .panic s => .panic s
    else if args.length = 2 then
      match args with
      | a0 :: a1 :: _ =>
        match lowerPlain a0 with
        | .ok e =>
          match lowerPlain a1 with
          | .ok argument =>
            if lname = "percentile" then
              match argument with
              | .value (.real p) => .ok (lname ++ toString index, .percentile e (clamp01 p))
              | _ => .err ⟨loc, .expectedFloat⟩
            else if lname = "string_agg" then
              match argument with
              | .value (.text d) => .ok (lname ++ toString index, .stringAgg e d)
              | _ => .err ⟨loc, .expectedString⟩
            else .err ⟨loc, .tooManyArguments⟩
          | .err e => .err e
          | .panic s => .panic s
        | .err e => .err e
        | .panic s => .panic s
      | _ => .panic "arguments.remove(0)"
    else if args.isEmpty then .err ⟨loc, .expectedArgument⟩
    else .err ⟨loc, .tooManyArguments⟩
  else .err ⟨loc, .undefinedAggregate⟩

/-! ### `transform_expression` with `allow_aggregates` (HAVING) -/

/-- `TransformExpressionState` with `allow_aggregates = true`: the next aggregate index and the aggregate nodes created
so far, in creation order (= the order `ExpressionTree::visit` reaches them: both go left to right) -/
structure HState where
  next : Nat := 0
  visit : List HavingRef := []
  deriving Repr, Inhabited

def HState.push (st : HState) (r : Nat → HavingRef) : HState := { next := st.next + 1, visit := st.visit ++ [r st.next] }

mutual
def lowerHaving : PExpr → HState → LRes (Expr × HState)
  | .value _ v, st => .ok (.value v, st)
  | .column _ n, st =>
    let c := canon (.column (str n))
    .ok (.groupKeyRef c, st.push (fun _ => .key c))
  | .wildcard _, st => .ok (.wildcard, st)
  | .tuple loc _, _ => .err ⟨loc, .unexpectedTuple⟩
  | .binop loc o l r, st =>
    match lowerHaving l st with
    | .ok (l', st) =>
      match lowerHaving r st with
      | .ok (r', st) =>
        match lowerBinop loc o l' r' with
        | .ok e => .ok (e, st)
        | .err e => .err e
        | .panic s => .panic s
      | .err e => .err e
      | .panic s => .panic s
    | .err e => .err e
    | .panic s => .panic s
  | .boolop _ isAnd l r, st =>
    match lowerHaving l st with
    | .ok (l', st) =>
      match lowerHaving r st with
      | .ok (r', st) => .ok (.boolOp isAnd l' r', st)
      | .err e => .err e
      | .panic s => .panic s
    | .err e => .err e
    | .panic s => .panic s
  | .unop loc o e, st =>
    match lowerHaving e st with
    | .ok (e', st) =>
      match lowerUnop loc o e' with
      | .ok e => .ok (e, st)
      | .err e => .err e
      | .panic s => .panic s
    | .err e => .err e
    | .panic s => .panic s
  | .invert _ e, st =>
    match lowerHaving e st with
    | .ok (e', st) => .ok (.not e', st)
    | .err e => .err e
    | .panic s => .panic s
  | .nullcmp _ isNot l r, st =>
    match lowerHaving l st with
    | .ok (l', st) =>
      match lowerHaving r st with
      | .ok (r', st) => .ok (.nullCmp isNot l' r', st)
      | .err e => .err e
      | .panic s => .panic s
    | .err e => .err e
    | .panic s => .panic s
  | .inList _ isNot e vs, st =>
    match lowerHaving e st with
    | .ok (e', st) =>
      match lowerHavingList vs st with
      | .ok (vs', st) => .ok (.inList isNot e' vs', st)
      | .err e => .err e
      | .panic s => .panic s
    | .err e => .err e
    | .panic s => .panic s
  | .call loc name args distinct, st =>
    -- first as an aggregate (arguments without aggregates, index 0); `UndefinedAggregate` falls through to functions
    match lowerCallAggregate loc name args distinct 0 with
    | .ok (_, k) => .ok (.groupValueRef st.next, st.push (fun id => .agg id k))
    | .panic s => .panic s
    | .err e =>
      if e.kind ≠ .undefinedAggregate then .err e
      else
        match lowerHavingList args st with
        | .ok (args', st) =>
          match lowerCall loc name args' with
          | .ok e => .ok (e, st)
          | .err e => .err e
          | .panic s => .panic s
        | .err e => .err e
        | .panic s => .panic s
  | .index _ a i, st =>
    match lowerHaving a st with
    | .ok (a', st) =>
      match lowerHaving i st with
      | .ok (i', st) => .ok (.index a' i', st)
      | .err e => .err e
      | .panic s => .panic s
    | .err e => .err e
    | .panic s => .panic s
  | .cast _ e t, st =>
    match lowerHaving e st with
    | .ok (e', st) => .ok (.cast e' t, st)
    | .err e => .err e
    | .panic s => .panic s
  | .case _ cs els, st =>
    match lowerHavingClauses cs st with
    | .ok (cs', st) =>
      match lowerHaving els st with
      | .ok (els', st) => .ok (.case cs' els', st)
      | .err e => .err e
      | .panic s => .panic s
    | .err e => .err e
    | .panic s => .panic s
def lowerHavingList : List PExpr → HState → LRes (List Expr × HState)
  | [], st => .ok ([], st)
  | x :: xs, st =>
    match lowerHaving x st with
    | .ok (x', st) =>
      match lowerHavingList xs st with
      | .ok (xs', st) => .ok (x' :: xs', st)
      | .err e => .err e
      | .panic s => .panic s
    | .err e => .err e
    | .panic s => .panic s
def lowerHavingClauses : List (PExpr × PExpr) → HState → LRes (List (Expr × Expr) × HState)
  | [], st => .ok ([], st)
  | (c, r) :: xs, st =>
    match lowerHaving c st with
    | .ok (c', st) =>
      match lowerHaving r st with
      | .ok (r', st) =>
        match lowerHavingClauses xs st with
        | .ok (xs', st) => .ok ((c', r') :: xs', st)
        | .err e => .err e
        | .panic s => .panic s
      | .err e => .err e
      | .panic s => .panic s
    | .err e => .err e
    | .panic s => .panic s
end

/-! ### `count_aggregates_in_expression`, `extract_aggregate`, `transform_aggregate` -/

mutual
/-- `count_aggregates_in_expression`: the `Call` nodes with an aggregate name, anywhere in the tree -/
def countAggregates : PExpr → Nat
  | .value _ _ | .column _ _ | .wildcard _ => 0
  | .tuple _ vs => countAggregatesList vs
  | .binop _ _ l r | .boolop _ _ l r | .nullcmp _ _ l r | .index _ l r => countAggregates l + countAggregates r
  | .unop _ _ e | .invert _ e | .cast _ e _ => countAggregates e
  | .inList _ _ e vs => countAggregates e + countAggregatesList vs
  | .call _ name args _ => countAggregatesList args + (if isAggregateName name then 1 else 0)
  | .case _ cs els => countAggregatesClauses cs + countAggregates els
def countAggregatesList : List PExpr → Nat
  | [] => 0
  | x :: xs => countAggregates x + countAggregatesList xs
def countAggregatesClauses : List (PExpr × PExpr) → Nat
  | [] => 0
  | (c, r) :: xs => countAggregates c + countAggregates r + countAggregatesClauses xs
end

/-- what `extract_aggregate` hands back as "the aggregate": a copy of a column access or of an aggregate call -/
inductive Extracted where
  | column (name : List Char)
  | call (name : List Char) (args : List PExpr) (distinct : Option Bool)
  deriving Repr, Inhabited

/-- the tree after `extract_aggregate` mutated it: the nodes `extract_aggregate` walks through, with the found
sub-trees replaced by `ScopedColumnAccess(AggregationValue, "$value")` (`hole`); everything else is untouched -/
inductive XExpr where
  | plain (e : PExpr)
  | hole
  | binop (loc : Loc) (o : Operator) (l r : XExpr)
  | boolop (isAnd : Bool) (l r : XExpr)
  | unop (loc : Loc) (o : Operator) (e : XExpr)
  | invert (e : XExpr)
  | nullcmp (isNot : Bool) (l r : XExpr)
  | index (a i : XExpr)
  | cast (e : XExpr) (t : VType)
  | call (loc : Loc) (name : List Char) (args : List XExpr)
  deriving Repr, Inhabited

def holeOr (found : Bool) (x : XExpr) : XExpr := if found then .hole else x

def firstSome (a b : Option Extracted) : Option Extracted := if a.isSome then a else b

mutual
/-- `extract_aggregate(tree)`: (the extracted copy, `found`, the tree as it is left) -/
def extractAggregate : PExpr → Option Extracted × Bool × XExpr
  | .column l n => (some (.column n), true, .plain (.column l n))
  | .call loc name args distinct =>
    if isAggregateName name then (some (.call name args distinct), true, .plain (.call loc name args distinct))
    else
      let r := extractArgs args none
      (r.1, false, .call loc name r.2)
  | .binop loc o l r =>
    let a := extractAggregate l
    let b := extractAggregate r
    (firstSome a.1 b.1, false, .binop loc o (holeOr a.2.1 a.2.2) (holeOr b.2.1 b.2.2))
  | .boolop _ isAnd l r =>
    let a := extractAggregate l
    let b := extractAggregate r
    (firstSome a.1 b.1, false, .boolop isAnd (holeOr a.2.1 a.2.2) (holeOr b.2.1 b.2.2))
  | .unop loc o e =>
    let a := extractAggregate e
    (a.1, false, .unop loc o (holeOr a.2.1 a.2.2))
  | .index _ x i =>
    let a := extractAggregate x
    let b := extractAggregate i
    (firstSome a.1 b.1, false, .index (holeOr a.2.1 a.2.2) (holeOr b.2.1 b.2.2))
  | .nullcmp _ isNot l r =>
    let a := extractAggregate l
    let b := extractAggregate r
    (firstSome a.1 b.1, false, .nullcmp isNot (holeOr a.2.1 a.2.2) (holeOr b.2.1 b.2.2))
  | .invert _ e =>
    let a := extractAggregate e
    (a.1, false, .invert (holeOr a.2.1 a.2.2))
  | .cast _ e t =>
    let a := extractAggregate e
    (a.1, false, .cast (holeOr a.2.1 a.2.2) t)
  | e => (none, false, .plain e)
/-- the argument loop of the `Call` arm: the *last* argument that yields something wins -/
def extractArgs : List PExpr → Option Extracted → Option Extracted × List XExpr
  | [], acc => (acc, [])
  | x :: xs, acc =>
    let a := extractAggregate x
    let rest := extractArgs xs (if a.1.isSome then a.1 else acc)
    (rest.1, holeOr a.2.1 a.2.2 :: rest.2)
end

mutual
/-- `transform_expression` (no aggregates) of the tree `extract_aggregate` left -/
def lowerX : XExpr → LRes Expr
  | .plain e => lowerPlain e
  | .hole => .ok (.scoped .aggValue "$value")
  | .binop loc o l r =>
    match lowerX l with
    | .ok l' =>
      match lowerX r with
      | .ok r' => lowerBinop loc o l' r'
      | .err e => .err e
      | .panic s => .panic s
    | .err e => .err e
    | .panic s => .panic s
  | .boolop isAnd l r =>
    match lowerX l with
    | .ok l' =>
      match lowerX r with
      | .ok r' => .ok (.boolOp isAnd l' r')
      | .err e => .err e
      | .panic s => .panic s
    | .err e => .err e
    | .panic s => .panic s
  | .unop loc o e =>
    match lowerX e with
    | .ok e' => lowerUnop loc o e'
    | .err e => .err e
    | .panic s => .panic s
  | .invert e =>
    match lowerX e with
    | .ok e' => .ok (.not e')
    | .err e => .err e
    | .panic s => .panic s
  | .nullcmp isNot l r =>
    match lowerX l with
    | .ok l' =>
      match lowerX r with
      | .ok r' => .ok (.nullCmp isNot l' r')
      | .err e => .err e
      | .panic s => .panic s
    | .err e => .err e
    | .panic s => .panic s
  | .index a i =>
    match lowerX a with
    | .ok a' =>
      match lowerX i with
      | .ok i' => .ok (.index a' i')
      | .err e => .err e
      | .panic s => .panic s
    | .err e => .err e
    | .panic s => .panic s
  | .cast e t =>
    match lowerX e with
    | .ok e' => .ok (.cast e' t)
    | .err e => .err e
    | .panic s => .panic s
  | .call loc name args =>
    match lowerXList args with
    | .ok args' => lowerCall loc name args'
    | .err e => .err e
    | .panic s => .panic s
def lowerXList : List XExpr → LRes (List Expr)
  | [] => .ok []
  | x :: xs =>
    match lowerX x with
    | .ok x' =>
      match lowerXList xs with
      | .ok xs' => .ok (x' :: xs')
      | .err e => .err e
      | .panic s => .panic s
    | .err e => .err e
    | .panic s => .panic s
end

/-- `transform_aggregate(tree, aggregate_index)`: (default name, aggregate, transform) -/
def lowerAggregate (tree : PExpr) (index : Nat) : LRes (Option String × AggKind × Option Expr) :=
  if countAggregates tree > 1 then .err ⟨PExpr.loc tree, .tooManyAggregates⟩
  else if countAggregates tree > 0 then
    let x := extractAggregate tree
    match x.1 with
    | some (.call name args distinct) =>
      match lowerCallAggregate (PExpr.loc tree) name args distinct index with
      | .ok (defaultName, k) =>
        if x.2.1 then .ok (some defaultName, k, none)
        else
          match lowerX x.2.2 with
          | .ok t => .ok (some defaultName, k, some t)
          | .err e => .err e
          | .panic s => .panic s
      | .err e => .err e
      | .panic s => .panic s
    | _ => .err ⟨PExpr.loc tree, .undefinedAggregate⟩
  else
    match lowerPlain tree with
    | .ok e =>
      let defaultName := match e with
        | .column n => some n
        | _ => none
      .ok (defaultName, .groupKey e (canon e), none)
    | .err e => .err e
    | .panic s => .panic s

/-! ### statements -/

/-- `transform_join` -/
def lowerJoin (loc : Loc) (fromTable : List Char) (join : Option PJoin) : LRes (Option LJoin) :=
  match join with
  | none => .ok none
  | some j =>
    if j.leftTable = fromTable then
      if j.rightTable = j.joinerTable then
        .ok (some { joinedTable := str j.joinerTable, joinedFilename := str j.joinerFilename,
                    joinedColumn := str j.rightColumn, joinerColumn := str j.leftColumn, isOuter := j.isOuter })
      else .err ⟨loc, .invalidJoinerTable j.joinerTable⟩
    else if j.rightTable = fromTable then
      if j.leftTable = j.joinerTable then
        .ok (some { joinedTable := str j.joinerTable, joinedFilename := str j.joinerFilename,
                    joinedColumn := str j.leftColumn, joinerColumn := str j.rightColumn, isOuter := j.isOuter })
      else .err ⟨loc, .invalidJoinerTable j.joinerTable⟩
    else .err ⟨loc, .invalidOnJoin⟩

def lowerOpt (f : PExpr → LRes Expr) : Option PExpr → LRes (Option Expr)
  | none => .ok none
  | some e =>
    match f e with
    | .ok e' => .ok (some e')
    | .err e => .err e
    | .panic s => .panic s

/-- the projection loop of `create_select_statement`: `alias | column | p<i>` -/
def lowerProjections : List (Option (List Char) × PExpr) → Nat → LRes (List (String × Expr))
  | [], _ => .ok []
  | (name, tree) :: rest, i =>
    match lowerPlain tree with
    | .ok e =>
      let defaultName := match e with
        | .column c => c
        | _ => "p" ++ toString i
      match lowerProjections rest (i + 1) with
      | .ok ps => .ok (((name.map str).getD defaultName, e) :: ps)
      | .err e => .err e
      | .panic s => .panic s
    | .err e => .err e
    | .panic s => .panic s

/-- `SelectStatement::is_wildcard_projection` -/
def isWildcardProjection : List (String × Expr) → Bool
  | [(_, .wildcard)] => true
  | _ => false

/-- `create_select_statement` -/
def lowerSelect (q : PSelect) : LRes LStmt :=
  match lowerProjections q.projections 0 with
  | .ok projections =>
    match lowerOpt lowerPlain q.filter with
    | .ok filter =>
      match lowerJoin q.loc q.fromTable q.join with
      | .ok join =>
        .ok (.select { projections, wildcard := isWildcardProjection projections, filter, limit := q.limit,
                       distinct := q.distinct } (str q.fromTable) (q.fromFile.map str) join)
      | .err e => .err e
      | .panic s => .panic s
    | .err e => .err e
    | .panic s => .panic s
  | .err e => .err e
  | .panic s => .panic s

/-- the projection loop of `create_aggregate_statement`: `alias | count<i> / <aggregate><i> / column | p<i>` -/
def lowerItems : List (Option (List Char) × PExpr) → Nat → LRes (List AggItem)
  | [], _ => .ok []
  | (name, tree) :: rest, i =>
    match lowerAggregate tree i with
    | .ok (defaultName, kind, transform) =>
      match lowerItems rest (i + 1) with
      | .ok items =>
        .ok ({ name := ((name.map str).orElse (fun _ => defaultName)).getD ("p" ++ toString i), kind, transform } :: items)
      | .err e => .err e
      | .panic s => .panic s
    | .err e => .err e
    | .panic s => .panic s

def havingAggs : List HavingRef → List (Nat × AggKind)
  | [] => []
  | .agg id k :: rest => (id, k) :: havingAggs rest
  | .key _ :: rest => havingAggs rest

def havingKeys : List HavingRef → List String
  | [] => []
  | .key c :: rest => c :: havingKeys rest
  | .agg _ _ :: rest => havingKeys rest

/-- HAVING: `transform_expression` with `allow_aggregates = true` on a fresh state -/
def lowerHavingOpt : Option PExpr → LRes (Option (Expr × HState))
  | none => .ok none
  | some h =>
    match lowerHaving h {} with
    | .ok r => .ok (some r)
    | .err e => .err e
    | .panic s => .panic s

/-- GROUP BY parts: each without aggregates -/
def lowerGroupBy : Option (List PExpr) → LRes (Option (List Expr))
  | none => .ok none
  | some parts =>
    match lowerPlainList parts with
    | .ok ps => .ok (some ps)
    | .err e => .err e
    | .panic s => .panic s

/-- `create_aggregate_statement` (order of the steps as in the code: projections, WHERE, HAVING, join, GROUP BY) -/
def lowerAggregateStmt (q : PSelect) : LRes LStmt :=
  match lowerItems q.projections 0 with
  | .ok items =>
    match lowerOpt lowerPlain q.filter with
    | .ok filter =>
      match lowerHavingOpt q.having with
      | .ok having =>
        match lowerJoin q.loc q.fromTable q.join with
        | .ok join =>
          match lowerGroupBy q.groupBy with
          | .ok groupBy =>
            let visit := (having.map (·.2.visit)).getD []
            .ok (.aggregate { items, filter, groupBy := groupBy.map (·.map (fun e => (e, canon e))),
                              having := having.map (·.1), havingAggs := havingAggs visit, havingKeys := havingKeys visit,
                              havingVisit := visit, limit := q.limit, distinct := q.distinct }
                   (str q.fromTable) (q.fromFile.map str) join)
          | .err e => .err e
          | .panic s => .panic s
        | .err e => .err e
        | .panic s => .panic s
      | .err e => .err e
      | .panic s => .panic s
    | .err e => .err e
    | .panic s => .panic s
  | .err e => .err e
  | .panic s => .panic s

/-- `any_aggregates(&projections)` -/
def anyAggregates (ps : List (Option (List Char) × PExpr)) : Bool := ps.any (fun p => countAggregates p.2 > 0)

def bytesOf (cs : List Char) : List Nat := Utf8.encode cs

def lowerStep : PJsonStep → JsonStep
  | .field n => .field (bytesOf n)
  | .index i => .index i

/-- `JsonAccess::from_linear` (the `unwrap` on an empty list is a panic site; the parser never builds one) -/
def lowerParsing : PColParsing → LRes Extract.Parsing
  | .regex r => .ok (.regex { pattern := bytesOf r.pattern, group := r.group })
  | .multiRegex rs => .ok (.multi (rs.map (fun r => { pattern := bytesOf r.pattern, group := r.group })))
  | .json path =>
    match JsonAccess.fromLinear (path.map lowerStep) with
    | some a => .ok (.json a)
    | none => .panic "JsonAccess::from_linear unwrap"

def lowerColumns : List PColDef → LRes (List Extract.Column)
  | [] => .ok []
  | c :: cs =>
    match lowerParsing c.parsing with
    | .ok p =>
      match lowerColumns cs with
      | .ok rest =>
        .ok ({ parsing := p, type := c.type,
               options := { nullable := c.nullable.getD true, trim := c.trim.getD false, convert := c.convert.getD false,
                            microseconds := c.microseconds.getD false, default := c.default } } :: rest)
      | .err e => .err e
      | .panic s => .panic s
    | .err e => .err e
    | .panic s => .panic s

/-- `create_create_table_statement`: the only check made here is `Regex::new` on every pattern (`TableDefinition::new`);
pattern names, group indexes and types are not checked against each other (a dangling reference extracts NULL) -/
def lowerCreate (regexValid : List Char → Bool) (c : PCreate) : LRes LStmt :=
  match lowerColumns c.columns with
  | .ok columns =>
    if c.patterns.all (fun p => regexValid p.2.1) then
      .ok (.createTable (str c.name)
        { patterns := c.patterns.map (fun p => { name := bytesOf p.1, regex := bytesOf p.2.1,
                                                  mode := match p.2.2 with | .captures => .captures | .split => .split }),
          columns }
        (c.columns.map (fun d => str d.name)))
    else .err ⟨c.loc, .invalidPattern⟩
  | .err e => .err e
  | .panic s => .panic s

def lowerCreates (regexValid : List Char → Bool) : List PCreate → LRes (List LStmt)
  | [] => .ok []
  | c :: cs =>
    match lowerCreate regexValid c with
    | .ok s =>
      match lowerCreates regexValid cs with
      | .ok ss => .ok (s :: ss)
      | .err e => .err e
      | .panic s => .panic s
    | .err e => .err e
    | .panic s => .panic s

/-- `transform_statement` -/
def lowerStatement (regexValid : List Char → Bool) : POp → LRes LStmt
  | .select q =>
    if q.groupBy.isSome then lowerAggregateStmt q
    else if anyAggregates q.projections then lowerAggregateStmt q
    else if q.having.isSome then .err ⟨q.loc, .havingClauseNotPossible⟩
    else lowerSelect q
  | .createTable c => lowerCreate regexValid c
  | .multiple cs =>
    match lowerCreates regexValid cs with
    | .ok ss => .ok (.multiple ss)
    | .err e => .err e
    | .panic s => .panic s

end Lower
end Sqlgrep
