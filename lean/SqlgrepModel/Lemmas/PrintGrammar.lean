import SqlgrepModel.Lemmas.PrintChars
import SqlgrepModel.Lemmas.PrintLines
import SqlgrepModel.Lemmas.JsonGrammar
import SqlgrepModel.Model.Text
/-
The JSON printer of `Model/Print.lean` against the RFC 8259 grammar of `Spec/JsonGrammar.lean`.

The printer works on UTF-8 bytes, the grammar on Unicode characters; RFC 8259 §8.1 ties them: a JSON text
is exchanged as the UTF-8 encoding (`Utf8.encode`, Model/Text.lean) of its characters. Every statement
here has the form "the printed bytes are `Utf8.encode line` for a character text `line` that the grammar
derives (and that denotes ...)".
-/
namespace Sqlgrep.Print
open Sqlgrep.Utf8 Sqlgrep.JsonGrammar

/-- two lists related element by element -/
inductive AllRel {α β : Type} (R : α → β → Prop) : List α → List β → Prop
  | nil : AllRel R [] []
  | cons {a : α} {b : β} {as : List α} {bs : List β} : R a b → AllRel R as bs → AllRel R (a :: as) (b :: bs)

theorem AllRel.length_eq {α β : Type} {R : α → β → Prop} {as : List α} {bs : List β} (h : AllRel R as bs) :
    as.length = bs.length := by
  induction h with
  | nil => rfl
  | cons _ _ ih => simp [ih]

/-- a byte string that is the UTF-8 encoding of some sequence of characters (every Rust `String` is) -/
def IsUtf8 (s : Bytes) : Prop := ∃ cs : List Char, encode cs = s

/-! ### ASCII -/

/-- the characters of an ASCII byte string -/
def chars (bs : Bytes) : List Char := bs.map Char.ofNat

def Ascii (bs : Bytes) : Prop := ∀ b ∈ bs, b < 128

theorem toNat_ofNat_small {b : Nat} (h : b < 0xD800) : (Char.ofNat b).toNat = b := by
  simp [Char.ofNat, Nat.isValidChar, h, Char.toNat, Char.ofNatAux]

theorem encodeChar_ascii {b : Nat} (h : b < 128) : encodeChar (Char.ofNat b) = [b] := by
  simp only [encodeChar, toNat_ofNat_small (show b < 0xD800 by omega), h, if_true]

theorem encode_nil : encode [] = [] := rfl

theorem encode_cons' (c : Char) (cs : List Char) : encode (c :: cs) = encodeChar c ++ encode cs := by
  simp [encode]

theorem encode_append (a b : List Char) : encode (a ++ b) = encode a ++ encode b := by
  simp [encode]

theorem encode_chars {bs : Bytes} (h : Ascii bs) : encode (chars bs) = bs := by
  induction bs with
  | nil => rfl
  | cons b bs ih =>
    have hb : b < 128 := h b (List.mem_cons_self ..)
    have := ih (fun x hx => h x (List.mem_cons_of_mem _ hx))
    simp only [chars, List.map_cons] at this ⊢
    rw [encode_cons', encodeChar_ascii hb, this]; rfl

theorem chars_append (a b : Bytes) : chars (a ++ b) = chars a ++ chars b := by simp [chars]

theorem isUtf8_ascii {bs : Bytes} (h : Ascii bs) : IsUtf8 bs := ⟨chars bs, encode_chars h⟩

theorem encode_singleton_ascii {b : Nat} (h : b < 128) : encode [Char.ofNat b] = [b] := by
  rw [encode_cons', encodeChar_ascii h]; rfl

/-! ### strings: serde_json's escaping, character by character -/

/-- what serde_json's escaping does to one character: ASCII characters go through `escapeByte`, every
other character is copied -/
def escapeChar (c : Char) : List Char := if c.toNat < 128 then chars (escapeByte c.toNat) else [c]

theorem hexDigit_lt (n : Nat) (h : n < 16) : hexDigit n < 128 := by
  unfold hexDigit; split <;> omega

theorem escapeByte_ascii {b : Nat} (h : b < 128) : Ascii (escapeByte b) := by
  have h1 := hexDigit_lt (b / 16)
  have h2 := hexDigit_lt (b % 16) (by omega)
  unfold escapeByte
  repeat' split
  all_goals (intro x hx; simp only [List.mem_cons, List.not_mem_nil, or_false] at hx)
  all_goals first
    | omega
    | (rename_i h32; have := h1 (by omega); omega)

theorem escapeByte_high {b : Nat} (h : 128 ≤ b) : escapeByte b = [b] := by
  unfold escapeByte
  repeat' split
  all_goals first | omega | rfl

theorem jsonEscape_cons (b : Nat) (s : Bytes) : jsonEscape (b :: s) = escapeByte b ++ jsonEscape s := by
  simp [jsonEscape]

theorem jsonEscape_append (a b : Bytes) : jsonEscape (a ++ b) = jsonEscape a ++ jsonEscape b := by
  simp [jsonEscape]

theorem jsonEscape_encodeChar (c : Char) : jsonEscape (encodeChar c) = encode (escapeChar c) := by
  unfold escapeChar
  by_cases h : c.toNat < 128
  · rw [if_pos h, encode_chars (escapeByte_ascii h)]
    simp only [encodeChar, h, if_true, jsonEscape_cons]
    simp [jsonEscape]
  · rw [if_neg h, encode_cons', encode_nil, List.append_nil]
    have hh : ∀ b, 128 ≤ b → ∀ s, jsonEscape (b :: s) = b :: jsonEscape s := by
      intro b hb s; rw [jsonEscape_cons, escapeByte_high hb]; rfl
    have hnil : jsonEscape [] = [] := rfl
    simp only [encodeChar, h, if_false]
    split
    · rw [hh _ (by omega), hh _ (by omega), hnil]
    · split
      · rw [hh _ (by omega), hh _ (by omega), hh _ (by omega), hnil]
      · rw [hh _ (by omega), hh _ (by omega), hh _ (by omega), hh _ (by omega), hnil]

/-- escaping the UTF-8 bytes of a text = encoding the text escaped character by character -/
theorem jsonEscape_encode (cs : List Char) : jsonEscape (encode cs) = encode (cs.flatMap escapeChar) := by
  induction cs with
  | nil => rfl
  | cons c cs ih =>
    rw [encode_cons', jsonEscape_append, jsonEscape_encodeChar, ih, List.flatMap_cons, encode_append]

theorem hex4_escape : ∀ n, n < 32 →
    hex4 '0' '0' (Char.ofNat (hexDigit (n / 16))) (Char.ofNat (hexDigit (n % 16))) = some n := by
  decide

/-- the escape the printer writes for a character denotes that character, by the table of RFC 8259 §7 -/
theorem escapeChar_denotes (c : Char) : StrCharD (escapeChar c) c := by
  have hc : c = Char.ofNat c.toNat := (Char.ofNat_toNat c).symm
  generalize hn : c.toNat = n at hc
  have hesc : escapeChar c = if n < 128 then chars (escapeByte n) else [c] := by
    unfold escapeChar; rw [hn]
  rw [hesc]
  by_cases h1 : n = 34
  · subst h1; subst hc; exact .escape (by decide)
  by_cases h2 : n = 92
  · subst h2; subst hc; exact .escape (by decide)
  by_cases h3 : n = 8
  · subst h3; subst hc; exact .escape (by decide)
  by_cases h4 : n = 9
  · subst h4; subst hc; exact .escape (by decide)
  by_cases h5 : n = 10
  · subst h5; subst hc; exact .escape (by decide)
  by_cases h6 : n = 12
  · subst h6; subst hc; exact .escape (by decide)
  by_cases h7 : n = 13
  · subst h7; subst hc; exact .escape (by decide)
  by_cases h8 : n < 32
  · have : escapeByte n = [92, 117, 48, 48, hexDigit (n / 16), hexDigit (n % 16)] := by
      simp only [escapeByte, h1, h2, h3, h4, h5, h6, h7, h8, if_false, if_true]
    rw [if_pos (by omega), this, hc]
    exact .unicode (hex4_escape n h8) (Or.inl (by omega))
  · have hu : Unescaped c := by unfold Unescaped; rw [hn]; omega
    by_cases h9 : n < 128
    · have : escapeByte n = [n] := by
        simp only [escapeByte, h1, h2, h3, h4, h5, h6, h7, h8, if_false]
      rw [if_pos h9, this]
      have : chars [n] = [c] := by rw [hc]; rfl
      rw [this]
      exact .unescaped hu
    · rw [if_neg h9]; exact .unescaped hu

theorem escape_denotes (cs : List Char) : CharsD (cs.flatMap escapeChar) cs := by
  induction cs with
  | nil => exact .nil
  | cons c cs ih => rw [List.flatMap_cons]; exact .cons (escapeChar_denotes c) ih

theorem renderString_encode (cs : List Char) :
    renderString (encode cs) = encode ('"' :: (cs.flatMap escapeChar ++ ['"'])) := by
  have hq : encodeChar '"' = [34] := by decide
  rw [renderString, jsonEscape_encode, encode_cons', encode_append, encode_cons', encode_nil, hq]
  rfl

/-- a printed string token is a `string` of the grammar, and it denotes the text it was printed from:
for every text — quotes, backslashes, control characters, characters outside the BMP -/
theorem renderString_denotes (cs : List Char) :
    ∃ t, encode t = renderString (encode cs) ∧ StrD t cs :=
  ⟨'"' :: (cs.flatMap escapeChar ++ ['"']), (renderString_encode cs).symm, .mk (escape_denotes cs)⟩

/-! ### numbers -/

theorem chars_digit {n : Nat} (h : n < 10) : Digit (Char.ofNat (48 + n)) := by
  unfold Digit; rw [toNat_ofNat_small (by omega)]; omega

theorem digitsVal_append (a : List Char) (c : Char) : digitsVal (a ++ [c]) = 10 * digitsVal a + (c.toNat - 0x30) := by
  simp [digitsVal, List.foldl_append]

theorem digits_append {a b : List Char} (ha : Digits a) (hb : Digits b) : Digits (a ++ b) := by
  intro c hc
  cases List.mem_append.mp hc with
  | inl h => exact ha c h
  | inr h => exact hb c h

/-- the decimal digits of a positive number: a first digit `1`-`9`, then digits; their value is the number -/
theorem natDigits_pos (n : Nat) : 0 < n →
    ∃ d ds, chars (natDigits n) = d :: ds ∧ Digit19 d ∧ Digits ds ∧ digitsVal (d :: ds) = n := by
  induction n using natDigits.induct with
  | case1 n h =>
    intro hp
    rw [natDigits, if_pos h]
    refine ⟨Char.ofNat (48 + n), [], rfl, ?_, Digits.nil, ?_⟩
    · unfold Digit19; rw [toNat_ofNat_small (by omega)]; omega
    · simp only [digitsVal, List.foldl_cons, List.foldl_nil]; rw [toNat_ofNat_small (by omega)]; omega
  | case2 n h ih =>
    intro _
    obtain ⟨d, ds, he, hd, hds, hv⟩ := ih (by omega)
    rw [natDigits, if_neg h, chars_append, he]
    refine ⟨d, ds ++ chars [48 + n % 10], rfl, hd, digits_append hds ?_, ?_⟩
    · intro c hc
      simp only [chars, List.map_cons, List.map_nil, List.mem_singleton] at hc
      subst hc; exact chars_digit (by omega)
    · have : d :: (ds ++ chars [48 + n % 10]) = (d :: ds) ++ [Char.ofNat (48 + n % 10)] := rfl
      rw [this, digitsVal_append, hv, toNat_ofNat_small (by omega)]; omega

theorem natDigits_int (n : Nat) : IntPart (chars (natDigits n)) ∧ digitsVal (chars (natDigits n)) = n := by
  by_cases h : n = 0
  · subst h
    have : natDigits 0 = [48] := by rw [natDigits]; rfl
    rw [this]; exact ⟨.zero, rfl⟩
  · obtain ⟨d, ds, he, hd, hds, hv⟩ := natDigits_pos n (by omega)
    rw [he]; exact ⟨.nonzero hd hds, hv⟩

/-- `intText_is_json_number`: the decimal rendering of ANY integer (`Display for i64`, serde_json's integer
numbers) is a `number` of RFC 8259 §6, and the number it denotes is that integer (× 10^0) -/
theorem renderInt_denotes (i : Int) : NumD (chars (renderInt i)) ⟨i, 0⟩ := by
  obtain ⟨hi, hv⟩ := natDigits_int i.natAbs
  have key := @NumD.pos _ [] [] [] 0 hi FracD.none ExpD.none
  have keyn := @NumD.neg _ [] [] [] 0 hi FracD.none ExpD.none
  simp only [List.append_nil, hv, List.length_nil] at key keyn
  unfold renderInt
  split
  · rename_i hneg
    have : (-(i.natAbs : Int)) = i := by omega
    rw [this] at keyn
    exact keyn
  · rename_i hpos
    have : ((i.natAbs : Nat) : Int) = i := by omega
    rw [this] at key
    exact key

theorem renderInt_ascii (i : Int) : Ascii (renderInt i) := by
  intro b hb
  have := mem_renderInt hb
  unfold Plain at this
  simp only [List.mem_cons, List.not_mem_nil, or_false] at this
  omega

/-- "the shipped text is a JSON number": the decidable assumption on the REAL oracle's text -/
def isJsonNumberBytes (bs : Bytes) : Bool := bs.all (fun b => decide (b < 128)) && isJsonNumber (chars bs)

theorem isJsonNumberBytes_sound {bs : Bytes} (h : isJsonNumberBytes bs = true) :
    Ascii bs ∧ ∃ d, numValue (chars bs) = some d ∧ NumD (chars bs) d := by
  simp only [isJsonNumberBytes, Bool.and_eq_true, List.all_eq_true, decide_eq_true_eq] at h
  exact ⟨h.1, isJsonNumber_denotes h.2⟩

/-- every integer rendering passes the check that is assumed of the REAL texts -/
theorem isJsonNumberBytes_renderInt (i : Int) : isJsonNumberBytes (renderInt i) = true := by
  simp only [isJsonNumberBytes, Bool.and_eq_true, List.all_eq_true, decide_eq_true_eq]
  refine ⟨renderInt_ascii i, ?_⟩
  unfold isJsonNumber
  rw [numValue_complete (renderInt_denotes i)]; rfl

mutual
/-- all REAL bit patterns of a value (the cell itself or array elements at any depth) -/
def allReals : Value → List Nat
  | .real b => [b]
  | .array _ xs => allRealsList xs
  | _ => []
def allRealsList : List Value → List Nat
  | [] => []
  | x :: xs => allReals x ++ allRealsList xs
end

/-- what is assumed of the ryu oracle, for the REALs of one value: the text shipped for each finite REAL
is a JSON number (decidable; the `print` driver evaluates it on every case) -/
def RealTextsOk (o : RealOracle) (v : Value) : Prop :=
  ∀ b ∈ allReals v, isFinite b = true → isJsonNumberBytes (o.json b) = true

instance (o : RealOracle) : DecidablePred (RealTextsOk o) := fun v => by unfold RealTextsOk; infer_instance

/-- the same for every REAL whatsoever -/
def RealTextOk (o : RealOracle) : Prop := ∀ b, isFinite b = true → isJsonNumberBytes (o.json b) = true

theorem RealTextOk.value {o : RealOracle} (h : RealTextOk o) (v : Value) : RealTextsOk o v := fun b _ hf => h b hf

/-! ### cell documents -/

/-- the printed bytes of the document `j` are the UTF-8 encoding of a `value` text that denotes `x` -/
def Renders (j : Json) (x : JVal) : Prop := ∃ cs, encode cs = j.render ∧ ValD cs x

theorem renders_null : Renders .null .null := ⟨_, by decide, .null⟩
theorem renders_bool (b : Bool) : Renders (.bool b) (.bool b) := by
  cases b
  · exact ⟨_, by decide, .false⟩
  · exact ⟨_, by decide, .true⟩

theorem renders_num {tok : Bytes} {d : Dec} (ha : Ascii tok) (hd : NumD (chars tok) d) :
    Renders (.num tok) (.num d) := ⟨chars tok, encode_chars ha, .number hd⟩

theorem renders_str (cs : List Char) : Renders (.str (encode cs)) (.str cs) := by
  obtain ⟨t, ht, hs⟩ := renderString_denotes cs
  exact ⟨t, ht, .string hs⟩

theorem renderTail_elems (x0 : Json) (y0 : JVal) (h0 : Renders x0 y0) :
    ∀ (xs : List Json) (ys : List JVal), AllRel Renders xs ys →
      ∃ cs, encode cs = x0.render ++ Json.renderTail xs ∧ ElemsD cs (y0 :: ys) := by
  intro xs ys h
  induction h generalizing x0 y0 with
  | nil =>
    obtain ⟨cs, hc, hv⟩ := h0
    exact ⟨cs, by simp [Json.renderTail, hc], .one hv⟩
  | @cons a b as bs hab _ ih =>
    obtain ⟨cs, hc, hv⟩ := h0
    obtain ⟨ts, ht, hts⟩ := ih a b hab
    refine ⟨cs ++ [','] ++ ts, ?_, .cons hv (sep_bare ',') hts⟩
    have hcomma : encode [','] = [44] := by decide
    rw [encode_append, encode_append, hc, ht, hcomma]
    simp [Json.renderTail]

theorem renders_arr {xs : List Json} {ys : List JVal} (h : AllRel Renders xs ys) : Renders (.arr xs) (.arr ys) := by
  have hopen : encode ['['] = [91] := by decide
  have hclose : encode [']'] = [93] := by decide
  cases h with
  | nil =>
    refine ⟨['['] ++ [']'], by decide, .array (.empty (sep_bare '[') (sep_bare ']'))⟩
  | @cons a b as bs hab hrest =>
    obtain ⟨ts, ht, hts⟩ := renderTail_elems a b hab as bs hrest
    refine ⟨['['] ++ ts ++ [']'], ?_, .array (.elements (sep_bare '[') hts (sep_bare ']'))⟩
    rw [encode_append, encode_append, hopen, hclose, ht]
    simp [Json.render]

/-- what a JSON value says about a cell — the reading of "values recover the row exactly":
NULL → `null`; BOOLEAN → `true`/`false`; INT `i` → the number `i` (`i × 10^0`); a finite REAL → the number
that the shipped (ryu) text denotes; a non-finite REAL → `null`; TEXT → the string of exactly its
characters; arrays → arrays, element by element; TIMESTAMP / INTERVAL → the string of their text form -/
inductive CellDoc (o : RealOracle) : Value → JVal → Prop
  | null : CellDoc o .null .null
  | int (i : Int) : CellDoc o (.int i) (.num ⟨i, 0⟩)
  | real {b : Nat} {d : Dec} : isFinite b = true → numValue (chars (o.json b)) = some d →
      CellDoc o (.real b) (.num d)
  | realNonFinite {b : Nat} : isFinite b = false → CellDoc o (.real b) .null
  | bool (b : Bool) : CellDoc o (.bool b) (.bool b)
  | text {s : Bytes} {cs : List Char} : encode cs = s → CellDoc o (.text s) (.str cs)
  | array {t : VType} {xs : List Value} {ys : List JVal} : AllRel (CellDoc o) xs ys →
      CellDoc o (.array t xs) (.arr ys)
  | timestamp {d s f : Int} {cs : List Char} : encode cs = renderTimestamp d s f →
      CellDoc o (.timestamp d s f) (.str cs)
  | interval {n : Int} {cs : List Char} : encode cs = renderInterval n → CellDoc o (.interval n) (.str cs)

theorem renderTimestamp_ascii (d s f : Int) : Ascii (renderTimestamp d s f) := by
  intro b hb
  have := mem_renderTimestamp hb
  unfold Plain at this
  simp only [List.mem_cons, List.not_mem_nil, or_false] at this
  omega

theorem renderInterval_ascii (n : Int) : Ascii (renderInterval n) := by
  intro b hb
  have := mem_renderInterval hb
  unfold Plain at this
  simp only [List.mem_cons, List.not_mem_nil, or_false] at this
  omega

mutual
/-- every cell document the printer builds is printed as a `value` of the grammar that denotes the cell -/
theorem cell_renders (o : RealOracle) : ∀ v : Value, RealTextsOk o v → (∀ s ∈ allTexts v, IsUtf8 s) →
    ∃ x, CellDoc o v x ∧ Renders (jsonValue o v) x
  | .null, _, _ => ⟨_, .null, renders_null⟩
  | .int i, _, _ => ⟨_, .int i, renders_num (renderInt_ascii i) (renderInt_denotes i)⟩
  | .real b, ho, _ => by
    simp only [jsonValue]
    cases hf : isFinite b with
    | true =>
      obtain ⟨ha, d, hd, hD⟩ := isJsonNumberBytes_sound (ho b (by simp [allReals]) hf)
      exact ⟨_, .real hf hd, by simpa using renders_num ha hD⟩
    | false => exact ⟨_, .realNonFinite hf, by simpa using renders_null⟩
  | .bool b, _, _ => ⟨_, .bool b, renders_bool b⟩
  | .text s, _, h => by
    obtain ⟨cs, hcs⟩ := h s (by simp [allTexts])
    subst hcs
    exact ⟨_, .text rfl, renders_str cs⟩
  | .array _ xs, ho, h => by
    obtain ⟨ys, h1, h2⟩ := cells_render o xs (by simpa [RealTextsOk, allReals] using ho) (by simpa [allTexts] using h)
    exact ⟨_, .array h1, by simpa [jsonValue] using renders_arr h2⟩
  | .timestamp d s f, _, _ => by
    have := renders_str (chars (renderTimestamp d s f))
    rw [encode_chars (renderTimestamp_ascii d s f)] at this
    exact ⟨_, .timestamp (encode_chars (renderTimestamp_ascii d s f)), this⟩
  | .interval n, _, _ => by
    have := renders_str (chars (renderInterval n))
    rw [encode_chars (renderInterval_ascii n)] at this
    exact ⟨_, .interval (encode_chars (renderInterval_ascii n)), this⟩
theorem cells_render (o : RealOracle) : ∀ xs : List Value,
    (∀ b ∈ allRealsList xs, isFinite b = true → isJsonNumberBytes (o.json b) = true) →
    (∀ s ∈ allTextsList xs, IsUtf8 s) →
    ∃ ys, AllRel (CellDoc o) xs ys ∧ AllRel Renders (jsonValues o xs) ys
  | [], _, _ => ⟨[], .nil, .nil⟩
  | x :: xs, ho, h => by
    obtain ⟨y, h1, h2⟩ := cell_renders o x (fun b hb => ho b (by simp [allRealsList, hb]))
      (fun s hs => h s (by simp [allTextsList, hs]))
    obtain ⟨ys, h3, h4⟩ := cells_render o xs (fun b hb => ho b (by simp [allRealsList, hb]))
      (fun s hs => h s (by simp [allTextsList, hs]))
    exact ⟨y :: ys, .cons h1 h3, .cons h2 h4⟩
end

/-! ### objects -/

/-- a member `"name":value` as printed, and the (name, value) pair it denotes -/
def MemberRenders (kv : Bytes × Json) (m : List Char × JVal) : Prop := encode m.1 = kv.1 ∧ Renders kv.2 m.2

theorem renderMember_denotes {kv : Bytes × Json} {m : List Char × JVal} (h : MemberRenders kv m) :
    ∃ cs, encode cs = renderMember kv ∧ MemberD cs m := by
  obtain ⟨k, j⟩ := kv
  obtain ⟨name, x⟩ := m
  obtain ⟨hk, cs, hc, hv⟩ := h
  simp only at hk hc
  obtain ⟨t, ht, hs⟩ := renderString_denotes name
  refine ⟨t ++ [':'] ++ cs, ?_, .mk hs (sep_bare ':') hv⟩
  have hcolon : encode [':'] = [58] := by decide
  rw [encode_append, encode_append, ht, hc, hcolon, hk]
  simp [renderMember]

theorem renderMembersTail_denotes (kv0 : Bytes × Json) (m0 : List Char × JVal) (h0 : MemberRenders kv0 m0) :
    ∀ (kvs : List (Bytes × Json)) (ms : List (List Char × JVal)), AllRel MemberRenders kvs ms →
      ∃ cs, encode cs = renderMember kv0 ++ renderMembersTail kvs ∧ MembersD cs (m0 :: ms) := by
  intro kvs ms h
  induction h generalizing kv0 m0 with
  | nil =>
    obtain ⟨cs, hc, hm⟩ := renderMember_denotes h0
    exact ⟨cs, by simp [renderMembersTail, hc], .one hm⟩
  | @cons a b as bs hab _ ih =>
    obtain ⟨cs, hc, hm⟩ := renderMember_denotes h0
    obtain ⟨ts, ht, hts⟩ := ih a b hab
    refine ⟨cs ++ [','] ++ ts, ?_, .cons hm (sep_bare ',') hts⟩
    have hcomma : encode [','] = [44] := by decide
    rw [encode_append, encode_append, hc, ht, hcomma]
    simp [renderMembersTail]

/-- serde_json's compact object writer emits an `object` of the grammar whose members are, in order,
the (name, value) pairs that the printed members denote -/
theorem renderObject_denotes {kvs : List (Bytes × Json)} {ms : List (List Char × JVal)}
    (h : AllRel MemberRenders kvs ms) : ∃ cs, encode cs = renderObject kvs ∧ ObjD cs ms := by
  have hopen : encode ['{'] = [123] := by decide
  have hclose : encode ['}'] = [125] := by decide
  cases h with
  | nil => exact ⟨['{'] ++ ['}'], by decide, .empty (sep_bare '{') (sep_bare '}')⟩
  | @cons a b as bs hab hrest =>
    obtain ⟨ts, ht, hts⟩ := renderMembersTail_denotes a b hab as bs hrest
    refine ⟨['{'] ++ ts ++ ['}'], ?_, .members (sep_bare '{') hts (sep_bare '}')⟩
    rw [encode_append, encode_append, hopen, hclose, ht]
    simp [renderObject]

/-! ### `IndexMap` insertion keeps the keys and the values among the given ones -/

theorem insertKV_forall {Q : Bytes → Prop} {R : Json → Prop} (m : List (Bytes × Json)) (k : Bytes) (v : Json)
    (hm : ∀ kv ∈ m, Q kv.1 ∧ R kv.2) (hk : Q k) (hv : R v) : ∀ kv ∈ insertKV m k v, Q kv.1 ∧ R kv.2 := by
  induction m with
  | nil => intro kv hkv; simp only [insertKV, List.mem_singleton] at hkv; subst hkv; exact ⟨hk, hv⟩
  | cons kv' m ih =>
    obtain ⟨k', v'⟩ := kv'
    have h' := hm (k', v') (List.mem_cons_self ..)
    intro kv hkv
    simp only [insertKV] at hkv
    split at hkv
    · cases hkv with
      | head => exact ⟨h'.1, hv⟩
      | tail _ hkv => exact hm kv (List.mem_cons_of_mem _ hkv)
    · cases hkv with
      | head => exact h'
      | tail _ hkv => exact ih (fun x hx => hm x (List.mem_cons_of_mem _ hx)) kv hkv

theorem mapFromList_forall {Q : Bytes → Prop} {R : Json → Prop} (kvs : List (Bytes × Json))
    (h : ∀ kv ∈ kvs, Q kv.1 ∧ R kv.2) : ∀ kv ∈ mapFromList kvs, Q kv.1 ∧ R kv.2 := by
  have gen : ∀ (kvs m : List (Bytes × Json)), (∀ kv ∈ m, Q kv.1 ∧ R kv.2) → (∀ kv ∈ kvs, Q kv.1 ∧ R kv.2) →
      ∀ kv ∈ kvs.foldl (fun m kv => insertKV m kv.1 kv.2) m, Q kv.1 ∧ R kv.2 := by
    intro kvs
    induction kvs with
    | nil => intro m hm _; exact hm
    | cons x xs ih =>
      intro m hm hx
      have hx0 := hx x (List.mem_cons_self ..)
      exact ih _ (insertKV_forall m x.1 x.2 hm hx0.1 hx0.2) (fun y hy => hx y (List.mem_cons_of_mem _ hy))
  exact gen kvs [] (by intro kv h; cases h) h

theorem allRel_of_forall {α β : Type} {R : α → β → Prop} (as : List α) (h : ∀ a ∈ as, ∃ b, R a b) :
    ∃ bs, AllRel R as bs := by
  induction as with
  | nil => exact ⟨[], .nil⟩
  | cons a as ih =>
    obtain ⟨b, hb⟩ := h a (List.mem_cons_self ..)
    obtain ⟨bs, hbs⟩ := ih (fun x hx => h x (List.mem_cons_of_mem _ hx))
    exact ⟨b :: bs, .cons hb hbs⟩

/-! ### records -/

theorem renderRecord_json (o : RealOracle) (cols : List Bytes) (row : List Value) :
    renderRecord o .json cols row = renderObject (mapFromList (jsonMembers o cols row)) := by
  simp only [renderRecord, loneInput_json, Bool.false_eq_true, if_false]
  rfl

theorem mem_zip_left {α β : Type} {a : α} {b : β} : ∀ {as : List α} {bs : List β}, (a, b) ∈ as.zip bs → a ∈ as ∧ b ∈ bs
  | [], _, h => by simp at h
  | _ :: _, [], h => by simp at h
  | x :: xs, y :: ys, h => by
    simp only [List.zip_cons_cons, List.mem_cons, Prod.mk.injEq] at h
    cases h with
    | inl h => exact ⟨by simp [h.1], by simp [h.2]⟩
    | inr h => have := mem_zip_left h; exact ⟨by simp [this.1], by simp [this.2]⟩

/-- ANY row under ANY column names (repeated names and rows longer or shorter than the column list
included): the JSON record the printer emits is the UTF-8 encoding of an `object` of RFC 8259 -/
theorem record_is_object (o : RealOracle) (cols : List Bytes) (row : List Value)
    (ho : ∀ v ∈ row, RealTextsOk o v) (hcols : ∀ c ∈ cols, IsUtf8 c) (htexts : ∀ v ∈ row, ∀ s ∈ allTexts v, IsUtf8 s) :
    ∃ (line : List Char) (ms : List (List Char × JVal)),
      encode line = renderRecord o .json cols row ∧ ObjD line ms := by
  rw [renderRecord_json]
  have hall : ∀ kv ∈ mapFromList (jsonMembers o cols row), IsUtf8 kv.1 ∧ ∃ x, Renders kv.2 x := by
    apply mapFromList_forall (Q := IsUtf8) (R := fun j => ∃ x, Renders j x)
    intro kv hkv
    simp only [jsonMembers, List.mem_map] at hkv
    obtain ⟨⟨c, v⟩, hmem, rfl⟩ := hkv
    have := mem_zip_left hmem
    obtain ⟨x, _, hx⟩ := cell_renders o v (ho v this.2) (htexts v this.2)
    exact ⟨hcols c this.1, x, hx⟩
  obtain ⟨ms, hms⟩ := allRel_of_forall (R := MemberRenders) (mapFromList (jsonMembers o cols row)) (by
    intro kv hkv
    obtain ⟨⟨name, hn⟩, x, hx⟩ := hall kv hkv
    exact ⟨(name, x), hn, hx⟩)
  obtain ⟨cs, hc, hobj⟩ := renderObject_denotes hms
  exact ⟨cs, ms, hc, hobj⟩

theorem allRel_zip_members (o : RealOracle) :
    ∀ (names : List (List Char)) (row : List Value) (xs : List JVal), names.length = row.length →
      AllRel (fun v x => CellDoc o v x ∧ Renders (jsonValue o v) x) row xs →
      AllRel MemberRenders (jsonMembers o (names.map encode) row) (names.zip xs)
  | [], [], _, _, h => by cases h; exact .nil
  | n :: names, v :: row, _, hl, h => by
    cases h with
    | cons h1 h2 =>
      simp only [List.length_cons, Nat.add_right_cancel_iff] at hl
      exact .cons ⟨rfl, h1.2⟩ (allRel_zip_members o names row _ hl h2)
  | [], _ :: _, _, hl, _ => by simp at hl
  | _ :: _, [], _, hl, _ => by simp at hl

theorem isUtf8_names {cols : List Bytes} (h : ∀ c ∈ cols, IsUtf8 c) : ∃ names : List (List Char), names.map encode = cols := by
  induction cols with
  | nil => exact ⟨[], rfl⟩
  | cons c cols ih =>
    obtain ⟨n, hn⟩ := h c (List.mem_cons_self ..)
    obtain ⟨ns, hns⟩ := ih (fun x hx => h x (List.mem_cons_of_mem _ hx))
    exact ⟨n :: ns, by simp [hn, hns]⟩

theorem allRel_and_left {α β : Type} {R S : α → β → Prop} {as : List α} {bs : List β}
    (h : AllRel (fun a b => R a b ∧ S a b) as bs) : AllRel R as bs := by
  induction h with
  | nil => exact .nil
  | cons h _ ih => exact .cons h.1 ih

theorem rows_render (o : RealOracle) (row : List Value) (ho : ∀ v ∈ row, RealTextsOk o v)
    (htexts : ∀ v ∈ row, ∀ s ∈ allTexts v, IsUtf8 s) :
    ∃ xs, AllRel (fun v x => CellDoc o v x ∧ Renders (jsonValue o v) x) row xs :=
  allRel_of_forall row (fun v hv => by
    obtain ⟨x, h1, h2⟩ := cell_renders o v (ho v hv) (htexts v hv)
    exact ⟨x, h1, h2⟩)

/-- distinct column names, one cell per column: the JSON record is the UTF-8 encoding of an `object`
whose members denote, in order, the column names paired with the cells' JSON values -/
theorem record_denotes_row (o : RealOracle) (cols : List Bytes) (row : List Value)
    (ho : ∀ v ∈ row, RealTextsOk o v) (hd : cols.Nodup) (hl : cols.length = row.length)
    (hcols : ∀ c ∈ cols, IsUtf8 c) (htexts : ∀ v ∈ row, ∀ s ∈ allTexts v, IsUtf8 s) :
    ∃ (line : List Char) (names : List (List Char)) (xs : List JVal),
      encode line = renderRecord o .json cols row ∧ ObjD line (names.zip xs)
      ∧ names.map encode = cols ∧ AllRel (CellDoc o) row xs := by
  obtain ⟨names, hnames⟩ := isUtf8_names hcols
  obtain ⟨xs, hxs⟩ := rows_render o row ho htexts
  have hl' : names.length = row.length := by rw [← hl, ← hnames, List.length_map]
  have hm := allRel_zip_members o names row xs hl' hxs
  rw [hnames] at hm
  have hk := jsonMembers_keys o cols row (Nat.le_of_eq hl)
  have hmap : mapFromList (jsonMembers o cols row) = jsonMembers o cols row :=
    mapFromList_nodup _ (by rw [hk]; exact hd)
  obtain ⟨cs, hc, hobj⟩ := renderObject_denotes hm
  refine ⟨cs, names, xs, ?_, hobj, hnames, allRel_and_left hxs⟩
  rw [renderRecord_json, hmap]; exact hc

/-! ### from the JSON value back to the cell -/

mutual
/-- what a reader of the JSON value knows of the cell: numbers with exponent 0 are INT, strings are TEXT
(their UTF-8 bytes), arrays lose their static element type (set to `int`, as in `jsonMeaning`) -/
def cellOfJVal : JVal → Option Value
  | .null => some .null
  | .bool b => some (.bool b)
  | .num d => if d.exp = 0 then some (.int d.mant) else none
  | .str s => some (.text (encode s))
  | .arr xs =>
    match cellsOfJVals xs with
    | some vs => some (.array .int vs)
    | none => none
  | .obj _ => none
def cellsOfJVals : List JVal → Option (List Value)
  | [] => some []
  | x :: xs =>
    match cellOfJVal x, cellsOfJVals xs with
    | some v, some vs => some (v :: vs)
    | _, _ => none
end

mutual
/-- the JSON value of a REAL-free cell determines the cell (up to `jsonMeaning`) -/
theorem cellOfJVal_cellDoc (o : RealOracle) : ∀ (v : Value) (x : JVal), CellDoc o v x → noReal v = true →
    cellOfJVal x = some (jsonMeaning v)
  | _, _, .null, _ => rfl
  | _, _, .int i, _ => by simp [cellOfJVal, jsonMeaning]
  | _, _, .real _ _, h => by simp [noReal] at h
  | _, _, .realNonFinite _, h => by simp [noReal] at h
  | _, _, .bool b, _ => rfl
  | _, _, .text h, _ => by subst h; rfl
  | _, _, .array h, hn => by
    simp only [noReal] at hn
    simp only [cellOfJVal, cellsOfJVals_cellDocs o _ _ h hn, jsonMeaning]
  | _, _, .timestamp h, _ => by simp only [cellOfJVal, h, jsonMeaning]
  | _, _, .interval h, _ => by simp only [cellOfJVal, h, jsonMeaning]
theorem cellsOfJVals_cellDocs (o : RealOracle) : ∀ (vs : List Value) (xs : List JVal), AllRel (CellDoc o) vs xs →
    noRealAll vs = true → cellsOfJVals xs = some (jsonMeanings vs)
  | _, _, .nil, _ => rfl
  | _, _, .cons h hs, hn => by
    simp only [noRealAll, Bool.and_eq_true] at hn
    simp only [cellsOfJVals, cellOfJVal_cellDoc o _ _ h hn.1, cellsOfJVals_cellDocs o _ _ hs hn.2, jsonMeanings]
end

theorem map_cellOfJVal (o : RealOracle) {row : List Value} {xs : List JVal} (h : AllRel (CellDoc o) row xs)
    (hn : ∀ v ∈ row, noReal v = true) : xs.map cellOfJVal = row.map (fun v => some (jsonMeaning v)) := by
  induction h with
  | nil => rfl
  | @cons v x vs xs h _ ih =>
    simp only [List.map_cons]
    rw [cellOfJVal_cellDoc o v x h (hn v (List.mem_cons_self ..)), ih (fun w hw => hn w (List.mem_cons_of_mem _ hw))]

mutual
theorem noReal_allReals : ∀ {v : Value}, noReal v = true → allReals v = []
  | .null, _ => rfl
  | .int _, _ => rfl
  | .real _, h => by simp [noReal] at h
  | .bool _, _ => rfl
  | .text _, _ => rfl
  | .array _ xs, h => by simp only [noReal] at h; simp only [allReals, noRealAll_allReals h]
  | .timestamp _ _ _, _ => rfl
  | .interval _, _ => rfl
theorem noRealAll_allReals : ∀ {xs : List Value}, noRealAll xs = true → allRealsList xs = []
  | [], _ => rfl
  | x :: xs, h => by
    simp only [noRealAll, Bool.and_eq_true] at h
    simp only [allRealsList, noReal_allReals h.1, noRealAll_allReals h.2, List.append_nil]
end

/-! ### every line of a JSON printer -/

theorem mem_printRows_json (o : RealOracle) (cols : List Bytes) (l : Line) :
    ∀ (first : Bool) (rows : List (List Value)), l ∈ printRows o .json cols first rows →
      ∃ row ∈ rows, l = .record (renderRecord o .json cols row)
  | _, [], h => by simp [printRows] at h
  | first, row :: rest, h => by
    simp only [printRows, printRow, headerLines, List.nil_append, List.cons_append, List.mem_cons] at h
    cases h with
    | inl h => exact ⟨row, List.mem_cons_self .., h⟩
    | inr h =>
      obtain ⟨r, hr, hl⟩ := mem_printRows_json o cols l false rest h
      exact ⟨r, List.mem_cons_of_mem _ hr, hl⟩

/-- a line printed in JSON format is the blank separator or the record of one of the rows -/
theorem mem_printAll_json (o : RealOracle) (l : Line) :
    ∀ (first : Bool) (seq : List (ResultRow × Bool)), l ∈ printAll o .json first seq →
      l = .separator ∨ ∃ cr ∈ allRows seq, l = .record (renderRecord o .json cr.1 cr.2)
  | _, [], h => by simp [printAll] at h
  | first, (r, single) :: rest, h => by
    simp only [printAll, printResult, List.mem_append] at h
    rcases h with (h | h) | h
    · obtain ⟨row, hr, hl⟩ := mem_printRows_json o r.columns l first r.rows h
      exact Or.inr ⟨(r.columns, row), by simp only [allRows, List.mem_append, List.mem_map]; exact Or.inl ⟨row, hr, rfl⟩, hl⟩
    · unfold separatorLines at h
      split at h
      · simp only [List.mem_singleton] at h; exact Or.inl h
      · cases h
    · cases mem_printAll_json o l _ rest h with
      | inl h => exact Or.inl h
      | inr h =>
        obtain ⟨cr, hcr, hl⟩ := h
        exact Or.inr ⟨cr, by simp only [allRows, List.mem_append]; exact Or.inr hcr, hl⟩

end Sqlgrep.Print
