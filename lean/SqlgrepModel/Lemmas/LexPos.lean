import SqlgrepModel.Lemmas.LexRun
/-
Locations: the lines of a text (the unique split at `\n`), what "inside the text" means for a location, and the
invariant that every location the tokenizer produces — token locations and error locations — is inside the text.
-/
set_option linter.unusedSimpArgs false
namespace Sqlgrep.Lex
open Sqlgrep

/-! ### the lines of a text -/

/-- `(complete lines, current line)` while reading a text from the left -/
def splitStep (s : List (List Char) × List Char) (c : Char) : List (List Char) × List Char :=
  if c = '\n' then (s.1 ++ [s.2], []) else (s.1, s.2 ++ [c])

def splitFold (text : List Char) : List (List Char) × List Char := text.foldl splitStep ([], [])

/-- the split of a text at `\n`: one more piece than there are `\n` (the last piece may be empty) -/
def textLines (text : List Char) : List (List Char) := (splitFold text).1 ++ [(splitFold text).2]

/-- a location lies inside the text: its line exists and its column is at most the length of that line -/
def Inside (text : List Char) (loc : Loc) : Prop :=
  ∃ l, (textLines text)[loc.line]? = some l ∧ loc.column ≤ l.length

theorem splitFold_snoc (pre : List Char) (c : Char) : splitFold (pre ++ [c]) = splitStep (splitFold pre) c := by
  simp [splitFold, List.foldl_append]

/-- reading on never moves a location out of the text -/
theorem Inside.snoc {pre : List Char} {loc : Loc} (h : Inside pre loc) (c : Char) : Inside (pre ++ [c]) loc := by
  obtain ⟨l, hl, hc⟩ := h
  unfold Inside textLines at *
  rw [splitFold_snoc]
  generalize splitFold pre = s at hl ⊢
  obtain ⟨d, cur⟩ := s
  simp only at hl
  unfold splitStep
  by_cases hn : c = '\n'
  · simp only [hn, if_true]
    refine ⟨l, ?_, hc⟩
    rw [List.getElem?_append_left (by
      have := (List.getElem?_eq_some_iff.mp hl).1
      simpa using this)]
    exact hl
  · simp only [hn, if_false]
    by_cases hlt : loc.line < d.length
    · rw [List.getElem?_append_left hlt] at hl ⊢
      exact ⟨l, hl, hc⟩
    · have hlen := (List.getElem?_eq_some_iff.mp hl).1
      simp only [List.length_append, List.length_cons, List.length_nil] at hlen
      have he : loc.line = d.length := by omega
      rw [he, List.getElem?_append_right (Nat.le_refl _)] at hl ⊢
      simp only [Nat.sub_self, List.getElem?_cons_zero, Option.some.injEq] at hl ⊢
      subst hl
      exact ⟨_, rfl, by simp; omega⟩

theorem Inside.append {pre : List Char} {loc : Loc} (h : Inside pre loc) (rest : List Char) : Inside (pre ++ rest) loc := by
  induction rest generalizing pre with
  | nil => simpa using h
  | cons c rest ih =>
    have := ih (h.snoc c)
    simpa using this

/-- the text put together again from `(complete lines, current line)` -/
def unsplit (s : List (List Char) × List Char) : List Char := s.1.flatMap (· ++ ['\n']) ++ s.2

theorem unsplit_step (s : List (List Char) × List Char) (c : Char) : unsplit (splitStep s c) = unsplit s ++ [c] := by
  unfold splitStep unsplit
  split
  · rename_i h; simp [h]
  · simp

theorem unsplit_foldl (text : List Char) : ∀ s, unsplit (text.foldl splitStep s) = unsplit s ++ text := by
  induction text with
  | nil => intro s; simp
  | cons c text ih => intro s; rw [List.foldl_cons, ih, unsplit_step]; simp

/-- the lines, each complete one followed by `\n`, give the text back: nothing is lost, added or reordered -/
theorem unsplit_splitFold (text : List Char) : unsplit (splitFold text) = text := by
  have := unsplit_foldl text ([], [])
  simpa [unsplit, splitFold] using this

theorem noNl_foldl (text : List Char) : ∀ s : List (List Char) × List Char, (∀ l ∈ s.1, '\n' ∉ l) → '\n' ∉ s.2 →
    (∀ l ∈ (text.foldl splitStep s).1, '\n' ∉ l) ∧ '\n' ∉ (text.foldl splitStep s).2 := by
  induction text with
  | nil => intro s h1 h2; exact ⟨h1, h2⟩
  | cons c text ih =>
    intro s h1 h2
    rw [List.foldl_cons]
    apply ih
    · unfold splitStep
      split
      · intro l hl
        simp only [List.mem_append, List.mem_cons, List.not_mem_nil, or_false] at hl
        rcases hl with hl | rfl
        · exact h1 l hl
        · exact h2
      · exact h1
    · unfold splitStep
      split
      · simp
      · rename_i hc
        simp only [List.mem_append, List.mem_cons, List.not_mem_nil, or_false, not_or]
        exact ⟨h2, fun e => hc e.symm⟩

/-- no line contains a line break -/
theorem textLines_noNl (text : List Char) : ∀ l ∈ textLines text, '\n' ∉ l := by
  have := noNl_foldl text ([], []) (fun _ h => by cases h) (by simp)
  intro l hl
  unfold textLines at hl
  simp only [List.mem_append, List.mem_cons, List.not_mem_nil, or_false] at hl
  rcases hl with hl | rfl
  · exact this.1 l hl
  · exact this.2

/-! ### the position part of the state -/

structure Pos where
  line : Nat
  col : Nat
  start : Nat
  locs : List Loc

def St.pos (st : St) : Pos := ⟨st.line, st.col, st.start, st.toks.map (·.loc)⟩

def Pos.add (p : Pos) : Pos := ⟨p.line, p.col, p.col, ⟨p.line, p.start⟩ :: p.locs⟩

def Pos.advance (p : Pos) (c : Char) : Pos :=
  if c = '\n' then ⟨p.line + 1, 0, 0, p.locs⟩ else ⟨p.line, p.col + 1, p.start, p.locs⟩

/-- the position bookkeeping agrees with the text read so far, and every token location is inside it -/
structure GoodPos (pre : List Char) (p : Pos) : Prop where
  line : p.line = (splitFold pre).1.length
  col : p.col = (splitFold pre).2.length
  start : p.start ≤ p.col
  locs : ∀ loc ∈ p.locs, Inside pre loc

theorem GoodPos.here {pre : List Char} {p : Pos} (h : GoodPos pre p) {c : Nat} (hc : c ≤ p.col) : Inside pre ⟨p.line, c⟩ := by
  refine ⟨(splitFold pre).2, ?_, by rw [← h.col]; exact hc⟩
  unfold textLines
  rw [h.line, List.getElem?_append_right (Nat.le_refl _)]
  simp

theorem GoodPos.add {pre : List Char} {p : Pos} (h : GoodPos pre p) : GoodPos pre p.add :=
  ⟨h.line, h.col, Nat.le_refl _, by
    intro loc hl
    simp only [Pos.add, List.mem_cons] at hl
    rcases hl with rfl | hl
    · exact h.here h.start
    · exact h.locs loc hl⟩

theorem GoodPos.tail {pre : List Char} {p : Pos} (h : GoodPos pre p) : GoodPos pre { p with locs := p.locs.tail } :=
  ⟨h.line, h.col, h.start, fun loc hl => h.locs loc (List.mem_of_mem_tail hl)⟩

theorem GoodPos.advance {pre : List Char} {p : Pos} (h : GoodPos pre p) (c : Char) : GoodPos (pre ++ [c]) (p.advance c) := by
  unfold Pos.advance
  by_cases hn : c = '\n'
  · simp only [hn, if_true]
    refine ⟨?_, ?_, Nat.le_refl _, fun loc hl => (h.locs loc hl).snoc _⟩
    · simp [splitFold_snoc, splitStep, h.line]
    · simp [splitFold_snoc, splitStep]
  · simp only [hn, if_false]
    refine ⟨?_, ?_, Nat.le_succ_of_le h.start, fun loc hl => (h.locs loc hl).snoc _⟩
    · simp [splitFold_snoc, splitStep, hn, h.line]
    · simp [splitFold_snoc, splitStep, hn, h.col]

/-- a character consumed by an inner loop (never a line break) -/
theorem GoodPos.consume {pre : List Char} {p : Pos} (h : GoodPos pre p) {c : Char} (hn : c ≠ '\n') :
    GoodPos (pre ++ [c]) { p with col := p.col + 1 } := by
  have := h.advance c
  simp only [Pos.advance, hn, if_false] at this
  exact this

/-! ### the effect of the model's functions on the position part -/

theorem pos_add (st : St) (t : Tok) : (st.add t).pos = st.pos.add := rfl

theorem pos_setLast (st : St) (t : Tok) : (st.setLast t).pos = st.pos := by
  unfold St.setLast
  cases h : st.toks with
  | nil => rfl
  | cons p rest => simp [St.pos, h]

theorem pos_advance (st : St) (c : Char) : (st.advance c).pos = st.pos.advance c := by
  unfold St.advance Pos.advance
  split <;> rfl

theorem pos_dashCheck (st : St) : st.dashCheck.pos = st.pos ∨ st.dashCheck.pos = { st.pos with locs := st.pos.locs.tail } := by
  unfold St.dashCheck
  split
  · right; simp [St.pos, List.map_tail]
  · left; rfl

/-- every function of the loop body leaves the position part alone or performs one `add` -/
def SamePosOrAdd (p q : Pos) : Prop := q = p ∨ q = p.add

theorem pos_addOp (st : St) (c : Char) : (addOp st c).pos = st.pos.add := rfl

theorem pos_operator (st : St) (adj : Bool) (c : Char) : SamePosOrAdd st.pos (operator st adj c).pos := by
  unfold operator
  split
  · split
    · split
      · left; exact pos_setLast _ _
      · split
        · left; exact pos_setLast _ _
        · right; rfl
    · right; rfl
  · right; rfl

theorem pos_classify (o : Oracles) (st : St) (adj : Bool) (c : Char) : SamePosOrAdd st.pos (classify o st adj c).pos := by
  unfold classify
  extract_lets i
  by_cases h1 : i.alpha = true
  · rw [if_pos h1]; left; rfl
  rw [if_neg h1]
  by_cases h2 : i.numeric = true
  · rw [if_pos h2]; left; rfl
  rw [if_neg h2]
  by_cases h3 : c = '('
  · rw [if_pos h3]; right; rfl
  rw [if_neg h3]
  by_cases h4 : c = ')'
  · rw [if_pos h4]; right; rfl
  rw [if_neg h4]
  by_cases h5 : c = '['
  · rw [if_pos h5]; right; rfl
  rw [if_neg h5]
  by_cases h6 : c = ']'
  · rw [if_pos h6]; right; rfl
  rw [if_neg h6]
  by_cases h7 : c = '{'
  · rw [if_pos h7]; right; rfl
  rw [if_neg h7]
  by_cases h8 : c = '}'
  · rw [if_pos h8]; right; rfl
  rw [if_neg h8]
  by_cases h9 : c = ','
  · rw [if_pos h9]; right; rfl
  rw [if_neg h9]
  by_cases h10 : c = ';'
  · rw [if_pos h10]; right; rfl
  rw [if_neg h10]
  by_cases h11 : c = ':'
  · rw [if_pos h11]
    split
    · left; exact pos_setLast _ _
    · right; rfl
  rw [if_neg h11]
  by_cases h12 : i.white = true
  · rw [if_pos h12]; left; rfl
  rw [if_neg h12]
  exact pos_operator _ _ _

theorem pos_quote (st : St) : SamePosOrAdd st.pos (quote st).pos := by
  unfold quote
  split
  · right; rfl
  · left; rfl

theorem pos_addKeyword (st : St) (k : Keyword) : SamePosOrAdd st.pos (addKeyword st k).pos := by
  unfold addKeyword
  split
  · left; exact pos_setLast _ _
  · left; exact pos_setLast _ _
  · right; rfl

theorem pos_flushIdent (o : Oracles) (st : St) (w : List Char) : SamePosOrAdd st.pos (flushIdent o st w).pos := by
  unfold flushIdent
  simp only
  split
  · exact pos_addKeyword _ _
  · repeat' split
    all_goals (right; rfl)

theorem GoodPos.sameOrAdd {pre : List Char} {p q : Pos} (h : GoodPos pre p) (hq : SamePosOrAdd p q) : GoodPos pre q := by
  rcases hq with rfl | rfl
  · exact h
  · exact h.add


/-! ### the invariant along the fold -/

theorem body_good (o : Oracles) {pre : List Char} {st : St} (c : Char) (h : GoodPos pre st.pos) :
    GoodPos (pre ++ [c]) (body o st c).pos := by
  have h1 : GoodPos (pre ++ [c]) (st.advance c).dashCheck.pos := by
    have ha := h.advance c
    rw [← pos_advance] at ha
    rcases pos_dashCheck (st.advance c) with e | e
    · rw [e]; exact ha
    · rw [e]; exact ha.tail
  unfold body
  generalize (st.advance c).dashCheck = s at h1 ⊢
  simp only
  split
  · split
    · exact h1
    · exact h1
  · split
    · exact h1
    · split
      · exact h1.sameOrAdd (pos_quote s)
      · split
        · exact h1
        · exact h1.sameOrAdd (pos_classify o _ _ c)

/-- what the invariant says about a step result -/
def ROk (pre : List Char) (r : R) : Prop :=
  match r with
  | .run st' => GoodPos pre st'.pos
  | .fail loc _ => Inside pre loc
  | .missing _ => True

theorem ROk.bind_body (o : Oracles) {pre : List Char} {r : R} (c : Char) (h : ROk pre r) :
    ROk (pre ++ [c]) (r.bind (fun st => .run (body o st c))) := by
  cases r with
  | run st' => exact body_good o c h
  | fail loc e => exact Inside.snoc h c
  | missing w => trivial

theorem flushNumber_good (o : Oracles) {pre : List Char} {st : St} (w : List Char) (d : Bool) (h : GoodPos pre st.pos) :
    ROk pre (flushNumber o st w d) := by
  unfold flushNumber
  split
  · split
    · exact h.add
    · exact h.here (Nat.le_refl _)
    · split
      · exact h.add
      · exact h.here (Nat.le_refl _)
  · split
    · exact h.add
    · exact h.here (Nat.le_refl _)

theorem flush_good (o : Oracles) {pre : List Char} {st : St} (h : GoodPos pre st.pos) : ROk pre (flush o st) := by
  unfold flush
  split
  · exact h
  · exact h.sameOrAdd (pos_flushIdent o _ _)
  · exact flushNumber_good o _ _ h

theorem not_nl_of_wordCont (o : Oracles) {c : Char} (h : isWordCont o c = true) : c ≠ '\n' := by
  intro e; subst e
  have := (info_special o '\n' (by decide)).2.2.1
  simp [isWordCont, this] at h

theorem not_nl_of_numeric (o : Oracles) {c : Char} (h : (o.info c).numeric = true) : c ≠ '\n' := by
  intro e; subst e
  rw [(info_special o '\n' (by decide)).2.1] at h
  exact Bool.noConfusion h

theorem step_good (o : Oracles) {pre : List Char} {st : St} (c : Char) (h : GoodPos pre st.pos) :
    ROk (pre ++ [c]) (step o st c) := by
  have after_flush : ROk (pre ++ [c]) ((flush o st).bind (fun st => .run (body o st c))) :=
    (flush_good o h).bind_body o c
  unfold step
  split
  · exact body_good o c h
  · split
    · rename_i hc
      exact h.consume (not_nl_of_wordCont o (by simpa [isWordCont] using hc))
    · exact after_flush
  · split
    · rename_i hc
      exact h.consume (not_nl_of_numeric o hc)
    · split
      · split
        · exact (h.here (Nat.le_refl _)).snoc c
        · rename_i hd _
          exact h.consume (by rw [hd]; decide)
      · exact after_flush

theorem run_good (o : Oracles) (rest : List Char) : ∀ {pre : List Char} {st : St}, GoodPos pre st.pos →
    ROk (pre ++ rest) (run o st rest) := by
  induction rest with
  | nil => intro pre st h; simpa [ROk] using h
  | cons c rest ih =>
    intro pre st h
    rw [run_cons]
    have hs := step_good o c h
    cases hst : step o st c with
    | run st' =>
      rw [hst] at hs
      have := ih hs
      simpa using this
    | fail loc e =>
      rw [hst] at hs
      have : Inside (pre ++ [c] ++ rest) loc := Inside.append hs rest
      simpa [ROk] using this
    | missing w => trivial

theorem init_good : GoodPos [] ({} : St).pos := ⟨rfl, rfl, Nat.le_refl _, fun _ h => by cases h⟩

theorem pos_close (st : St) : ∃ q, st.close.pos = q.add ∧ (q = st.pos ∨ q = { st.pos with locs := st.pos.locs.tail }) := by
  unfold St.close
  split
  · exact ⟨{ st.pos with locs := st.pos.locs.tail }, by simp [St.pos, St.add, Pos.add, List.map_tail], Or.inr rfl⟩
  · exact ⟨st.pos, rfl, Or.inl rfl⟩

/-- every location in the result of `tokenize` — of a token or of the error — is inside the text -/
theorem tokenize_inside (o : Oracles) (text : List Char) :
    match tokenize o text with
    | .ok ts => ∀ p ∈ ts, Inside text p.loc
    | .error loc _ => Inside text loc
    | .missing _ => True := by
  have hr := run_good o text init_good
  simp only [List.nil_append] at hr
  unfold ROk at hr
  unfold tokenize
  cases hrun : run o {} text with
  | run st =>
    rw [hrun] at hr
    simp only [R.bind_run]
    unfold finish
    have hf := flush_good o hr
    unfold ROk at hf
    cases hfl : flush o st with
    | run st' =>
      rw [hfl] at hf
      simp only [R.bind_run]
      intro p hp
      obtain ⟨q, hq, hq'⟩ := pos_close st'
      have hg : GoodPos text st'.close.pos := by
        rw [hq]
        rcases hq' with rfl | rfl
        · exact hf.add
        · exact hf.tail.add
      exact hg.locs p.loc (by
        simp only [St.pos, List.mem_map]
        exact ⟨p, by simpa using hp, rfl⟩)
    | fail loc e => rw [hfl] at hf; exact hf
    | missing w => trivial
  | fail loc e => rw [hrun] at hr; exact hr
  | missing w => trivial

/-- a successful result ends in the `End` token -/
theorem tokenize_ends_eof (o : Oracles) (text : List Char) (ts : List PTok) (h : tokenize o text = .ok ts) :
    ∃ init loc, ts = init ++ [⟨loc, .eof⟩] := by
  unfold tokenize at h
  cases hrun : (run o {} text).bind (finish o) with
  | run st =>
    rw [hrun] at h
    simp only [Result.ok.injEq] at h
    have : ∃ st0, st = St.close st0 := by
      cases hr : run o {} text with
      | run s1 =>
        rw [hr] at hrun
        simp only [R.bind_run, finish] at hrun
        cases hf : flush o s1 with
        | run s2 => rw [hf] at hrun; simp only [R.bind_run, R.run.injEq] at hrun; exact ⟨s2, hrun.symm⟩
        | fail l e => rw [hf] at hrun; cases hrun
        | missing w => rw [hf] at hrun; cases hrun
      | fail l e => rw [hr] at hrun; cases hrun
      | missing w => rw [hr] at hrun; cases hrun
    obtain ⟨st0, rfl⟩ := this
    refine ⟨(if st0.lastTok = some dashDash then st0.toks.tail else st0.toks).reverse, ⟨st0.line, st0.start⟩, ?_⟩
    rw [← h]
    unfold St.close St.add
    split <;> simp
  | fail l e => rw [hrun] at h; cases h
  | missing w => rw [hrun] at h; cases h

/-- **`missing` never happens**: a number text without a shipped `f64::from_str` fact is converted by
`DecFloat.parseF64`, so the tokenizer needs no oracle for numbers (before `Model/DecFloat.lean` existed this was
"`missing` can only come from the float oracle") -/
theorem tokenize_never_missing (o : Oracles) (text : List Char) (w : List Char) : tokenize o text ≠ .missing w := by
  intro h
  have flushN : ∀ st w' d, flushNumber o st w' d = .missing w → False := by
    intro st w' d hh
    unfold flushNumber at hh
    split at hh
    · split at hh
      · cases hh
      · cases hh
      · split at hh <;> cases hh
    · split at hh <;> cases hh
  have flushM : ∀ st, flush o st = .missing w → False := by
    intro st hh
    unfold flush at hh
    split at hh
    · cases hh
    · cases hh
    · exact flushN _ _ _ hh
  have stepM : ∀ st c, step o st c = .missing w → False := by
    intro st c hh
    unfold step at hh
    split at hh
    · cases hh
    · split at hh
      · cases hh
      · cases hf : flush o st with
        | run s => rw [hf] at hh; cases hh
        | fail l e => rw [hf] at hh; cases hh
        | missing w' => rw [hf] at hh; simp only [R.bind_missing, R.missing.injEq] at hh; subst hh; exact flushM _ hf
    · split at hh
      · cases hh
      · split at hh
        · split at hh <;> cases hh
        · cases hf : flush o st with
          | run s => rw [hf] at hh; cases hh
          | fail l e => rw [hf] at hh; cases hh
          | missing w' => rw [hf] at hh; simp only [R.bind_missing, R.missing.injEq] at hh; subst hh; exact flushM _ hf
  have runM : ∀ (cs : List Char) st, run o st cs = .missing w → False := by
    intro cs
    induction cs with
    | nil => intro st hh; cases hh
    | cons c cs ih =>
      intro st hh
      rw [run_cons] at hh
      cases hs : step o st c with
      | run s => rw [hs] at hh; exact ih s hh
      | fail l e => rw [hs] at hh; cases hh
      | missing w' => rw [hs] at hh; simp only [R.bind_missing, R.missing.injEq] at hh; subst hh; exact stepM _ _ hs
  unfold tokenize at h
  cases hr : run o {} text with
  | run s =>
    rw [hr] at h
    simp only [R.bind_run, finish] at h
    cases hf : flush o s with
    | run s2 => rw [hf] at h; cases h
    | fail l e => rw [hf] at h; cases h
    | missing w' => rw [hf] at h; simp only [R.bind_missing, Result.missing.injEq] at h; subst h; exact flushM _ hf
  | fail l e => rw [hr] at h; cases h
  | missing w' => rw [hr] at h; simp only [R.bind_missing, Result.missing.injEq] at h; subst h; exact runM _ _ hr

/-- (kept for its users) a `missing` result would come from the float oracle — vacuous since `tokenize_never_missing` -/
theorem tokenize_missing (o : Oracles) (text : List Char) (w : List Char) (h : tokenize o text = .missing w) :
    o.fparse w = .missing := absurd h (tokenize_never_missing o text w)

end Sqlgrep.Lex
