import SqlgrepModel.Lemmas.IterOrder
/-
Every engine operation respects `StRel` (same maps, any iteration order of the inner hash maps) and gives
equal outputs on related states; `publishPercentiles` — the one loop of the code that iterates a hash map —
is independent of the iteration order.
-/
namespace Sqlgrep.Iter
open Sqlgrep

/-! ### updates -/

theorem updateAggregate_rel (O : Oracles) (q : AggStmt) (env : Env) (key : List Value) (idx : Nat) (k : AggKind)
    {a b : AggState} (h : StRel a b) :
    ORel StRel (updateAggregate O q env key idx k a) (updateAggregate O q env key idx k b) := by
  unfold updateAggregate
  rw [h.readCell]
  exact ORel.bind (ORel.refl _) (fun c c' e => by subst e; exact h.writeCell key idx c)

theorem updateAggregates_rel (O : Oracles) (q : AggStmt) (env : Env) (key : List Value) (l : List (Nat × AggKind))
    {a b : AggState} (h : StRel a b) :
    ORel StRel (updateAggregates O q env key l a) (updateAggregates O q env key l b) := by
  induction l generalizing a b with
  | nil => exact h
  | cons p rest ih =>
    obtain ⟨i, k⟩ := p
    unfold updateAggregates
    exact ORel.bind (updateAggregate_rel O q env key i k h) (fun _ _ h' => ih h')

theorem havingUpdates_rel (O : Oracles) (q : AggStmt) (env : Env) (key : List Value) (l : List HavingRef) (j : Nat)
    {a b : AggState} (h : StRel a b) :
    ORel StRel (havingUpdates O q env key l j a) (havingUpdates O q env key l j b) := by
  induction l generalizing a b j with
  | nil => exact h
  | cons r rest ih =>
    cases r with
    | key canon =>
      unfold havingUpdates
      exact ORel.bind (ORel.refl _) (fun _ _ _ => ih j h)
    | agg id kind =>
      unfold havingUpdates
      exact ORel.bind (updateAggregate_rel O q env key _ kind h) (fun _ _ h' => ih (j + 1) h')

def PairRel (p1 p2 : AggState × Bool) : Prop := StRel p1.1 p2.1 ∧ p1.2 = p2.2

theorem aggUpdateRow_rel (O : Oracles) (q : AggStmt) (env : Env) {a b : AggState} (h : StRel a b) :
    ORel PairRel (aggUpdateRow O q a env) (aggUpdateRow O q b env) := by
  unfold aggUpdateRow
  refine ORel.bind (ORel.refl _) (fun valid valid' e => ?_)
  subst e
  by_cases hv : valid = true
  · simp only [hv, Bool.not_true, Bool.false_eq_true, if_false]
    refine ORel.bind (ORel.refl _) (fun key key' e => ?_)
    subst e
    refine ORel.bind (updateAggregates_rel O q env key _ h) (fun s s' hs => ?_)
    refine ORel.bind (R := StRel) ?_ (fun s s' hs' => ⟨hs', rfl⟩)
    cases q.having with
    | none => exact hs
    | some _ => exact havingUpdates_rel O q env key _ 0 hs
  · have : valid = false := by simpa using hv
    simp only [this, Bool.not_false, if_true]
    exact ⟨h, rfl⟩

/-! ### the percentile publishing loop: the hash-map iteration -/

/-- what the loop body does for one entry of the inner hash map of group `key` -/
def pubStep (key : List Value) (st : AggState) (e : Nat × Aggregator) : AggState :=
  match e.2 with
  | .percentile vals p =>
    match percentileValue vals p with
    | some v => setVal st key e.1 v
    | none => st
  | _ => st

theorem publishPercentiles_eq (st : AggState) :
    publishPercentiles st = st.aggs.foldl (fun acc g => g.2.foldl (pubStep g.1) acc) st := by
  rfl

theorem pubStep_rel (key : List Value) {a b : AggState} (h : StRel a b) (e : Nat × Aggregator) :
    StRel (pubStep key a e) (pubStep key b e) := by
  unfold pubStep
  cases he : e.2 with
  | percentile vals p =>
    dsimp only
    cases percentileValue vals p with
    | none => exact h
    | some v => exact h.setVal key e.1 v
  | _ => exact h

theorem pubStep_aggs (key : List Value) (a : AggState) (e : Nat × Aggregator) : (pubStep key a e).aggs = a.aggs := by
  unfold pubStep
  cases he : e.2 with
  | percentile vals p =>
    dsimp only
    cases percentileValue vals p <;> rfl
  | _ => rfl

theorem pubStep_comm (key : List Value) {a b : AggState} (h : StRel a b) (x y : Nat × Aggregator) (hxy : x.1 ≠ y.1) :
    StRel (pubStep key (pubStep key a x) y) (pubStep key (pubStep key b y) x) := by
  unfold pubStep
  cases hx2 : x.2 with
  | percentile vx px =>
    dsimp only
    cases hpx : percentileValue vx px with
    | some v =>
      dsimp only
      cases hy2 : y.2 with
      | percentile vy py =>
        dsimp only
        cases hpy : percentileValue vy py with
        | some w => exact ⟨h.aggs, h.vals.set_comm key x.1 y.1 v w hxy⟩
        | none => exact h.setVal key x.1 v
      | _ => exact h.setVal key x.1 v
    | none =>
      dsimp only
      cases hy2 : y.2 with
      | percentile vy py =>
        dsimp only
        cases hpy : percentileValue vy py with
        | some w => exact h.setVal key y.1 w
        | none => exact h
      | _ => exact h
  | _ =>
    dsimp only
    cases hy2 : y.2 with
    | percentile vy py =>
      dsimp only
      cases hpy : percentileValue vy py with
      | some w => exact h.setVal key y.1 w
      | none => exact h
    | _ => exact h

theorem foldl_pubStep_rel (key : List Value) (l : List (Nat × Aggregator)) {a b : AggState} (h : StRel a b) :
    StRel (l.foldl (pubStep key) a) (l.foldl (pubStep key) b) := by
  induction l generalizing a b with
  | nil => exact h
  | cons x l ih => exact ih (pubStep_rel key h x)

/-- **the iteration order of the inner hash map does not matter**: folding the publishing step over any
permutation of the entries gives the same maps -/
theorem foldl_pubStep_perm (key : List Value) {l1 l2 : List (Nat × Aggregator)} (p : l1.Perm l2)
    (hn : (keys l1).Nodup) {a b : AggState} (h : StRel a b) :
    StRel (l1.foldl (pubStep key) a) (l2.foldl (pubStep key) b) := by
  induction p generalizing a b with
  | nil => exact h
  | cons x _ ih =>
    simp only [List.foldl_cons]
    exact ih (List.nodup_cons.1 hn).2 (pubStep_rel key h x)
  | swap x y l =>
    simp only [List.foldl_cons]
    have hne : y.1 ≠ x.1 := by
      have := (List.nodup_cons.1 hn).1
      intro e
      apply this
      simp [e]
    exact foldl_pubStep_rel key l (pubStep_comm key h y x hne)
  | trans p1 _ ih1 ih2 =>
    have hn2 := (List.Perm.map (·.1) p1).nodup hn
    exact (ih1 hn h).trans (ih2 hn2 (h.symm.trans h))

theorem foldl_pubStep_aggs (key : List Value) (l : List (Nat × Aggregator)) (a : AggState) :
    (l.foldl (pubStep key) a).aggs = a.aggs := by
  induction l generalizing a with
  | nil => rfl
  | cons x l ih => rw [List.foldl_cons, ih, pubStep_aggs]

theorem publish_groups_rel {g1 g2 : GroupMap Aggregator} (hg : GmEq g1 g2) {a b : AggState} (h : StRel a b) :
    StRel (g1.foldl (fun acc g => g.2.foldl (pubStep g.1) acc) a) (g2.foldl (fun acc g => g.2.foldl (pubStep g.1) acc) b) := by
  induction hg generalizing a b with
  | nil => exact h
  | cons hs _ ih =>
    simp only [List.foldl_cons]
    exact ih (foldl_pubStep_perm _ hs.perm hs.2.1 h)

/-- `publishPercentiles` on two representations of the same state (any iteration orders) gives the same state -/
theorem publishPercentiles_rel {a b : AggState} (h : StRel a b) : StRel (publishPercentiles a) (publishPercentiles b) := by
  rw [publishPercentiles_eq, publishPercentiles_eq]
  exact publish_groups_rel h.aggs h

end Sqlgrep.Iter
