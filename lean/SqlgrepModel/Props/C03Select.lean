import SqlgrepModel.Lemmas.SelectRun
import SqlgrepModel.Model.Lower
/-
C03 (statement level) — a query without aggregates outputs, in input order, exactly one row for every admitted
input row on which WHERE is true, containing the projected expressions evaluated on that row alone; `*` expands
to all columns in definition order; `input` denotes the raw line; column names are the alias, else the column
name, else p<i>.

`Spec.Select` is the sentence as an executable definition (rows of a line = WHERE then projections on that
line's own environment; the run = the lines' rows in order). The refinement `runBatch = spec` is proved in
`Lemmas/SelectRun.lean` (for any number of files, with joins, DISTINCT and LIMIT); here it is stated for the
plain statements C03 speaks about, together with the facts about `*`, `input` and the names.
-/
namespace Sqlgrep.Props.C03Select
open Sqlgrep Sqlgrep.Spec.Select

/-- **the run is the specification**: whenever every line of the input evaluates (no error on any processed row —
the error case is `error_is_reported` below), the batch run of a non-aggregate statement prints exactly the
specified rows: the lines' rows, in input order, after DISTINCT and LIMIT -/
theorem select_run_is_spec (O : Oracles) (qy : Query) (q : SelectStmt) (hq : qy.stmt = .select q)
    (joined : List FileLine) (files : List (List FileLine)) (blocks : List (List (List Value)))
    (hb : batchBlocks O qy q joined files = some blocks) :
    runBatch O qy joined files none = runOf qy q blocks :=
  runBatch_select_eq_spec O qy q hq joined files blocks hb

/-- without DISTINCT and LIMIT the output is the rows of the lines, in input order, nothing else; every line is read -/
theorem plain_select_output (O : Oracles) (qy : Query) (q : SelectStmt) (hq : qy.stmt = .select q)
    (hd : q.distinct = false) (hl : q.limit = none)
    (joined : List FileLine) (files : List (List FileLine)) (blocks : List (List (List Value)))
    (hb : batchBlocks O qy q joined files = some blocks) :
    (runBatch O qy joined files none).printed = render (columnsOf qy q) blocks ∧
    (runBatch O qy joined files none).totalLines = blocks.length ∧
    (runBatch O qy joined files none).error = none := by
  rw [runBatch_select_eq_spec O qy q hq joined files blocks hb]
  simp [runOf, outBlocks, applyLimit, applyDistinct, linesConsumed, hd, hl]

/-- a line that is not admitted contributes no row -/
theorem not_admitted_no_row (O : Oracles) (qy : Query) (q : SelectStmt) (idx : JoinIndex) (l : Line)
    (h : anyResult l.row = false) : lineRows O qy q idx l = .ok [] := by
  simp [lineRows, h]

/-- **one row per qualifying row, evaluated on that row alone**: without a join, the rows of an admitted line are
decided by that line's own environment (its columns, their table-qualified names and `input`): the projected
values if WHERE is true on it, nothing otherwise — no other line, no state enters -/
theorem one_row_per_qualifying_row (O : Oracles) (qy : Query) (q : SelectStmt) (idx : JoinIndex) (l : Line)
    (hj : qy.join = none) (ha : anyResult l.row = true) :
    lineRows O qy q idx l =
      (envRow O q (envOfInsertions (columnsMapping qy.table l.row l.text)) qy.table.columns).bind
        (fun r => .ok r.toList) := by
  simp only [lineRows, ha, Bool.not_true, Bool.false_eq_true, if_false, lineEnvs, hj]
  show Outcome.bind _ _ = _
  simp only [Outcome.bind, envsRows]
  cases envRow O q (envOfInsertions (columnsMapping qy.table l.row l.text)) qy.table.columns <;>
    simp [Bind.bind, Outcome.bind, Pure.pure]

/-- at most one row per line (no join) -/
theorem at_most_one_row (O : Oracles) (qy : Query) (q : SelectStmt) (idx : JoinIndex) (l : Line) (rows : List (List Value))
    (hj : qy.join = none) (h : lineRows O qy q idx l = .ok rows) : rows.length ≤ 1 := by
  by_cases ha : anyResult l.row = true
  · rw [one_row_per_qualifying_row O qy q idx l hj ha] at h
    cases hr : envRow O q (envOfInsertions (columnsMapping qy.table l.row l.text)) qy.table.columns with
    | ok r =>
      rw [hr] at h
      simp only [Outcome.bind, Outcome.ok.injEq] at h
      rw [← h]; cases r <;> simp
    | error k => rw [hr] at h; simp [Outcome.bind] at h
    | panic s => rw [hr] at h; simp [Outcome.bind] at h
    | oracleMissing w => rw [hr] at h; simp [Outcome.bind] at h
  · have : anyResult l.row = false := by simpa using ha
    rw [not_admitted_no_row O qy q idx l this] at h
    simp only [Outcome.ok.injEq] at h
    rw [← h]; simp

/-- `*` names the columns in definition order -/
theorem wildcard_is_definition_order (qy : Query) (q : SelectStmt) (hw : q.wildcard = true) (hj : qy.join = none) :
    columnsOf qy q = qy.table.columns := by
  simp [columnsOf, outNames, queryKeys, hw, hj]

/-- … and evaluates them in that order -/
theorem wildcard_values_definition_order (q : SelectStmt) (keys : List String) (hw : q.wildcard = true) :
    outExprs q keys = keys.map Expr.column := by
  simp [outExprs, hw]

/-- `input` denotes the raw line (whatever the columns are called: the binding for `input` is made last) -/
theorem input_is_raw_line (O : Oracles) (t : TableInfo) (row : List Value) (line : Bytes) :
    eval O (envOfInsertions (columnsMapping t row line)) (.column "input") = .ok (.text line) := by
  have : (envOfInsertions (columnsMapping t row line)).get .table "input" = some (.text line) := by
    simp [envOfInsertions, columnsMapping, Env.get, List.reverse_append]
  rw [eval, this]
  rfl

/-- an expression without a value on a processed row makes the run report an error, not emit a row: the
specification has no answer then, and the model's run carries the error -/
theorem error_is_reported (O : Oracles) (qy : Query) (idx : JoinIndex) (w : Bool) (ls : LoopState) (fl : FileLine)
    (rest : List FileLine) (k : ErrKind) (hr : fl.readable = true)
    (hx : executeLine O qy idx w ls.es fl.line = .error k) :
    (runFile O qy idx w none (fl :: rest) ls).out.error = some k ∧
    (runFile O qy idx w none (fl :: rest) ls).out.printed = ls.out.printed := by
  simp [runFile, hr, hx, failWith]

/-- **column names: the alias, else the column name, else p<i>** — for every select list that lowers, the j-th
output column is named by its alias if it has one, else by the column it plainly accesses, else `p<i+j>` -/
theorem projection_names (ps : List (Option (List Char) × PExpr)) (i : Nat) (out : List (String × Expr))
    (h : Lower.lowerProjections ps i = .ok out) :
    out.length = ps.length ∧
    ∀ j (hj : j < ps.length) (hj' : j < out.length),
      out[j].1 = match ps[j].1 with
        | some a => Lower.str a
        | none => match out[j].2 with
          | .column c => c
          | _ => "p" ++ toString (i + j) := by
  induction ps generalizing i out with
  | nil =>
    simp only [Lower.lowerProjections, LRes.ok.injEq] at h
    subst h
    exact ⟨rfl, fun j hj => absurd hj (by simp)⟩
  | cons p rest ih =>
    obtain ⟨name, tree⟩ := p
    unfold Lower.lowerProjections at h
    cases he : Lower.lowerPlain tree with
    | ok e =>
      rw [he] at h
      simp only at h
      cases hr : Lower.lowerProjections rest (i + 1) with
      | ok psr =>
        rw [hr] at h
        simp only [LRes.ok.injEq] at h
        subst h
        obtain ⟨hlen, hnames⟩ := ih (i + 1) psr hr
        refine ⟨by simp [hlen], ?_⟩
        intro j hj hj'
        cases j with
        | zero =>
          cases name with
          | some a => simp [Option.map, Option.getD]
          | none =>
            simp only [Option.map, Option.getD, List.getElem_cons_zero, Nat.add_zero]
            cases e <;> rfl
        | succ j =>
          have := hnames j (by simpa using hj) (by simpa using hj')
          simp only [List.getElem_cons_succ]
          rw [this]
          have e : i + 1 + j = i + (j + 1) := by omega
          rw [e]
      | err e => rw [hr] at h; simp at h
      | panic s => rw [hr] at h; simp at h
    | err e => rw [he] at h; simp at h
    | panic s => rw [he] at h; simp at h

example : (match Lower.lowerProjections [(none, .column ⟨0, 0⟩ "x".toList), (some "y".toList, .value ⟨0, 0⟩ (.int 1)),
      (none, .value ⟨0, 0⟩ (.int 2))] 0 with
    | .ok ps => some (ps.map (·.1))
    | _ => none) = some ["x", "y", "p2"] := by decide

end Sqlgrep.Props.C03Select
