import SqlgrepModel.Model.Eval
import SqlgrepModel.Lemmas.StrBytes
import SqlgrepModel.Lemmas.FuncNum
/-
One literal parser: the evaluator's `parseLit` (what a cast from TEXT runs) agrees with the extraction model's
`Lit.parseI64` / `Lit.parseBool` / `Lit.parseInterval`, the functions C01's `…_exact` theorems characterise.
-/
namespace Sqlgrep

theorem inIv_iff (n : Int) : inIv n = true ↔ -9223372036854775807000000 ≤ n ∧ n ≤ 9223372036854775807000000 := by
  unfold inIv ivMax
  simp only [Bool.and_eq_true, decide_eq_true_eq]
  omega

/-- a number of seconds chrono's `TimeDelta` can hold -/
def SecsOk (x : Int) : Prop := -9223372036854775 ≤ x ∧ x ≤ 9223372036854775

theorem mkInterval_some_iff (h m s : Int) (v : Value) :
    mkInterval h m s = some v ↔
      (SecsOk (h * 3600) ∧ SecsOk (m * 60) ∧ SecsOk (h * 3600 + m * 60) ∧ SecsOk s ∧ SecsOk (h * 3600 + m * 60 + s)) ∧
      v = .interval ((h * 3600 + m * 60 + s) * 1000000000) := by
  unfold mkInterval SecsOk
  dsimp only
  repeat' split
  all_goals
    simp only [Bool.not_eq_true', Bool.and_eq_true, decide_eq_true_eq, inI64_iff, inIv_iff, nsPerSec,
      ← Bool.not_eq_true] at *
  all_goals first
    | (constructor
       · intro hx; cases hx
       · rintro ⟨hx, _⟩; exfalso; omega)
    | (constructor
       · intro hx
         injection hx with hx
         subst hx
         refine ⟨by omega, ?_⟩
         congr 1; omega
       · rintro ⟨_, hx⟩
         subst hx
         congr 2; omega)

theorem deltaOk_iff (x : Int) : Lit.deltaOk x = true ↔ SecsOk x := by
  unfold Lit.deltaOk Lit.maxDeltaSecs SecsOk
  simp only [Bool.and_eq_true, decide_eq_true_eq]

theorem mkInterval_eq (h m s : Int) :
    mkInterval h m s =
      if Lit.deltaOk (h * 3600) && Lit.deltaOk (m * 60) && Lit.deltaOk (h * 3600 + m * 60) && Lit.deltaOk s
          && Lit.deltaOk (h * 3600 + m * 60 + s) then
        some (.interval ((h * 3600 + m * 60 + s) * 1000000000))
      else none := by
  split
  · rename_i hc
    simp only [Bool.and_eq_true, deltaOk_iff] at hc
    exact (mkInterval_some_iff h m s _).2 ⟨⟨hc.1.1.1.1, hc.1.1.1.2, hc.1.1.2, hc.1.2, hc.2⟩, rfl⟩
  · rename_i hc
    simp only [Bool.and_eq_true, deltaOk_iff] at hc
    cases hm : mkInterval h m s with
    | none => rfl
    | some v =>
      obtain ⟨⟨h1, h2, h3, h4, h5⟩, _⟩ := (mkInterval_some_iff h m s v).1 hm
      exact absurd ⟨⟨⟨⟨h1, h2⟩, h3⟩, h4⟩, h5⟩ hc

theorem splitOn_eq (s : List Nat) : splitOn 58 s = Lit.splitColon s := by
  induction s with
  | nil => rfl
  | cons b rest ih =>
    unfold splitOn Lit.splitColon
    rw [ih]
    split
    · rfl
    · cases Lit.splitColon rest <;> rfl

/-- INTERVAL literals: the evaluator parses `h:m:s` exactly like extraction does -/
theorem parseLit_interval (O : Oracles) (s : Bytes) : parseLit O .interval s = .ok (Lit.parseInterval s) := by
  unfold parseLit Lit.parseInterval
  simp only [splitOn_eq]
  rcases Lit.splitColon s with _ | ⟨a, _ | ⟨b, _ | ⟨c, _ | ⟨d, l⟩⟩⟩⟩ <;> try rfl
  simp only [parseI64_eq]
  cases Lit.parseI64 a <;> cases Lit.parseI64 b <;> cases Lit.parseI64 c <;> try rfl
  simp only [mkInterval_eq]

/-- INT literals: `i64::from_str`, the function C01's `parseI64_exact` characterises -/
theorem parseLit_int (O : Oracles) (s : Bytes) : parseLit O .int s = .ok ((Lit.parseI64 s).map .int) := by
  simp only [parseLit, parseI64_eq]

/-- BOOLEAN literals: exactly `true` / `false` -/
theorem parseLit_bool (O : Oracles) (s : Bytes) : parseLit O .bool s = .ok ((Lit.parseBool s).map .bool) := by
  have e1 : ("true".toUTF8.toList.map (·.toNat)) = [116, 114, 117, 101] := by
    have := strBytes_lit "true"; unfold strBytes at this; rw [this]; decide
  have e2 : ("false".toUTF8.toList.map (·.toNat)) = [102, 97, 108, 115, 101] := by
    have := strBytes_lit "false"; unfold strBytes at this; rw [this]; decide
  simp only [parseLit, e1, e2, Lit.parseBool]
  by_cases h1 : s = [116, 114, 117, 101]
  · subst h1; rfl
  · have h1' : (s == [116, 114, 117, 101]) = false := by simpa using h1
    simp only [h1', h1, Bool.false_eq_true, if_false]
    by_cases h2 : s = [102, 97, 108, 115, 101]
    · subst h2; rfl
    · have h2' : (s == [102, 97, 108, 115, 101]) = false := by simpa using h2
      simp only [h2', h2, Bool.false_eq_true, if_false]; rfl

end Sqlgrep
