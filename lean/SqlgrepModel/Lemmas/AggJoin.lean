import SqlgrepModel.Lemmas.AggBatch
import SqlgrepModel.Lemmas.JoinBatch
/-
Aggregates over a JOIN: the specification of C04 composed with the nested loop of C05. The engine feeds every join
partner's row to `execute_update`; over the whole input that is `aggRun` over the nested loop's rows, so the
aggregation refinement applies, and `Spec.Join.batch` (already proved equal to `runBatch`) carries it to the driver.
-/
set_option linter.unusedSimpArgs false
namespace Sqlgrep
open Value Spec.Agg

theorem aggEnvs_bind (O : Oracles) (q : AggStmt) {β : Type} (f : AggState → Outcome β) (envs : List (Env × List String))
    (st : AggState) (any : Bool) :
    (aggEnvs O q envs st any).bind (fun p => f p.1) = (aggRun O q (envs.map (·.1)) st).bind f := by
  induction envs generalizing st any with
  | nil => rfl
  | cons e rest ih =>
    obtain ⟨env, keys⟩ := e
    simp only [aggEnvs, List.map_cons, aggRun, bind]
    cases aggUpdateRow O q st env with
    | ok p => simp only [Outcome.bind]; exact ih p.1 _
    | error k => rfl
    | panic k => rfl
    | oracleMissing k => rfl

/-- the aggregate loop of `Spec.Join` over the lines is `execute_update` row after row over the nested loop's rows -/
theorem aggLoop_eq_aggRun (O : Oracles) (q : AggStmt) (rows : Line → List (Env × List String)) (ls : List Line) (st : AggState) :
    Spec.Join.aggLoop O q rows ls st = aggRun O q ((ls.flatMap rows).map (·.1)) st := by
  induction ls generalizing st with
  | nil => rfl
  | cons l rest ih =>
    simp only [Spec.Join.aggLoop, List.flatMap_cons, List.map_append, aggRun_append, bind]
    have := aggEnvs_bind O q (fun st' => Spec.Join.aggLoop O q rows rest st') (rows l) st false
    simp only [ih] at this ⊢
    exact this

/-- **refinement at driver level, aggregates over a JOIN** -/
theorem batch_refines_spec_join {O : Oracles} {qy : Query} {q : AggStmt} (hq : qy.stmt = .aggregate q) (hwf : StmtWF q)
    {j : JoinInfo} (hj : qy.join = some j) (joined : List FileLine) (files : List (List FileLine)) {ro : RunOut}
    (h : Spec.Agg.batch O qy q joined files = some (ro, "")) : runBatch O qy joined files none = ro := by
  unfold Spec.Agg.batch at h
  simp only [hj] at h
  split at h
  · simp at h
  · rename_i hany
    split at h
    · simp at h
    · rename_i hcond
      simp only [Bool.or_eq_true, not_or, Bool.not_eq_true] at hany hcond
      unfold Spec.Agg.batchOver at h
      cases ht : table O q (joinEnvs qy j joined files.flatten) with
      | none => simp [ht] at h
      | some t =>
        simp only [ht, Option.some.injEq, Prod.mk.injEq] at h
        obtain ⟨hro, hclass⟩ := h
        have htot := engine_refines_spec_total hwf _ ht hclass
        obtain ⟨st, hst, hfin⟩ := obind_ok htot
        -- the join specification answers the same
        have hjb : Spec.Join.batch O qy joined files = some (ro, "join-aggregate-" ++ (if j.isOuter then "outer" else "inner")) := by
          unfold Spec.Join.batch
          have hfiles : files.any (fun f => f.any (fun fl => !fl.readable)) = false := by
            rw [← List.any_flatten]; exact hany
          simp only [hj, hcond.1.1, hfiles, Bool.or_self, Bool.false_eq_true, if_false, hcond.1.2, hcond.2, hq]
          rw [aggLoop_eq_aggRun]
          have henv : (((files.flatten.map (·.line)).filter Spec.Join.admitted).flatMap
              (Spec.Join.rowsOf qy j (Spec.Join.admittedRows (joined.map (·.line))) false)).map (·.1) =
              joinEnvs qy j joined files.flatten := rfl
          rw [henv, hst]
          simp only [hfin, ← hro, List.length_map]
        exact batch_spec_eq_runBatch O qy joined files ro _ hjb

/-- **refinement, driver level**: for the function the driver executes (`runBatch`: the `FileExecutor` loop over all
files, the join index, the engine, the final table printed once) and the specification's answer for the same case
(`Spec.Agg.batch`, what `./check` compares with the implementation) — with or without a JOIN: whenever the specification
answers outside the known deviation classes, the model's answer IS the specification's answer. -/
theorem batch_refines_spec {O : Oracles} {qy : Query} {q : AggStmt} (hq : qy.stmt = .aggregate q) (hwf : StmtWF q)
    (joined : List FileLine) (files : List (List FileLine)) {ro : RunOut}
    (h : Spec.Agg.batch O qy q joined files = some (ro, "")) : runBatch O qy joined files none = ro := by
  cases hj : qy.join with
  | none => exact batch_refines_spec_nojoin hq hwf hj joined files h
  | some j => exact batch_refines_spec_join hq hwf hj joined files h

end Sqlgrep
