// C20: a statement's meaning does not depend on layout, letter case or clause order.
use crate::lexcases;
use crate::run::{Params, Run};

pub fn run(p: &Params) -> Run {
    let mut run = Run::new("C20");
    let mut rng = lexcases::seeded(p.seed, 0xC20);
    lexcases::gen_all(&mut run, &mut rng, p);
    run
}
